(* C13 — round 5: scopes that the modelled == calls equal denote the same mapping (values up to == on Q). *)
From Coq Require Import ZArith NArith QArith Bool List Lia.
Require Import QV.C13.Model QV.C13.Spec QV.C13.Proofs QV.C13.ProofsViews QV.C13.ProofsVolX QV.C13.ProofsEq QV.C13.ProofsEqSem.
Import ListNotations.

Arguments mem : simpl never.
Arguments union : simpl never.

Definition oq (a b : option Q) : Prop :=
  match a, b with Some x, Some y => x == y | None, None => True | _, _ => False end.

Lemma Qle_bool_comp u u' v v' : u == u' -> v == v' -> Qle_bool u v = Qle_bool u' v'.
Proof.
  intros H1 H2. destruct (Qle_bool u v) eqn:E; symmetry.
  - apply Qle_bool_iff. rewrite <- H1, <- H2. now apply Qle_bool_iff.
  - destruct (Qle_bool u' v') eqn:E'; [|reflexivity].
    apply Qle_bool_iff in E'. rewrite <- H1, <- H2 in E'. apply Qle_bool_iff in E'. congruence.
Qed.

Lemma Qeq_bool_comp0 p q : p == q -> Qeq_bool p 0 = Qeq_bool q 0.
Proof.
  intros H. destruct (Qeq_bool p 0) eqn:E; symmetry.
  - apply Qeq_bool_iff. rewrite <- H. now apply Qeq_bool_iff.
  - destruct (Qeq_bool q 0) eqn:E'; [|reflexivity].
    apply Qeq_bool_iff in E'. rewrite <- H in E'. apply Qeq_bool_iff in E'. congruence.
Qed.

Ltac bin_case IHa IHb H env1 env2 a1 a2 b1 b2 :=
  apply andb_true_iff in H; destruct H as [H1 H2]; specialize (IHa _ H1); specialize (IHb _ H2);
  destruct (eval env1 a1) as [u|], (eval env2 b1) as [u'|]; cbn in IHa; try contradiction;
  destruct (eval env1 a2) as [v|], (eval env2 b2) as [v'|]; cbn in IHb |- *; try contradiction; auto.

Lemma eval_proper env1 env2 : (forall x, oq (env1 x) (env2 x)) ->
  forall e1 e2, expr_eqb e1 e2 = true -> oq (eval env1 e1) (eval env2 e2).
Proof.
  intros He. induction e1 as [p|x|a1 IHa a2 IHb|a1 IHa a2 IHb|a1 IHa a2 IHb|a1 IHa p|a1 IHa a2 IHb|a1 IHa a2 IHb|a1 IHa a2 IHb];
    intros [q|y|b1 b2|b1 b2|b1 b2|b1 q|b1 b2|b1 b2|b1 b2] H; cbn [expr_eqb] in H; try discriminate; cbn [eval].
  - cbn. now apply Qeq_bool_eq.
  - apply N.eqb_eq in H. subst. apply He.
  - bin_case IHa IHb H env1 env2 a1 a2 b1 b2. now rewrite IHa, IHb.
  - bin_case IHa IHb H env1 env2 a1 a2 b1 b2. now rewrite IHa, IHb.
  - bin_case IHa IHb H env1 env2 a1 a2 b1 b2. now rewrite IHa, IHb.
  - apply andb_true_iff in H. destruct H as [H1 H2]. apply Qeq_bool_eq in H2. specialize (IHa _ H1).
    rewrite (Qeq_bool_comp0 p q H2). destruct (Qeq_bool q 0); [exact I|].
    destruct (eval env1 a1) as [u|], (eval env2 b1) as [u'|]; cbn in IHa |- *; try contradiction; auto.
    now rewrite IHa, H2.
  - bin_case IHa IHb H env1 env2 a1 a2 b1 b2. rewrite (Qle_bool_comp u u' v v' IHa IHb). now destruct (Qle_bool u' v').
  - bin_case IHa IHb H env1 env2 a1 a2 b1 b2. rewrite (Qle_bool_comp u u' v v' IHa IHb). now destruct (Qle_bool u' v').
  - bin_case IHa IHb H env1 env2 a1 a2 b1 b2. rewrite (Qeq_bool_comp0 v v' IHb). destruct (Qeq_bool v' 0); [exact I|].
    cbn. now rewrite IHa, IHb.
Qed.

Lemma eval_all_total d : forall m, (forall x e, In (x, e) m -> exists v, eval (lookup d) e = Some v) ->
  exists mv, eval_all d m = Ok mv.
Proof.
  induction m as [|[p e] m IH]; intros H; [eexists; reflexivity|].
  destruct (H p e (or_introl eq_refl)) as [v Hv]. destruct IH as [mv Hm]; [intros x e' Hi; apply (H x e'); now right|].
  exists ((p, v) :: mv). cbn. now rewrite Hv, Hm.
Qed.

Lemma denote_joint_total : forall l,
  (forall x sub, In (x, sub) l -> exists ds v, denote_scope sub = Ok ds /\ lookup ds x = Some v) ->
  exists d, denote_joint l = Ok d.
Proof.
  induction l as [|[y sub] l IH]; intros H; [eexists; reflexivity|].
  destruct (H y sub (or_introl eq_refl)) as [ds [v [H1 H2]]].
  destruct IH as [d Hd]; [intros x s' Hi; apply (H x s'); now right|].
  exists ((y, v) :: d). cbn [denote_joint]. now rewrite H1, H2, Hd.
Qed.

(* an entry of b has a partner in a *)
Lemma dict_eqb_back {A} (e : A -> A -> bool) a b k w : nodup_keys a = true -> dict_eqb e a b = true ->
  lookup b k = Some w -> exists v, lookup a k = Some v /\ e v w = true.
Proof.
  intros Hn H Hk. pose proof (dict_eqb_keys e a b Hn H k) as K. rewrite Hk in K.
  apply (dict_eqb_spec e a b Hn) in H. destruct H as [_ Hr].
  destruct (lookup a k) as [v|] eqn:Ea; [|discriminate]. exists v. split; [reflexivity|].
  destruct (Hr k v Ea) as [w' [Hw' Hev]]. rewrite Hk in Hw'. now injection Hw' as <-.
Qed.

Lemma dict_eqb_fwd {A} (e : A -> A -> bool) a b k v : nodup_keys a = true -> dict_eqb e a b = true ->
  lookup a k = Some v -> exists w, lookup b k = Some w /\ e v w = true.
Proof. intros Hn H Hk. apply (dict_eqb_spec e a b Hn) in H. destruct H as [_ Hr]. exact (Hr k v Hk). Qed.

Lemma dict_eqb_none {A} (e : A -> A -> bool) a b k : nodup_keys a = true -> dict_eqb e a b = true ->
  lookup a k = None -> lookup b k = None.
Proof.
  intros Hn H Hk. pose proof (dict_eqb_keys e a b Hn H k) as K. rewrite Hk in K. now destruct (lookup b k).
Qed.

Lemma scope_eqb_values : forall a, wf_scope a = true -> forall b, wf_scope b = true -> scope_eqb a b = true ->
  forall d1, denote_scope a = Ok d1 ->
  exists d2, denote_scope b = Ok d2 /\ forall x, oq (lookup d1 x) (lookup d2 x).
Proof.
  induction a using scope_ind'; intros Hwf b Hwb He d1 Hd.
  - destruct b as [v2 l2| | |]; cbn [scope_eqb] in He; try discriminate.
    apply andb_true_iff in He. destruct He as [Hv _]. cbn in Hwf, Hd. injection Hd as <-.
    exists v2. split; [reflexivity|]. intros x. destruct (lookup vals x) as [v|] eqn:E1.
    + destruct (dict_eqb_fwd _ _ _ _ _ Hwf Hv E1) as [w [-> Hq]]. cbn. now apply Qeq_bool_eq.
    + rewrite (dict_eqb_none _ _ _ _ Hwf Hv E1). exact I.
  - destruct b as [|o2 m2| |]; cbn [scope_eqb] in He; try discriminate.
    apply andb_true_iff in He. destruct He as [Ho Hm].
    cbn in Hwf, Hwb. apply andb_true_iff in Hwf, Hwb. destruct Hwf as [Wo Wm]. destruct Hwb as [Wo2 Wm2].
    destruct (denote_mapped_lookup a m d1 Wm Hd) as [d0 [Hd0 [L1 T1]]].
    destruct (IHa Wo o2 Wo2 Ho d0 Hd0) as [d0' [Hd0' P]].
    assert (forall x e e2, lookup m x = Some e -> lookup m2 x = Some e2 ->
              oq (eval (lookup d0) e) (eval (lookup d0') e2)) as EP.
    { intros x e e2 E1 E2. destruct (dict_eqb_fwd _ _ _ _ _ Wm Hm E1) as [w [Hw Hee]].
      rewrite E2 in Hw. injection Hw as <-. exact (eval_proper _ _ P e e2 Hee). }
    destruct (eval_all_total d0' m2) as [mv2 Hmv2].
    { intros x e2 Hi. pose proof (In_lookup _ _ _ Wm2 Hi) as E2.
      destruct (dict_eqb_back _ _ _ _ _ Wm Hm E2) as [e [E1 _]].
      destruct (T1 x e E1) as [v Hv]. specialize (EP x e e2 E1 E2). rewrite Hv in EP.
      destruct (eval (lookup d0') e2) as [v'|]; [eauto|contradiction]. }
    assert (denote_scope (SMapped o2 m2) = Ok (override d0' mv2)) as Hd2 by (cbn [denote_scope]; now rewrite Hd0', Hmv2).
    exists (override d0' mv2). split; [exact Hd2|].
    destruct (denote_mapped_lookup o2 m2 _ Wm2 Hd2) as [d0'' [Hd0'' [L2 _]]].
    rewrite Hd0' in Hd0''. injection Hd0'' as <-.
    intros x. rewrite L1, L2. destruct (lookup m x) as [e|] eqn:E1.
    + destruct (dict_eqb_fwd _ _ _ _ _ Wm Hm E1) as [e2 [E2 _]]. rewrite E2. exact (EP x e e2 E1 E2).
    + rewrite (dict_eqb_none _ _ _ _ Wm Hm E1). apply P.
  - destruct b as [| |i2 n2 v2|]; cbn [scope_eqb] in He; try discriminate.
    apply andb_true_iff in He. destruct He as [Hn Hi]. apply andb_true_iff in Hn. destruct Hn as [Hn Hv].
    apply N.eqb_eq in Hn. subst n2. apply Qeq_bool_eq in Hv. cbn in Hwf, Hwb.
    cbn [denote_scope] in Hd. destruct (denote_scope a) as [d0|] eqn:Ed0; [|discriminate]. cbn in Hd. injection Hd as <-.
    destruct (IHa Hwf i2 Hwb Hi d0 eq_refl) as [d0' [Hd0' P]].
    exists (dict_set d0' n v2). split; [cbn [denote_scope]; now rewrite Hd0'|].
    intros x. rewrite !lookup_dict_set. destruct (N.eqb n x); [exact Hv|apply P].
  - destruct b as [| | |l2]; try (cbn in He; discriminate). rewrite scope_eqb_joint in He.
    cbn in Hwf, Hwb. apply andb_true_iff in Hwf, Hwb. destruct Hwf as [Wn Ws]. destruct Hwb as [Wn2 Ws2].
    change (denote_scope (SJoint l)) with (denote_joint l) in Hd.
    rewrite Forall_forall in H.
    assert (forall x sub1 sub2, lookup l x = Some sub1 -> lookup l2 x = Some sub2 ->
              exists ds v ds2 v2, denote_scope sub1 = Ok ds /\ lookup ds x = Some v /\ lookup d1 x = Some v /\
                                  denote_scope sub2 = Ok ds2 /\ lookup ds2 x = Some v2 /\ v == v2) as EP.
    { intros x sub1 sub2 E1 E2. pose proof (denote_joint_lookup l d1 Hd x) as K. rewrite E1 in K.
      destruct K as [ds [v [K1 [K2 K3]]]].
      destruct (dict_eqb_fwd _ _ _ _ _ Wn He E1) as [w [Hw Hss]]. rewrite E2 in Hw. injection Hw as <-.
      destruct (H (x, sub1) (lookup_In _ _ _ E1) (wf_sub l x sub1 Ws E1) sub2 (wf_sub l2 x sub2 Ws2 E2) Hss ds K1)
        as [ds2 [K4 P]].
      specialize (P x). rewrite K2 in P. destruct (lookup ds2 x) as [v2|] eqn:E3; [|contradiction].
      exists ds, v, ds2, v2. auto 10. }
    destruct (denote_joint_total l2) as [d2 Hd2].
    { intros x sub2 Hi. pose proof (In_lookup _ _ _ Wn2 Hi) as E2.
      destruct (dict_eqb_back _ _ _ _ _ Wn He E2) as [sub1 [E1 _]].
      destruct (EP x sub1 sub2 E1 E2) as (ds & v & ds2 & v2 & _ & _ & _ & K4 & K5 & _). eauto. }
    exists d2. split; [exact Hd2|]. intros x.
    pose proof (denote_joint_lookup l d1 Hd x) as K1. pose proof (denote_joint_lookup l2 d2 Hd2 x) as K2.
    destruct (lookup l x) as [sub1|] eqn:E1.
    + destruct (dict_eqb_fwd _ _ _ _ _ Wn He E1) as [sub2 [E2 _]]. rewrite E2 in K2.
      destruct (EP x sub1 sub2 E1 E2) as (ds & v & ds2 & v2 & _ & _ & A3 & A4 & A5 & A6).
      destruct K2 as [ds2' [v2' [B1 [B2 B3]]]]. rewrite A4 in B1. injection B1 as <-. rewrite A5 in B2. injection B2 as <-.
      rewrite A3, B3. exact A6.
    + rewrite (dict_eqb_none _ _ _ _ Wn He E1) in K2. rewrite K1, K2. exact I.
Qed.

Lemma scope_eqb_same_mapping a b : wf_scope a = true -> wf_scope b = true -> scope_eqb a b = true ->
  ((exists d, denote_scope a = Ok d) <-> (exists d, denote_scope b = Ok d)) /\
  forall d1 d2, denote_scope a = Ok d1 -> denote_scope b = Ok d2 ->
    forall x, match lookup d1 x, lookup d2 x with Some p, Some q => p == q | None, None => True | _, _ => False end.
Proof.
  intros Ha Hb He. split; [split|].
  - intros [d Hd]. destruct (scope_eqb_values a Ha b Hb He d Hd) as [d2 [H2 _]]. eauto.
  - intros [d Hd]. rewrite (scope_eqb_sym a b Ha Hb) in He.
    destruct (scope_eqb_values b Hb a Ha He d Hd) as [d2 [H2 _]]. eauto.
  - intros d1 d2 H1 H2 x. destruct (scope_eqb_values a Ha b Hb He d1 H1) as [d2' [H2' P]].
    rewrite H2 in H2'. injection H2' as <-. exact (P x).
Qed.
