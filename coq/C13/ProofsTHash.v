(* C13 — the kind-aware == implies equal kind-aware hashes, for every leaf hash / order-independent frozenset combiner. *)
From Coq Require Import ZArith NArith QArith Bool List Permutation.
Require Import QV.C13.Model QV.C13.Spec QV.C13.Proofs QV.C13.ProofsViews QV.C13.ProofsVolX QV.C13.ProofsEq QV.C13.Hash
               QV.C13.ProofsHash QV.C13.TEq QV.C13.ProofsTEq.
Import ListNotations.

Arguments mem : simpl never.

Section THashProofs.
  Variable hN : ident -> Z.
  Variable hQ : Q -> Z.
  Variable hK : bool -> Q -> Z.
  Variable tup : list Z -> Z.
  Variable fset : list Z -> Z.
  Hypothesis hQ_eq : forall p q, Qeq_bool p q = true -> hQ p = hQ q.
  Hypothesis hK_eq : forall f p q, Qeq_bool p q = true -> hK f p = hK f q.
  Hypothesis fset_perm : forall l l', Permutation l l' -> fset l = fset l'.

  Let ehash := texpr_hash hN hK tup.
  Let shash := tscope_hash hN hQ hK tup fset.

  Lemma texpr_eqb_hash : forall a b, texpr_eqb a b = true -> ehash a = ehash b.
  Proof.
    unfold ehash. induction a; intros [] H; cbn in H; try discriminate; cbn [texpr_hash];
      try (apply andb_prop in H as [H1 H2]; now rewrite (IHa1 _ H1), (IHa2 _ H2)).
    - apply andb_prop in H as [H1 H2]. apply eqb_prop in H1. subst. now rewrite (hK_eq _ _ _ H2).
    - apply N.eqb_eq in H. now subst.
    - apply andb_prop in H as [H H3]. apply andb_prop in H as [H1 H2]. apply eqb_prop in H2. subst.
      now rewrite (IHa _ H1), (hK_eq _ _ _ H3).
  Qed.

  Lemma tvol_dict_hash l1 l2 : set_eqb l1 l2 = true ->
    dict_hash hN tup fset ehash (tvol_dict l1) = dict_hash hN tup fset ehash (tvol_dict l2).
  Proof.
    intros H. unfold dict_hash, tvol_dict. apply fset_perm. rewrite !map_map. apply Permutation_map.
    apply NoDup_Permutation; try apply NoDup_nodupN.
    intros x. rewrite <- !mem_spec, !mem_nodupN. rewrite (proj1 (set_eqb_spec l1 l2) H x). reflexivity.
  Qed.

  Lemma tscope_hash_joint l : shash (TSJoint l) = dict_hash hN tup fset shash l.
  Proof.
    unfold dict_hash, shash. cbn [tscope_hash]. f_equal.
    induction l as [|[k sub] l IH]; [reflexivity|]. cbn [map]. now rewrite IH.
  Qed.

  Theorem tscope_eqb_hash : forall a, twf a = true -> forall b, twf b = true ->
    tscope_eqb a b = true -> shash a = shash b.
  Proof.
    induction a using tscope_ind'; intros Hwa b Hwb He; destruct b; try (cbn [tscope_eqb] in He; discriminate).
    - cbn [twf tscope_eqb] in *. apply andb_prop in He as [H1 H2]. unfold shash. cbn [tscope_hash]. fold ehash.
      rewrite (dict_eqb_hash hN tup fset fset_perm Qeq_bool hQ vals vals0 Hwa Hwb H1), (tvol_dict_hash vl vol H2);
        [reflexivity|]. intros; now apply hQ_eq.
    - cbn [twf tscope_eqb] in *. apply andb_prop in Hwa as [Hwo Hwm]. apply andb_prop in Hwb as [Hwo' Hwm'].
      apply andb_prop in He as [H1 H2]. unfold shash. cbn [tscope_hash]. fold shash. fold ehash.
      rewrite (IHa Hwo _ Hwo' H1), (dict_eqb_hash hN tup fset fset_perm texpr_eqb ehash m m0 Hwm Hwm' H2);
        [reflexivity|]. intros; now apply texpr_eqb_hash.
    - cbn [twf tscope_eqb] in *. apply andb_prop in He as [H12 H3]. apply andb_prop in H12 as [H1 H2].
      apply N.eqb_eq in H1. subst. unfold shash. cbn [tscope_hash]. fold shash.
      now rewrite (IHa Hwa _ Hwb H3), (hQ_eq _ _ H2).
    - rewrite tscope_eqb_joint in He.
      cbn [twf] in Hwa, Hwb. apply andb_prop in Hwa as [Hnd Hwl]. apply andb_prop in Hwb as [Hnd' Hwl'].
      rewrite !tscope_hash_joint. apply (dict_eqb_hash hN tup fset fset_perm tscope_eqb shash l l0 Hnd Hnd' He).
      intros k v w Hv Hw E. rewrite Forall_forall in H. apply (H (k, v) (lookup_In _ _ _ Hv)); auto.
      + exact (twf_sub l k v Hwl Hv).
      + exact (twf_sub l0 k w Hwl' Hw).
  Qed.
End THashProofs.
