(* C13 — round 5: scopes that the modelled == calls equal provide the same names and report the same parameters as
   depending on a volatile constant (Spec.domain / Spec.depends_on_volatile). *)
From Coq Require Import ZArith NArith QArith Bool List Lia.
Require Import QV.C13.Model QV.C13.Spec QV.C13.Proofs QV.C13.ProofsViews QV.C13.ProofsVolX QV.C13.ProofsEq.
Import ListNotations.

Arguments mem : simpl never.
Arguments union : simpl never.

Lemma dict_eqb_keys {A} (e : A -> A -> bool) a b : nodup_keys a = true -> dict_eqb e a b = true ->
  forall k, is_some (lookup a k) = is_some (lookup b k).
Proof.
  intros Hn H k. apply (dict_eqb_spec e a b Hn) in H. destruct H as [Hlen Hr].
  destruct (lookup a k) as [v|] eqn:Ea.
  - destruct (Hr k v Ea) as [w [-> _]]. reflexivity.
  - destruct (lookup b k) as [w|] eqn:Eb; [|reflexivity].
    assert (is_some (lookup a k) = true) as Hc.
    { apply (keys_back a b Hn Hlen); [|now rewrite Eb].
      intros k0 H0. destruct (lookup a k0) as [v0|] eqn:E0; [|discriminate].
      destruct (Hr k0 v0 E0) as [w0 [-> _]]. reflexivity. }
    rewrite Ea in Hc. discriminate.
Qed.

Lemma dep_joint_lookup x l :
  dep_joint x l = match lookup l x with Some sub => depends_on_volatile sub x | None => false end.
Proof. induction l as [|[y sub] l IH]; [reflexivity|]. cbn. destruct (N.eqb y x); auto. Qed.

Lemma expr_eqb_fv : forall a b, expr_eqb a b = true -> free_vars a = free_vars b.
Proof.
  induction a; intros [] H; cbn in H; try discriminate; cbn;
    try (apply andb_true_iff in H; destruct H as [H1 H2]);
    try (rewrite (IHa1 _ H1), (IHa2 _ H2); reflexivity).
  - reflexivity.
  - apply N.eqb_eq in H. now subst.
  - exact (IHa _ H1).
Qed.

Lemma mem_domain_range i n v x : mem x (domain (SRange i n v)) = mem x (domain i) || N.eqb x n.
Proof.
  cbn [domain]. destruct (mem n (domain i)) eqn:E.
  - destruct (N.eqb x n) eqn:Ex; [|now rewrite orb_false_r]. apply N.eqb_eq in Ex. subst. now rewrite E.
  - rewrite mem_app. f_equal. unfold mem. cbn. now rewrite orb_false_r.
Qed.

Lemma scope_eqb_sem : forall a, wf_scope a = true -> forall b, scope_eqb a b = true ->
  (forall x, mem x (domain a) = mem x (domain b)) /\
  (forall x, depends_on_volatile a x = depends_on_volatile b x).
Proof.
  induction a using scope_ind'; intros Hwf b He.
  - destruct b as [v2 l2| | |]; cbn [scope_eqb] in He; try discriminate.
    apply andb_true_iff in He. destruct He as [Hd Hs]. cbn in Hwf. split; intros x; cbn.
    + rewrite <- !lookup_mem. exact (dict_eqb_keys _ _ _ Hwf Hd x).
    + apply set_eqb_spec. exact Hs.
  - destruct b as [|o2 m2| |]; cbn [scope_eqb] in He; try discriminate.
    apply andb_true_iff in He. destruct He as [Ho Hm]. cbn in Hwf. apply andb_true_iff in Hwf. destruct Hwf as [Wo Wm].
    destruct (IHa Wo o2 Ho) as [D V]. split; intros x; cbn [domain depends_on_volatile].
    + rewrite !mem_union, D. f_equal. rewrite <- !lookup_mem. exact (dict_eqb_keys _ _ _ Wm Hm x).
    + pose proof (dict_eqb_keys _ _ _ Wm Hm x) as K.
      apply (dict_eqb_spec expr_eqb m m2 Wm) in Hm. destruct Hm as [_ Hr].
      destruct (lookup m x) as [e|] eqn:E1.
      * destruct (Hr x e E1) as [e2 [-> Hee]]. rewrite (expr_eqb_fv _ _ Hee). apply existsb_ext'. exact V.
      * destruct (lookup m2 x); [discriminate|]. apply V.
  - destruct b as [| |i2 n2 v2|]; cbn [scope_eqb] in He; try discriminate.
    apply andb_true_iff in He. destruct He as [Hn Hi]. apply andb_true_iff in Hn. destruct Hn as [Hn _].
    apply N.eqb_eq in Hn. subst n2. cbn in Hwf. destruct (IHa Hwf i2 Hi) as [D V]. split; intros x.
    + rewrite !mem_domain_range, D. reflexivity.
    + cbn. destruct (N.eqb x n); [reflexivity|apply V].
  - destruct b as [| | |l2]; try (cbn in He; discriminate). rewrite scope_eqb_joint in He.
    cbn in Hwf. apply andb_true_iff in Hwf. destruct Hwf as [Wn Ws].
    pose proof (dict_eqb_keys _ _ _ Wn He) as K.
    apply (dict_eqb_spec scope_eqb l l2 Wn) in He. destruct He as [_ Hr]. split; intros x.
    + cbn [domain]. rewrite <- !lookup_mem. apply K.
    + change (dep_joint x l = dep_joint x l2). rewrite !dep_joint_lookup. specialize (K x).
      destruct (lookup l x) as [sub|] eqn:E1.
      * destruct (Hr x sub E1) as [sub2 [-> Hss]].
        rewrite Forall_forall in H. refine (proj2 (H (x, sub) (lookup_In _ _ _ E1) _ sub2 Hss) x).
        exact (wf_sub l x sub Ws E1).
      * destruct (lookup l2 x); [discriminate|reflexivity].
Qed.
