(* C02 — operational model of the program side (qupulse/program/loop.py + the _internal_create_program methods):
   Loop trees with windows relative to one body execution, the LoopBuilder (top loop + stack of pending LoopGuard
   windows), reverse_inplace, _get_measurement_windows (tiling), cleanup.   Definitions only. *)
From Coq Require Import ZArith QArith Qcanon List Bool.
Require Import QV.C02.Spec.
Import ListNotations.
Open Scope Qc_scope.

(* ---- Loop ---------------------------------------------------------------------------------------------------------- *)
(* repetition count, waveform (only its duration matters), own measurements, children *)
Inductive loop := Loop (rep : nat) (wf : option Qc) (ms : list window) (ch : list loop).

Definition l_rep (l : loop) := match l with Loop n _ _ _ => n end.
Definition l_wf (l : loop) := match l with Loop _ w _ _ => w end.
Definition l_ms (l : loop) := match l with Loop _ _ m _ => m end.
Definition l_ch (l : loop) := match l with Loop _ _ _ c => c end.

(* Loop.body_duration: leaf -> waveform duration (0 without waveform), otherwise the sum of the children *)
Definition body_of (wf : option Qc) (durs : list Qc) : Qc :=
  match durs with
  | [] => match wf with Some d => d | None => 0 end
  | _ => sumc durs
  end.
(* Loop.duration = body_duration * repetition_count *)
Fixpoint ldur (l : loop) : Qc :=
  match l with Loop n wf _ ch => body_of wf (map ldur ch) * natc n end.
Definition lbody (l : loop) : Qc := body_of (l_wf l) (map ldur (l_ch l)).

(* _repeat_loop_measurements: np.tile + (arange(rep) * body_duration) *)
Definition tile (n : nat) (body : Qc) (ws : list window) : list window :=
  flat_map (fun k => shift (natc k * body) ws) (seq 0 n).

(* Loop._get_measurement_windows: own windows + the children's windows offset by the durations of the preceding
   children, tiled over the repetitions *)
Fixpoint loop_windows (l : loop) : list window :=
  match l with
  | Loop n wf ms ch =>
      tile n (body_of wf (map ldur ch)) (ms ++ seq_windows 0 (map (fun c => (ldur c, loop_windows c)) ch))
  end.

(* Loop.reverse_inplace *)
Fixpoint reverse_loop (l : loop) : loop :=
  match l with
  | Loop n wf ms ch =>
      let ch' := rev (map reverse_loop ch) in
      Loop n wf (mirror (body_of wf (map ldur ch')) ms) ch'
  end.

(* Loop.cleanup(('remove_empty_loops', 'merge_single_child')) *)
Definition is_nil {A} (l : list A) : bool := match l with [] => true | _ => false end.
Fixpoint cleanup (l : loop) : loop :=
  match l with
  | Loop n wf ms ch =>
      let ch' := flat_map (fun c =>
                   match c with
                   | Loop _ cwf _ [] => match cwf with Some _ => [c] | None => [] end
                   | _ => let c' := cleanup c in
                          match l_wf c', l_ch c' with
                          | None, [] => []
                          | _, _ => [c']
                          end
                   end) ch in
      match ch' with
      | [Loop m cwf cms cch] =>
          if is_nil ms || (m =? 1)%nat then Loop (n * m) cwf (cms ++ ms) cch else Loop n wf ms ch'
      | _ => Loop n wf ms ch'
      end
  end.

(* ---- LoopBuilder ---------------------------------------------------------------------------------------------------- *)
(* What an inner template can see of the builder: the top Loop (children, own windows) and the stack of pending
   LoopGuard windows in front of it (innermost first). *)
Record top := mkTop { t_ch : list loop; t_ms : list window; t_pend : list (list window) }.
Definition fresh : top := mkTop [] [] [].
Definition t_body (t : top) : Qc := body_of None (map ldur (t_ch t)).

(* self._top.add_measurements: Loop.add_measurements (offset by the current body duration) or LoopGuard (pending) *)
Definition add_meas (w : list window) (t : top) : top :=
  match t_pend t with
  | [] => mkTop (t_ch t) (t_ms t ++ shift (t_body t) w) []
  | p :: ps => mkTop (t_ch t) (t_ms t) ((p ++ w) :: ps)
  end.
(* self._top.append_child: every guard hands its pending windows outwards, the Loop attaches them at the current
   body duration, then the child is appended *)
Definition append (c : loop) (t : top) : top :=
  mkTop (t_ch t ++ [c]) (t_ms t ++ shift (t_body t) (concat (rev (t_pend t)))) (map (fun _ => []) (t_pend t)).
Definition push (w : list window) (t : top) : top := mkTop (t_ch t) (t_ms t) (w :: t_pend t).
Definition pop (t : top) : top := mkTop (t_ch t) (t_ms t) (tl (t_pend t)).

Definition leaf (d : Qc) : loop := Loop 1 (Some d) [] [].
(* LoopBuilder.to_program of an inner builder *)
Definition to_program (t : top) : option loop :=
  match t_ch t with [] => None | _ => Some (Loop 1 None (t_ms t) (t_ch t)) end.

(* with_repetition + _try_append *)
Definition with_repetition (n : nat) (w : list window) (inner : top) (t : top) : top :=
  match t_ch inner with
  | [] => t
  | _ => append (Loop n None (t_ms inner) (t_ch inner)) (add_meas w t)
  end.
(* time_reversed *)
Definition time_reversed (inner : top) (t : top) : top :=
  match to_program inner with
  | None => t
  | Some root => append (reverse_loop root) t
  end.
(* new_subprogram: windows flattened to absolute times, program collapsed to one waveform *)
Definition new_subprogram (inner : top) (t : top) : top :=
  match to_program inner with
  | None => t
  | Some root => append (leaf (ldur root)) (add_meas (loop_windows root) t)
  end.

(* PulseTemplate._create_program (Single = identifier listed in to_single_waveform) and every class's
   _internal_create_program.  TimeReversalPT calls the inner template's _internal_create_program directly, which
   skips the to_single_waveform test of its direct child. *)
Fixpoint build (p : pt) (en : env) (mm : mmap) (t : top) {struct p} : top :=
  match p with
  | Atom _ _ _ | Multi _ _ | Arith _ _ _ =>
      if plays p en then append (leaf (tdur p en)) (add_meas (adecls p en mm) t) else t
  | Seq ms subs =>
      pop ((fix go (ss : list pt) (t : top) : top :=
              match ss with [] => t | s :: r => go r (build s en mm t) end) subs (push (eval_decls ms en mm) t))
  | Rep ms c b =>
      if (0 <? rep_count c en)%nat
      then with_repetition (rep_count c en) (eval_decls ms en mm) (build b en mm fresh) t
      else t
  | For ms i a b s body =>
      pop (fold_left (fun t v => build body (upd en i (Zc v)) mm t) (range_vals a b s en)
                     (push (eval_decls ms en mm) t))
  | Map pm mml _ b => build b (menv pm en) (mcomp mml mm) t
  | Rev b =>
      time_reversed (match b with Single x => build x en mm fresh | _ => build b en mm fresh end) t
  | Single b => new_subprogram (build b en mm fresh) t
  | Pass b => build b en mm t
  end.

(* ---- volatile repetition counts ------------------------------------------------------------------------------------- *)
(* create_program(..., volatile=V) under en, then VolatileRepetitionCount.update_volatile_dependencies on every volatile
   loop so that the counts are those of en2 (en2 differs from en only on V, and V occurs only in repetition counts -
   the code refuses volatile parameters anywhere else): the tree is the one built under en (offsets of own windows,
   mirrored windows and flattened subprograms were fixed at build time) with the repetition counts of en2. *)
Fixpoint buildv (p : pt) (en en2 : env) (mm : mmap) (t : top) {struct p} : top :=
  match p with
  | Atom _ _ _ | Multi _ _ | Arith _ _ _ =>
      if plays p en then append (leaf (tdur p en)) (add_meas (adecls p en mm) t) else t
  | Seq ms subs =>
      pop ((fix go (ss : list pt) (t : top) : top :=
              match ss with [] => t | s :: r => go r (buildv s en en2 mm t) end) subs (push (eval_decls ms en mm) t))
  | Rep ms c b =>
      if (0 <? rep_count c en)%nat
      then with_repetition (rep_count c en2) (eval_decls ms en mm) (buildv b en en2 mm fresh) t
      else t
  | For ms i a b s body =>
      pop (fold_left (fun t v => buildv body (upd en i (Zc v)) (upd en2 i (Zc v)) mm t) (range_vals a b s en)
                     (push (eval_decls ms en mm) t))
  | Map pm mml _ b => buildv b (menv pm en) (menv pm en2) (mcomp mml mm) t
  | Rev b =>
      time_reversed (match b with Single x => buildv x en en2 mm fresh | _ => buildv b en en2 mm fresh end) t
  | Single b => new_subprogram (buildv b en en2 mm fresh) t
  | Pass b => buildv b en en2 mm t
  end.
(* buildv alone would place the windows behind an updated repetition with the NEW durations (the functional builder
   recomputes the body duration); in the real program those offsets, the mirrored windows and the waveforms of
   flattened subprograms were fixed when the program was built.  So: shape, waveforms and own windows of the program
   built under en, repetition counts of the one built with the counts of en2 (same shape: every decision uses en). *)
Fixpoint zip_rep (a b : loop) {struct a} : loop :=
  match a, b with
  | Loop _ wf ms ch, Loop n _ _ ch' =>
      Loop n wf ms ((fix go (l l' : list loop) : list loop :=
                       match l, l' with x :: r, y :: r' => zip_rep x y :: go r r' | _, _ => [] end) ch ch')
  end.
Definition updated_program (p : pt) (en en2 : env) (mm : mmap) : option loop :=
  match to_program (build p en mm fresh), to_program (buildv p en en2 mm fresh) with
  | Some a, Some b => Some (zip_rep a b)
  | _, _ => None
  end.
(* What get_measurement_windows() reports for that tree.  Every loop that was appended to a parent has its body
   duration CACHED since then (append_child reads child.duration); an update of a volatile count does not invalidate
   anything, so Loop.duration of a non-root loop is (body duration at build time) x (current count): the offsets of
   later children and the tiling step of the parent are computed from those.  a = the program as built (old counts),
   b = the same shape with the new counts. *)
Fixpoint vwin (a b : loop) {struct a} : list window :=
  match a, b with
  | Loop _ wf ms ch, Loop n _ _ ch' =>
      let kids := (fix go (l l' : list loop) : list (Qc * list window) :=
                     match l, l' with
                     | x :: r, y :: r' => (lbody x * natc (l_rep y), vwin x y) :: go r r'
                     | _, _ => []
                     end) ch ch' in
      tile n (match ch with [] => body_of wf [] | _ => sumc (map fst kids) end) (ms ++ seq_windows 0 kids)
  end.
Definition updated_windows (p : pt) (en en2 : env) (mm : mmap) : option (list window) :=
  match to_program (build p en mm fresh), to_program (buildv p en en2 mm fresh) with
  | Some a, Some b => Some (vwin a b)
  | _, _ => None
  end.

(* ---- which assignments the code rejects, and with which kind of error: the FIRST failing check in the order the
   code performs them (validate_scope of a MappingPT, count / range evaluation, the node's own declarations, then the
   parts; an atomic node builds its waveform first and evaluates the declarations only when it has one).  Only
   reached declarations that are not mapped to nothing are checked; the code never compares a window with the
   duration of its node (a window that sticks out of its node is accepted). ------------------------------------------- *)
Inductive rkind :=
| KConstraint        (* ParameterConstraintViolation *)
| KNegWindow         (* ValueError: begin < 0 or length < 0 (MeasurementDefiner.get_measurement_windows) *)
| KCountNotInt       (* ParameterNotIntegerException (RepetitionPT) *)
| KRangeNotInt       (* ValueError from checked_int_cast (ForLoopPT range) *)
| KStepZero          (* ValueError from range(.., .., 0) *)
| KAtomicDur.        (* the waveform constructor of an atomic composite refuses (unequal durations, ...) *)

(* the exception class of each kind (EAnyc: the class depends on the waveform class that refuses) *)
Definition kclass (k : rkind) : eclass :=
  match k with
  | KConstraint => EConstraint
  | KNegWindow | KRangeNotInt | KStepZero => EValue
  | KCountNotInt => ENotInt
  | KAtomicDur => EAnyc
  end.

Definition orelse (a b : option rkind) : option rkind := match a with Some k => Some k | None => b end.
Fixpoint first_err (l : list (option rkind)) : option rkind :=
  match l with [] => None | Some k :: _ => Some k | None :: r => first_err r end.
Definition guard_k (b : bool) (k : rkind) : option rkind := if b then None else Some k.

Definition decl_ok (en : env) (mm : mmap) (d : decl) : bool :=
  match d with (n, b, l) =>
    match mm n with None => true | Some _ => Qcleb 0 (eval b en) && Qcleb 0 (eval l en) end end.
Definition decls_ok (ms : list decl) (en : env) (mm : mmap) : bool := forallb (decl_ok en mm) ms.
Definition decls_chk (ms : list decl) (en : env) (mm : mmap) : option rkind := guard_k (decls_ok ms en mm) KNegWindow.

Fixpoint adecls_ok (p : pt) (en : env) (mm : mmap) : bool :=
  match p with
  | Atom _ _ ms => decls_ok ms en mm
  | Multi ms subs => decls_ok ms en mm && forallb (fun s => adecls_ok s en mm) subs
  | Arith ms l r => decls_ok ms en mm && adecls_ok l en mm && adecls_ok r en mm
  | Map pm mml _ b => adecls_ok b (menv pm en) (mcomp mml mm)
  | Rev b | Pass b | Single b => adecls_ok b en mm
  | _ => false
  end.
(* build_waveform of an atomic tree: parts first (in order), then the composite's own waveform constructor *)
Fixpoint awf_chk (p : pt) (en : env) : option rkind :=
  match p with
  | Atom _ _ _ => None
  | Multi _ subs =>
      orelse (first_err (map (fun s => awf_chk s en) subs))
             (guard_k (forallb (fun s => negb (plays s en) || Qceqb (tdur s en) (tdur p en)) subs) KAtomicDur)
  | Arith _ l r =>
      orelse (awf_chk l en) (orelse (awf_chk r en)
             (guard_k (negb (plays l en) || negb (plays r en) || Qceqb (tdur l en) (tdur r en)) KAtomicDur))
  | Map pm _ cs b => orelse (guard_k (forallb (pcon_ok en) cs) KConstraint) (awf_chk b (menv pm en))
  | Rev b | Pass b | Single b => awf_chk b en
  | _ => Some KAtomicDur
  end.

Fixpoint check (p : pt) (en : env) (mm : mmap) {struct p} : option rkind :=
  match p with
  | Atom _ _ _ | Multi _ _ | Arith _ _ _ =>
      orelse (awf_chk p en) (if plays p en then guard_k (adecls_ok p en mm) KNegWindow else None)
  | Seq ms subs => orelse (decls_chk ms en mm) (first_err (map (fun s => check s en mm) subs))
  | Rep ms c b =>
      orelse (guard_k (is_int (eval c en)) KCountNotInt)
             (if (0 <? rep_count c en)%nat then orelse (decls_chk ms en mm) (check b en mm) else None)
  | For ms i a b s body =>
      orelse (guard_k (is_int (eval a en) && is_int (eval b en) && is_int (eval s en)) KRangeNotInt)
     (orelse (guard_k (negb (qfloor (eval s en) =? 0)%Z) KStepZero)
     (orelse (decls_chk ms en mm)
             (first_err (map (fun v => check body (upd en i (Zc v)) mm) (range_vals a b s en)))))
  | Map pm mml cs b =>
      orelse (guard_k (forallb (pcon_ok en) cs) KConstraint) (check b (menv pm en) (mcomp mml mm))
  | Rev b => check b en mm
  | Single b => check b en mm
  | Pass b => check b en mm
  end.
Definition valid (p : pt) (en : env) (mm : mmap) : bool := match check p en mm with None => true | Some _ => false end.

Inductive result := Rejected (k : rkind) | NoProgram | Program (l : loop).

(* PulseTemplate.create_program *)
Definition create_program (p : pt) (en : env) (mm : mmap) : result :=
  match check p en mm with
  | Some k => Rejected k
  | None =>
    match to_program (build p en mm fresh) with
    | None => NoProgram
    | Some root => Program root
    end
  end.
