(* C02 — Loop.flatten_and_balance(depth) as a function on the Loop model WITH measurement windows, logging the
   structural rewrites it performs (path of child indices from the loop it was called on, rewrite).  The while loop and
   the recursion run on explicit fuel.  Definitions only.  ProofsFlat.v: the result is run_seq of the logged steps. *)
From Coq Require Import ZArith QArith Qcanon List Bool.
Require Import QV.C02.Spec QV.C02.Model QV.C02.Rewrite.
Import ListNotations.

(* Node.depth / Node.is_balanced *)
Fixpoint depth (l : loop) : nat :=
  match l with Loop _ _ _ ch => match ch with [] => O | _ => S (fold_right Nat.max O (map depth ch)) end end.
Fixpoint balanced (l : loop) : bool :=
  match l with
  | Loop _ _ _ ch =>
      match ch with
      | [] => true
      | c0 :: _ => forallb (fun e => Nat.eqb (depth e) (depth c0) && balanced e) ch
      end
  end.
Definition is_leaf (l : loop) : bool := is_nil (l_ch l).
Definition replace_child (i : nat) (c : loop) (l : loop) : loop :=
  match l with Loop n wf ms ch => Loop n wf ms (firstn i ch ++ [c] ++ skipn (S i) ch) end.
Definition pre (i : nat) (s : list nat * rw) : list nat * rw := (i :: fst s, snd s).

Definition steps := list (list nat * rw).

(* [fab fuel d i l]: the while loop of l.flatten_and_balance(d) with the cursor at child i *)
Fixpoint fab (fuel : nat) (d : Z) (i : nat) (l : loop) {struct fuel} : option (loop * steps) :=
  match fuel with
  | O => None
  | S f =>
      let step_then (path : list nat) (r : rw) :=
        match apply_at path r l with
        | Some l1 => match fab f d i l1 with Some (l2, st) => Some (l2, (path, r) :: st) | None => None end
        | None => None
        end in
      match nth_error (l_ch l) i with
      | None => Some (l, [])
      | Some sub =>
          if (Z.of_nat (depth sub) <? d - 1)%Z then step_then [i] REncapsulate
          else if negb (balanced sub) then
            match fab f (d - 1) 0 sub with
            | Some (sub', st1) =>
                match fab f d i (replace_child i sub' l) with
                | Some (l2, st2) => Some (l2, map (pre i) st1 ++ st2)
                | None => None
                end
            | None => None
            end
          else if (Z.of_nat (depth sub) =? d - 1)%Z then fab f d (S i) l
          else if can_merge sub then step_then [i] RMerge
          else if negb (is_leaf sub) then step_then [] (RUnroll i)
          else fab f d (S i) l
      end
  end.
Definition flatten_and_balance (fuel : nat) (d : Z) (l : loop) : option (loop * steps) := fab fuel d 0 l.
