(* C02 — proofs, part 3: windows declared inside their node are reported inside [0, duration]; cleanup preserves. *)
From Coq Require Import ZArith QArith Qcanon Qround List Bool Permutation Lia Lqa.
Require Import QV.C02.Spec QV.C02.Model QV.C02.Proofs QV.C02.Proofs2.
Import ListNotations.
Open Scope Qc_scope.
Arguments shift : simpl never.
Arguments mirror : simpl never.
Arguments tile : simpl never.

(* a window lies inside [lo, hi] *)
Definition win_in (lo hi : Qc) (w : window) : Prop :=
  match w with (_, b, l) => lo <= b /\ 0 <= l /\ b + l <= hi end.

Lemma Qcleb_true a b : Qcleb a b = true -> a <= b.
Proof. unfold Qcleb, Qcle. apply Qle_bool_imp_le. Qed.

Lemma win_in_weaken lo hi lo' hi' w : win_in lo hi w -> lo' <= lo -> hi <= hi' -> win_in lo' hi' w.
Proof. destruct w as [[n b] l]. cbn. intros (H1 & H2 & H3) H4 H5. qc2q. repeat split; lra. Qed.
Lemma win_in_shift lo hi d w : win_in lo hi w -> win_in (lo + d) (hi + d) (wshift d w).
Proof. destruct w as [[n b] l]. cbn. intros (H1 & H2 & H3). qc2q. repeat split; lra. Qed.
Lemma win_in_mirror D w : win_in 0 D w -> win_in 0 D (wmirror D w).
Proof. destruct w as [[n b] l]. cbn. intros (H1 & H2 & H3). qc2q. repeat split; lra. Qed.

Lemma Forall_shift lo hi d ws : Forall (win_in lo hi) ws -> Forall (win_in (lo + d) (hi + d)) (shift d ws).
Proof. unfold shift. intro H. apply Forall_map. eapply Forall_impl; [|exact H]. intros; now apply win_in_shift. Qed.
Lemma Forall_mirror D ws : Forall (win_in 0 D) ws -> Forall (win_in 0 D) (mirror D ws).
Proof. unfold mirror. intro H. apply Forall_map. eapply Forall_impl; [|exact H]. intros; now apply win_in_mirror. Qed.
Lemma Forall_weaken lo hi lo' hi' ws :
  Forall (win_in lo hi) ws -> lo' <= lo -> hi <= hi' -> Forall (win_in lo' hi') ws.
Proof. intros H H1 H2. eapply Forall_impl; [|exact H]. intros; eapply win_in_weaken; eauto. Qed.

Lemma eval_decls_inside D ms en mm :
  decls_inside D ms en = true -> Forall (win_in 0 D) (eval_decls ms en mm).
Proof.
  unfold decls_inside, eval_decls. induction ms as [|[[n b] l] ms IH]; cbn [forallb flat_map]; intro H; [constructor|].
  apply andb_prop in H as [H1 H2]. apply Forall_app. split; [|auto].
  cbn [eval_decl]. destruct (mm n); [|constructor]. constructor; [|constructor].
  cbn [decl_inside] in H1. apply andb_prop in H1 as [H1 H3]. apply andb_prop in H1 as [H1 H4].
  cbn. repeat split; now apply Qcleb_true.
Qed.

Lemma sumc_nonneg l : Forall (fun d => 0 <= d) l -> 0 <= sumc l.
Proof. induction 1; cbn [sumc]; [apply Qcle_refl|]. qc2q. lra. Qed.

(* pieces that each stay inside their own duration stay inside the whole sequence *)
Lemma seq_windows_inside o P :
  Forall (fun x => 0 <= fst x /\ Forall (win_in 0 (fst x)) (snd x)) P ->
  Forall (win_in o (o + total P)) (seq_windows o P).
Proof.
  intro H. revert o. induction H as [|[d w] P [Hd Hw] HP IH]; intro o; cbn [seq_windows]; [constructor|].
  cbn [fst snd] in *. rewrite total_cons. apply Forall_app. split.
  - apply (Forall_shift _ _ o) in Hw. eapply Forall_weaken; [exact Hw| |].
    + qc2q. lra.
    + assert (0 <= total P).
      { unfold total. apply sumc_nonneg. apply Forall_map. eapply Forall_impl; [|exact HP]. now intros ? []. }
      qc2q. lra.
  - eapply Forall_weaken; [apply IH| |]; qc2q; lra.
Qed.

Lemma adecls_inside D p : forall en mm, ainside D p en = true -> Forall (win_in 0 D) (adecls p en mm).
Proof.
  revert D. induction p using pt_ind'; intros D en mm Hi; cbn [adecls ainside] in *; try constructor.
  - now apply eval_decls_inside.
  - apply andb_prop in Hi as [H1 H2]. apply Forall_app. split; [now apply eval_decls_inside|].
    rewrite Forall_forall in H. rewrite forallb_forall in H2. apply Forall_flat_map. apply Forall_forall.
    intros s Hs. apply H; auto.
  - apply andb_prop in Hi as [H1 H3]. apply andb_prop in H1 as [H1 H2].
    apply Forall_app. split; [now apply eval_decls_inside|]. apply Forall_app. split; auto.
  - auto.
  - (* a reversed part: mirrored about its own duration, which does not exceed the composite's *)
    apply andb_prop in Hi as [H1 H3]. apply andb_prop in H1 as [H1 H2].
    apply Qcleb_true in H1. apply Qcleb_true in H2.
    eapply Forall_weaken; [apply Forall_mirror; now apply IHp | |]; qc2q; lra.
  - auto.
  - auto.
Qed.

Lemma inside_ok p : forall en mm, inside p en = true ->
  0 <= tdur p en /\ Forall (win_in 0 (tdur p en)) (denote p en mm).
Proof.
  induction p using pt_ind'; intros en mm Hi.
  - cbn [inside] in Hi. apply andb_prop in Hi as [H1 H2]. split; [now apply Qcleb_true|].
    cbn [denote]. destruct (plays _ _); [now apply adecls_inside | constructor].
  - cbn [inside] in Hi. apply andb_prop in Hi as [H1 H2]. split; [now apply Qcleb_true|].
    cbn [denote]. destruct (plays _ _); [now apply adecls_inside | constructor].
  - cbn [inside] in Hi. apply andb_prop in Hi as [H1 H2]. split; [now apply Qcleb_true|].
    cbn [denote]. destruct (plays _ _); [now apply adecls_inside | constructor].
  - (* Seq *)
    cbn [inside] in Hi. apply andb_prop in Hi as [H1 H2].
    assert (HP : Forall (fun x => 0 <= fst x /\ Forall (win_in 0 (fst x)) (snd x))
                        (map (fun s => (tdur s en, denote s en mm)) subs)).
    { apply Forall_map. rewrite Forall_forall in *. rewrite forallb_forall in H2. intros s Hs. cbn [fst snd]. auto. }
    assert (HT : total (map (fun s => (tdur s en, denote s en mm)) subs) = tdur (Seq ms subs) en).
    { unfold total. rewrite map_map. reflexivity. }
    split.
    + rewrite <- HT. unfold total. apply sumc_nonneg. apply Forall_map. eapply Forall_impl; [|exact HP]. now intros ? [].
    + change (denote (Seq ms subs) en mm) with
        (if plays (Seq ms subs) en
         then eval_decls ms en mm ++ seq_windows 0 (map (fun s => (tdur s en, denote s en mm)) subs) else []).
      destruct (plays _ _); [|constructor]. apply Forall_app. split; [now apply eval_decls_inside|].
      apply (seq_windows_inside 0) in HP. rewrite HT in HP. eapply Forall_weaken; [exact HP| |]; qc2q; lra.
  - (* Rep *)
    cbn [inside] in Hi. apply andb_prop in Hi as [H1 H2]. destruct (IHp en mm H2) as [Hd Hw].
    assert (HP : Forall (fun x => 0 <= fst x /\ Forall (win_in 0 (fst x)) (snd x))
                        (repeat (tdur p en, denote p en mm) (rep_count c en))).
    { apply Forall_forall. intros x Hx. apply repeat_spec in Hx. subst x. cbn [fst snd]. auto. }
    assert (HT : total (repeat (tdur p en, denote p en mm) (rep_count c en)) = tdur (Rep ms c p) en).
    { rewrite total_repeat. reflexivity. }
    split.
    + rewrite <- HT. unfold total. apply sumc_nonneg. apply Forall_map. eapply Forall_impl; [|exact HP]. now intros ? [].
    + cbn [denote]. destruct (plays _ _); [|constructor]. apply Forall_app. split; [now apply eval_decls_inside|].
      apply (seq_windows_inside 0) in HP. rewrite HT in HP. eapply Forall_weaken; [exact HP| |]; qc2q; lra.
  - (* For *)
    cbn [inside] in Hi. apply andb_prop in Hi as [H1 H2].
    set (f := fun v => (tdur p (upd en i (Zc v)), denote p (upd en i (Zc v)) mm)).
    assert (HP : Forall (fun x => 0 <= fst x /\ Forall (win_in 0 (fst x)) (snd x)) (map f (range_vals a b s en))).
    { apply Forall_map. apply Forall_forall. rewrite forallb_forall in H2. intros v Hv. unfold f. cbn [fst snd]. auto. }
    assert (HT : total (map f (range_vals a b s en)) = tdur (For ms i a b s p) en).
    { unfold total. rewrite map_map. reflexivity. }
    split.
    + rewrite <- HT. unfold total. apply sumc_nonneg. apply Forall_map. eapply Forall_impl; [|exact HP]. now intros ? [].
    + change (denote (For ms i a b s p) en mm) with
        (if plays (For ms i a b s p) en then eval_decls ms en mm ++ seq_windows 0 (map f (range_vals a b s en)) else []).
      destruct (plays _ _); [|constructor]. apply Forall_app. split; [now apply eval_decls_inside|].
      apply (seq_windows_inside 0) in HP. rewrite HT in HP. eapply Forall_weaken; [exact HP| |]; qc2q; lra.
  - cbn [inside tdur denote] in *. auto.
  - cbn [inside tdur denote] in *. destruct (IHp en mm Hi). split; auto. now apply Forall_mirror.
  - cbn [inside tdur denote] in *. auto.
  - cbn [inside tdur denote] in *. auto.
Qed.

Theorem program_windows_inside p en mm prog :
  create_program p en mm = Program prog -> inside p en = true ->
  Forall (win_in 0 (ldur prog)) (loop_windows prog).
Proof.
  intros H Hi. destruct (create_program_windows p en mm prog H) as (_ & Hd & Hw).
  rewrite Hd. eapply Permutation_Forall; [symmetry; exact Hw|]. now apply inside_ok.
Qed.

(* ---- cleanup ------------------------------------------------------------------------------------------------------------------ *)
(* the programs the builder produces: every leaf carries a waveform, inner nodes carry none and have children *)
Fixpoint wfl (l : loop) : bool :=
  match l with
  | Loop n wf ms ch =>
      match ch with
      | [] => match wf with Some _ => true | None => false end
      | _ => match wf with None => forallb wfl ch | Some _ => false end
      end
  end.

Definition clean_child (c : loop) : list loop :=
  match c with
  | Loop _ cwf _ [] => match cwf with Some _ => [c] | None => [] end
  | _ => let c' := cleanup c in match l_wf c', l_ch c' with None, [] => [] | _, _ => [c'] end
  end.
Definition merge_or_keep (n : nat) (wf : option Qc) (ms : list window) (ch' : list loop) : loop :=
  match ch' with
  | [Loop m cwf cms cch] =>
      if is_nil ms || (m =? 1)%nat then Loop (n * m) cwf (cms ++ ms) cch else Loop n wf ms ch'
  | _ => Loop n wf ms ch'
  end.
Lemma cleanup_eq n wf ms ch : cleanup (Loop n wf ms ch) = merge_or_keep n wf ms (flat_map clean_child ch).
Proof. reflexivity. Qed.

Definition same_loop (c' c : loop) : Prop :=
  wfl c' = true /\ ldur c' = ldur c /\ Permutation (loop_windows c') (loop_windows c).
Definition cleanup_ok (c : loop) : Prop := wfl c = true -> same_loop (cleanup c) c.

Lemma natc_mul a b : natc (a * b) = natc a * natc b.
Proof. induction a; cbn [Nat.mul]; [rewrite natc_0; ring|]. rewrite natc_add, natc_S, IHa. ring. Qed.

Lemma clean_child_single c : wfl c = true -> cleanup_ok c -> exists c', clean_child c = [c'] /\ same_loop c' c.
Proof.
  intros Hw Hc. destruct c as [n wf ms [|x ch]].
  - cbn in Hw. destruct wf; [|discriminate]. exists (Loop n (Some q) ms []). split; [reflexivity|].
    repeat split; auto.
  - specialize (Hc Hw). exists (cleanup (Loop n wf ms (x :: ch))). split; [|exact Hc].
    unfold clean_child. cbv zeta. destruct Hc as [Hw' _].
    destruct (cleanup (Loop n wf ms (x :: ch))) as [n' wf' ms' ch']. cbn [l_wf l_ch].
    destruct wf'; [reflexivity|]. destruct ch'; [cbn in Hw'; discriminate| reflexivity].
Qed.

Lemma clean_children ch :
  Forall cleanup_ok ch -> forallb wfl ch = true ->
  exists ch', flat_map clean_child ch = ch' /\ Forall2 same_loop ch' ch.
Proof.
  induction 1 as [|c ch Hc _ IH]; cbn [forallb flat_map]; intro Hw.
  - exists []. split; auto.
  - apply andb_prop in Hw as [Hw1 Hw2]. destruct (IH Hw2) as (ch' & E & F2).
    destruct (clean_child_single c Hw1 Hc) as (c' & Ec & Sc). exists (c' :: ch'). rewrite Ec, E. split; auto.
Qed.

Lemma same_loops ch' ch :
  Forall2 same_loop ch' ch ->
  map ldur ch' = map ldur ch /\ Forall2 piece_eq (pieces ch') (pieces ch) /\ forallb wfl ch' = true.
Proof.
  induction 1 as [|c' c ch' ch (H1 & H2 & H3) _ (IH1 & IH2 & IH3)]; cbn [map pieces forallb]; [auto|].
  repeat split.
  - now rewrite H2, IH1.
  - constructor; [split; cbn; auto | exact IH2].
  - now rewrite H1, IH3.
Qed.

Lemma merge_ok n m cwf cms cch ms :
  wfl (Loop m cwf cms cch) = true -> is_nil ms || (m =? 1)%nat = true ->
  same_loop (Loop (n * m) cwf (cms ++ ms) cch) (Loop n None ms [Loop m cwf cms cch]).
Proof.
  intros Hw Hc. repeat split.
  - exact Hw.
  - rewrite !ldur_eq. cbn [map]. rewrite body_of_nonleaf. cbn [sumc]. rewrite ldur_eq, natc_mul. ring.
  - rewrite !loop_windows_eq. cbn [map pieces]. rewrite body_of_nonleaf. cbn [sumc seq_windows].
    rewrite shift_0, app_nil_r, ldur_eq, loop_windows_eq.
    set (Bc := body_of cwf (map ldur cch)). set (X := seq_windows 0 (pieces cch)).
    replace (Bc * natc m + 0) with (Bc * natc m) by ring.
    apply orb_true_iff in Hc as [Hc|Hc].
    + destruct ms; [|discriminate]. cbn [app]. rewrite app_nil_r. symmetry. apply tile_tile.
    + apply Nat.eqb_eq in Hc. subst m. rewrite Nat.mul_1_r, natc_1, tile_1.
      replace (Bc * 1) with Bc by ring. apply tile_perm. perm_app.
Qed.

Theorem cleanup_preserves l : cleanup_ok l.
Proof.
  induction l as [n wf ms ch IH] using loop_ind'. intro Hw. rewrite cleanup_eq.
  destruct ch as [|c0 ch0].
  - cbn. repeat split; auto.
  - set (ch := c0 :: ch0) in *.
    assert (Hwf : wf = None /\ forallb wfl ch = true).
    { cbn [wfl] in Hw. unfold ch in *. destruct wf; [discriminate|]. auto. }
    destruct Hwf as [-> Hch]. destruct (clean_children ch IH Hch) as (ch' & -> & F2).
    destruct (same_loops _ _ F2) as (Hd & Hp & Hw').
    assert (Hne : ch' <> []). { intro E. subst ch'. inversion F2. }
    assert (Hkeep : same_loop (Loop n None ms ch') (Loop n None ms ch)).
    { repeat split.
      - cbn [wfl]. destruct ch'; [congruence| exact Hw'].
      - rewrite !ldur_eq, Hd. reflexivity.
      - rewrite !loop_windows_eq, Hd. apply tile_perm. apply Permutation_app_head. now apply seq_windows_perm. }
    unfold merge_or_keep. destruct ch' as [|[m cwf cms cch] [|c2 r]]; try exact Hkeep.
    destruct (is_nil ms || (m =? 1)%nat) eqn:Hc; [|exact Hkeep].
    assert (Hm : wfl (Loop m cwf cms cch) = true) by (cbn [forallb] in Hw'; now apply andb_prop in Hw' as [? _]).
    destruct (merge_ok n m cwf cms cch ms Hm Hc) as (M1 & M2 & M3). destruct Hkeep as (K1 & K2 & K3).
    repeat split; auto.
    + now rewrite M2.
    + etransitivity; [exact M3| exact K3].
Qed.

(* the builder only produces such programs *)
Lemma wfl_leaf d : wfl (leaf d) = true.
Proof. reflexivity. Qed.

Lemma forallb_rev {A} (f : A -> bool) l : forallb f (rev l) = forallb f l.
Proof.
  induction l; cbn [rev forallb]; [reflexivity|]. rewrite forallb_app, IHl. cbn. rewrite andb_true_r. apply andb_comm.
Qed.
Lemma wfl_reverse l : wfl (reverse_loop l) = wfl l.
Proof.
  induction l as [n wf ms ch IH] using loop_ind'. cbn [reverse_loop wfl].
  destruct ch as [|c ch]; [reflexivity|].
  assert (E : forallb wfl (rev (map reverse_loop (c :: ch))) = forallb wfl (c :: ch)).
  { rewrite forallb_rev. induction IH as [|x l Hx _ IHl]; cbn [map forallb]; [reflexivity|]. now rewrite Hx, IHl. }
  destruct (rev (map reverse_loop (c :: ch))) eqn:E2.
  - apply (f_equal (@length _)) in E2. rewrite rev_length, map_length in E2. discriminate.
  - destruct wf; [reflexivity| exact E].
Qed.

Definition chs_ok (t : top) : Prop := forallb wfl (t_ch t) = true.
Lemma chs_ok_append c t : wfl c = true -> chs_ok t -> chs_ok (append c t).
Proof. unfold chs_ok, append. cbn [t_ch]. intros H1 H2. rewrite forallb_app, H2. cbn. now rewrite H1. Qed.
Lemma chs_ok_add_meas m t : chs_ok t -> chs_ok (add_meas m t).
Proof. unfold chs_ok, add_meas. destruct (t_pend t); auto. Qed.
Lemma chs_ok_fresh : chs_ok fresh.
Proof. reflexivity. Qed.
Lemma wfl_inner n t : chs_ok t -> t_ch t <> [] -> wfl (Loop n None (t_ms t) (t_ch t)) = true.
Proof. unfold chs_ok. cbn [wfl]. destruct (t_ch t); [congruence| auto]. Qed.

Definition W_at (p : pt) : Prop := forall en mm t, chs_ok t -> chs_ok (build p en mm t).
Lemma chs_ok_fold {A} (f : A -> top -> top) l :
  (forall a t, In a l -> chs_ok t -> chs_ok (f a t)) -> forall t, chs_ok t -> chs_ok (fold_left (fun t a => f a t) l t).
Proof.
  induction l as [|a l IH]; intros H t Ht; cbn [fold_left]; auto.
  apply IH; [intros; apply H; auto; now right|]. apply H; auto. now left.
Qed.

Theorem build_wfl p : W_at p /\ forall x, p = Single x -> W_at x.
Proof.
  induction p using pt_ind'; (split; [|try discriminate]).
  - intros en mm t Ht. cbn [build]. destruct (plays _ en); auto. apply chs_ok_append; auto. now apply chs_ok_add_meas.
  - intros en mm t Ht. cbn [build]. destruct (plays _ en); auto. apply chs_ok_append; auto. now apply chs_ok_add_meas.
  - intros en mm t Ht. cbn [build]. destruct (plays _ en); auto. apply chs_ok_append; auto. now apply chs_ok_add_meas.
  - intros en mm t Ht. rewrite build_Seq. unfold chs_ok, pop. cbn [t_ch].
    apply (chs_ok_fold (fun s t => build s en mm t)); auto.
    intros s t0 Hs Ht0. rewrite Forall_forall in H. now apply (proj1 (H s Hs)).
  - intros en mm t Ht. destruct IHp as [IH _]. cbn [build]. destruct (_ <? _)%nat; auto.
    unfold with_repetition. pose proof (IH en mm fresh chs_ok_fresh) as Hi.
    destruct (t_ch (build p en mm fresh)) eqn:E; auto. rewrite <- E.
    apply chs_ok_append; [|now apply chs_ok_add_meas]. apply wfl_inner; auto. congruence.
  - intros en mm t Ht. destruct IHp as [IH _]. cbn [build]. unfold chs_ok, pop. cbn [t_ch].
    apply (chs_ok_fold (fun v t => build p (upd en i (Zc v)) mm t)); [intros v t0 _ Ht0; now apply IH | exact Ht].
  - intros en mm t Ht. destruct IHp as [IH _]. cbn [build]. now apply IH.
  - intros en mm t Ht. cbn [build]. unfold time_reversed, to_program.
    set (inner := match p with Single x => build x en mm fresh | _ => build p en mm fresh end).
    assert (Hi : chs_ok inner).
    { unfold inner. destruct IHp as [I1 I2]. destruct p; try (apply I1; apply chs_ok_fresh).
      apply (I2 p eq_refl). apply chs_ok_fresh. }
    destruct (t_ch inner) eqn:E; auto. rewrite <- E. apply chs_ok_append; auto.
    rewrite wfl_reverse. apply wfl_inner; auto. congruence.
  - intros en mm t Ht. destruct IHp as [IH _]. cbn [build]. unfold new_subprogram, to_program.
    destruct (t_ch (build p en mm fresh)); auto. apply chs_ok_append; auto. now apply chs_ok_add_meas.
  - intros x Hx. inversion Hx; subst. apply (proj1 IHp).
  - intros en mm t Ht. destruct IHp as [IH _]. cbn [build]. now apply IH.
Qed.

Theorem program_wfl p en mm prog : create_program p en mm = Program prog -> wfl prog = true.
Proof.
  unfold create_program. destruct (check p en mm); [discriminate|]. unfold to_program.
  pose proof (proj1 (build_wfl p) en mm fresh chs_ok_fresh) as H.
  destruct (t_ch (build p en mm fresh)) eqn:E; [discriminate|]. intro Hp. injection Hp as <-.
  rewrite <- E. apply wfl_inner; auto. congruence.
Qed.

Theorem cleanup_program_windows p en mm prog :
  create_program p en mm = Program prog ->
  ldur (cleanup prog) = tdur p en /\ Permutation (loop_windows (cleanup prog)) (denote p en mm).
Proof.
  intro H. destruct (create_program_windows p en mm prog H) as (_ & Hd & Hw).
  destruct (cleanup_preserves prog (program_wfl p en mm prog H)) as (_ & C2 & C3).
  split; [congruence|]. etransitivity; eauto.
Qed.

(* the additive reading of a Loop used as oracle for hand-built loops (Corr.exec_windows: the body played rep times one
   after the other) is the tiling the code performs *)
Require QV.C02.Corr.
Lemma exec_dur_eq l : QV.C02.Corr.exec_dur l = ldur l.
Proof.
  induction l as [n wf ms ch IH] using loop_ind'. rewrite ldur_eq. cbn [QV.C02.Corr.exec_dur]. f_equal.
  assert (E : map QV.C02.Corr.exec_dur ch = map ldur ch) by (apply map_ext_Forall; exact IH).
  rewrite E. unfold body_of. destruct ch; reflexivity.
Qed.
Lemma exec_body_eq n wf ms ch : QV.C02.Corr.exec_body (Loop n wf ms ch) = body_of wf (map ldur ch).
Proof.
  cbn [QV.C02.Corr.exec_body].
  assert (E : map QV.C02.Corr.exec_dur ch = map ldur ch) by (apply map_ext; intro; apply exec_dur_eq).
  rewrite E. unfold body_of. destruct ch; reflexivity.
Qed.
Lemma exec_windows_eq l : QV.C02.Corr.exec_windows l = loop_windows l.
Proof.
  induction l as [n wf ms ch IH] using loop_ind'. cbn [QV.C02.Corr.exec_windows]. rewrite loop_windows_eq, exec_body_eq.
  rewrite seq_windows_repeat. f_equal. f_equal. f_equal. unfold pieces.
  apply map_ext_Forall. eapply Forall_impl; [|exact IH]. intros c Hc. cbn beta. now rewrite Hc, exec_dur_eq.
Qed.
Lemma exec_reading_eq l : QV.C02.Corr.exec_dur l = ldur l /\ QV.C02.Corr.exec_windows l = loop_windows l.
Proof. split; [apply exec_dur_eq | apply exec_windows_eq]. Qed.
