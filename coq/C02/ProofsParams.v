(* C02 — the declared parameters suffice: two assignments that agree on Params.params p give the same "plays", the same
   duration, the same denoted windows and the same builder run (hence the same program), for every template. *)
From Coq Require Import ZArith QArith Qcanon List Bool Lia.
Require Import QV.C02.Spec QV.C02.Model QV.C02.Params QV.C02.Proofs2.
Import ListNotations.

Definition ag (L : list N) (en en' : env) : Prop := forall x, In x L -> en x = en' x.

Lemma ag_app_l L M en en' : ag (L ++ M) en en' -> ag L en en'.
Proof. intros H x Hx. apply H, in_or_app. now left. Qed.
Lemma ag_app_r L M en en' : ag (L ++ M) en en' -> ag M en en'.
Proof. intros H x Hx. apply H, in_or_app. now right. Qed.
Lemma ag_flat {A} (f : A -> list N) l en en' y : ag (flat_map f l) en en' -> In y l -> ag (f y) en en'.
Proof. intros H Hy x Hx. apply H, in_flat_map. eauto. Qed.

Lemma eval_ag e en en' : ag (evars e) en en' -> eval e en = eval e en'.
Proof.
  induction e; cbn; intro H; try reflexivity.
  - apply H. now left.
  - now rewrite (IHe1 (ag_app_l _ _ _ _ H)), (IHe2 (ag_app_r _ _ _ _ H)).
  - now rewrite (IHe1 (ag_app_l _ _ _ _ H)), (IHe2 (ag_app_r _ _ _ _ H)).
  - now rewrite (IHe1 (ag_app_l _ _ _ _ H)), (IHe2 (ag_app_r _ _ _ _ H)).
Qed.

Lemma eval_decls_ag ms en en' mm : ag (dvars ms) en en' -> eval_decls ms en mm = eval_decls ms en' mm.
Proof.
  unfold eval_decls, dvars. induction ms as [|[[n b] l] ms IH]; cbn; intro H; [reflexivity|].
  rewrite IH by exact (ag_app_r _ _ _ _ H). apply ag_app_l in H.
  now rewrite (eval_ag b _ _ (ag_app_l _ _ _ _ H)), (eval_ag l _ _ (ag_app_r _ _ _ _ H)).
Qed.

Lemma upd_ag i L en en' v : ag (remove_N i L) en en' -> ag L (upd en i v) (upd en' i v).
Proof.
  intros H x Hx. unfold upd. destruct (N.eqb x i) eqn:E; [reflexivity|].
  apply H. unfold remove_N. apply filter_In. split; [exact Hx | now rewrite E].
Qed.

Lemma menv_ag pm L en en' : ag (map_params pm L) en en' -> ag L (menv pm en) (menv pm en').
Proof.
  intros H x Hx. unfold menv. destruct (lookup pm x) as [e|] eqn:E.
  - apply eval_ag. intros y Hy. apply H. unfold map_params. apply in_flat_map. exists x. split; [exact Hx|]. now rewrite E.
  - apply H. unfold map_params. apply in_flat_map. exists x. split; [exact Hx|]. rewrite E. now left.
Qed.

Lemma existsb_ext_in {A} (f g : A -> bool) l : (forall x, In x l -> f x = g x) -> existsb f l = existsb g l.
Proof. induction l; cbn; intro H; [reflexivity|]. rewrite (H a (or_introl eq_refl)), IHl; [reflexivity|]. intros; apply H; now right. Qed.
Lemma flat_map_ext_in {A B} (f g : A -> list B) l : (forall x, In x l -> f x = g x) -> flat_map f l = flat_map g l.
Proof. induction l; cbn; intro H; [reflexivity|]. rewrite (H a (or_introl eq_refl)), IHl; [reflexivity|]. intros; apply H; now right. Qed.

(* what TimeReversalPT builds for its direct child (it skips the to_single_waveform test of that child) *)
Definition bunder (p : pt) (en : env) (mm : mmap) (t : top) : top :=
  match p with Single x => build x en mm t | _ => build p en mm t end.

Definition Pp (p : pt) : Prop := forall en en', ag (params p) en en' ->
  plays p en = plays p en' /\ tdur p en = tdur p en' /\
  (forall mm, adecls p en mm = adecls p en' mm) /\ (forall mm, denote p en mm = denote p en' mm) /\
  (forall mm t, build p en mm t = build p en' mm t) /\
  (forall mm t, bunder p en mm t = bunder p en' mm t).

Lemma subs_ag subs en en' : Forall Pp subs -> ag (flat_map params subs) en en' ->
  forall s, In s subs -> plays s en = plays s en' /\ tdur s en = tdur s en' /\
  (forall mm, adecls s en mm = adecls s en' mm) /\ (forall mm, denote s en mm = denote s en' mm) /\
  (forall mm t, build s en mm t = build s en' mm t) /\
  (forall mm t, bunder s en mm t = bunder s en' mm t).
Proof. intros F H s Hs. rewrite Forall_forall in F. apply (F s Hs). exact (ag_flat _ _ _ _ _ H Hs). Qed.

Ltac atomic_case :=
  match goal with |- _ /\ _ /\ _ /\ _ /\ _ => idtac end.

Theorem params_suffice p : Pp p.
Proof.
  induction p as [z dur ms|ms subs HF|ms l r IHp1 IHp2|ms subs HF|ms count p IHp|ms idx start stop step p IHp|pm mml cs p IHp|p IHp|p IHp|p IHp] using pt_ind';
    intros en en' H; cbn [params] in H.
  - (* Atom *)
    assert (Ed : eval dur en = eval dur en') by (apply eval_ag; exact (ag_app_l _ _ _ _ H)).
    assert (Em : forall mm, eval_decls ms en mm = eval_decls ms en' mm)
      by (intro; apply eval_decls_ag; exact (ag_app_r _ _ _ _ H)).
    cbn. rewrite Ed. repeat split; intros; rewrite ?Em; reflexivity.
  - (* Multi *)
    pose proof (subs_ag subs en en' HF (ag_app_r _ _ _ _ H)) as S.
    assert (Em : forall mm, eval_decls ms en mm = eval_decls ms en' mm)
      by (intro; apply eval_decls_ag; exact (ag_app_l _ _ _ _ H)).
    assert (Ep : existsb (fun s => plays s en) subs = existsb (fun s => plays s en') subs)
      by (apply existsb_ext_in; intros s Hs; apply (S s Hs)).
    assert (Et : map (fun s => if plays s en then Some (tdur s en) else None) subs =
                 map (fun s => if plays s en' then Some (tdur s en') else None) subs).
    { apply map_ext_in. intros s Hs. destruct (S s Hs) as (A & B & _). now rewrite A, B. }
    assert (Ea : forall mm, flat_map (fun s => adecls s en mm) subs = flat_map (fun s => adecls s en' mm) subs).
    { intro mm. apply flat_map_ext_in. intros s Hs. apply (S s Hs). }
    cbn. rewrite Ep, Et. repeat split; intros; rewrite ?Em, ?Ea; reflexivity.
  - (* Arith *)
    destruct (IHp1 en en' (ag_app_l _ _ _ _ (ag_app_r _ _ _ _ H))) as (A1 & B1 & C1 & _).
    destruct (IHp2 en en' (ag_app_r _ _ _ _ (ag_app_r _ _ _ _ H))) as (A2 & B2 & C2 & _).
    assert (Em : forall mm, eval_decls ms en mm = eval_decls ms en' mm)
      by (intro; apply eval_decls_ag; exact (ag_app_l _ _ _ _ H)).
    cbn. rewrite A1, A2, B1, B2. repeat split; intros; rewrite ?Em, ?C1, ?C2; reflexivity.
  - (* Seq *)
    pose proof (subs_ag subs en en' HF (ag_app_r _ _ _ _ H)) as S.
    assert (Em : forall mm, eval_decls ms en mm = eval_decls ms en' mm)
      by (intro; apply eval_decls_ag; exact (ag_app_l _ _ _ _ H)).
    assert (Ep : existsb (fun s => plays s en) subs = existsb (fun s => plays s en') subs)
      by (apply existsb_ext_in; intros s Hs; apply (S s Hs)).
    assert (Et : map (fun s => tdur s en) subs = map (fun s => tdur s en') subs)
      by (apply map_ext_in; intros s Hs; apply (S s Hs)).
    assert (Ed : forall mm, map (fun s => (tdur s en, denote s en mm)) subs = map (fun s => (tdur s en', denote s en' mm)) subs).
    { intro mm. apply map_ext_in. intros s Hs. destruct (S s Hs) as (_ & B & _ & D & _). now rewrite B, D. }
    assert (Eb : forall mm t, build (Seq ms subs) en mm t = build (Seq ms subs) en' mm t).
    { intros mm t. cbn. rewrite Em. f_equal. generalize (push (eval_decls ms en' mm) t). clear - S.
      induction subs as [|s r IH]; intro t0; [reflexivity|].
      destruct (S s (or_introl eq_refl)) as (_ & _ & _ & _ & E & _). rewrite E. apply IH. intros; apply S; now right. }
    cbn [plays tdur adecls denote]. rewrite Ep, Et. repeat split; intros; rewrite ?Em, ?Ed; try reflexivity; apply Eb.
  - (* Rep *)
    destruct (IHp en en' (ag_app_r _ _ _ _ (ag_app_r _ _ _ _ H))) as (A & B & C & D & E & G).
    assert (Em : forall mm, eval_decls ms en mm = eval_decls ms en' mm)
      by (intro; apply eval_decls_ag; exact (ag_app_l _ _ _ _ H)).
    assert (Ec : rep_count count en = rep_count count en')
      by (unfold rep_count; now rewrite (eval_ag count en en' (ag_app_l _ _ _ _ (ag_app_r _ _ _ _ H)))).
    cbn. rewrite Ec, A, B. repeat split; intros; rewrite ?Em, ?D, ?E; reflexivity.
  - (* For *)
    pose proof (ag_app_l _ _ _ _ H) as Hm. pose proof (ag_app_r _ _ _ _ H) as H1.
    pose proof (ag_app_l _ _ _ _ H1) as Ha. pose proof (ag_app_r _ _ _ _ H1) as H2.
    pose proof (ag_app_l _ _ _ _ H2) as Hb. pose proof (ag_app_r _ _ _ _ H2) as H3.
    pose proof (ag_app_l _ _ _ _ H3) as Hs. pose proof (ag_app_r _ _ _ _ H3) as Hbody.
    assert (Em : forall mm, eval_decls ms en mm = eval_decls ms en' mm) by (intro; now apply eval_decls_ag).
    assert (Er : range_vals start stop step en = range_vals start stop step en')
      by (unfold range_vals; now rewrite (eval_ag start _ _ Ha), (eval_ag stop _ _ Hb), (eval_ag step _ _ Hs)).
    pose proof (fun v : Z => IHp (upd en idx (Zc v)) (upd en' idx (Zc v)) (upd_ag idx _ en en' (Zc v) Hbody)) as B.
    assert (Ep : forall l, existsb (fun v => plays p (upd en idx (Zc v))) l = existsb (fun v => plays p (upd en' idx (Zc v))) l)
      by (intro l; apply existsb_ext_in; intros v _; apply (B v)).
    assert (Et : forall l, map (fun v => tdur p (upd en idx (Zc v))) l = map (fun v => tdur p (upd en' idx (Zc v))) l)
      by (intro l; apply map_ext_in; intros v _; apply (B v)).
    assert (Eb : forall mm t, build (For ms idx start stop step p) en mm t = build (For ms idx start stop step p) en' mm t).
    { intros mm t. cbn. rewrite Er, Em. f_equal. generalize (push (eval_decls ms en' mm) t).
      generalize (range_vals start stop step en').
      induction l as [|v r IH]; intro t0; [reflexivity|]. cbn. destruct (B v) as (_ & _ & _ & _ & E & _). rewrite E. apply IH. }
    assert (Ed : forall mm l, map (fun v => let e := upd en idx (Zc v) in (tdur p e, denote p e mm)) l =
                              map (fun v => let e := upd en' idx (Zc v) in (tdur p e, denote p e mm)) l).
    { intros mm l. apply map_ext_in. intros v _. cbn zeta. destruct (B v) as (_ & Bt & _ & Bd & _). now rewrite Bt, Bd. }
    cbn [plays tdur adecls denote]. rewrite Er, Ep, Et. repeat split; intros; rewrite ?Em, ?Ed; try reflexivity; try apply Eb.
  - (* Map *)
    pose proof (menv_ag pm _ en en' (ag_app_r _ _ _ _ H)) as Hb.
    destruct (IHp _ _ Hb) as (A & B & C & D & E & G).
    cbn. repeat split; intros; auto.
  - (* Rev *)
    destruct (IHp en en' H) as (A & B & C & D & E & G).
    assert (Eb : forall mm t, build (Rev p) en mm t = build (Rev p) en' mm t).
    { intros mm t. change (time_reversed (bunder p en mm fresh) t = time_reversed (bunder p en' mm fresh) t). now rewrite G. }
    cbn [plays tdur adecls denote]. rewrite B. repeat split; intros; rewrite ?D, ?C; auto; apply Eb.
  - (* Single *)
    destruct (IHp en en' H) as (A & B & C & D & E & G). cbn. repeat split; intros; rewrite ?E; auto.
  - (* Pass *)
    destruct (IHp en en' H) as (A & B & C & D & E & G). cbn. repeat split; intros; auto.
Qed.
