(* C02 — the LoopBuilder of qupulse/program/loop.py as the stack machine it is (definitions only).

   Python state                                   model
   -----------------------------------------------------------------------------------------------------------------
   LoopBuilder._stack : [StackFrame(loop, _)]     builder = list frame, innermost (= _stack[-1]) first; _top is the head
   StackFrame(Loop)                               FLoop n w ms ch   the Loop object under construction: repetition count,
                                                                    own _measurements, children; w = the `measurements`
                                                                    argument the with_repetition generator keeps for its
                                                                    exit ([] for the root of a builder)
   StackFrame(LoopGuard(previous _top, pend))     FGuard pend       LoopGuard.loop is always the frame directly below
                                                                    (with_sequence wraps self._top and pushes); pend = the
                                                                    guard's pending measurements ([] = None = falsy)
   inner LoopBuilder() of time_reversed /         machine = list builder, innermost first; entering pushes a fresh
   new_subprogram                                 builder, leaving pops it and hands its program to the one below

   Every builder method is a state transformer; a context manager / generator is TWO separate steps (enter, exit) with
   the template's own calls in between.  `events` is the sequence of calls a template's _create_program performs. *)
From Coq Require Import ZArith QArith Qcanon List Bool.
Require Import QV.C02.Spec QV.C02.Model.
Import ListNotations.
Open Scope Qc_scope.

Inductive frame :=
| FLoop (n : nat) (w : list window) (ms : list window) (ch : list loop)
| FGuard (pend : list window).
Definition builder := list frame.
Definition machine := list builder.

Definition new_builder : builder := [FLoop 1 [] [] []].          (* LoopBuilder.__init__ *)

(* X.add_measurements(w), X the object of the head frame: Loop.add_measurements offsets by the current body duration,
   LoopGuard.add_measurements sets / extends its pending list *)
Definition add_meas_f (w : list window) (fs : builder) : builder :=
  match fs with
  | [] => []
  | FLoop n x ms ch :: r => FLoop n x (ms ++ shift (body_of None (map ldur ch)) w) ch :: r
  | FGuard p :: r => FGuard (p ++ w) :: r
  end.
(* append_g carry c fs  =  `if carry: X.add_measurements(carry)` followed by `X.append_child(c)`, X the object of the
   head frame.  LoopGuard.append_child flushes its pending windows (its own ++ what the guard above just handed down)
   into self.loop (the frame below) when there are any, clears them, then delegates self.loop.append_child; the carry
   makes the recursion structural. *)
Fixpoint append_g (carry : list window) (c : loop) (fs : builder) : builder :=
  match fs with
  | [] => []
  | FLoop n x ms ch :: r =>
      FLoop n x (match carry with [] => ms | _ => ms ++ shift (body_of None (map ldur ch)) carry end) (ch ++ [c]) :: r
  | FGuard p :: r => FGuard [] :: append_g (p ++ carry) c r
  end.
Definition append_f (c : loop) (fs : builder) : builder := append_g [] c fs.
Definition loop_empty (c : loop) : bool :=
  match l_wf c, l_ch c with None, [] => true | _, _ => false end.
Definition try_append_f (c : loop) (w : option (list window)) (fs : builder) : builder :=
  if loop_empty c then fs
  else append_f c (match w with Some w' => add_meas_f w' fs | None => fs end).
(* LoopBuilder.to_program: the ROOT loop (bottom frame), None when it has neither waveform nor children *)
Definition root_program (fs : builder) : option loop :=
  match last fs (FGuard []) with
  | FLoop n _ ms (c :: cs) => Some (Loop n None ms (c :: cs))
  | _ => None
  end.

Inductive ev :=
| EMeasure (w : list window)            (* measure(w) *)
| EPlay (d : Qc)                        (* play_arbitrary_waveform / hold_voltage of a waveform of duration d *)
| ESeqEnter (w : list window)           (* with_sequence(w).__enter__  (also the first half of with_iteration) *)
| ESeqExit                              (* with_sequence.__exit__ *)
| ERepEnter (n : nat) (w : list window) (* with_repetition(n, w) up to its yield *)
| ERepExit                              (* with_repetition after the yield: _pop, _try_append *)
| ERevEnter | ERevExit                  (* time_reversed enter / exit *)
| ESubEnter | ESubExit.                 (* new_subprogram enter / exit *)

(* one call; None = the machine is stuck (pop of an empty stack, exit without matching enter) *)
Definition step (e : ev) (m : machine) : option machine :=
  match m with
  | [] => None
  | fs :: bs =>
      match e with
      | EMeasure w => Some ((match w with [] => fs | _ => add_meas_f w fs end) :: bs)      (* `if measurements:` *)
      | EPlay d => Some (append_f (leaf d) fs :: bs)
      | ESeqEnter w => Some ((FGuard w :: fs) :: bs)
      | ESeqExit => match fs with _ :: (_ :: _) as r => Some (r :: bs) | _ => None end
      | ERepEnter n w => Some ((FLoop n w [] [] :: fs) :: bs)
      | ERepExit =>
          match fs with
          | FLoop n w ms ch :: ((_ :: _) as r) => Some (try_append_f (Loop n None ms ch) (Some w) r :: bs)
          | _ => None
          end
      | ERevEnter | ESubEnter => Some (new_builder :: fs :: bs)
      | ERevExit =>
          match bs with
          | [] => None
          | outer :: bs' =>
              Some ((match root_program fs with
                     | Some root => try_append_f (reverse_loop root) None outer
                     | None => outer end) :: bs')
          end
      | ESubExit =>
          match bs with
          | [] => None
          | outer :: bs' =>
              Some ((match root_program fs with
                     | Some root => append_f (leaf (ldur root)) (add_meas_f (loop_windows root) outer)
                     | None => outer end) :: bs')
          end
      end
  end.
Fixpoint run (es : list ev) (m : machine) : option machine :=
  match es with
  | [] => Some m
  | e :: r => match step e m with Some m' => run r m' | None => None end
  end.

(* the calls PulseTemplate._create_program / _internal_create_program of each class perform on the builder *)
Fixpoint events (p : pt) (en : env) (mm : mmap) {struct p} : list ev :=
  match p with
  | Atom _ _ _ | Multi _ _ | Arith _ _ _ =>
      if plays p en then [EMeasure (adecls p en mm); EPlay (tdur p en)] else []
  | Seq ms subs =>
      ESeqEnter (eval_decls ms en mm) :: flat_map (fun s => events s en mm) subs ++ [ESeqExit]
  | Rep ms c b =>
      if (0 <? rep_count c en)%nat
      then ERepEnter (rep_count c en) (eval_decls ms en mm) :: events b en mm ++ [ERepExit]
      else []
  | For ms i a b s body =>
      ESeqEnter (eval_decls ms en mm)
      :: flat_map (fun v => events body (upd en i (Zc v)) mm) (range_vals a b s en) ++ [ESeqExit]
  | Map pm mml _ b => events b (menv pm en) (mcomp mml mm)
  | Rev b => ERevEnter :: (match b with Single x => events x en mm | _ => events b en mm end) ++ [ERevExit]
  | Single b => ESubEnter :: events b en mm ++ [ESubExit]
  | Pass b => events b en mm
  end.

(* PulseTemplate.create_program on a fresh LoopBuilder *)
Definition sm_program (p : pt) (en : env) (mm : mmap) : option (option loop) :=
  match run (events p en mm) [new_builder] with
  | Some [fs] => Some (root_program fs)
  | _ => None
  end.

(* concretisation of the functional builder state: the guards in front of the Loop frame they finally write to *)
Definition conc (t : top) (n : nat) (w : list window) (rest : builder) : builder :=
  map FGuard (t_pend t) ++ FLoop n w (t_ms t) (t_ch t) :: rest.

(* what the harness observes of the real builder after every call: per builder, per frame (innermost first) *)
Inductive fobs :=
| OLoop (n : nat) (ms : list window) (nch : nat) (body : Qc)
| OGuard (pend : list window).
Definition obs_frame (f : frame) : fobs :=
  match f with
  | FLoop n _ ms ch => OLoop n ms (length ch) (body_of None (map ldur ch))
  | FGuard p => OGuard p
  end.
Definition obs_machine (m : machine) : list (list fobs) := map (map obs_frame) m.
