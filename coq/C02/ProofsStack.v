(* C02 — proofs, part 4: the stack machine of LoopBuilder (Stack.v) refines to the functional builder (Model.build):
   running the calls a template performs on ANY machine state whose head builder is the concretisation of a functional
   state t leads to the concretisation of `build p en mm t`, everything below untouched. *)
From Coq Require Import ZArith QArith Qcanon Qround List Bool Permutation Lia.
Require Import QV.C02.Spec QV.C02.Model QV.C02.Proofs QV.C02.Proofs2 QV.C02.Stack.
Import ListNotations.
Open Scope Qc_scope.
Arguments shift : simpl never.
Arguments mirror : simpl never.
Arguments tile : simpl never.

Lemma run_app a b m : run (a ++ b) m = match run a m with Some m' => run b m' | None => None end.
Proof. revert m. induction a as [|e a IH]; intro m; cbn [app run]; [reflexivity|]. destruct (step e m); auto. Qed.

Lemma shift_nil d : shift d [] = [].
Proof. reflexivity. Qed.

Lemma add_meas_f_nil fs : add_meas_f [] fs = fs.
Proof. destruct fs as [|[n x ms ch|p] r]; cbn [add_meas_f]; [reflexivity| |]; now rewrite ?shift_nil, app_nil_r. Qed.
Lemma flush_eq p r : (match p with [] => r | _ :: _ => add_meas_f p r end) = add_meas_f p r.
Proof. destruct p; [now rewrite add_meas_f_nil | reflexivity]. Qed.

Lemma add_meas_f_conc w t n x rest : add_meas_f w (conc t n x rest) = conc (add_meas w t) n x rest.
Proof.
  unfold conc, add_meas. destruct t as [ch ms [|p ps]]; cbn [t_ch t_ms t_pend map app add_meas_f]; reflexivity.
Qed.

Lemma append_g_guards c n x ch rest : forall ps carry ms,
  append_g carry c (map FGuard ps ++ FLoop n x ms ch :: rest) =
  map (fun _ => FGuard []) ps
  ++ FLoop n x (ms ++ shift (body_of None (map ldur ch)) (concat (rev ps) ++ carry)) (ch ++ [c]) :: rest.
Proof.
  induction ps as [|p ps IH]; intros carry ms.
  - cbn [map app append_g rev concat]. destruct carry; [now rewrite shift_nil, app_nil_r | reflexivity].
  - cbn [map app append_g]. rewrite IH. do 3 f_equal. f_equal. f_equal.
    cbn [rev]. rewrite concat_app. cbn [concat]. rewrite app_nil_r, <- app_assoc. reflexivity.
Qed.

Lemma append_f_conc c t n x rest : append_f c (conc t n x rest) = conc (append c t) n x rest.
Proof.
  unfold conc, append, append_f. destruct t as [ch ms pend]; cbn [t_ch t_ms t_pend].
  rewrite append_g_guards, app_nil_r, map_map. reflexivity.
Qed.

Lemma conc_cons t n x rest : exists f r, conc t n x rest = f :: r.
Proof. unfold conc. destruct (t_pend t); cbn; eauto. Qed.

(* ---- the length of the guard stack is preserved by every template ----------------------------------------------------- *)
Lemma step_ok_pend pl d w t t' : step_ok pl d w t t' -> length (t_pend t') = length (t_pend t).
Proof.
  destruct pl; cbn [step_ok].
  - intros (_ & H & _). rewrite H. apply map_length.
  - now intros (-> & _).
Qed.
Lemma build_pend p en mm t : length (t_pend (build p en mm t)) = length (t_pend t).
Proof. eapply step_ok_pend. apply build_ok. Qed.
Lemma fold_pend {A} (f : A -> top -> top) l :
  (forall a t, length (t_pend (f a t)) = length (t_pend t)) ->
  forall t, length (t_pend (fold_left (fun t a => f a t) l t)) = length (t_pend t).
Proof. intro H. induction l as [|a l IH]; intro t; cbn [fold_left]; [reflexivity|]. now rewrite IH, H. Qed.

Lemma conc_nopend t n x rest : length (t_pend t) = 0%nat -> conc t n x rest = FLoop n x (t_ms t) (t_ch t) :: rest.
Proof. unfold conc. destruct (t_pend t); [reflexivity | discriminate]. Qed.

(* ---- the simulation ----------------------------------------------------------------------------------------------------- *)
Definition sim (es : list ev) (f : top -> top) : Prop :=
  forall t n x rest bs, run es (conc t n x rest :: bs) = Some (conc (f t) n x rest :: bs).
Definition sim_at (p : pt) : Prop := forall en mm, sim (events p en mm) (build p en mm).

Lemma sim_fold {A} (f : A -> top -> top) (g : A -> list ev) l :
  (forall a, In a l -> sim (g a) (f a)) -> sim (flat_map g l) (fun t => fold_left (fun t a => f a t) l t).
Proof.
  induction l as [|a l IH]; intros H t n x rest bs; cbn [flat_map fold_left]; [reflexivity|].
  rewrite run_app, (H a (or_introl eq_refl)). apply IH. intros; apply H; now right.
Qed.

(* with_sequence: enter, the parts, exit *)
Lemma sim_sequence w es f :
  sim es f -> (forall t, length (t_pend (f t)) = length (t_pend t)) ->
  sim (ESeqEnter w :: es ++ [ESeqExit]) (fun t => pop (f (push w t))).
Proof.
  intros Hs Hl t n x rest bs. cbn [run step].
  change (FGuard w :: conc t n x rest) with (conc (push w t) n x rest).
  rewrite run_app, Hs. cbn [run step].
  specialize (Hl (push w t)). cbn [push t_pend length] in Hl.
  unfold conc, pop. destruct (t_pend (f (push w t))) as [|p0 ps]; [discriminate|]. cbn [map app tl t_ch t_ms t_pend].
  destruct ps; reflexivity.
Qed.

Lemma sim_atomic p :
  (forall en mm, events p en mm = if plays p en then [EMeasure (adecls p en mm); EPlay (tdur p en)] else []) ->
  (forall en mm t, build p en mm t =
                   if plays p en then append (leaf (tdur p en)) (add_meas (adecls p en mm) t) else t) ->
  sim_at p.
Proof.
  intros He Hb en mm t n x rest bs. rewrite He, Hb. destruct (plays p en); [|reflexivity].
  cbn [run step]. rewrite flush_eq, add_meas_f_conc, append_f_conc. reflexivity.
Qed.

Lemma loop_empty_reverse n wf ms c cs : loop_empty (reverse_loop (Loop n wf ms (c :: cs))) = false.
Proof.
  cbn [reverse_loop]. unfold loop_empty. cbn [l_wf l_ch]. destruct (rev (map reverse_loop (c :: cs))) eqn:E.
  - apply (f_equal (@length _)) in E. rewrite rev_length, map_length in E. discriminate.
  - destruct wf; reflexivity.
Qed.

Definition S_at (p : pt) : Prop := sim_at p /\ forall x, p = Single x -> sim_at x.

Lemma rev_inner_sim b : S_at b -> forall en mm,
  sim (match b with Single x => events x en mm | _ => events b en mm end)
      (fun t => match b with Single x => build x en mm t | _ => build b en mm t end).
Proof. intros [H1 H2] en mm. destruct b; try apply H1. apply (H2 b eq_refl). Qed.
Lemma rev_inner_pend b en mm t :
  length (t_pend (match b with Single x => build x en mm t | _ => build b en mm t end)) = length (t_pend t).
Proof. destruct b; apply build_pend. Qed.

(* leaving an inner builder that started fresh: its whole stack is the root frame *)
Lemma inner_done (f : top -> top) es :
  sim es f -> length (t_pend (f fresh)) = 0%nat ->
  forall outer bs, run es (new_builder :: outer :: bs) = Some ([FLoop 1 [] (t_ms (f fresh)) (t_ch (f fresh))] :: outer :: bs).
Proof.
  intros Hs Hl outer bs. change new_builder with (conc fresh 1 [] []). rewrite Hs, conc_nopend by exact Hl. reflexivity.
Qed.

Theorem sim_all p : S_at p.
Proof.
  induction p using pt_ind'; (split; [|try discriminate]).
  - apply sim_atomic; reflexivity.
  - apply sim_atomic; reflexivity.
  - apply sim_atomic; reflexivity.
  - (* Seq *)
    intros en mm. cbn [events]. intros t n x rest bs. rewrite build_Seq.
    apply (sim_sequence (eval_decls ms en mm) (flat_map (fun s => events s en mm) subs)
             (fun t => fold_left (fun t s => build s en mm t) subs t)).
    + apply (sim_fold (fun s t => build s en mm t) (fun s => events s en mm)).
      intros s Hs. rewrite Forall_forall in H. apply (proj1 (H s Hs)).
    + apply (fold_pend (fun s t => build s en mm t)). intros; apply build_pend.
  - (* Rep *)
    intros en mm t n x rest bs. destruct IHp as [IH _]. cbn [events build].
    destruct (0 <? rep_count c en)%nat; [|reflexivity].
    cbn [run step]. change (FLoop (rep_count c en) (eval_decls ms en mm) [] [] :: conc t n x rest)
      with (conc fresh (rep_count c en) (eval_decls ms en mm) (conc t n x rest)).
    rewrite run_app, IH. rewrite conc_nopend by (rewrite build_pend; reflexivity).
    cbn [run step]. destruct (conc_cons t n x rest) as (f0 & r0 & E). rewrite E, <- E.
    unfold try_append_f, loop_empty, with_repetition. cbn [l_wf l_ch].
    destruct (t_ch (build p en mm fresh)) eqn:Ech; [reflexivity|]. rewrite <- Ech.
    now rewrite add_meas_f_conc, append_f_conc.
  - (* For *)
    intros en mm. destruct IHp as [IH _]. cbn [events build]. intros t n x rest bs.
    apply (sim_sequence (eval_decls ms en mm)
             (flat_map (fun v => events p (upd en i (Zc v)) mm) (range_vals a b s en))
             (fun t => fold_left (fun t v => build p (upd en i (Zc v)) mm t) (range_vals a b s en) t)).
    + apply (sim_fold (fun v t => build p (upd en i (Zc v)) mm t) (fun v => events p (upd en i (Zc v)) mm)).
      intros v _. apply IH.
    + apply (fold_pend (fun v t => build p (upd en i (Zc v)) mm t)). intros; apply build_pend.
  - (* Map *) intros en mm. destruct IHp as [IH _]. cbn [events build]. apply IH.
  - (* Rev *)
    intros en mm t n x rest bs. cbn [events build run step]. rewrite run_app.
    rewrite (inner_done _ _ (rev_inner_sim p IHp en mm)) by (rewrite rev_inner_pend; reflexivity).
    cbn [run step]. unfold root_program, time_reversed, to_program. cbn [last].
    set (T := match p with Single x => build x en mm fresh | _ => build p en mm fresh end).
    destruct (t_ch T) as [|c0 cs] eqn:Ech; [reflexivity|].
    unfold try_append_f. rewrite loop_empty_reverse, append_f_conc. reflexivity.
  - (* Single *)
    intros en mm t n x rest bs. destruct IHp as [IH _]. cbn [events build run step]. rewrite run_app.
    rewrite (inner_done _ _ (IH en mm)) by (rewrite build_pend; reflexivity).
    cbn [run step]. unfold root_program, new_subprogram, to_program. cbn [last].
    destruct (t_ch (build p en mm fresh)) as [|c0 cs] eqn:Ech; [reflexivity|].
    now rewrite add_meas_f_conc, append_f_conc.
  - (* Single, second component *) intros x Hx. inversion Hx; subst. apply (proj1 IHp).
  - (* Pass *) intros en mm. destruct IHp as [IH _]. cbn [events build]. apply IH.
Qed.

(* ---- statements used in Props.v -------------------------------------------------------------------------------------------- *)
Theorem stack_refines p en mm t n x rest bs :
  run (events p en mm) (conc t n x rest :: bs) = Some (conc (build p en mm t) n x rest :: bs).
Proof. apply sim_all. Qed.

Theorem stack_program p en mm : sm_program p en mm = Some (to_program (build p en mm fresh)).
Proof.
  unfold sm_program. change new_builder with (conc fresh 1 [] []). rewrite stack_refines.
  rewrite conc_nopend by (rewrite build_pend; reflexivity).
  unfold root_program, to_program. cbn [last]. destruct (t_ch (build p en mm fresh)); reflexivity.
Qed.

(* the machine never gets stuck on the calls of a template and leaves exactly the frames it found: same guards (their
   pending windows cleared iff something was played), same Loop frame identity, everything below untouched *)
Corollary stack_balanced p en mm fs bs (Hfs : exists t n x rest, fs = conc t n x rest) :
  exists fs', run (events p en mm) (fs :: bs) = Some (fs' :: bs) /\ length fs' = length fs.
Proof.
  destruct Hfs as (t & n & x & rest & ->). eexists. split; [apply stack_refines|].
  unfold conc. rewrite !app_length, !map_length, build_pend. reflexivity.
Qed.
