(* C02 — correspondence cases.  The implementation's observation is part of each case.
   check_corr: the operational model (Model.v) reproduces the observation.
   check_spec: the observation is what the specification (Spec.v, template tree alone) denotes. *)
From Coq Require Import ZArith QArith Qcanon List Bool.
Require Import QV.common.Util QV.C02.Spec QV.C02.Model QV.C02.Stack QV.C02.Merge QV.C02.Rewrite.
Require Import QV.C02.Flatten QV.C02.Params QV.C02.Vol QV.C02.Render.
Import ListNotations.
Open Scope Qc_scope.

Definition q (n : Z) (d : positive) : Qc := Q2Qc (n # d).

Inductive obs :=
| ORejected (c : eclass)                                  (* class of the exception create_program raised *)
| ONone                                                   (* create_program returned None *)
| OProg (dur : Qc) (ws : list window) (durc : Qc) (wsc : list window). (* duration, windows; both after cleanup() *)

(* round 6: what plotting.render(prog, sample_rate, render_measurements=True, time_slice)[2] answered *)
Inductive robs :=
| RoOk (ws : list window)
| RoBadSlice                                              (* ValueError("time_slice is not valid.") *)
| RoTooShort.                                             (* PlottingNotPossibleException (fewer than 2 samples) *)

Inductive case :=
| CProg (p : pt) (en : list (N * Qc)) (mm : list (N * option N)) (o : obs)
  (* a hand-built Loop: duration, windows, windows after reverse_inplace(), windows after cleanup() *)
| CLoop (l : loop) (dur : Qc) (ws : list window) (wrev wclean : option (list window)) (durclean : Qc)
  (* the calls the template performed on the (instrumented, otherwise unchanged) LoopBuilder, each with the state of
     all active builders right after it: per builder (innermost first), per stack frame (top first) *)
| CTrace (p : pt) (en : list (N * Qc)) (mm : list (N * option N)) (tr : list (ev * list (list fobs)))
  (* MappingPT(MappingPT(body, pm1, mml1, cs1 [, identifier]), pm2, mml2): did the constructor merge, the composed
     renaming of every measurement name of the body, the value every parameter of the body receives *)
| CMerge (names pars : list N) (pm1 : list (N * expr)) (mml1 : list (N * option N)) (cs1 : list pcon) (ident : bool)
         (pm2 : list (N * expr)) (mml2 : list (N * option N)) (en : list (N * Qc))
         (was_merged : bool) (mmobs : list (N * option N)) (pobs : list (N * Qc))
  (* a structural rewrite applied to a hand-built Loop: duration / windows before, and after (None: the code refused) *)
| CRw (spec_side : bool) (r : rw) (l : loop) (dur0 : Qc) (ws0 : list window) (o : option (Qc * list window))
  (* program built with volatile repetition counts under en, then every volatile count updated to its value under en2 *)
  (* CRw and CVol runs are judged twice, as two cases (spec_side = false: model against implementation only;
     spec_side = true: specification only), so that a case whose specification failure is a listed known finding
     can never hide a disagreement between model and implementation *)
| CVol (spec_side : bool) (p : pt) (en en2 : list (N * Qc)) (mm : list (N * option N)) (ws2 : list window)
  (* flatten_and_balance(depth) on a hand-built Loop with the structural rewrites it performed, in order, each with the
     path of the sub-loop it was applied to (two cases per run as for CRw) *)
| CFlat (spec_side : bool) (l : loop) (steps : list (list nat * rw)) (dur0 : Qc) (ws0 : list window)
        (dur1 : Qc) (ws1 : list window)
  (* round 3: flatten_and_balance(d) against the MODEL of it (Flatten.fab): same logged rewrites, same result *)
| CFlatM (l : loop) (d : Z) (steps : list (list nat * rw)) (dur1 : Qc) (ws1 : list window)
  (* round 3: an assignment from which parameters were removed.  pnames = PulseTemplate.parameter_names as the code
     reports them; rej = create_program raised ParameterNotProvidedException; otherwise the usual observation *)
| CMissing (p : pt) (en : list (N * Qc)) (mm : list (N * option N)) (pnames : list N) (rej : bool) (o : option obs)
  (* round 3: a volatile update judged under the executable guard (nothing reversed, every count >= 1 before and
     after, Vol.vwok): then the windows MUST be the declared ones under the new counts.  Round 5: a, b = shape and
     repetition counts of the IMPLEMENTATION's program before / after the update (the guard is evaluated on the
     observation, not on the model's programs) *)
| CVolG (p : pt) (en en2 : list (N * Qc)) (mm : list (N * option N)) (a b : loop) (ws2 : list window)
  (* round 6: the second observation point.  The program create_program returned for (p, en, mm) is handed to
     plotting.render with the given sample rate and time_slice (None = default) *)
| CRender (p : pt) (en : list (N * Qc)) (mm : list (N * option N)) (rate : Qc) (slice : option (Qc * Qc)) (o : robs)
  (* a case judged on the Python side only (flatten_and_balance / make_compatible: harness py_spec) *)
| CPyOnly
| CCrash.

Definition env_of (l : list (N * Qc)) : env := fun x => match lookup l x with Some v => v | None => 0 end.
Definition mm_of (l : list (N * option N)) : mmap := fun k => match lookup l k with Some v => v | None => Some k end.

Definition weqb (a b : window) : bool :=
  match a, b with (n, x, y), (n', x', y') => N.eqb n n' && Qceqb x x' && Qceqb y y' end.
Fixpoint remove1 (w : window) (l : list window) : option (list window) :=
  match l with
  | [] => None
  | x :: r => if weqb w x then Some r else match remove1 w r with Some r' => Some (x :: r') | None => None end
  end.
(* equality as multisets *)
Fixpoint ms_eqb (a b : list window) : bool :=
  match a with
  | [] => is_nil b
  | w :: r => match remove1 w b with Some b' => ms_eqb r b' | None => false end
  end.

(* independent reading of a hand-built Loop (it has no template; its meaning is defined on the Loop itself): a leaf
   lasts its waveform (0 without one), an inner node the sum of its children, each times the repetition count; the
   body (own windows, then the children one after the other) is played rep times one after the other.  Written out
   here without any Model.v function (only the `loop` datatype and Spec.seq_windows / sumc are shared);
   C02_loop_windows_additive proves that the model's tiling computes the same. *)
Fixpoint exec_dur (l : loop) : Qc :=
  match l with
  | Loop n wf _ ch =>
      match ch with
      | [] => match wf with Some d => d | None => 0 end
      | _ => sumc (map exec_dur ch)
      end * natc n
  end.
Definition exec_body (l : loop) : Qc :=
  match l with
  | Loop _ wf _ ch => match ch with [] => match wf with Some d => d | None => 0 end | _ => sumc (map exec_dur ch) end
  end.
Fixpoint exec_windows (l : loop) : list window :=
  match l with
  | Loop n wf ms ch =>
      seq_windows 0 (repeat (exec_body l, ms ++ seq_windows 0 (map (fun c => (exec_dur c, exec_windows c)) ch)) n)
  end.
(* what cleanup() may drop (with a DroppedMeasurementWarning): the windows of non-root nodes below which nothing is
   played.  alive = the node has something to play; prune = the tree without its dead non-root nodes *)
Fixpoint alive (l : loop) : bool :=
  match l with
  | Loop _ wf _ ch => match ch with [] => match wf with Some _ => true | None => false end | _ => existsb alive ch end
  end.
Fixpoint prune (l : loop) : loop :=
  match l with Loop n wf ms ch => Loop n wf ms (flat_map (fun c => if alive c then [prune c] else []) ch) end.

(* the exception class the code answers a failing check with (KAtomicDur: the waveform constructors raise
   AssertionError or ValueError depending on the class - any class is accepted) *)
Definition class_matches (k : rkind) (c : eclass) : bool :=
  match k, c with
  | KConstraint, EConstraint => true
  | KCountNotInt, ENotInt => true
  | KNegWindow, EValue | KRangeNotInt, EValue | KStepZero, EValue => true
  | KAtomicDur, _ => true
  | _, _ => false
  end.

Definition ev_eqb (a b : ev) : bool :=
  match a, b with
  | EMeasure w, EMeasure w' => ms_eqb w w'
  | EPlay d, EPlay d' => Qceqb d d'
  | ESeqEnter w, ESeqEnter w' => ms_eqb w w'
  | ERepEnter n w, ERepEnter n' w' => Nat.eqb n n' && ms_eqb w w'
  | ESeqExit, ESeqExit | ERepExit, ERepExit | ERevEnter, ERevEnter | ERevExit, ERevExit
  | ESubEnter, ESubEnter | ESubExit, ESubExit => true
  | _, _ => false
  end.
Definition fobs_eqb (a b : fobs) : bool :=
  match a, b with
  | OLoop n ms k d, OLoop n' ms' k' d' => Nat.eqb n n' && ms_eqb ms ms' && Nat.eqb k k' && Qceqb d d'
  | OGuard p, OGuard p' => ms_eqb p p'
  | _, _ => false
  end.
Fixpoint list_eqb {A} (f : A -> A -> bool) (a b : list A) : bool :=
  match a, b with
  | [], [] => true
  | x :: a', y :: b' => f x y && list_eqb f a' b'
  | _, _ => false
  end.
(* the model machine is run over the MODEL's event sequence; every event and every intermediate state is compared *)
Fixpoint trace_ok (es : list ev) (m : machine) (tr : list (ev * list (list fobs))) : bool :=
  match es, tr with
  | [], [] => true
  | e :: es', (e', snap) :: tr' =>
      ev_eqb e e' &&
      match step e m with
      | Some m' => list_eqb (list_eqb fobs_eqb) (obs_machine m') snap && trace_ok es' m' tr'
      | None => false
      end
  | _, _ => false
  end.

Definition merge_body : pt := Atom false (EC 1) [].
Definition lookup_is {A} (eqb : A -> A -> bool) (l : list (N * A)) (k : N) (v : A) : bool :=
  match lookup l k with Some v' => eqb v v' | None => false end.
Definition optN_eqb (a b : option N) : bool :=
  match a, b with Some x, Some y => N.eqb x y | None, None => true | _, _ => false end.

Definition corr_prog (p : pt) (en : list (N * Qc)) (mm : list (N * option N)) (o : obs) : bool :=
  match create_program p (env_of en) (mm_of mm), o with
  | Rejected k, ORejected c => class_matches k c
  | NoProgram, ONone => true
  | Program l, OProg d ws dc wsc =>
      Qceqb (ldur l) d && ms_eqb (loop_windows l) ws
      && Qceqb (ldur (cleanup l)) dc && ms_eqb (loop_windows (cleanup l)) wsc
  | _, _ => false
  end.
Definition spec_prog (p : pt) (en : list (N * Qc)) (mm : list (N * option N)) (o : obs) : bool :=
  let e := env_of en in
  match o with
  | ORejected c => may_reject c p e     (* a refusal needs a violated condition of that class somewhere in the tree;
                                           in particular an assignment with nothing to object to must be accepted *)
  | ONone => negb (plays p e)
  | OProg d ws dc wsc =>
      plays p e && Qceqb (tdur p e) d && ms_eqb (denote p e (mm_of mm)) ws
      && Qceqb (tdur p e) dc && ms_eqb (denote p e (mm_of mm)) wsc
  end.

Fixpoint steps_eqb (a b : list (list nat * rw)) : bool :=
  match a, b with
  | [], [] => true
  | (p, r) :: a', (p', r') :: b' =>
      list_eqb Nat.eqb p p' &&
      match r, r' with
      | RUnroll i, RUnroll j | RSplit i, RSplit j => Nat.eqb i j
      | RUnrollChildren, RUnrollChildren | REncapsulate, REncapsulate | RSplitDefault, RSplitDefault | RMerge, RMerge => true
      | _, _ => false
      end && steps_eqb a' b'
  | _, _ => false
  end.
Definition set_eqbN (a b : list N) : bool := forallb (fun x => memN x b) a && forallb (fun x => memN x a) b.

(* the template-level part of the volatile guard: nothing is reversed / flattened, every repetition runs at least once *)
Fixpoint no_rev (p : pt) : bool :=
  match p with
  | Atom _ _ _ => true
  | Multi _ subs | Seq _ subs => forallb no_rev subs
  | Arith _ l r => no_rev l && no_rev r
  | Rep _ _ b | For _ _ _ _ _ b | Map _ _ _ b | Pass b => no_rev b
  | Rev _ | Single _ => false
  end.
Fixpoint counts_pos (p : pt) (en : env) : bool :=
  match p with
  | Atom _ _ _ => true
  | Multi _ subs | Seq _ subs => forallb (fun s => counts_pos s en) subs
  | Arith _ l r => counts_pos l en && counts_pos r en
  | Rep _ c b => (0 <? rep_count c en)%nat && counts_pos b en
  | For _ i a b s body => forallb (fun v => counts_pos body (upd en i (Zc v))) (range_vals a b s en)
  | Map pm _ _ b => counts_pos b (menv pm en)
  | Rev b | Single b | Pass b => counts_pos b en
  end.
Definition vol_guard (p : pt) (en en2 : env) (a b : loop) : bool :=
  no_rev p && counts_pos p en && counts_pos p en2 && vwok a b.
Definition check_corr (c : case) : bool :=
  match c with
  | CProg p en mm o => corr_prog p en mm o
  | CMissing p en mm pnames rej o =>
      set_eqbN pnames (params p) &&
      (if rej then negb (provided p en) else match o with Some o => corr_prog p en mm o | None => false end)
  | CFlatM l d steps d1 ws1 =>
      match flatten_and_balance 600 d l with
      | Some (l', st) => steps_eqb st steps && Qceqb (ldur l') d1 && ms_eqb (loop_windows l') ws1
      | None => false
      end
  | CVolG _ _ _ _ _ _ _ => true
  | CRender p en mm rate slice o =>
      match create_program p (env_of en) (mm_of mm) with
      | Program l =>
          match render_meas rate slice l, o with
          | ROk ws, RoOk ws' => ms_eqb ws ws'
          | RBadSlice, RoBadSlice | RTooShort, RoTooShort => true
          | _, _ => false
          end
      | _ => false
      end
  | CLoop l d ws wrev wclean dc =>
      Qceqb (ldur l) d && ms_eqb (loop_windows l) ws && Qceqb (ldur (cleanup l)) dc
      && match wrev with Some w => ms_eqb (loop_windows (reverse_loop l)) w | None => true end
      && match wclean with Some w => ms_eqb (loop_windows (cleanup l)) w | None => true end
  | CTrace p en mm tr => trace_ok (events p (env_of en) (mm_of mm)) [new_builder] tr
  | CMerge names pars pm1 mml1 cs1 ident pm2 mml2 en was_merged mmobs pobs =>
      let inner := if ident then Single (Map pm1 mml1 cs1 merge_body) else Map pm1 mml1 cs1 merge_body in
      match mk_map pm2 mml2 [] inner with
      | Map pm mml _ (Atom _ _ _) =>
          was_merged && forallb (fun k => lookup_is optN_eqb mmobs k (mcomp mml Some k)) names
          && forallb (fun x => lookup_is Qceqb pobs x (menv pm (env_of en) x)) pars
      | Map pm mml _ _ =>
          negb was_merged && forallb (fun k => lookup_is optN_eqb mmobs k (mcomp mml1 (mcomp mml Some) k)) names
          && forallb (fun x => lookup_is Qceqb pobs x (menv pm1 (menv pm (env_of en)) x)) pars
      | _ => false
      end
  | CRw true _ _ _ _ _ => true
  | CRw false r l d0 ws0 o =>
      Qceqb (ldur l) d0 && ms_eqb (loop_windows l) ws0 &&
      match apply_rw r l, o with
      | None, None => true
      | Some l', Some (d, ws) => Qceqb (ldur l') d && ms_eqb (loop_windows l') ws
      | _, _ => false
      end
  | CFlat true _ _ _ _ _ _ => true
  | CFlat false l steps d0 ws0 d1 ws1 =>
      (* replaying the logged rewrites on the model loop gives the loop the code ends with *)
      match run_seq steps l with
      | Some (l', _) => sides_ok steps l && Qceqb (ldur l') d1 && ms_eqb (loop_windows l') ws1
      | None => false
      end
  | CVol true _ _ _ _ _ => true
  | CVol false p en en2 mm ws2 =>
      match updated_windows p (env_of en) (env_of en2) (mm_of mm) with
      | Some ws => ms_eqb ws ws2
      | None => false
      end
  | CPyOnly => true
  | CCrash => false
  end.

Definition check_spec (c : case) : bool :=
  match c with
  | CProg p en mm o => spec_prog p en mm o
  | CMissing p en mm pnames rej o =>
      (* a ParameterNotProvidedException needs a declared parameter that is missing; an assignment that provides every
         declared parameter is judged like any other (the values of undeclared parameters do not matter:
         C02_declared_parameters_suffice) *)
      if rej then negb (provided p en)
      else match o with Some o => if provided p en then spec_prog p en mm o else true | None => false end
  | CFlatM _ _ _ _ _ => true
  | CVolG p en en2 mm a b ws2 =>
      if vol_guard p (env_of en) (env_of en2) a b then ms_eqb (denote p (env_of en2) (mm_of mm)) ws2 else true
  | CRender p en mm rate slice o =>
      (* Spec.v only: the reported windows are all denoted windows (default slice) resp. exactly those overlapping the
         slice (begin < end and begin + length > start); a refusal needs its reason (invalid slice / fewer than 2 samples
         of the template's duration resp. the slice) *)
      let e := env_of en in
      match o with
      | RoOk ws => plays p e && ms_eqb (render_denote p e (mm_of mm) slice) ws
      | RoBadSlice => match slice with Some (s, x) => bad_slice s x | None => false end
      | RoTooShort => match slice with Some (s, x) => too_short rate s x | None => too_short rate 0 (tdur p e) end
      end
  | CLoop l d ws wrev wclean dc =>
      Qceqb (exec_dur l) d && ms_eqb (exec_windows l) ws
      && Qceqb d dc                                                                 (* cleanup keeps the duration, always *)
      && match wrev with Some w => ms_eqb (mirror d ws) w | None => true end       (* reversal mirrors about the duration *)
      (* cleanup keeps every window except those of dead non-root nodes (nothing dropped if there are none) *)
      && match wclean with Some w => ms_eqb (exec_windows (prune l)) w | None => true end
  | CTrace p en mm tr =>
      (* stack discipline and duration: at the end exactly one builder with exactly its root frame is left, whose
         body lasts what the template says and has children iff the template plays *)
      match rev tr with
      | [] => negb (plays p (env_of en))
      | (_, snap) :: _ =>
          match snap with
          | [[OLoop 1 _ k d]] => Qceqb d (tdur p (env_of en)) && Bool.eqb (0 <? k)%nat (plays p (env_of en))
          | _ => false
          end
      end
  | CMerge names pars pm1 mml1 cs1 ident pm2 mml2 en was_merged mmobs pobs =>
      (* whatever the constructor did: names are renamed by the composition, parameters receive the composition *)
      forallb (fun k => lookup_is optN_eqb mmobs k (mcomp mml1 (mcomp mml2 Some) k)) names
      && forallb (fun x => lookup_is Qceqb pobs x (menv pm1 (menv pm2 (env_of en)) x)) pars
  | CRw false _ _ _ _ _ => true
  | CRw true r l d0 ws0 o =>
      match o with None => true | Some (d, ws) => Qceqb d d0 && ms_eqb ws ws0 end
  | CFlat false _ _ _ _ _ _ => true
  | CFlat true l steps d0 ws0 d1 ws1 => Qceqb d1 d0 && ms_eqb ws1 ws0
  | CVol false _ _ _ _ _ => true
  | CVol true p en en2 mm ws2 => ms_eqb (denote p (env_of en2) (mm_of mm)) ws2
  | CPyOnly => true
  | CCrash => false
  end.
