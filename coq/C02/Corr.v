(* C02 — correspondence cases.  The implementation's observation is part of each case.
   check_corr: the operational model (Model.v) reproduces the observation.
   check_spec: the observation is what the specification (Spec.v, template tree alone) denotes. *)
From Coq Require Import ZArith QArith Qcanon List Bool.
Require Import QV.common.Util QV.C02.Spec QV.C02.Model.
Import ListNotations.
Open Scope Qc_scope.

Definition q (n : Z) (d : positive) : Qc := Q2Qc (n # d).

Inductive obs :=
| ORejected                                               (* ValueError / ParameterNotIntegerException ... *)
| ONone                                                   (* create_program returned None *)
| OProg (dur : Qc) (ws : list window) (durc : Qc) (wsc : list window). (* duration, windows; both after cleanup() *)

Inductive case :=
| CProg (p : pt) (en : list (N * Qc)) (mm : list (N * option N)) (o : obs)
  (* a hand-built Loop: duration, windows, windows after reverse_inplace(), windows after cleanup() *)
| CLoop (l : loop) (dur : Qc) (ws : list window) (wrev wclean : option (list window)) (durclean : Qc)
| CCrash.

Definition env_of (l : list (N * Qc)) : env := fun x => match lookup l x with Some v => v | None => 0 end.
Definition mm_of (l : list (N * option N)) : mmap := fun k => match lookup l k with Some v => v | None => Some k end.

Definition weqb (a b : window) : bool :=
  match a, b with (n, x, y), (n', x', y') => N.eqb n n' && Qceqb x x' && Qceqb y y' end.
Fixpoint remove1 (w : window) (l : list window) : option (list window) :=
  match l with
  | [] => None
  | x :: r => if weqb w x then Some r else match remove1 w r with Some r' => Some (x :: r') | None => None end
  end.
(* equality as multisets *)
Fixpoint ms_eqb (a b : list window) : bool :=
  match a with
  | [] => is_nil b
  | w :: r => match remove1 w b with Some b' => ms_eqb r b' | None => false end
  end.

(* independent reading of a Loop's windows: the body (own windows, then the children one after the other) is
   played rep times one after the other *)
Fixpoint exec_windows (l : loop) : list window :=
  match l with
  | Loop n wf ms ch =>
      seq_windows 0 (repeat (body_of wf (map ldur ch),
                             ms ++ seq_windows 0 (map (fun c => (ldur c, exec_windows c)) ch)) n)
  end.
Fixpoint no_empty (l : loop) : bool :=
  match l with
  | Loop _ wf _ ch => match ch with [] => match wf with Some _ => true | None => false end
                                 | _ => forallb no_empty ch end
  end.

Definition check_corr (c : case) : bool :=
  match c with
  | CProg p en mm o =>
      match create_program p (env_of en) (mm_of mm), o with
      | Rejected, ORejected => true
      | NoProgram, ONone => true
      | Program l, OProg d ws dc wsc =>
          Qceqb (ldur l) d && ms_eqb (loop_windows l) ws
          && Qceqb (ldur (cleanup l)) dc && ms_eqb (loop_windows (cleanup l)) wsc
      | _, _ => false
      end
  | CLoop l d ws wrev wclean dc =>
      Qceqb (ldur l) d && ms_eqb (loop_windows l) ws && Qceqb (ldur (cleanup l)) dc
      && match wrev with Some w => ms_eqb (loop_windows (reverse_loop l)) w | None => true end
      && match wclean with Some w => ms_eqb (loop_windows (cleanup l)) w | None => true end
  | CCrash => false
  end.

Definition check_spec (c : case) : bool :=
  match c with
  | CProg p en mm o =>
      let e := env_of en in
      match o with
      | ORejected => negb (must_accept p e)          (* an assignment with nothing to object to must be accepted *)
      | ONone => negb (plays p e)
      | OProg d ws dc wsc =>
          plays p e && Qceqb (tdur p e) d && ms_eqb (denote p e (mm_of mm)) ws
          && Qceqb (tdur p e) dc && ms_eqb (denote p e (mm_of mm)) wsc
      end
  | CLoop l d ws wrev wclean dc =>
      ms_eqb (exec_windows l) ws && (if no_empty l then Qceqb d dc else true)
      && match wrev with Some w => ms_eqb (mirror d ws) w | None => true end       (* reversal mirrors about the duration *)
      && match wclean with Some w => if no_empty l then ms_eqb ws w else true | None => true end
  | CCrash => false
  end.
