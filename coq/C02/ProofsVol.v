(* C02 — the positive statement about volatile count updates at the level of Loop trees: under the executable guard
   Vol.vwok the windows reported after the update (Model.vwin: cached body durations) are the windows of the same tree
   recomputed from scratch with the new counts. *)
From Coq Require Import ZArith QArith Qcanon List Bool Permutation Lia.
Require Import QV.C02.Spec QV.C02.Model QV.C02.Vol QV.C02.Proofs.
Import ListNotations.
Open Scope Qc_scope.

Definition stablego := fix go (l l' : list loop) : bool :=
  match l, l' with [], [] => true | x :: r, y :: r' => stable x y && go r r' | _, _ => false end.
Definition zipgo := fix go (l l' : list loop) : list loop :=
  match l, l' with x :: r, y :: r' => zip_rep x y :: go r r' | _, _ => [] end.
Definition kidsgo := fix go (l l' : list loop) : list (Qc * list window) :=
  match l, l' with x :: r, y :: r' => (lbody x * natc (l_rep y), vwin x y) :: go r r' | _, _ => [] end.
Definition vwokgo (n : nat) := fix go (l l' : list loop) : bool :=
  match l, l' with
  | [], [] => true
  | x :: r, y :: r' =>
      match r with
      | [] => is_nil r' && vwok x y && (kids_stable x y || Nat.eqb n 1)
      | _ => stable x y && go r r'
      end
  | _, _ => false
  end.

Lemma stable_unf n wf ms ch n' wf' ms' ch' :
  stable (Loop n wf ms ch) (Loop n' wf' ms' ch') = Nat.eqb n n' && stablego ch ch'.
Proof. reflexivity. Qed.
Lemma zip_unf n wf ms ch n' wf' ms' ch' :
  zip_rep (Loop n wf ms ch) (Loop n' wf' ms' ch') = Loop n' wf ms (zipgo ch ch').
Proof. reflexivity. Qed.
Lemma vwin_unf n wf ms ch n' wf' ms' ch' :
  vwin (Loop n wf ms ch) (Loop n' wf' ms' ch') =
  tile n' (match ch with [] => body_of wf [] | _ => sumc (map fst (kidsgo ch ch')) end)
       (ms ++ seq_windows 0 (kidsgo ch ch')).
Proof. reflexivity. Qed.
Lemma vwok_unf n wf ms ch n' wf' ms' ch' :
  vwok (Loop n wf ms ch) (Loop n' wf' ms' ch') = vwokgo n' ch ch'.
Proof. reflexivity. Qed.
Lemma kids_stable_unf a b : kids_stable a b = stablego (l_ch a) (l_ch b).
Proof. reflexivity. Qed.

Definition Pst (a : loop) : Prop :=
  forall b, stable a b = true -> zip_rep a b = a /\ vwin a b = loop_windows a /\ lbody a * natc (l_rep b) = ldur a.

Lemma stablego_spec ch : Forall Pst ch -> forall ch', stablego ch ch' = true ->
  zipgo ch ch' = ch /\ kidsgo ch ch' = pieces ch.
Proof.
  induction 1 as [|x r Hx Hr IH]; intros [|y r'] H; cbn in H; try discriminate.
  - split; reflexivity.
  - apply andb_prop in H as [H1 H2]. destruct (Hx y H1) as (A & B & C). destruct (IH r' H2) as [D E].
    cbn. rewrite A, B, C, D, E. split; reflexivity.
Qed.

Lemma stable_all a : Pst a.
Proof.
  induction a as [n wf ms ch IH] using loop_ind'. intros [n' wf' ms' ch'] H.
  rewrite stable_unf in H. apply andb_prop in H as [Hn Hc]. apply Nat.eqb_eq in Hn. subst n'.
  destruct (stablego_spec ch IH ch' Hc) as [A B].
  rewrite zip_unf, vwin_unf, A, B. split; [reflexivity|]. split.
  - rewrite loop_windows_eq. unfold pieces. rewrite map_map. cbn [fst].
    destruct ch; reflexivity.
  - unfold lbody. cbn. reflexivity.
Qed.

Lemma stable_zip a b : stable a b = true -> zip_rep a b = a.
Proof. intro H. apply (stable_all a b H). Qed.
Lemma stable_vwin a b : stable a b = true -> vwin a b = loop_windows a.
Proof. intro H. apply (stable_all a b H). Qed.
Lemma stable_cached_dur a b : stable a b = true -> lbody a * natc (l_rep b) = ldur a.
Proof. intro H. apply (stable_all a b H). Qed.

Lemma kids_stable_dur x y : kids_stable x y = true -> ldur (zip_rep x y) = lbody x * natc (l_rep y).
Proof.
  destruct x as [n wf ms ch], y as [n' wf' ms' ch']. rewrite kids_stable_unf. cbn [l_ch]. intro H.
  assert (F : Forall Pst ch) by (apply Forall_forall; intros; apply stable_all).
  destruct (stablego_spec ch F ch' H) as [A _]. rewrite zip_unf, A. reflexivity.
Qed.

Definition Pvw (a : loop) : Prop := forall b, vwok a b = true -> vwin a b = loop_windows (zip_rep a b).

Lemma vwokgo_spec n ch : Forall Pvw ch -> forall ch', vwokgo n ch ch' = true ->
  (forall o, seq_windows o (kidsgo ch ch') = seq_windows o (pieces (zipgo ch ch'))) /\
  (n = 1%nat \/ sumc (map fst (kidsgo ch ch')) = sumc (map ldur (zipgo ch ch'))) /\
  length (zipgo ch ch') = length ch.
Proof.
  induction 1 as [|x r Hx Hr IH]; intros [|y r'] H; try discriminate.
  - split; [reflexivity|]. split; [right; reflexivity | reflexivity].
  - cbn [vwokgo] in H. destruct r as [|x2 r2].
    + apply andb_prop in H as [H H3]. apply andb_prop in H as [H1 H2].
      destruct r'; [|discriminate]. cbn. rewrite (Hx y H2). split; [reflexivity|]. split; [|reflexivity].
      apply orb_prop in H3 as [H3|H3].
      * right. now rewrite (kids_stable_dur x y H3).
      * left. now apply Nat.eqb_eq.
    + apply andb_prop in H as [H1 H2]. fold (vwokgo n) in H2.
      destruct (IH r' H2) as (A & B & C). destruct (stable_all x y H1) as (Z1 & Z2 & Z3).
      change (kidsgo (x :: x2 :: r2) (y :: r')) with ((lbody x * natc (l_rep y), vwin x y) :: kidsgo (x2 :: r2) r').
      change (zipgo (x :: x2 :: r2) (y :: r')) with (zip_rep x y :: zipgo (x2 :: r2) r').
      rewrite Z1, Z2, Z3. split; [|split].
      * intro o. cbn [pieces map seq_windows]. rewrite A. reflexivity.
      * destruct B as [B|B]; [now left|right]. cbn [map fst sumc]. now rewrite B.
      * cbn [length]. now rewrite C.
Qed.

Theorem vwok_windows a : forall b, vwok a b = true -> vwin a b = loop_windows (zip_rep a b).
Proof.
  induction a as [n wf ms ch IH] using loop_ind'. intros [n' wf' ms' ch'] H.
  rewrite vwok_unf in H. destruct (vwokgo_spec n' ch IH ch' H) as (A & B & C).
  rewrite vwin_unf, zip_unf, loop_windows_eq. fold (pieces (zipgo ch ch')). rewrite (A 0).
  destruct B as [B|B].
  - subst n'. now rewrite !tile_1.
  - f_equal. destruct ch as [|x r].
    + destruct (zipgo [] ch'); [reflexivity | discriminate].
    + destruct (zipgo (x :: r) ch') as [|z zs] eqn:E; [discriminate|]. rewrite B. reflexivity.
Qed.

Example vwok_nonvacuous :
  let w n b := (n, Q2Qc b, Q2Qc 1) : window in
  let a := Loop 1 None [w 0%N 0] [Loop 1 (Some (Q2Qc 1)) [] []; Loop 2 None [w 1%N 0] [Loop 1 (Some (Q2Qc 2)) [] []]] in
  let b := Loop 1 None [w 0%N 0] [Loop 1 (Some (Q2Qc 1)) [] []; Loop 3 None [w 1%N 0] [Loop 1 (Some (Q2Qc 2)) [] []]] in
  vwok a b && negb (Nat.eqb (length (vwin a b)) (length (loop_windows a))) = true.
Proof. vm_compute. reflexivity. Qed.

(* the guard is needed: a repetition around the updated one tiles with the stale (cached) body duration *)
Example vwok_guard_needed :
  let a := Loop 1 None [] [Loop 2 None [] [Loop 2 (Some (Q2Qc 1)) [(0%N, Q2Qc 0, Q2Qc 1)] []];
                           Loop 1 (Some (Q2Qc 1)) [(1%N, Q2Qc 0, Q2Qc 1)] []] in
  let b := Loop 1 None [] [Loop 2 None [] [Loop 3 (Some (Q2Qc 1)) [(0%N, Q2Qc 0, Q2Qc 1)] []];
                           Loop 1 (Some (Q2Qc 1)) [(1%N, Q2Qc 0, Q2Qc 1)] []] in
  vwok a b = false /\ vwin a b <> loop_windows (zip_rep a b).
Proof. split; [vm_compute; reflexivity|]. intro H. vm_compute in H. discriminate H. Qed.
