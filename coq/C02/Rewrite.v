(* C02 — the structural rewrites of qupulse/program/loop.py that hardware preparation (flatten_and_balance, cleanup)
   is made of, as functions on the Loop model, with measurement windows.  Definitions only.
   The property's question: is get_measurement_windows() unchanged by the rewrite? *)
From Coq Require Import ZArith QArith Qcanon List Bool.
Require Import QV.C02.Spec QV.C02.Model.
Import ListNotations.
Open Scope Qc_scope.

(* Loop.unroll() called on child i of l: the child (which must have children) is replaced in its parent by
   repetition_count copies of its children (copy_tree_structure keeps the grandchildren's own measurements);
   THE UNROLLED CHILD'S OWN MEASUREMENTS ARE NOT KEPT ANYWHERE - that is what the code does. *)
Definition unroll_at (i : nat) (l : loop) : option loop :=
  match l with
  | Loop n wf ms ch =>
      match nth_error ch i with
      | Some (Loop cn _ _ (c0 :: cs)) =>
          Some (Loop n wf ms (firstn i ch ++ concat (repeat (c0 :: cs) cn) ++ skipn (S i) ch))
      | _ => None
      end
  end.
(* the windows unroll_at loses, in the parent's times *)
Definition unroll_lost (i : nat) (l : loop) : list window :=
  match l with
  | Loop n wf ms ch =>
      match nth_error ch i with
      | Some (Loop cn cwf cms cch) =>
          tile n (body_of wf (map ldur ch))
               (shift (sumc (map ldur (firstn i ch))) (tile cn (body_of cwf (map ldur cch)) cms))
      | None => []
      end
  end.

(* Loop.unroll_children(): children repeated repetition_count times, repetition_count := 1; the loop's own measurements
   stay as they are (now tiled once instead of repetition_count times) *)
Definition unroll_children (l : loop) : option loop :=
  match l with
  | Loop n wf ms (c0 :: cs) => Some (Loop 1 wf ms (concat (repeat (c0 :: cs) n)))
  | _ => None
  end.
Definition unroll_children_lost (l : loop) : list window :=
  match l with
  | Loop n wf ms ch => shift (body_of wf (map ldur ch)) (tile (n - 1) (body_of wf (map ldur ch)) ms)
  end.

(* Loop.encapsulate() *)
Definition encapsulate (l : loop) : loop :=
  match l with Loop n wf ms ch => Loop 1 None [] [Loop n wf ms ch] end.

(* Loop.split_one_child(child_index = i) *)
Definition split_at (i : nat) (l : loop) : option loop :=
  match l with
  | Loop n wf ms ch =>
      match nth_error ch i with
      | Some (Loop cn cwf cms cch) =>
          if (2 <=? cn)%nat
          then Some (Loop n wf ms (firstn i ch ++ [Loop (cn - 1) cwf cms cch; Loop 1 cwf cms cch] ++ skipn (S i) ch))
          else None
      | None => None
      end
  end.
(* the index split_one_child() picks without argument (non-volatile counts): the LAST child with count > 1 *)
Fixpoint split_default_index_from (k : nat) (ch : list loop) (acc : option nat) : option nat :=
  match ch with
  | [] => acc
  | c :: r => split_default_index_from (S k) r (if (2 <=? l_rep c)%nat then Some k else acc)
  end.
Definition split_default_index (ch : list loop) : option nat := split_default_index_from 0 ch None.
Definition split_one_child (l : loop) : option loop :=
  match split_default_index (l_ch l) with Some i => split_at i l | None => None end.

(* _has_single_child_that_can_be_merged / _merge_single_child *)
Definition can_merge (l : loop) : bool :=
  match l with Loop _ _ ms [Loop m _ _ _] => is_nil ms || (m =? 1)%nat | _ => false end.
Definition merge_single_child (l : loop) : option loop :=
  match l with
  | Loop n None ms [Loop m cwf cms cch] =>
      if is_nil ms || (m =? 1)%nat then Some (Loop (n * m) cwf (cms ++ ms) cch) else None
  | _ => None
  end.

(* what the harness applies to a hand-built loop *)
Inductive rw :=
| RUnroll (i : nat) | RUnrollChildren | REncapsulate | RSplit (i : nat) | RSplitDefault | RMerge.
Definition apply_rw (r : rw) (l : loop) : option loop :=
  match r with
  | RUnroll i => unroll_at i l
  | RUnrollChildren => unroll_children l
  | REncapsulate => Some (encapsulate l)
  | RSplit i => split_at i l
  | RSplitDefault => split_one_child l
  | RMerge => merge_single_child l
  end.
(* the windows the rewrite is known to lose (unroll / unroll_children only) *)
Definition lost_rw (r : rw) (l : loop) : list window :=
  match r with
  | RUnroll i => unroll_lost i l
  | RUnrollChildren => unroll_children_lost l
  | _ => []
  end.

(* executable guard of the known finding rewrite-drops-own-measurements: the rewritten loop has no own windows to lose
   (lost_rw is empty exactly when the unrolled loop carries no window, or is repeated 0 times [unroll] / at most once
   [unroll_children]) *)
Definition guard_C02_rewrite_drops_own_measurements (r : rw) (l : loop) : bool := is_nil (lost_rw r l).

(* ---- rewrites anywhere in the tree, and sequences of them (what flatten_and_balance / cleanup are made of) ------------- *)
Fixpoint apply_at (path : list nat) (r : rw) (l : loop) {struct path} : option loop :=
  match path with
  | [] => apply_rw r l
  | i :: rest =>
      match l with
      | Loop n wf ms ch =>
          match nth_error ch i with
          | Some c => match apply_at rest r c with
                      | Some c' => Some (Loop n wf ms (firstn i ch ++ [c'] ++ skipn (S i) ch))
                      | None => None
                      end
          | None => None
          end
      end
  end.
(* the windows lost by the rewrite, in the times of the root *)
Fixpoint lost_at (path : list nat) (r : rw) (l : loop) {struct path} : list window :=
  match path with
  | [] => lost_rw r l
  | i :: rest =>
      match l with
      | Loop n wf ms ch =>
          match nth_error ch i with
          | Some c => tile n (body_of wf (map ldur ch)) (shift (sumc (map ldur (firstn i ch))) (lost_at rest r c))
          | None => []
          end
      end
  end.
(* side conditions of the unroll rewrites (see ProofsRw.unroll_at_spec), executable *)
Definition side_b (r : rw) (l : loop) : bool :=
  match r with
  | RUnroll i => match l_wf l with None => true | Some _ => false end
                 || match nth_error (l_ch l) i with Some c => (1 <=? l_rep c)%nat | None => false end
  | RUnrollChildren => (1 <=? l_rep l)%nat
  | _ => true
  end.
Fixpoint side_at (path : list nat) (r : rw) (l : loop) {struct path} : bool :=
  match path with
  | [] => side_b r l
  | i :: rest => match nth_error (l_ch l) i with Some c => side_at rest r c | None => true end
  end.
Fixpoint run_seq (steps : list (list nat * rw)) (l : loop) : option (loop * list window) :=
  match steps with
  | [] => Some (l, [])
  | (path, r) :: rest =>
      match apply_at path r l with
      | Some l1 => match run_seq rest l1 with
                   | Some (l2, lost2) => Some (l2, lost2 ++ lost_at path r l)
                   | None => None
                   end
      | None => None
      end
  end.
Fixpoint sides_ok (steps : list (list nat * rw)) (l : loop) : bool :=
  match steps with
  | [] => true
  | (path, r) :: rest =>
      side_at path r l && match apply_at path r l with Some l1 => sides_ok rest l1 | None => true end
  end.
