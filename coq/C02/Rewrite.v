(* C02 — the structural rewrites of qupulse/program/loop.py that hardware preparation (flatten_and_balance, cleanup)
   is made of, as functions on the Loop model, with measurement windows.  Definitions only.
   The property's question: is get_measurement_windows() unchanged by the rewrite? *)
From Coq Require Import ZArith QArith Qcanon List Bool.
Require Import QV.C02.Spec QV.C02.Model.
Import ListNotations.
Open Scope Qc_scope.

(* Loop.unroll() called on child i of l: the child (which must have children) is replaced in its parent by
   repetition_count copies of its children (copy_tree_structure keeps the grandchildren's own measurements);
   THE UNROLLED CHILD'S OWN MEASUREMENTS ARE NOT KEPT ANYWHERE - that is what the code does. *)
Definition unroll_at (i : nat) (l : loop) : option loop :=
  match l with
  | Loop n wf ms ch =>
      match nth_error ch i with
      | Some (Loop cn _ _ (c0 :: cs)) =>
          Some (Loop n wf ms (firstn i ch ++ concat (repeat (c0 :: cs) cn) ++ skipn (S i) ch))
      | _ => None
      end
  end.
(* the windows unroll_at loses, in the parent's times *)
Definition unroll_lost (i : nat) (l : loop) : list window :=
  match l with
  | Loop n wf ms ch =>
      match nth_error ch i with
      | Some (Loop cn cwf cms cch) =>
          tile n (body_of wf (map ldur ch))
               (shift (sumc (map ldur (firstn i ch))) (tile cn (body_of cwf (map ldur cch)) cms))
      | None => []
      end
  end.

(* Loop.unroll_children(): children repeated repetition_count times, repetition_count := 1; the loop's own measurements
   stay as they are (now tiled once instead of repetition_count times) *)
Definition unroll_children (l : loop) : option loop :=
  match l with
  | Loop n wf ms (c0 :: cs) => Some (Loop 1 wf ms (concat (repeat (c0 :: cs) n)))
  | _ => None
  end.
Definition unroll_children_lost (l : loop) : list window :=
  match l with
  | Loop n wf ms ch => shift (body_of wf (map ldur ch)) (tile (n - 1) (body_of wf (map ldur ch)) ms)
  end.

(* Loop.encapsulate() *)
Definition encapsulate (l : loop) : loop :=
  match l with Loop n wf ms ch => Loop 1 None [] [Loop n wf ms ch] end.

(* Loop.split_one_child(child_index = i) *)
Definition split_at (i : nat) (l : loop) : option loop :=
  match l with
  | Loop n wf ms ch =>
      match nth_error ch i with
      | Some (Loop cn cwf cms cch) =>
          if (2 <=? cn)%nat
          then Some (Loop n wf ms (firstn i ch ++ [Loop (cn - 1) cwf cms cch; Loop 1 cwf cms cch] ++ skipn (S i) ch))
          else None
      | None => None
      end
  end.
(* the index split_one_child() picks without argument (non-volatile counts): the LAST child with count > 1 *)
Fixpoint split_default_index_from (k : nat) (ch : list loop) (acc : option nat) : option nat :=
  match ch with
  | [] => acc
  | c :: r => split_default_index_from (S k) r (if (2 <=? l_rep c)%nat then Some k else acc)
  end.
Definition split_default_index (ch : list loop) : option nat := split_default_index_from 0 ch None.
Definition split_one_child (l : loop) : option loop :=
  match split_default_index (l_ch l) with Some i => split_at i l | None => None end.

(* _has_single_child_that_can_be_merged / _merge_single_child *)
Definition can_merge (l : loop) : bool :=
  match l with Loop _ _ ms [Loop m _ _ _] => is_nil ms || (m =? 1)%nat | _ => false end.
Definition merge_single_child (l : loop) : option loop :=
  match l with
  | Loop n None ms [Loop m cwf cms cch] =>
      if is_nil ms || (m =? 1)%nat then Some (Loop (n * m) cwf (cms ++ ms) cch) else None
  | _ => None
  end.

(* what the harness applies to a hand-built loop *)
Inductive rw :=
| RUnroll (i : nat) | RUnrollChildren | REncapsulate | RSplit (i : nat) | RSplitDefault | RMerge.
Definition apply_rw (r : rw) (l : loop) : option loop :=
  match r with
  | RUnroll i => unroll_at i l
  | RUnrollChildren => unroll_children l
  | REncapsulate => Some (encapsulate l)
  | RSplit i => split_at i l
  | RSplitDefault => split_one_child l
  | RMerge => merge_single_child l
  end.
(* the windows the rewrite is known to lose (unroll / unroll_children only) *)
Definition lost_rw (r : rw) (l : loop) : list window :=
  match r with
  | RUnroll i => unroll_lost i l
  | RUnrollChildren => unroll_children_lost l
  | _ => []
  end.
