(* C02 — proofs, part 5: MappingPT's constructor-time merging of nested mappings preserves what the tree plays, lasts
   and denotes (the composed parameter substitution and the composed measurement renaming are the compositions). *)
From Coq Require Import ZArith QArith Qcanon Qround List Bool Permutation Lia.
Require Import QV.C02.Spec QV.C02.Model QV.C02.Proofs QV.C02.Proofs2 QV.C02.Merge.
Import ListNotations.
Open Scope Qc_scope.

Definition eqe (en en' : env) : Prop := forall x, en x = en' x.
Definition eqm (mm mm' : mmap) : Prop := forall k, mm k = mm' k.

(* ---- everything depends on the environment / mapping only pointwise (no functional extensionality needed) ----------- *)
Lemma eval_ext e en en' : eqe en en' -> eval e en = eval e en'.
Proof. intro H. induction e; cbn [eval]; auto; now rewrite IHe1, IHe2. Qed.
Lemma upd_ext en en' i v : eqe en en' -> eqe (upd en i v) (upd en' i v).
Proof. intros H x. unfold upd. destruct (N.eqb x i); auto. Qed.
Lemma menv_ext pm en en' : eqe en en' -> eqe (menv pm en) (menv pm en').
Proof. intros H x. unfold menv. destruct (lookup pm x); auto. now apply eval_ext. Qed.
Lemma mcomp_ext mml mm mm' : eqm mm mm' -> eqm (mcomp mml mm) (mcomp mml mm').
Proof. intros H k. unfold mcomp. destruct (lookup mml k) as [[v|]|]; auto. Qed.
Lemma eval_decls_ext ms en en' mm mm' : eqe en en' -> eqm mm mm' -> eval_decls ms en mm = eval_decls ms en' mm'.
Proof.
  intros He Hm. unfold eval_decls. induction ms as [|[[n b] l] ms IH]; cbn [flat_map]; [reflexivity|].
  rewrite IH. f_equal. cbn [eval_decl]. rewrite Hm, (eval_ext b en en' He), (eval_ext l en en' He). reflexivity.
Qed.
Lemma rep_count_ext c en en' : eqe en en' -> rep_count c en = rep_count c en'.
Proof. intro H. unfold rep_count. now rewrite (eval_ext c en en' H). Qed.
Lemma range_vals_ext a b s en en' : eqe en en' -> range_vals a b s en = range_vals a b s en'.
Proof. intro H. unfold range_vals. now rewrite (eval_ext a _ _ H), (eval_ext b _ _ H), (eval_ext s _ _ H). Qed.

Lemma existsb_Forall {A} (f g : A -> bool) l : Forall (fun x => f x = g x) l -> existsb f l = existsb g l.
Proof. induction 1; cbn [existsb]; congruence. Qed.
Lemma flat_map_Forall {A B} (f g : A -> list B) l : Forall (fun x => f x = g x) l -> flat_map f l = flat_map g l.
Proof. induction 1; cbn [flat_map]; congruence. Qed.
Lemma map_Forall {A B} (f g : A -> B) l : Forall (fun x => f x = g x) l -> map f l = map g l.
Proof. induction 1; cbn [map]; congruence. Qed.

Lemma existsb_map_comp {A B} (f : B -> bool) (h : A -> B) l : existsb f (map h l) = existsb (fun x => f (h x)) l.
Proof. induction l; cbn [map existsb]; congruence. Qed.

Lemma plays_ext p : forall en en', eqe en en' -> plays p en = plays p en'.
Proof.
  induction p using pt_ind'; intros en en' He; cbn [plays].
  - now rewrite (eval_ext d _ _ He).
  - apply existsb_Forall. eapply Forall_impl; [|exact H]. intros s Hs. now apply Hs.
  - now rewrite (IHp1 _ _ He), (IHp2 _ _ He).
  - apply existsb_Forall. eapply Forall_impl; [|exact H]. intros s Hs. now apply Hs.
  - now rewrite (rep_count_ext c _ _ He), (IHp _ _ He).
  - rewrite (range_vals_ext a b s _ _ He). apply existsb_Forall. apply Forall_forall. intros v _.
    apply IHp. now apply upd_ext.
  - apply IHp. now apply menv_ext.
  - now apply IHp.
  - now apply IHp.
  - now apply IHp.
Qed.

Lemma tdur_ext p : forall en en', eqe en en' -> tdur p en = tdur p en'.
Proof.
  induction p using pt_ind'; intros en en' He; cbn [tdur].
  - now rewrite (eval_ext d _ _ He).
  - assert (E : map (fun s => if plays s en then Some (tdur s en) else None) subs =
                map (fun s => if plays s en' then Some (tdur s en') else None) subs).
    { apply map_Forall. eapply Forall_impl; [|exact H]. intros s Hs. cbn beta.
      now rewrite (plays_ext s _ _ He), (Hs _ _ He). }
    now rewrite E.
  - now rewrite (plays_ext p1 _ _ He), (IHp1 _ _ He), (IHp2 _ _ He).
  - f_equal. apply map_Forall. eapply Forall_impl; [|exact H]. intros s Hs. now apply Hs.
  - now rewrite (rep_count_ext c _ _ He), (IHp _ _ He).
  - rewrite (range_vals_ext a b s _ _ He). f_equal. apply map_Forall. apply Forall_forall. intros v _.
    apply IHp. now apply upd_ext.
  - apply IHp. now apply menv_ext.
  - now apply IHp.
  - now apply IHp.
  - now apply IHp.
Qed.

Lemma adecls_ext p : forall en en' mm mm', eqe en en' -> eqm mm mm' -> adecls p en mm = adecls p en' mm'.
Proof.
  induction p using pt_ind'; intros en en' mm mm' He Hm; cbn [adecls]; try reflexivity.
  - now apply eval_decls_ext.
  - rewrite (eval_decls_ext ms _ _ _ _ He Hm). f_equal. apply flat_map_Forall.
    eapply Forall_impl; [|exact H]. intros s Hs. now apply Hs.
  - now rewrite (eval_decls_ext ms _ _ _ _ He Hm), (IHp1 _ _ _ _ He Hm), (IHp2 _ _ _ _ He Hm).
  - apply IHp; [now apply menv_ext | now apply mcomp_ext].
  - now rewrite (tdur_ext p _ _ He), (IHp _ _ _ _ He Hm).
  - now apply IHp.
  - now apply IHp.
Qed.

Lemma denote_ext p : forall en en' mm mm', eqe en en' -> eqm mm mm' -> denote p en mm = denote p en' mm'.
Proof.
  induction p using pt_ind'; intros en en' mm mm' He Hm.
  - cbn [denote]. now rewrite (plays_ext _ _ _ He), (adecls_ext _ _ _ _ _ He Hm).
  - cbn [denote]. now rewrite (plays_ext _ _ _ He), (adecls_ext _ _ _ _ _ He Hm).
  - cbn [denote]. now rewrite (plays_ext _ _ _ He), (adecls_ext _ _ _ _ _ He Hm).
  - change (denote (Seq ms subs) en mm) with
      (if plays (Seq ms subs) en
       then eval_decls ms en mm ++ seq_windows 0 (map (fun s => (tdur s en, denote s en mm)) subs) else []).
    change (denote (Seq ms subs) en' mm') with
      (if plays (Seq ms subs) en'
       then eval_decls ms en' mm' ++ seq_windows 0 (map (fun s => (tdur s en', denote s en' mm')) subs) else []).
    rewrite (plays_ext _ _ _ He), (eval_decls_ext ms _ _ _ _ He Hm). destruct (plays _ _); [|reflexivity]. do 2 f_equal.
    apply map_Forall. eapply Forall_impl; [|exact H]. intros s Hs. cbn beta.
    now rewrite (tdur_ext s _ _ He), (Hs _ _ _ _ He Hm).
  - cbn [denote]. now rewrite (plays_ext _ _ _ He), (eval_decls_ext ms _ _ _ _ He Hm), (tdur_ext p _ _ He),
      (IHp _ _ _ _ He Hm), (rep_count_ext c _ _ He).
  - change (denote (For ms i a b s p) en mm) with
      (if plays (For ms i a b s p) en
       then eval_decls ms en mm ++
            seq_windows 0 (map (fun v => (tdur p (upd en i (Zc v)), denote p (upd en i (Zc v)) mm)) (range_vals a b s en))
       else []).
    change (denote (For ms i a b s p) en' mm') with
      (if plays (For ms i a b s p) en'
       then eval_decls ms en' mm' ++
            seq_windows 0 (map (fun v => (tdur p (upd en' i (Zc v)), denote p (upd en' i (Zc v)) mm')) (range_vals a b s en'))
       else []).
    rewrite (plays_ext _ _ _ He), (eval_decls_ext ms _ _ _ _ He Hm), (range_vals_ext a b s _ _ He). destruct (plays _ _); [|reflexivity]. do 2 f_equal.
    apply map_Forall. apply Forall_forall. intros v _. cbn beta.
    rewrite (tdur_ext p _ _ (upd_ext _ _ i (Zc v) He)), (IHp _ _ _ _ (upd_ext _ _ i (Zc v) He) Hm). reflexivity.
  - cbn [denote]. apply IHp; [now apply menv_ext | now apply mcomp_ext].
  - cbn [denote]. now rewrite (tdur_ext p _ _ He), (IHp _ _ _ _ He Hm).
  - cbn [denote]. now apply IHp.
  - cbn [denote]. now apply IHp.
Qed.

(* ---- the merged mappings are the compositions ---------------------------------------------------------------------------- *)
Lemma esubst_eval e pm en : eval (esubst e pm) en = eval e (menv pm en).
Proof.
  induction e; cbn [esubst eval]; try congruence.
  unfold menv. destruct (lookup pm x); reflexivity.
Qed.

Lemma lookup_app {A} (l1 l2 : list (N * A)) k :
  lookup (l1 ++ l2) k = match lookup l1 k with Some v => Some v | None => lookup l2 k end.
Proof. induction l1 as [|[k' v] l1 IH]; cbn [app lookup]; [reflexivity|]. destruct (N.eqb k k'); auto. Qed.
Lemma lookup_map {A B} (f : A -> B) (l : list (N * A)) k :
  lookup (map (fun kv => (fst kv, f (snd kv))) l) k = option_map f (lookup l k).
Proof. induction l as [|[k' v] l IH]; cbn [map lookup fst snd]; [reflexivity|]. destruct (N.eqb k k'); auto. Qed.
Lemma lookup_filter {A} (g : N -> bool) (l : list (N * A)) k :
  lookup (filter (fun kv => g (fst kv)) l) k = if g k then lookup l k else None.
Proof.
  induction l as [|[k' v] l IH]; cbn [filter lookup fst]; [now destruct (g k)|].
  destruct (g k') eqn:Eg; cbn [lookup]; destruct (N.eqb k k') eqn:Ek; auto.
  - apply N.eqb_eq in Ek. subst. now rewrite Eg.
  - apply N.eqb_eq in Ek. subst. rewrite Eg in *. exact IH.
Qed.

Lemma menv_merge pm2 pm1 en : eqe (menv (merge_pm pm2 pm1) en) (menv pm1 (menv pm2 en)).
Proof.
  intro x. unfold menv at 1 2, merge_pm. rewrite lookup_app.
  rewrite (lookup_map (fun e => esubst e pm2) pm1 x).
  destruct (lookup pm1 x) as [e|] eqn:E1; cbn [option_map].
  - apply esubst_eval.
  - rewrite (lookup_filter (fun k => negb (has_key pm1 k)) pm2 x). unfold has_key. rewrite E1. cbn [negb].
    unfold menv. reflexivity.
Qed.

Lemma mcomp_merge mml2 mml1 mm : eqm (mcomp (merge_mm mml2 mml1) mm) (mcomp mml1 (mcomp mml2 mm)).
Proof.
  intro k. unfold mcomp at 1 2, merge_mm. rewrite lookup_app.
  rewrite (lookup_map (fun o => match o with
                                | Some v => match lookup mml2 v with Some r => r | None => Some v end
                                | None => None end) mml1 k).
  destruct (lookup mml1 k) as [[v|]|] eqn:E1; cbn [option_map].
  - unfold mcomp. destruct (lookup mml2 v) as [[v'|]|]; reflexivity.
  - reflexivity.
  - rewrite (lookup_filter (fun k => negb (has_key mml1 k)) mml2 k). unfold has_key. rewrite E1. cbn [negb].
    unfold mcomp. reflexivity.
Qed.

(* ---- one constructor call ---------------------------------------------------------------------------------------------------- *)
Lemma mk_map_cases pm2 mml2 cs2 body :
  (exists pm1 mml1 b, body = Map pm1 mml1 [] b /\
                      mk_map pm2 mml2 cs2 body = Map (merge_pm pm2 pm1) (merge_mm mml2 mml1) cs2 b)
  \/ mk_map pm2 mml2 cs2 body = Map pm2 mml2 cs2 body.
Proof.
  destruct body; try (right; reflexivity). destruct cs; [left; eauto | right; reflexivity].
Qed.

Lemma mk_map_sem pm2 mml2 cs2 body en mm :
  plays (mk_map pm2 mml2 cs2 body) en = plays (Map pm2 mml2 cs2 body) en /\
  tdur (mk_map pm2 mml2 cs2 body) en = tdur (Map pm2 mml2 cs2 body) en /\
  adecls (mk_map pm2 mml2 cs2 body) en mm = adecls (Map pm2 mml2 cs2 body) en mm /\
  denote (mk_map pm2 mml2 cs2 body) en mm = denote (Map pm2 mml2 cs2 body) en mm.
Proof.
  destruct (mk_map_cases pm2 mml2 cs2 body) as [(pm1 & mml1 & b & -> & ->)| ->]; [|auto].
  cbn [plays tdur adecls denote].
  pose proof (menv_merge pm2 pm1 en) as He. pose proof (mcomp_merge mml2 mml1 mm) as Hm.
  repeat split.
  - now apply plays_ext.
  - now apply tdur_ext.
  - now apply adecls_ext.
  - now apply denote_ext.
Qed.

(* ---- the whole tree as the constructors build it ------------------------------------------------------------------------------- *)
Definition sem_eq (p' p : pt) : Prop :=
  forall en mm, plays p' en = plays p en /\ tdur p' en = tdur p en /\ adecls p' en mm = adecls p en mm /\
                denote p' en mm = denote p en mm.

Lemma Forall_map_eq {A B} (f g : A -> B) (h : A -> A) l : Forall (fun x => f (h x) = g x) l -> map f (map h l) = map g l.
Proof. rewrite map_map. apply map_Forall. Qed.

Theorem norm_sem p : sem_eq (norm p) p.
Proof.
  induction p using pt_ind'; intros en mm; cbn [norm].
  - auto.
  - (* Multi *)
    assert (Hp : forall s, In s subs -> plays (norm s) en = plays s en) by
      (intros s Hs; rewrite Forall_forall in H; apply (H s Hs en mm)).
    assert (Ht : forall s, In s subs -> tdur (norm s) en = tdur s en) by
      (intros s Hs; rewrite Forall_forall in H; apply (H s Hs en mm)).
    assert (Ha : forall s, In s subs -> adecls (norm s) en mm = adecls s en mm) by
      (intros s Hs; rewrite Forall_forall in H; apply (H s Hs en mm)).
    assert (P : plays (Multi ms (map norm subs)) en = plays (Multi ms subs) en).
    { cbn [plays]. rewrite existsb_map_comp. apply existsb_Forall. apply Forall_forall. auto. }
    assert (A : adecls (Multi ms (map norm subs)) en mm = adecls (Multi ms subs) en mm).
    { cbn [adecls]. f_equal. rewrite flat_map_concat_map, map_map, <- flat_map_concat_map.
      apply flat_map_Forall. apply Forall_forall. auto. }
    repeat split; auto.
    + cbn [tdur]. rewrite map_map.
      assert (E : map (fun s => if plays (norm s) en then Some (tdur (norm s) en) else None) subs =
                  map (fun s => if plays s en then Some (tdur s en) else None) subs).
      { apply map_Forall. apply Forall_forall. intros s Hs. cbn beta. now rewrite Hp, Ht. }
      now rewrite E.
    + cbn [denote]. now rewrite P, A.
  - (* Arith *)
    destruct (IHp1 en mm) as (A1 & A2 & A3 & A4), (IHp2 en mm) as (B1 & B2 & B3 & B4).
    assert (P : plays (Arith ms (norm p1) (norm p2)) en = plays (Arith ms p1 p2) en) by (cbn [plays]; congruence).
    assert (A : adecls (Arith ms (norm p1) (norm p2)) en mm = adecls (Arith ms p1 p2) en mm) by (cbn [adecls]; congruence).
    repeat split; auto.
    + cbn [tdur]. now rewrite A1, A2, B2.
    + cbn [denote]. now rewrite P, A.
  - (* Seq *)
    assert (Hp : forall s, In s subs -> plays (norm s) en = plays s en) by
      (intros s Hs; rewrite Forall_forall in H; apply (H s Hs en mm)).
    assert (Ht : forall s, In s subs -> tdur (norm s) en = tdur s en) by
      (intros s Hs; rewrite Forall_forall in H; apply (H s Hs en mm)).
    assert (Hd : forall s, In s subs -> denote (norm s) en mm = denote s en mm) by
      (intros s Hs; rewrite Forall_forall in H; apply (H s Hs en mm)).
    assert (P : plays (Seq ms (map norm subs)) en = plays (Seq ms subs) en).
    { cbn [plays]. rewrite existsb_map_comp. apply existsb_Forall. apply Forall_forall. auto. }
    repeat split; auto.
    + cbn [tdur]. f_equal. rewrite map_map. apply map_Forall. apply Forall_forall. auto.
    + change (denote (Seq ms (map norm subs)) en mm) with
        (if plays (Seq ms (map norm subs)) en
         then eval_decls ms en mm ++ seq_windows 0 (map (fun s => (tdur s en, denote s en mm)) (map norm subs)) else []).
      change (denote (Seq ms subs) en mm) with
        (if plays (Seq ms subs) en
         then eval_decls ms en mm ++ seq_windows 0 (map (fun s => (tdur s en, denote s en mm)) subs) else []).
      rewrite P. destruct (plays (Seq ms subs) en); [|reflexivity]. do 2 f_equal. rewrite map_map. apply map_Forall. apply Forall_forall. intros s Hs. cbn beta.
      now rewrite Ht, Hd.
  - (* Rep *)
    destruct (IHp en mm) as (A1 & A2 & A3 & A4). cbn [plays tdur adecls denote]. rewrite ?A1, ?A2, ?A3, ?A4. auto.
  - (* For *)
    assert (P : plays (For ms i a b s (norm p)) en = plays (For ms i a b s p) en).
    { cbn [plays]. apply existsb_Forall. apply Forall_forall. intros v _. apply (IHp (upd en i (Zc v)) mm). }
    repeat split; auto.
    + cbn [tdur]. f_equal. apply map_Forall. apply Forall_forall. intros v _. apply (IHp (upd en i (Zc v)) mm).
    + change (denote (For ms i a b s (norm p)) en mm) with
        (if plays (For ms i a b s (norm p)) en
         then eval_decls ms en mm ++
              seq_windows 0 (map (fun v => (tdur (norm p) (upd en i (Zc v)), denote (norm p) (upd en i (Zc v)) mm))
                                 (range_vals a b s en))
         else []).
      change (denote (For ms i a b s p) en mm) with
        (if plays (For ms i a b s p) en
         then eval_decls ms en mm ++
              seq_windows 0 (map (fun v => (tdur p (upd en i (Zc v)), denote p (upd en i (Zc v)) mm)) (range_vals a b s en))
         else []).
      rewrite P. destruct (plays (For ms i a b s p) en); [|reflexivity]. do 2 f_equal. apply map_Forall. apply Forall_forall. intros v _. cbn beta.
      destruct (IHp (upd en i (Zc v)) mm) as (_ & A2 & _ & A4). now rewrite A2, A4.
  - (* Map *)
    destruct (mk_map_sem pm mml cs (norm p) en mm) as (A1 & A2 & A3 & A4).
    destruct (IHp (menv pm en) (mcomp mml mm)) as (B1 & B2 & B3 & B4).
    rewrite A1, A2, A3, A4. cbn [plays tdur adecls denote]. auto.
  - destruct (IHp en mm) as (A1 & A2 & A3 & A4). cbn [plays tdur adecls denote]. rewrite ?A1, ?A2, ?A3, ?A4. auto.
  - destruct (IHp en mm) as (A1 & A2 & A3 & A4). cbn [plays tdur adecls denote]. rewrite ?A1, ?A2, ?A3, ?A4. auto.
  - destruct (IHp en mm) as (A1 & A2 & A3 & A4). cbn [plays tdur adecls denote]. rewrite ?A1, ?A2, ?A3, ?A4. auto.
Qed.

(* the program built from the tree the constructors really produce reports the windows the tree AS WRITTEN denotes *)
Theorem norm_program_windows p en mm prog :
  create_program (norm p) en mm = Program prog ->
  ldur prog = tdur p en /\ Permutation (loop_windows prog) (denote p en mm).
Proof.
  intro H. destruct (create_program_windows (norm p) en mm prog H) as (_ & Hd & Hw).
  destruct (norm_sem p en mm) as (_ & A2 & _ & A4). rewrite <- A2, <- A4. auto.
Qed.

(* the constructors leave no constraint-free mapping directly inside a mapping (chains collapse completely) *)
Lemma forallb_map_norm subs : Forall (fun p => merged (norm p) = true) subs -> forallb merged (map norm subs) = true.
Proof. induction 1; cbn [map forallb]; [reflexivity|]. now rewrite H, IHForall. Qed.

Theorem norm_merged p : merged (norm p) = true.
Proof.
  induction p using pt_ind'; cbn [norm merged]; auto.
  - now apply forallb_map_norm.
  - now rewrite IHp1, IHp2.
  - now apply forallb_map_norm.
  - unfold mk_map. destruct (norm p) eqn:E; cbn [merged] in *; rewrite ?IHp; try reflexivity.
    destruct cs0; cbn [merged]; [exact IHp | now rewrite IHp].
Qed.
