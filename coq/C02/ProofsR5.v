(* C02 round 5 — (a) the total form of the main theorem (an acceptable assignment of a template that plays something
   DOES get a program, and its windows are the denoted ones); (b) flatten_and_balance on loops whose inner nodes carry
   no waveform (every program the builder produces): the side conditions of all rewrites it performs hold, so the
   earlier hypothesis `sides_ok st l` is discharged; (c) the proof scripts that used to sit in Props.v. *)
From Coq Require Import ZArith QArith Qcanon List Bool Permutation Lia.
Require Import QV.C02.Spec QV.C02.Model QV.C02.Proofs QV.C02.Proofs2 QV.C02.Proofs3.
Require Import QV.C02.Stack QV.C02.ProofsStack QV.C02.Merge QV.C02.ProofsMerge QV.C02.Rewrite QV.C02.ProofsRw QV.C02.ProofsAccept.
Require Import QV.C02.Flatten QV.C02.ProofsFlat QV.C02.Vol QV.C02.ProofsVol QV.C02.Params QV.C02.ProofsParams.
Import ListNotations.
Open Scope Qc_scope.

(* ---- (a) ------------------------------------------------------------------------------------------------------------ *)
Lemma windows_total p en mm :
  must_accept p en = true -> plays p en = true ->
  exists prog, create_program p en mm = Program prog /\ ldur prog = tdur p en /\
               Permutation (loop_windows prog) (denote p en mm).
Proof.
  intros Ha Hp. destruct (create_program p en mm) as [k| |prog] eqn:E.
  - exfalso. exact (must_accept_not_rejected p en mm Ha k E).
  - exfalso. apply (create_program_none p en mm (must_accept_checks p en mm Ha)) in E. congruence.
  - exists prog. split; [reflexivity|]. destruct (create_program_windows p en mm prog E) as (_ & Hd & Hw). auto.
Qed.
Example windows_total_nonvacuous :
  let a := Atom false (EC (Q2Qc 3)) [(1%N, EC (Q2Qc 1), EC (Q2Qc 1))] in
  let p := Seq [(2%N, EC (Q2Qc 0), EC (Q2Qc 9))] [a; Rev (Rep [] (EC (Q2Qc 2)) (Map [] [(1%N, Some 3%N)] [] a))] in
  must_accept p (fun _ => Q2Qc 0) && plays p (fun _ => Q2Qc 0) && (length (denote p (fun _ => Q2Qc 0) Some) =? 4)%nat = true.
Proof. vm_compute. reflexivity. Qed.

(* ---- (b) ------------------------------------------------------------------------------------------------------------ *)
(* the rewrites flatten_and_balance performs *)
Definition fab_rw (r : rw) : bool := match r with RUnroll _ | REncapsulate | RMerge => true | _ => false end.
(* a node that has children carries no waveform (true of every program the builder produces: wfl_nowf) *)
Fixpoint nowf (l : loop) : bool :=
  match l with
  | Loop _ wf _ ch => (is_nil ch || match wf with None => true | Some _ => false end) && forallb nowf ch
  end.

Lemma wfl_nowf l : wfl l = true -> nowf l = true.
Proof.
  induction l as [n wf ms ch IH] using loop_ind'. cbn [wfl nowf]. destruct ch as [|c ch]; [now destruct wf|].
  destruct wf; [discriminate|]. intro H. cbn [is_nil orb andb].
  apply forallb_forall. intros x Hx. rewrite Forall_forall in IH. apply IH; [exact Hx|].
  rewrite forallb_forall in H. now apply H.
Qed.

Lemma forallb_concat_repeat {A} (f : A -> bool) l n : forallb f l = true -> forallb f (concat (repeat l n)) = true.
Proof. intro H. induction n; cbn; [reflexivity|]. now rewrite forallb_app, H, IHn. Qed.
Lemma forallb_split {A} (f : A -> bool) l i :
  forallb f l = true -> forallb f (firstn i l) = true /\ forallb f (skipn i l) = true.
Proof. intro H. rewrite <- (firstn_skipn i l), forallb_app in H. now apply andb_prop in H. Qed.
Lemma forallb_firstn {A} (f : A -> bool) l i : forallb f l = true -> forallb f (firstn i l) = true.
Proof. intro H. now apply (forallb_split f l i). Qed.
Lemma forallb_skipn {A} (f : A -> bool) l i : forallb f l = true -> forallb f (skipn i l) = true.
Proof. intro H. now apply (forallb_split f l i). Qed.
Lemma forallb_nth {A} (f : A -> bool) l i x : forallb f l = true -> nth_error l i = Some x -> f x = true.
Proof. rewrite forallb_forall. intros H Hn. apply H. eapply nth_error_In. exact Hn. Qed.

Lemma nowf_apply_rw r l l' : fab_rw r = true -> nowf l = true -> apply_rw r l = Some l' ->
  nowf l' = true /\ side_b r l = true.
Proof.
  destruct r; try discriminate; intros _ Hn H; cbn [apply_rw] in H.
  - (* unroll *)
    destruct l as [n wf ms ch]. cbn [unroll_at] in H.
    destruct (nth_error ch i) as [[cn cwf cms [|c0 cs]]|] eqn:E; try discriminate.
    injection H as <-. cbn [nowf] in Hn. apply andb_prop in Hn as [Hw Hc].
    assert (Hwf : wf = None).
    { destruct ch; [destruct i; discriminate|]. cbn in Hw. now destruct wf. }
    subst wf. split.
    + cbn [nowf]. apply andb_true_intro. split; [now rewrite orb_true_r|].
      pose proof (forallb_nth _ _ _ _ Hc E) as Hx. cbn [nowf] in Hx. apply andb_prop in Hx as [_ Hx].
      rewrite !forallb_app.
      change (match ch with [] => [] | _ :: l => skipn i l end) with (skipn (S i) ch).
      rewrite forallb_firstn by exact Hc. rewrite forallb_skipn by exact Hc.
      rewrite forallb_concat_repeat by exact Hx. reflexivity.
    + reflexivity.
  - (* encapsulate *)
    injection H as <-. destruct l as [n wf ms ch]. split; [|reflexivity]. cbn [encapsulate nowf forallb is_nil orb andb].
    cbn [nowf] in Hn. now rewrite Hn.
  - (* merge *)
    destruct l as [n wf ms ch]. cbn [merge_single_child] in H. destruct wf; [discriminate|].
    destruct ch as [|[m cwf cms cch] [|? ?]]; try discriminate.
    destruct (is_nil ms || (m =? 1)%nat); [|discriminate]. injection H as <-. split; [|reflexivity].
    cbn [nowf forallb] in Hn. rewrite andb_true_r in Hn. cbn [is_nil orb andb] in Hn. exact Hn.
Qed.

Lemma nowf_replace n wf ms ch i c c' :
  nowf (Loop n wf ms ch) = true -> nth_error ch i = Some c -> nowf c' = true ->
  nowf (Loop n wf ms (firstn i ch ++ [c'] ++ skipn (S i) ch)) = true.
Proof.
  cbn [nowf]. intros H E Hc'. apply andb_prop in H as [Hw Hc]. apply andb_true_intro. split.
  - destruct ch; [destruct i; discriminate|]. cbn in Hw. rewrite Hw. now rewrite orb_true_r.
  - rewrite !forallb_app. rewrite forallb_firstn by exact Hc. rewrite forallb_skipn by exact Hc. cbn. now rewrite Hc'.
Qed.

Lemma nowf_apply_at path : forall r l l', fab_rw r = true -> nowf l = true -> apply_at path r l = Some l' ->
  nowf l' = true /\ side_at path r l = true.
Proof.
  induction path as [|i rest IH]; intros r l l' Hr Hn H.
  - cbn in *. now apply nowf_apply_rw.
  - destruct l as [n wf ms ch]. cbn [apply_at] in H. cbn [side_at l_ch].
    destruct (nth_error ch i) as [c|] eqn:E; [|discriminate].
    destruct (apply_at rest r c) as [c'|] eqn:Ec; [|discriminate]. injection H as <-.
    assert (Hcn : nowf c = true).
    { cbn [nowf] in Hn. apply andb_prop in Hn as [_ Hc]. exact (forallb_nth _ _ _ _ Hc E). }
    destruct (IH r c c' Hr Hcn Ec) as [A B]. split; [|exact B]. now apply (nowf_replace n wf ms ch i c c').
Qed.

Lemma sides_ok_of st : forall l l' lost,
  Forall (fun s => fab_rw (snd s) = true) st -> nowf l = true -> run_seq st l = Some (l', lost) ->
  sides_ok st l = true /\ nowf l' = true.
Proof.
  induction st as [|[p r] st IH]; intros l l' lost Hf Hn H.
  - cbn in H. injection H as <- _. split; [reflexivity | exact Hn].
  - cbn [run_seq] in H. cbn [sides_ok]. inversion Hf as [|? ? Hr Hf']; subst. cbn [snd] in Hr.
    destruct (apply_at p r l) as [l1|] eqn:E; [|discriminate].
    destruct (run_seq st l1) as [[l2 lost2]|] eqn:E2; [|discriminate]. injection H as <- _.
    destruct (nowf_apply_at p r l l1 Hr Hn E) as [A B]. rewrite B.
    destruct (IH l1 l2 lost2 Hf' A E2) as [C D]. now rewrite C.
Qed.

Lemma fab_steps_kind fuel : forall d i l l' st, fab fuel d i l = Some (l', st) ->
  Forall (fun s => fab_rw (snd s) = true) st.
Proof.
  induction fuel as [|f IH]; intros d i l l' st H; [discriminate|].
  cbn [fab] in H.
  assert (Hstep : forall path r, fab_rw r = true ->
            match apply_at path r l with
            | Some l1 => match fab f d i l1 with Some (l2, st) => Some (l2, (path, r) :: st) | None => None end
            | None => None
            end = Some (l', st) -> Forall (fun s => fab_rw (snd s) = true) st).
  { intros path r Hr Hs. destruct (apply_at path r l) as [l1|] eqn:E; [|discriminate].
    destruct (fab f d i l1) as [[l2 st2]|] eqn:E2; [|discriminate]. injection Hs as <- <-.
    constructor; [exact Hr | eapply IH; exact E2]. }
  destruct (nth_error (l_ch l) i) as [sub|] eqn:En.
  2:{ injection H as <- <-. constructor. }
  destruct (Z.of_nat (depth sub) <? d - 1)%Z; [eapply Hstep; [|exact H]; reflexivity|].
  destruct (negb (balanced sub)).
  { destruct (fab f (d - 1) 0 sub) as [[sub' st1]|] eqn:E1; [|discriminate].
    destruct (fab f d i (replace_child i sub' l)) as [[l2 st2]|] eqn:E2; [|discriminate].
    injection H as <- <-. apply Forall_app. split.
    - apply Forall_forall. intros s Hs. apply in_map_iff in Hs as [s0 [<- Hs0]]. cbn [pre snd].
      pose proof (IH _ _ _ _ _ E1) as F1. rewrite Forall_forall in F1. now apply F1.
    - eapply IH. exact E2. }
  destruct (Z.of_nat (depth sub) =? d - 1)%Z; [now apply (IH _ _ _ _ _ H)|].
  destruct (can_merge sub); [eapply Hstep; [|exact H]; reflexivity|].
  destruct (negb (is_leaf sub)); [eapply Hstep; [|exact H]; reflexivity|].
  now apply (IH _ _ _ _ _ H).
Qed.

Theorem fab_windows_nowf fuel d l l' st :
  nowf l = true -> flatten_and_balance fuel d l = Some (l', st) ->
  sides_ok st l = true /\ nowf l' = true /\ ldur l' = ldur l /\
  exists lost, run_seq st l = Some (l', lost) /\ Permutation (loop_windows l' ++ lost) (loop_windows l).
Proof.
  intros Hn H. destruct (fab_is_run_seq _ _ _ _ _ _ H) as [lost Hr].
  destruct (sides_ok_of st l l' lost (fab_steps_kind _ _ _ _ _ _ H) Hn Hr) as [Hs Hn'].
  destruct (run_seq_spec _ _ _ _ Hr Hs) as [A B]. repeat split; auto. now exists lost.
Qed.

(* ... in particular for every program the builder produces: flatten_and_balance keeps the template's duration, and
   what it reports afterwards together with the windows of the loops it unrolled is what the template denotes *)
Theorem fab_program_windows p en mm prog fuel d l' st :
  create_program p en mm = Program prog -> flatten_and_balance fuel d prog = Some (l', st) ->
  ldur l' = tdur p en /\ exists lost, Permutation (loop_windows l' ++ lost) (denote p en mm).
Proof.
  intros Hp H. destruct (create_program_windows p en mm prog Hp) as (_ & Hd & Hw).
  destruct (fab_windows_nowf fuel d prog l' st (wfl_nowf _ (program_wfl p en mm prog Hp)) H)
    as (_ & _ & A & lost & _ & B).
  split; [congruence|]. exists lost. now rewrite B.
Qed.
Example fab_program_nonvacuous :
  let a := Atom false (EC (Q2Qc 1)) [(1%N, EC (Q2Qc 0), EC (Q2Qc 1))] in
  let p := Seq [] [a; Rep [(2%N, EC (Q2Qc 0), EC (Q2Qc 1))] (EC (Q2Qc 2)) (Rep [] (EC (Q2Qc 3)) a)] in
  match create_program p (fun _ => Q2Qc 0) Some with
  | Program prog =>
      match flatten_and_balance 50 1 prog with
      | Some (l', st) => (1 <=? length st)%nat && (depth l' =? 1)%nat && (1 <=? length (loop_windows l'))%nat
      | None => false
      end
  | _ => false
  end = true.
Proof. vm_compute. reflexivity. Qed.

(* ---- (c) proof scripts of statements in Props.v ------------------------------------------------------------------------ *)
Lemma windows_perm p en mm prog :
  create_program p en mm = Program prog -> Permutation (loop_windows prog) (denote p en mm).
Proof. intro H. apply (create_program_windows p en mm prog H). Qed.
Lemma program_duration p en mm prog : create_program p en mm = Program prog -> ldur prog = tdur p en.
Proof. intro H. apply (create_program_windows p en mm prog H). Qed.
Lemma empty_denotes_nothing p en mm : plays p en = false -> denote p en mm = [] /\ tdur p en = 0.
Proof. intro H. split; [now apply denote_noplay | now apply tdur_noplay]. Qed.

Lemma stack_windows p en mm prog :
  check p en mm = None -> sm_program p en mm = Some (Some prog) ->
  ldur prog = tdur p en /\ Permutation (loop_windows prog) (denote p en mm).
Proof.
  intros Hc H. rewrite stack_program in H. injection H as H.
  assert (Hp : create_program p en mm = Program prog) by (unfold create_program; rewrite Hc, H; reflexivity).
  destruct (create_program_windows p en mm prog Hp) as (_ & Hd & Hw). auto.
Qed.

Lemma mapping_merge p en mm :
  plays (norm p) en = plays p en /\ tdur (norm p) en = tdur p en /\ denote (norm p) en mm = denote p en mm.
Proof. destruct (norm_sem p en mm) as (A & B & _ & D). auto. Qed.
Lemma merge_composes pm2 pm1 mml2 mml1 en mm :
  (forall x, menv (merge_pm pm2 pm1) en x = menv pm1 (menv pm2 en) x) /\
  (forall k, mcomp (merge_mm mml2 mml1) mm k = mcomp mml1 (mcomp mml2 mm) k).
Proof. split; [apply menv_merge | apply mcomp_merge]. Qed.

Lemma rewrites_preserve r l l' :
  apply_rw r l = Some l' ->
  match r with
  | RUnroll i => l_wf l = None \/ exists c, nth_error (l_ch l) i = Some c /\ (1 <= l_rep c)%nat
  | RUnrollChildren => (1 <= l_rep l)%nat
  | _ => True
  end ->
  guard_C02_rewrite_drops_own_measurements r l = true ->
  ldur l' = ldur l /\ Permutation (loop_windows l') (loop_windows l).
Proof.
  intros H Hs Hg. destruct (apply_rw_spec r l l' H Hs) as [R1 R2]. split; [exact R1|].
  unfold guard_C02_rewrite_drops_own_measurements in Hg. destruct (lost_rw r l); [|discriminate].
  now rewrite app_nil_r in R2.
Qed.

Lemma accepts p en mm :
  must_accept p en = true -> check p en mm = None /\ forall k, create_program p en mm <> Rejected k.
Proof. intro H. split; [now apply must_accept_checks | now apply must_accept_not_rejected]. Qed.
Lemma refusal_is_legitimate p en mm k : create_program p en mm = Rejected k -> In (kclass k) (viol p en).
Proof.
  intro H. unfold create_program in H. destruct (check p en mm) as [k'|] eqn:E.
  - injection H as <-. now apply (check_viol p en mm).
  - destruct (to_program _); discriminate.
Qed.

Lemma volatile_update_refuted :
  exists p en en2 mm ws,
    (forall x, x <> 5%N -> en x = en2 x) /\ updated_windows p en en2 mm = Some ws /\
    ~ Permutation ws (denote p en2 mm).
Proof.
  exists (Seq [] [Rep [] (EV 5%N) (Atom false (EC (Q2Qc 2)) [(0%N, EC (Q2Qc 0), EC (Q2Qc 1))]);
                  Atom false (EC (Q2Qc 1)) [(1%N, EC (Q2Qc 0), EC (Q2Qc 1))]]).
  exists (fun _ => Q2Qc 2), (fun x => if N.eqb x 5 then Q2Qc 3 else Q2Qc 2), Some.
  eexists. split; [|split].
  - intros x Hx. destruct (N.eqb_spec x 5); [contradiction | reflexivity].
  - vm_compute. reflexivity.
  - intro H. apply Permutation_sym in H.
    apply (Permutation_in (1%N, Q2Qc 6, Q2Qc 1)) in H.
    + vm_compute in H. repeat (destruct H as [H|H]; [inversion H|]). exact H.
    + vm_compute. do 3 right. left. reflexivity.
Qed.
Lemma volatile_unchanged a b : stable a b = true -> vwin a b = loop_windows a /\ zip_rep a b = a.
Proof. intro H. split; [now apply stable_vwin | now apply stable_zip]. Qed.
Lemma volatile_guard_needed : exists a b, vwok a b = false /\ vwin a b <> loop_windows (zip_rep a b).
Proof. eexists. eexists. exact vwok_guard_needed. Qed.

Lemma declared_parameters_suffice p en en' :
  (forall x, In x (params p) -> en x = en' x) -> forall mm,
  plays p en = plays p en' /\ tdur p en = tdur p en' /\ denote p en mm = denote p en' mm /\
  to_program (build p en mm fresh) = to_program (build p en' mm fresh).
Proof.
  intros H mm. destruct (params_suffice p en en' H) as (A & B & _ & D & E & _).
  repeat split; auto. now rewrite E.
Qed.
