(* C02 round 4 — an atomic template contributes the same windows as a part of an atomic composite (collected through
   get_measurement_windows, Spec.adecls) and as a node of its own (built through _internal_create_program, Spec.denote):
   the two code paths are in sync, wrappers (TimeReversalPT, ParallelChannelPT / ArithmeticPT, MappingPT) included. *)
From Coq Require Import ZArith QArith Qcanon List Bool.
Require Import QV.common.Util QV.C02.Spec QV.C02.Model QV.C02.Proofs QV.C02.Proofs2.
Import ListNotations.
Open Scope Qc_scope.

Lemma atomic_position_agrees p : forall en mm,
  is_atomic p = true -> plays p en = true -> denote p en mm = adecls p en mm.
Proof.
  induction p using pt_ind'; intros en mm Ha Hp; cbn [is_atomic] in Ha; try discriminate.
  - cbn [denote]. now rewrite Hp.
  - cbn [denote]. now rewrite Hp.
  - cbn [denote]. now rewrite Hp.
  - cbn [denote adecls]. cbn [plays] in Hp. now apply IHp.
  - cbn [denote adecls]. cbn [plays] in Hp. now rewrite IHp.
  - cbn [denote adecls]. cbn [plays] in Hp. now apply IHp.
  - cbn [denote adecls]. cbn [plays] in Hp. now apply IHp.
Qed.

(* non-vacuity: a reversed part with an asymmetric window next to a plain part; the composite reports the mirrored
   window of the first and the window of the second part *)
Definition awrap_example : pt :=
  Multi [] [Rev (Atom false (EC (Q2Qc 4)) [(1%N, EC (Q2Qc 0), EC (Q2Qc 1))]);
            Atom false (EC (Q2Qc 4)) [(2%N, EC (Q2Qc 0), EC (Q2Qc 1))]].
Lemma awrap_example_ok :
  is_atomic awrap_example = true /\
  match create_program awrap_example (fun _ => Q2Qc 0) Some with
  | Program prog => loop_windows prog = [(1%N, Q2Qc 3, Q2Qc 1); (2%N, Q2Qc 0, Q2Qc 1)]
  | _ => False
  end.
Proof. split; vm_compute; reflexivity. Qed.
