(* C02 round 4 — an atomic template contributes the same windows as a part of an atomic composite (collected through
   get_measurement_windows, Spec.adecls) and as a node of its own (built through _internal_create_program, Spec.denote):
   the two code paths are in sync, wrappers (TimeReversalPT, ParallelChannelPT / ArithmeticPT, MappingPT) included. *)
From Coq Require Import ZArith QArith Qcanon List Bool.
Require Import QV.common.Util QV.C02.Spec QV.C02.Model QV.C02.Proofs QV.C02.Proofs2.
Import ListNotations.
Open Scope Qc_scope.

Lemma atomic_position_agrees p : forall en mm,
  is_atomic p = true -> plays p en = true -> denote p en mm = adecls p en mm.
Proof.
  induction p using pt_ind'; intros en mm Ha Hp; cbn [is_atomic] in Ha; try discriminate.
  - cbn [denote]. now rewrite Hp.
  - cbn [denote]. now rewrite Hp.
  - cbn [denote]. now rewrite Hp.
  - cbn [denote adecls]. cbn [plays] in Hp. now apply IHp.
  - cbn [denote adecls]. cbn [plays] in Hp. now rewrite IHp.
  - cbn [denote adecls]. cbn [plays] in Hp. now apply IHp.
  - cbn [denote adecls]. cbn [plays] in Hp. now apply IHp.
Qed.

(* non-vacuity: a reversed part with an asymmetric window next to a plain part; the composite reports the mirrored
   window of the first and the window of the second part *)
Definition awrap_example : pt :=
  Multi [] [Rev (Atom false (EC (Q2Qc 4)) [(1%N, EC (Q2Qc 0), EC (Q2Qc 1))]);
            Atom false (EC (Q2Qc 4)) [(2%N, EC (Q2Qc 0), EC (Q2Qc 1))]].
Lemma awrap_example_ok :
  is_atomic awrap_example = true /\
  match create_program awrap_example (fun _ => Q2Qc 0) Some with
  | Program prog => loop_windows prog = [(1%N, Q2Qc 3, Q2Qc 1); (2%N, Q2Qc 0, Q2Qc 1)]
  | _ => False
  end.
Proof. split; vm_compute; reflexivity. Qed.

(* ---- windows are a multiset: coinciding (name, begin, length) triples are all kept ----------------------------------- *)
From Coq Require Import Permutation.
Lemma coinciding_kept (eq_dec : forall a b : window, {a = b} + {a <> b}) p en mm prog w :
  create_program p en mm = Program prog ->
  count_occ eq_dec (loop_windows prog) w = count_occ eq_dec (denote p en mm) w.
Proof.
  intro H. apply (proj1 (Permutation_count_occ eq_dec _ _)). apply (create_program_windows p en mm prog H).
Qed.

(* the demo of seed C02-5: both parallel parts declare (m, 1, 2), a third declaration is renamed onto the same name by an
   enclosing mapping, the whole is repeated twice: 6 windows, two triples three times each *)
Definition coincide_example : pt :=
  Map [] [(2%N, Some 1%N)] []
      (Rep [] (EC (Q2Qc 2))
           (Multi [(2%N, EC (Q2Qc 1), EC (Q2Qc 2))]
                  [Atom false (EC (Q2Qc 4)) [(1%N, EC (Q2Qc 1), EC (Q2Qc 2))];
                   Atom false (EC (Q2Qc 4)) [(1%N, EC (Q2Qc 1), EC (Q2Qc 2))]])).
Lemma coincide_example_ok :
  match create_program coincide_example (fun _ => Q2Qc 0) Some with
  | Program prog => loop_windows prog = [(1%N, Q2Qc 1, Q2Qc 2); (1%N, Q2Qc 1, Q2Qc 2); (1%N, Q2Qc 1, Q2Qc 2);
                                        (1%N, Q2Qc 5, Q2Qc 2); (1%N, Q2Qc 5, Q2Qc 2); (1%N, Q2Qc 5, Q2Qc 2)]
  | _ => False
  end.
Proof. vm_compute. reflexivity. Qed.
