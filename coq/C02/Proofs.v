(* C02 — proofs, part 1: arithmetic of windows (shift / mirror / sequential composition / tiling) and Loop-level
   facts (reverse_inplace mirrors, cleanup preserves). *)
From Coq Require Import ZArith QArith Qcanon Qround List Bool Permutation Lia Lqa.
Require Import QV.C02.Spec QV.C02.Model.
Import ListNotations.
Open Scope Qc_scope.
Arguments shift : simpl never.
Arguments mirror : simpl never.
Arguments tile : simpl never.

Ltac qc2q := unfold Qcle, Qclt, Qcminus, Qcopp, Qcplus, Qcmult, Q2Qc in *; cbn [this] in *;
             rewrite ?Qred_correct in *.

(* permutations of appended lists: cancel equal heads, rotating the right-hand side when the heads differ *)
Ltac perm_rot := etransitivity; [| apply Permutation_app_comm]; rewrite <- ?app_assoc.
Ltac perm_app := rewrite <- ?app_assoc;
  do 12 (try (first [ reflexivity | apply Permutation_app_head | perm_rot ])).

(* ---- numbers ---------------------------------------------------------------------------------------------------------- *)
Lemma natc_0 : natc 0 = 0.
Proof. apply Qc_is_canon. reflexivity. Qed.
Lemma natc_1 : natc 1 = 1.
Proof. apply Qc_is_canon. reflexivity. Qed.
Lemma natc_S n : natc (S n) = natc n + 1.
Proof.
  apply Qc_is_canon. unfold natc, Zc. qc2q. rewrite Nat2Z.inj_succ. unfold Z.succ.
  rewrite inject_Z_plus. reflexivity.
Qed.
Lemma natc_add a b : natc (a + b) = natc a + natc b.
Proof. induction a; cbn [Nat.add]; [rewrite natc_0; ring|]. rewrite !natc_S, IHa. ring. Qed.
Lemma natc_nonneg n : 0 <= natc n.
Proof. unfold natc, Zc. qc2q. change 0%Q with (inject_Z 0). rewrite <- Zle_Qle. lia. Qed.

(* ---- shift / mirror --------------------------------------------------------------------------------------------------- *)
Lemma wshift_0 w : wshift 0 w = w.
Proof. destruct w as [[n b] l]. cbn. f_equal. f_equal. ring. Qed.
Lemma shift_0 l : shift 0 l = l.
Proof. unfold shift. rewrite <- (map_id l) at 2. apply map_ext. apply wshift_0. Qed.
Lemma wshift_wshift a b w : wshift a (wshift b w) = wshift (b + a) w.
Proof. destruct w as [[n x] l]. cbn. f_equal. f_equal. ring. Qed.
Lemma shift_shift a b l : shift a (shift b l) = shift (b + a) l.
Proof. unfold shift. rewrite map_map. apply map_ext. intro. apply wshift_wshift. Qed.
Lemma shift_app a l1 l2 : shift a (l1 ++ l2) = shift a l1 ++ shift a l2.
Proof. apply map_app. Qed.
Lemma mirror_app a l1 l2 : mirror a (l1 ++ l2) = mirror a l1 ++ mirror a l2.
Proof. apply map_app. Qed.
Lemma shift_perm a l l' : Permutation l l' -> Permutation (shift a l) (shift a l').
Proof. apply Permutation_map. Qed.
Lemma mirror_perm a l l' : Permutation l l' -> Permutation (mirror a l) (mirror a l').
Proof. apply Permutation_map. Qed.
Lemma shift_eq a b l : a = b -> shift a l = shift b l.
Proof. now intros ->. Qed.
Lemma mirror_shift d T l : mirror (d + T) (shift d l) = mirror T l.
Proof.
  unfold mirror, shift. rewrite map_map. apply map_ext. intros [[n b] x]. cbn. f_equal. f_equal. ring.
Qed.
Lemma mirror_as_shift d T l : mirror (d + T) l = shift T (mirror d l).
Proof.
  unfold mirror, shift. rewrite map_map. apply map_ext. intros [[n b] x]. cbn. f_equal. f_equal. ring.
Qed.
Lemma mirror_mirror D l : mirror D (mirror D l) = l.
Proof.
  unfold mirror. rewrite map_map. rewrite <- (map_id l) at 2. apply map_ext. intros [[n b] x]. cbn.
  f_equal. f_equal. ring.
Qed.
Lemma shift_concat a ls : shift a (concat ls) = concat (map (shift a) ls).
Proof. unfold shift. apply concat_map. Qed.
Lemma shift_flat_map {A} a (f : A -> list window) l :
  shift a (flat_map f l) = flat_map (fun x => shift a (f x)) l.
Proof. induction l; cbn [flat_map]; [reflexivity|]. rewrite shift_app, IHl. reflexivity. Qed.
Lemma mirror_flat_map {A} a (f : A -> list window) l :
  mirror a (flat_map f l) = flat_map (fun x => mirror a (f x)) l.
Proof. induction l; cbn [flat_map]; [reflexivity|]. rewrite mirror_app, IHl. reflexivity. Qed.

(* ---- sequential composition ------------------------------------------------------------------------------------------ *)
Definition total (P : list (Qc * list window)) : Qc := sumc (map fst P).

Lemma sumc_app a b : sumc (a ++ b) = sumc a + sumc b.
Proof. induction a; cbn; [ring|]. rewrite IHa. ring. Qed.
Lemma sumc_perm a b : Permutation a b -> sumc a = sumc b.
Proof. induction 1; cbn; [reflexivity | congruence | ring | congruence]. Qed.
Lemma sumc_rev a : sumc (rev a) = sumc a.
Proof. apply sumc_perm. symmetry. apply Permutation_rev. Qed.

Lemma seq_windows_shift o a P : seq_windows (o + a) P = shift a (seq_windows o P).
Proof.
  revert o. induction P as [|[d w] P IH]; intro o; cbn; [reflexivity|].
  rewrite shift_app, shift_shift. f_equal.
  replace (o + a + d) with (o + d + a) by ring. apply IH.
Qed.
Lemma seq_windows_0 o P : seq_windows o P = shift o (seq_windows 0 P).
Proof. rewrite <- seq_windows_shift. f_equal. ring. Qed.
Lemma seq_windows_app o P Q : seq_windows o (P ++ Q) = seq_windows o P ++ seq_windows (o + total P) Q.
Proof.
  revert o. induction P as [|[d w] P IH]; intro o; cbn.
  - f_equal. unfold total. cbn. ring.
  - rewrite <- app_assoc. f_equal. rewrite IH. f_equal. f_equal. unfold total. cbn. ring.
Qed.

Definition piece_eq (x y : Qc * list window) : Prop := fst x = fst y /\ Permutation (snd x) (snd y).
Lemma seq_windows_perm o P Q : Forall2 piece_eq P Q -> Permutation (seq_windows o P) (seq_windows o Q).
Proof.
  intro H. revert o. induction H as [|[d w] [d' w'] P Q [Hd Hw] _ IH]; intro o; cbn; [constructor|].
  cbn in Hd, Hw. subst d'. apply Permutation_app; [apply Permutation_map; exact Hw | apply IH].
Qed.
Lemma total_piece_eq P Q : Forall2 piece_eq P Q -> total P = total Q.
Proof. unfold total. induction 1 as [|x y P Q [Hd _] _ IH]; cbn; congruence. Qed.

(* mirroring a sequence = reversed order of mirrored pieces *)
Definition mpiece (x : Qc * list window) : Qc * list window := (fst x, mirror (fst x) (snd x)).
Lemma total_map_mpiece P : total (map mpiece P) = total P.
Proof. unfold total. rewrite map_map. reflexivity. Qed.
Lemma total_rev P : total (rev P) = total P.
Proof. unfold total. rewrite map_rev. apply sumc_rev. Qed.
Lemma seq_windows_snoc o P d w : seq_windows o (P ++ [(d, w)]) = seq_windows o P ++ shift (o + total P) w.
Proof. rewrite seq_windows_app. cbn [seq_windows]. now rewrite app_nil_r. Qed.
Lemma total_cons d w P : total ((d, w) :: P) = d + total P.
Proof. reflexivity. Qed.
Lemma seq_windows_mirror P :
  Permutation (seq_windows 0 (rev (map mpiece P))) (mirror (total P) (seq_windows 0 P)).
Proof.
  induction P as [|[d w] P IH]; [constructor|].
  cbn [map rev]. change (mpiece (d, w)) with (d, mirror d w). rewrite seq_windows_snoc.
  cbn [seq_windows].
  rewrite total_rev, total_map_mpiece, total_cons, mirror_app, shift_0.
  rewrite (seq_windows_0 (0 + d)). replace (0 + d) with d by ring. rewrite mirror_shift.
  rewrite (mirror_as_shift d (total P) w). replace (0 + total P) with (total P) by ring.
  etransitivity; [apply Permutation_app_comm|]. apply Permutation_app; [reflexivity|]. exact IH.
Qed.

(* ---- tiling ----------------------------------------------------------------------------------------------------------- *)
Lemma tile_perm n B l l' : Permutation l l' -> Permutation (tile n B l) (tile n B l').
Proof.
  intro H. unfold tile. induction (seq 0 n); cbn; [constructor|].
  apply Permutation_app; [apply Permutation_map; exact H | assumption].
Qed.
Lemma tile_1 B l : tile 1 B l = l.
Proof. unfold tile. cbn. rewrite app_nil_r. rewrite natc_0. replace (0 * B) with 0 by ring. apply shift_0. Qed.
Lemma tile_0 B l : tile 0 B l = [].
Proof. reflexivity. Qed.

(* additive form: the body played n times one after the other *)
Lemma seq_windows_repeat_from s n d w :
  seq_windows (natc s * d) (repeat (d, w) n) = flat_map (fun k => shift (natc k * d) w) (seq s n).
Proof.
  revert s. induction n; intro s; cbn; [reflexivity|]. f_equal.
  rewrite <- IHn. f_equal. rewrite natc_S. ring.
Qed.
Lemma seq_windows_repeat n d w : seq_windows 0 (repeat (d, w) n) = tile n d w.
Proof.
  unfold tile. rewrite <- seq_windows_repeat_from. f_equal. rewrite natc_0. ring.
Qed.
Lemma total_repeat n d w : total (repeat (d, w) n) = natc n * d.
Proof.
  unfold total. induction n; cbn; [rewrite natc_0; ring|]. rewrite IHn, natc_S. ring.
Qed.
Lemma tile_S_cons n B l : tile (S n) B l = l ++ shift B (tile n B l).
Proof.
  rewrite <- !seq_windows_repeat. cbn. rewrite shift_0. f_equal.
  rewrite (seq_windows_0 (0 + B)). f_equal. ring.
Qed.
Lemma tile_S_snoc n B l : tile (S n) B l = tile n B l ++ shift (natc n * B) l.
Proof.
  unfold tile. rewrite seq_S, flat_map_app. cbn. rewrite app_nil_r. reflexivity.
Qed.
Lemma shift_tile a n B l : shift a (tile n B l) = tile n B (shift a l).
Proof.
  unfold tile. rewrite shift_flat_map. apply flat_map_ext. intro k. rewrite !shift_shift. f_equal. ring.
Qed.
Lemma tile_app n B l1 l2 : Permutation (tile n B (l1 ++ l2)) (tile n B l1 ++ tile n B l2).
Proof.
  induction n; [constructor|]. rewrite !tile_S_cons.
  etransitivity. { apply Permutation_app; [reflexivity| apply shift_perm; exact IHn]. }
  rewrite shift_app. rewrite <- !app_assoc. apply Permutation_app_head.
  rewrite !app_assoc. apply Permutation_app_tail. apply Permutation_app_comm.
Qed.
(* mirroring all repetitions = repetitions of the mirrored body (execution k <-> execution n-1-k) *)
Lemma tile_mirror n B l : Permutation (mirror (B * natc n) (tile n B l)) (tile n B (mirror B l)).
Proof.
  induction n.
  - constructor.
  - rewrite tile_S_snoc, tile_S_cons, mirror_app.
    etransitivity; [apply Permutation_app_comm|]. apply Permutation_app.
    + replace (B * natc (S n)) with (natc n * B + B) by (rewrite natc_S; ring).
      rewrite mirror_shift. reflexivity.
    + replace (B * natc (S n)) with (B * natc n + B) by (rewrite natc_S; ring).
      rewrite mirror_as_shift. apply shift_perm. exact IHn.
Qed.
Lemma tile_tile n m B l : Permutation (tile n (B * natc m) (tile m B l)) (tile (n * m) B l).
Proof.
  induction n; [constructor|]. rewrite tile_S_cons. cbn [Nat.mul].
  assert (Hadd : forall a b, Permutation (tile (a + b) B l) (tile a B l ++ shift (natc a * B) (tile b B l))).
  { intros a b. induction b.
    - rewrite Nat.add_0_r. cbn. rewrite app_nil_r. reflexivity.
    - replace (a + S b)%nat with (S (a + b)) by lia. rewrite !tile_S_snoc, shift_app, shift_shift.
      rewrite app_assoc. apply Permutation_app; [exact IHb|].
      replace (natc b * B + natc a * B) with (natc (a + b) * B); [reflexivity|].
      rewrite natc_add. ring. }
  rewrite Hadd. apply Permutation_app; [reflexivity|].
  replace (natc m * B) with (B * natc m) by ring. apply shift_perm. exact IHn.
Qed.

(* ---- custom induction principle for loops ----------------------------------------------------------------------------- *)
Section LoopInd.
  Variable P : loop -> Prop.
  Hypothesis H : forall n wf ms ch, Forall P ch -> P (Loop n wf ms ch).
  Fixpoint loop_ind' (l : loop) : P l :=
    match l with
    | Loop n wf ms ch =>
        H n wf ms ch ((fix go (cs : list loop) : Forall P cs :=
                         match cs with [] => Forall_nil _ | c :: r => Forall_cons c (loop_ind' c) (go r) end) ch)
    end.
End LoopInd.

Definition pieces (ch : list loop) : list (Qc * list window) := map (fun c => (ldur c, loop_windows c)) ch.
Lemma total_pieces ch : total (pieces ch) = sumc (map ldur ch).
Proof. unfold total, pieces. rewrite map_map. reflexivity. Qed.

Lemma loop_windows_eq n wf ms ch :
  loop_windows (Loop n wf ms ch) = tile n (body_of wf (map ldur ch)) (ms ++ seq_windows 0 (pieces ch)).
Proof. reflexivity. Qed.
Lemma ldur_eq n wf ms ch : ldur (Loop n wf ms ch) = body_of wf (map ldur ch) * natc n.
Proof. reflexivity. Qed.

Lemma body_of_rev wf (ds : list Qc) : body_of wf (rev ds) = body_of wf ds.
Proof.
  destruct ds as [|d ds]; [reflexivity|]. unfold body_of.
  destruct (rev (d :: ds)) eqn:E.
  - apply (f_equal (@length _)) in E. rewrite rev_length in E. discriminate.
  - rewrite <- E. apply sumc_rev.
Qed.
Lemma body_of_nonleaf wf d ds : body_of wf (d :: ds) = sumc (d :: ds).
Proof. reflexivity. Qed.

(* ---- reverse_inplace --------------------------------------------------------------------------------------------------- *)
Lemma reverse_loop_spec l :
  ldur (reverse_loop l) = ldur l /\
  Permutation (loop_windows (reverse_loop l)) (mirror (ldur l) (loop_windows l)).
Proof.
  induction l as [n wf ms ch IH] using loop_ind'.
  assert (Hd : map ldur (rev (map reverse_loop ch)) = rev (map ldur ch)).
  { rewrite map_rev, map_map. f_equal. apply map_ext_Forall. eapply Forall_impl; [|exact IH]. now intros c [Hc _]. }
  cbn [reverse_loop]. rewrite ldur_eq, loop_windows_eq, Hd, body_of_rev. split; [reflexivity|].
  rewrite ldur_eq, loop_windows_eq.
  set (B := body_of wf (map ldur ch)).
  etransitivity; [|symmetry; apply tile_mirror]. apply tile_perm. rewrite mirror_app.
  apply Permutation_app; [reflexivity|].
  (* children *)
  destruct ch as [|c ch]; [constructor|].
  assert (HB : B = total (pieces (c :: ch))) by (unfold B; rewrite total_pieces; reflexivity).
  rewrite HB. etransitivity; [|apply seq_windows_mirror].
  apply seq_windows_perm. unfold pieces. rewrite <- !map_rev, !map_map.
  set (L := rev (c :: ch)). assert (HL : Forall (fun l => ldur (reverse_loop l) = ldur l /\
     Permutation (loop_windows (reverse_loop l)) (mirror (ldur l) (loop_windows l))) L).
  { unfold L. apply Forall_rev. exact IH. }
  clearbody L. induction HL as [|x L [H1 H2] _ IHL]; cbn; constructor; [|exact IHL].
  split; cbn; [exact H1| exact H2].
Qed.

Lemma reverse_loop_dur l : ldur (reverse_loop l) = ldur l.
Proof. apply reverse_loop_spec. Qed.
Lemma reverse_loop_windows l : Permutation (loop_windows (reverse_loop l)) (mirror (ldur l) (loop_windows l)).
Proof. apply reverse_loop_spec. Qed.
