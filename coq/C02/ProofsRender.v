(* C02 round 6 — proofs about the second observation point, plotting.render(...)[2] (Render.v). *)
From Coq Require Import ZArith QArith Qcanon List Bool Permutation Lia Lqa.
Require Import QV.C02.Spec QV.C02.Model QV.C02.Proofs QV.C02.Proofs2 QV.C02.Proofs3 QV.C02.ProofsAccept.
Require Import QV.C02.ProofsR5 QV.C02.Render.
Import ListNotations.
Open Scope Qc_scope.

Lemma perm_filter {A} (f : A -> bool) l l' : Permutation l l' -> Permutation (filter f l) (filter f l').
Proof.
  induction 1; cbn.
  - constructor.
  - destruct (f x); auto.
  - destruct (f x), (f y); auto. apply perm_swap.
  - etransitivity; eauto.
Qed.
Lemma filter_all {A} (f : A -> bool) l : Forall (fun x => f x = true) l -> filter f l = l.
Proof. induction 1; cbn; [reflexivity|]. rewrite H. now f_equal. Qed.

Lemma Qcltb_lt a b : a < b -> Qcltb a b = true.
Proof.
  intro H. unfold Qcltb. destruct (Qle_bool (this b) (this a)) eqn:E; [|reflexivity].
  apply Qle_bool_iff in E. unfold Qclt in H. exfalso. lra.
Qed.
Lemma Qcltb_ge a b : b <= a -> Qcltb a b = false.
Proof. intro H. unfold Qcltb. unfold Qcle in H. apply Qle_bool_iff in H. now rewrite H. Qed.

(* whatever render() returns as its third result for a program built from a template is - as a multiset - what the
   template denotes (default time_slice), resp. exactly the denoted windows that overlap the slice *)
Lemma render_windows p en mm prog rate slice ws :
  create_program p en mm = Program prog -> render_meas rate slice prog = ROk ws ->
  Permutation ws (render_denote p en mm slice).
Proof.
  intros H R. destruct (create_program_windows p en mm prog H) as (_ & _ & Hw).
  unfold render_meas, render_denote in *. destruct slice as [[s e]|].
  - destruct (bad_slice s e); [discriminate|]. destruct (too_short rate s e); [discriminate|].
    injection R as <-. now apply perm_filter.
  - destruct (too_short _ _ _); [discriminate|]. injection R as <-. exact Hw.
Qed.

(* total form: an acceptable assignment of a template that plays, rendered with the default slice at a rate that gives at
   least two samples, DOES report (nothing is refused) exactly the denoted windows *)
Lemma render_total p en mm rate :
  must_accept p en = true -> plays p en = true -> 1 <= tdur p en * rate ->
  exists prog ws, create_program p en mm = Program prog /\ render_meas rate None prog = ROk ws /\
                  Permutation ws (denote p en mm).
Proof.
  intros Ha Hp Hr. destruct (windows_total p en mm Ha Hp) as (prog & E & Hd & Hw).
  exists prog, (loop_windows prog). split; [exact E|]. split; [|exact Hw].
  unfold render_meas, too_short. rewrite Hd. rewrite Qcltb_ge; [reflexivity|].
  replace (tdur p en - 0) with (tdur p en) by ring.
  apply Qcplus_le_compat; [exact Hr|]. apply Qcle_refl.
Qed.

(* an explicit slice [0, e] that covers the whole program reports every denoted window of positive length, provided the
   declarations lie inside their nodes (then the windows lie inside [0, duration]) *)
Lemma render_whole_slice p en mm prog rate e ws :
  create_program p en mm = Program prog -> inside p en = true -> tdur p en <= e ->
  Forall (fun w : window => 0 < snd w) (denote p en mm) ->
  render_meas rate (Some (0, e)) prog = ROk ws -> Permutation ws (denote p en mm).
Proof.
  intros H Hi He Hpos R. pose proof (render_windows p en mm prog rate (Some (0, e)) ws H R) as P.
  unfold render_denote in P. rewrite filter_all in P; [exact P|].
  destruct (inside_ok p en mm Hi) as [_ Hin].
  rewrite Forall_forall in *. intros w Hw. specialize (Hin w Hw). specialize (Hpos w Hw).
  destruct w as [[n b] l]. cbn in Hin, Hpos. destruct Hin as (H1 & H2 & H3).
  unfold overlaps. apply andb_true_intro. split; apply Qcltb_lt.
  - apply Qclt_le_trans with (tdur p en); [|exact He]. apply Qclt_le_trans with (b + l); [|exact H3].
    qc2q. lra.
  - qc2q. lra.
Qed.

(* the positive-length hypothesis is needed: a zero-length window (a time stamp) at t = 0 is reported by the default
   slice and NOT by the explicit slice [0, duration] (strict comparisons of the filter) *)
Example render_boundary_stamp :
  let p := Atom false (EC (Q2Qc 2)) [(1%N, EC (Q2Qc 0), EC (Q2Qc 0)); (2%N, EC (Q2Qc 2), EC (Q2Qc 0))] in
  match create_program p (fun _ => Q2Qc 0) Some with
  | Program prog =>
      match render_meas (Q2Qc 1) None prog, render_meas (Q2Qc 1) (Some (Q2Qc 0, Q2Qc 2)) prog with
      | ROk ws, ROk ws' => (length ws =? 2)%nat && (length ws' =? 0)%nat && inside p (fun _ => Q2Qc 0)
      | _, _ => false
      end
  | _ => false
  end = true.
Proof. vm_compute. reflexivity. Qed.
Example render_total_nonvacuous :
  let a := Atom false (EC (Q2Qc 3)) [(1%N, EC (Q2Qc 1), EC (Q2Qc 1))] in
  let p := Seq [(2%N, EC (Q2Qc 0), EC (Q2Qc 9))] [a; Rev (Rep [] (EC (Q2Qc 2)) (Map [] [(1%N, Some 3%N)] [] a))] in
  let en := fun _ : N => Q2Qc 0 in
  must_accept p en && plays p en && Qcleb 1 (tdur p en * Q2Qc 1) && (length (denote p en Some) =? 4)%nat = true.
Proof. vm_compute. reflexivity. Qed.
