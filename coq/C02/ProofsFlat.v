(* C02 — flatten_and_balance (Flatten.fab) IS a sequence of the modelled rewrites: replaying the logged steps with
   Rewrite.run_seq gives exactly the loop fab returns.  Hence C02_rewrite_sequences applies to it. *)
From Coq Require Import ZArith QArith Qcanon List Bool Permutation Lia.
Require Import QV.C02.Spec QV.C02.Model QV.C02.Rewrite QV.C02.Flatten QV.C02.Proofs QV.C02.ProofsRw.
Import ListNotations.

Definition run_ok (st : steps) (l l' : loop) : Prop := exists lost, run_seq st l = Some (l', lost).

Lemma run_ok_nil l : run_ok [] l l.
Proof. exists []. reflexivity. Qed.

Lemma run_ok_cons p r st l l1 l2 : apply_at p r l = Some l1 -> run_ok st l1 l2 -> run_ok ((p, r) :: st) l l2.
Proof. intros H [lost H2]. exists (lost ++ lost_at p r l). cbn. now rewrite H, H2. Qed.

Lemma run_ok_app s1 : forall s2 l l1 l2, run_ok s1 l l1 -> run_ok s2 l1 l2 -> run_ok (s1 ++ s2) l l2.
Proof.
  induction s1 as [|[p r] s1 IH]; intros s2 l l1 l2 [lost H1] H2; cbn in *.
  - injection H1 as <- _. exact H2.
  - destruct (apply_at p r l) as [la|] eqn:E; [|discriminate].
    destruct (run_seq s1 la) as [[lb lostb]|] eqn:E2; [|discriminate]. injection H1 as <- _.
    eapply run_ok_cons; [exact E|]. eapply IH; [eexists; exact E2 | exact H2].
Qed.

Lemma nth_error_mid {A} (a : list A) x b i : length a = i -> nth_error (a ++ [x] ++ b) i = Some x.
Proof. intros <-. rewrite nth_error_app2 by lia. now rewrite Nat.sub_diag. Qed.

Lemma firstn_mid {A} (a : list A) x b i : length a = i -> firstn i (a ++ x :: b) = a.
Proof. intros <-. rewrite firstn_app, Nat.sub_diag, firstn_all. cbn. now rewrite app_nil_r. Qed.

Lemma skipn_mid {A} (a : list A) x b i : length a = i -> skipn (S i) (a ++ x :: b) = b.
Proof.
  intros <-. rewrite skipn_app. rewrite (skipn_all2 (n := S (length a)) a) by lia.
  replace (S (length a) - length a)%nat with 1%nat by lia. reflexivity.
Qed.

Lemma nth_error_firstn_len {A} (l : list A) i x : nth_error l i = Some x -> length (firstn i l) = i.
Proof. intros H. apply firstn_length_le. assert (i < length l)%nat by (apply nth_error_Some; congruence). lia. Qed.

(* a run inside child i is a run of the parent with every path prefixed by i *)
Lemma run_ok_prefix st : forall n wf ms ch i c c',
  nth_error ch i = Some c -> run_ok st c c' ->
  run_ok (map (pre i) st) (Loop n wf ms ch) (Loop n wf ms (firstn i ch ++ [c'] ++ skipn (S i) ch)).
Proof.
  induction st as [|[p r] st IH]; intros n wf ms ch i c c' Hn [lost H].
  - cbn in H. injection H as <- _. rewrite <- (nth_error_split3 _ _ _ Hn). apply run_ok_nil.
  - cbn in H. destruct (apply_at p r c) as [c1|] eqn:E; [|discriminate].
    destruct (run_seq st c1) as [[c2 lost2]|] eqn:E2; [|discriminate]. injection H as <- _.
    cbn [map pre fst snd].
    pose proof (nth_error_firstn_len _ _ _ Hn) as Hl.
    eapply run_ok_cons.
    + cbn. rewrite Hn, E. reflexivity.
    + specialize (IH n wf ms (firstn i ch ++ [c1] ++ skipn (S i) ch) i c1 c2
                     (nth_error_mid _ _ _ _ Hl) (ex_intro _ lost2 E2)).
      cbn [app] in IH. rewrite (firstn_mid _ _ _ _ Hl), (skipn_mid _ _ _ _ Hl) in IH. exact IH.
Qed.

Theorem fab_is_run_seq fuel : forall d i l l' st, fab fuel d i l = Some (l', st) -> run_ok st l l'.
Proof.
  induction fuel as [|f IH]; intros d i l l' st H; [discriminate|].
  cbn [fab] in H.
  assert (Hstep : forall path r,
            match apply_at path r l with
            | Some l1 => match fab f d i l1 with Some (l2, st) => Some (l2, (path, r) :: st) | None => None end
            | None => None
            end = Some (l', st) -> run_ok st l l').
  { intros path r Hs. destruct (apply_at path r l) as [l1|] eqn:E; [|discriminate].
    destruct (fab f d i l1) as [[l2 st2]|] eqn:E2; [|discriminate]. injection Hs as <- <-.
    eapply run_ok_cons; [exact E | eapply IH; exact E2]. }
  destruct (nth_error (l_ch l) i) as [sub|] eqn:En.
  2:{ injection H as <- <-. apply run_ok_nil. }
  destruct (Z.of_nat (depth sub) <? d - 1)%Z; [now apply (Hstep _ _ H)|].
  destruct (negb (balanced sub)).
  { destruct (fab f (d - 1) 0 sub) as [[sub' st1]|] eqn:E1; [|discriminate].
    destruct (fab f d i (replace_child i sub' l)) as [[l2 st2]|] eqn:E2; [|discriminate].
    injection H as <- <-. destruct l as [n wf ms ch]. cbn in En.
    eapply run_ok_app.
    - eapply run_ok_prefix; [exact En | eapply IH; exact E1].
    - eapply IH. exact E2. }
  destruct (Z.of_nat (depth sub) =? d - 1)%Z; [now apply (IH _ _ _ _ _ H)|].
  destruct (can_merge sub); [now apply (Hstep _ _ H)|].
  destruct (negb (is_leaf sub)); [now apply (Hstep _ _ H)|].
  now apply (IH _ _ _ _ _ H).
Qed.

(* ... so the duration is kept and no window is added or moved; what disappears is accumulated own windows of unrolled
   loops (C02_rewrite_sequences) *)
Theorem fab_windows fuel d l l' st :
  flatten_and_balance fuel d l = Some (l', st) -> sides_ok st l = true ->
  ldur l' = ldur l /\ exists lost, Permutation (loop_windows l' ++ lost) (loop_windows l).
Proof.
  intros H Hs. destruct (fab_is_run_seq _ _ _ _ _ _ H) as [lost Hr].
  destruct (run_seq_spec _ _ _ _ Hr Hs) as [A B]. split; [exact A | now exists lost].
Qed.
