(* C02 — proofs, part 6: measurement windows under the structural rewrites of Loop (Rewrite.v). *)
From Coq Require Import ZArith QArith Qcanon Qround List Bool Permutation Lia Lqa.
Require Import QV.C02.Spec QV.C02.Model QV.C02.Proofs QV.C02.Proofs2 QV.C02.Proofs3 QV.C02.Rewrite.
Import ListNotations.
Open Scope Qc_scope.
Arguments shift : simpl never.
Arguments mirror : simpl never.
Arguments tile : simpl never.

Definition same (l' l : loop) : Prop := ldur l' = ldur l /\ Permutation (loop_windows l') (loop_windows l).

Lemma tile_nil a b : tile a b [] = [].
Proof. unfold tile. induction (seq 0 a); cbn [flat_map]; auto. Qed.
Lemma shift_nil d : shift d [] = [].
Proof. reflexivity. Qed.

Lemma pieces_app a b : pieces (a ++ b) = pieces a ++ pieces b.
Proof. apply map_app. Qed.
Lemma body_of_sumc wf ds : wf = None \/ ds <> [] -> body_of wf ds = sumc ds.
Proof. intros [-> | H]; destruct ds; try reflexivity. congruence. Qed.

(* ---- a block of children replaced by another block of the same total duration ------------------------------------------ *)
Lemma seq_windows_3 P M Q :
  seq_windows 0 (P ++ M ++ Q) =
  seq_windows 0 P ++ shift (total P) (seq_windows 0 M) ++ seq_windows (total P + total M) Q.
Proof.
  rewrite !seq_windows_app. f_equal. f_equal.
  - rewrite (seq_windows_0 (0 + total P)). f_equal. ring.
  - f_equal. ring.
Qed.

Lemma replace_mid n wf ms pre mid mid' post lost :
  sumc (map ldur mid') = sumc (map ldur mid) ->
  (wf = None \/ (pre ++ mid ++ post <> [] /\ pre ++ mid' ++ post <> [])) ->
  Permutation (seq_windows 0 (pieces mid') ++ lost) (seq_windows 0 (pieces mid)) ->
  ldur (Loop n wf ms (pre ++ mid' ++ post)) = ldur (Loop n wf ms (pre ++ mid ++ post)) /\
  Permutation (loop_windows (Loop n wf ms (pre ++ mid' ++ post))
               ++ tile n (body_of wf (map ldur (pre ++ mid ++ post))) (shift (sumc (map ldur pre)) lost))
              (loop_windows (Loop n wf ms (pre ++ mid ++ post))).
Proof.
  intros Hd Hne Hw.
  assert (HB : body_of wf (map ldur (pre ++ mid' ++ post)) = body_of wf (map ldur (pre ++ mid ++ post))).
  { rewrite !body_of_sumc.
    - rewrite !map_app, !sumc_app, Hd. reflexivity.
    - destruct Hne as [?|[H1 H2]]; [now left|right]. intro E. apply map_eq_nil in E. auto.
    - destruct Hne as [?|[H1 H2]]; [now left|right]. intro E. apply map_eq_nil in E. auto. }
  split; [rewrite !ldur_eq, HB; reflexivity|].
  rewrite !loop_windows_eq, HB. set (B := body_of wf (map ldur (pre ++ mid ++ post))).
  etransitivity; [symmetry; apply tile_app|]. apply tile_perm.
  rewrite !pieces_app, !seq_windows_3.
  assert (HT : total (pieces mid') = total (pieces mid)) by (rewrite !total_pieces; exact Hd).
  rewrite HT, total_pieces.
  set (A := seq_windows 0 (pieces pre)). set (C := seq_windows _ (pieces post)).
  rewrite <- !app_assoc. apply Permutation_app_head. apply Permutation_app_head.
  etransitivity; [apply Permutation_app_head; apply Permutation_app_comm|].
  rewrite app_assoc. apply Permutation_app_tail. rewrite <- shift_app. apply shift_perm. exact Hw.
Qed.

Lemma nth_error_split3 {A} (l : list A) i x : nth_error l i = Some x -> l = firstn i l ++ [x] ++ skipn (S i) l.
Proof.
  revert i. induction l as [|a l IH]; intros [|i] H; cbn in *; try discriminate.
  - now injection H as ->.
  - f_equal. now apply IH.
Qed.

(* ---- copies of a block of children ------------------------------------------------------------------------------------------ *)
Lemma sumc_concat_repeat (ch : list loop) n :
  sumc (map ldur (concat (repeat ch n))) = sumc (map ldur ch) * natc n.
Proof.
  induction n; cbn [repeat concat map sumc]; [rewrite natc_0; ring|].
  rewrite map_app, sumc_app, IHn, natc_S. ring.
Qed.
Lemma seq_windows_concat_repeat (ch : list loop) n o :
  seq_windows o (pieces (concat (repeat ch n))) =
  seq_windows o (repeat (sumc (map ldur ch), seq_windows 0 (pieces ch)) n).
Proof.
  revert o. induction n; intro o; cbn [repeat concat]; [reflexivity|].
  rewrite pieces_app, seq_windows_app, total_pieces. cbn [seq_windows]. rewrite IHn.
  f_equal. apply seq_windows_0.
Qed.
Lemma windows_concat_repeat (ch : list loop) n :
  seq_windows 0 (pieces (concat (repeat ch n))) = tile n (sumc (map ldur ch)) (seq_windows 0 (pieces ch)).
Proof. rewrite seq_windows_concat_repeat. apply seq_windows_repeat. Qed.

Lemma single_piece c : seq_windows 0 (pieces [c]) = loop_windows c.
Proof. cbn [pieces map seq_windows]. now rewrite shift_0, app_nil_r. Qed.

(* ---- encapsulate ------------------------------------------------------------------------------------------------------------ *)
Theorem encapsulate_preserves l : same (encapsulate l) l.
Proof.
  destruct l as [n wf ms ch]. unfold encapsulate. split.
  - rewrite (ldur_eq 1 None). cbn [map]. rewrite body_of_nonleaf. cbn [sumc]. rewrite natc_1. ring.
  - rewrite (loop_windows_eq 1 None), tile_1. cbn [app]. fold (pieces [Loop n wf ms ch]). now rewrite single_piece.
Qed.

(* ---- split_one_child -------------------------------------------------------------------------------------------------------- *)
Theorem split_at_preserves i l l' : split_at i l = Some l' -> same l' l.
Proof.
  destruct l as [n wf ms ch]. cbn [split_at]. destruct (nth_error ch i) as [[cn cwf cms cch]|] eqn:E; [|discriminate].
  destruct (2 <=? cn)%nat eqn:Hc; [|discriminate]. intro H. injection H as <-. apply Nat.leb_le in Hc.
  pose proof (nth_error_split3 _ _ _ E) as Hs.
  set (pre := firstn i ch) in *. set (post := skipn (S i) ch) in *.
  destruct cn as [|m]; [lia|]. replace (S m - 1)%nat with m in * by lia.
  set (c := Loop (S m) cwf cms cch) in *. set (mid' := [Loop m cwf cms cch; Loop 1 cwf cms cch]).
  set (Bc := body_of cwf (map ldur cch)).
  assert (Hd : sumc (map ldur mid') = sumc (map ldur [c])).
  { unfold mid', c. cbn [map sumc]. rewrite !ldur_eq. fold Bc. rewrite (natc_S m), natc_1. ring. }
  assert (Hw : Permutation (seq_windows 0 (pieces mid') ++ []) (seq_windows 0 (pieces [c]))).
  { rewrite app_nil_r, single_piece. unfold mid', c. cbn [pieces map seq_windows].
    rewrite !loop_windows_eq, !ldur_eq. fold Bc. set (Y := cms ++ seq_windows 0 (pieces cch)).
    rewrite tile_1, tile_S_snoc, shift_0, app_nil_r. apply Permutation_app_head.
    replace (0 + Bc * natc m) with (natc m * Bc) by ring. reflexivity. }
  destruct (replace_mid n wf ms pre [c] mid' post [] Hd) as [R1 R2].
  - right. split; destruct pre; discriminate.
  - exact Hw.
  - change (same (Loop n wf ms (pre ++ mid' ++ post)) (Loop n wf ms ch)). unfold same. rewrite Hs. split; [exact R1|].
    rewrite shift_nil, tile_nil, app_nil_r in R2. exact R2.
Qed.

(* ---- _merge_single_child ------------------------------------------------------------------------------------------------------ *)
Theorem merge_single_child_preserves l l' : merge_single_child l = Some l' -> same l' l.
Proof.
  destruct l as [n [d|] ms [|[m cwf cms cch] [|c2 r]]]; cbn [merge_single_child]; try discriminate.
  destruct (is_nil ms || (m =? 1)%nat) eqn:Hc; [|discriminate]. intro H. injection H as <-. split.
  - rewrite !ldur_eq. cbn [map]. rewrite body_of_nonleaf. cbn [sumc]. rewrite ldur_eq, natc_mul. ring.
  - rewrite !loop_windows_eq. cbn [map pieces]. rewrite body_of_nonleaf. cbn [sumc seq_windows].
    rewrite shift_0, app_nil_r, ldur_eq, loop_windows_eq.
    set (Bc := body_of cwf (map ldur cch)). set (X := seq_windows 0 (pieces cch)).
    replace (Bc * natc m + 0) with (Bc * natc m) by ring.
    apply orb_true_iff in Hc as [Hc|Hc].
    + destruct ms; [|discriminate]. cbn [app]. rewrite app_nil_r. symmetry. apply tile_tile.
    + apply Nat.eqb_eq in Hc. subst m. rewrite Nat.mul_1_r, natc_1, tile_1.
      replace (Bc * 1) with Bc by ring. apply tile_perm. perm_app.
Qed.

(* ---- unroll ----------------------------------------------------------------------------------------------------------------------- *)
(* side condition: the parent has no waveform of its own (true of every program: only leaves carry waveforms), or the
   unrolled child is played at least once (otherwise a parent whose only child disappears would fall back to its own
   waveform's duration) *)
Theorem unroll_at_spec i l l' :
  unroll_at i l = Some l' ->
  (l_wf l = None \/ exists c, nth_error (l_ch l) i = Some c /\ (1 <= l_rep c)%nat) ->
  ldur l' = ldur l /\ Permutation (loop_windows l' ++ unroll_lost i l) (loop_windows l).
Proof.
  destruct l as [n wf ms ch]. cbn [unroll_at unroll_lost l_wf l_ch].
  destruct (nth_error ch i) as [[cn cwf cms [|c0 cs]]|] eqn:E; try discriminate.
  intros H Hside. injection H as <-.
  pose proof (nth_error_split3 _ _ _ E) as Hs.
  set (pre := firstn i ch) in *. set (post := skipn (S i) ch) in *.
  set (cch := c0 :: cs) in *. set (c := Loop cn cwf cms cch) in *.
  set (mid' := concat (repeat cch cn)).
  assert (HBc : body_of cwf (map ldur cch) = sumc (map ldur cch)) by reflexivity.
  assert (Hd : sumc (map ldur mid') = sumc (map ldur [c])).
  { unfold mid', c. rewrite sumc_concat_repeat. cbn [map sumc]. rewrite ldur_eq, HBc. ring. }
  assert (Hw : Permutation (seq_windows 0 (pieces mid') ++ tile cn (body_of cwf (map ldur cch)) cms)
                           (seq_windows 0 (pieces [c]))).
  { rewrite single_piece. unfold mid', c. rewrite windows_concat_repeat, loop_windows_eq, HBc.
    etransitivity; [apply Permutation_app_comm|]. symmetry. apply tile_app. }
  destruct (replace_mid n wf ms pre [c] mid' post (tile cn (body_of cwf (map ldur cch)) cms) Hd) as [R1 R2]; [| exact Hw |].
  - destruct Hside as [Hn | (c' & Hc' & Hr)]; [now left|right]. split; [destruct pre; discriminate|].
    injection Hc' as <-. unfold c in Hr. cbn [l_rep] in Hr.
    unfold mid'. destruct cn; [lia|]. cbn [repeat concat]. unfold cch. destruct pre; discriminate.
  - change (ldur (Loop n wf ms (pre ++ mid' ++ post)) = ldur (Loop n wf ms ch) /\
            Permutation (loop_windows (Loop n wf ms (pre ++ mid' ++ post)) ++
                         tile n (body_of wf (map ldur ch)) (shift (sumc (map ldur pre)) (tile cn (body_of cwf (map ldur cch)) cms)))
                        (loop_windows (Loop n wf ms ch))).
    rewrite Hs. auto.
Qed.

Corollary unroll_at_preserves_if_no_own i l l' c :
  unroll_at i l = Some l' -> nth_error (l_ch l) i = Some c -> l_ms c = [] ->
  (l_wf l = None \/ (1 <= l_rep c)%nat) -> same l' l.
Proof.
  intros H Hc Hm Hside. destruct (unroll_at_spec i l l' H) as [R1 R2].
  - destruct Hside; [now left|right; eauto].
  - split; [exact R1|]. destruct l as [n wf ms ch]. cbn [unroll_lost l_ch] in *. rewrite Hc in R2.
    destruct c as [cn cwf cms cch]. cbn [l_ms] in Hm. subst cms.
    rewrite tile_nil, shift_nil, tile_nil, app_nil_r in R2. exact R2.
Qed.

(* the statement "unroll keeps the measurement windows" is false of the code as it is *)
Theorem unroll_at_refuted :
  exists i l l', unroll_at i l = Some l' /\ ~ Permutation (loop_windows l') (loop_windows l).
Proof.
  exists 0%nat, (Loop 1 None [] [Loop 2 None [(0%N, Q2Qc 0, Q2Qc 1)] [Loop 1 (Some (Q2Qc 2)) [] []]]).
  eexists. split; [reflexivity|]. intro H. apply Permutation_length in H. vm_compute in H. discriminate.
Qed.

(* ---- unroll_children ---------------------------------------------------------------------------------------------------------------- *)
Theorem unroll_children_spec l l' :
  (1 <= l_rep l)%nat -> unroll_children l = Some l' ->
  ldur l' = ldur l /\ Permutation (loop_windows l' ++ unroll_children_lost l) (loop_windows l).
Proof.
  destruct l as [n wf ms [|c0 cs]]; cbn [l_rep unroll_children unroll_children_lost]; [discriminate|].
  intros Hn H. injection H as <-. set (ch := c0 :: cs).
  assert (HB : body_of wf (map ldur ch) = sumc (map ldur ch)) by reflexivity.
  assert (HB' : body_of wf (map ldur (concat (repeat ch n))) = sumc (map ldur ch) * natc n).
  { rewrite body_of_sumc; [apply sumc_concat_repeat|]. right. destruct n; [lia|]. discriminate. }
  split.
  - rewrite !ldur_eq, HB', HB, natc_1. ring.
  - rewrite !loop_windows_eq, tile_1, windows_concat_repeat, HB. set (B := sumc (map ldur ch)).
    set (W := seq_windows 0 (pieces ch)).
    etransitivity; [|symmetry; apply tile_app].
    destruct n as [|m]; [lia|]. replace (S m - 1)%nat with m by lia. rewrite (tile_S_cons m B ms).
    rewrite <- !app_assoc. apply Permutation_app_head. apply Permutation_app_comm.
Qed.

Corollary unroll_children_preserves_if l l' :
  (1 <= l_rep l)%nat -> unroll_children l = Some l' -> (l_ms l = [] \/ l_rep l = 1%nat) -> same l' l.
Proof.
  intros Hn H Hc. destruct (unroll_children_spec l l' Hn H) as [R1 R2]. split; [exact R1|].
  destruct l as [n wf ms ch]. cbn [unroll_children_lost l_ms l_rep] in *.
  assert (Z : shift (body_of wf (map ldur ch)) (tile (n - 1) (body_of wf (map ldur ch)) ms) = []).
  { destruct Hc as [->| ->]; [now rewrite tile_nil | reflexivity]. }
  rewrite Z, app_nil_r in R2. exact R2.
Qed.

Theorem unroll_children_refuted :
  exists l l', (1 <= l_rep l)%nat /\ unroll_children l = Some l' /\ ~ Permutation (loop_windows l') (loop_windows l).
Proof.
  exists (Loop 2 None [(0%N, Q2Qc 0, Q2Qc 1)] [Loop 1 (Some (Q2Qc 2)) [] []]). eexists.
  split; [cbn; lia|]. split; [reflexivity|]. intro H. apply Permutation_length in H. vm_compute in H. discriminate.
Qed.

(* ---- all rewrites at once: windows after ++ known-lost windows = windows before ------------------------------------------------ *)
Theorem apply_rw_spec r l l' :
  apply_rw r l = Some l' ->
  match r with
  | RUnroll i => l_wf l = None \/ exists c, nth_error (l_ch l) i = Some c /\ (1 <= l_rep c)%nat
  | RUnrollChildren => (1 <= l_rep l)%nat
  | _ => True
  end ->
  ldur l' = ldur l /\ Permutation (loop_windows l' ++ lost_rw r l) (loop_windows l).
Proof.
  destruct r; cbn [apply_rw lost_rw]; intros H Hside.
  - now apply unroll_at_spec.
  - now apply unroll_children_spec.
  - injection H as <-. rewrite app_nil_r. apply encapsulate_preserves.
  - rewrite app_nil_r. now apply (split_at_preserves i).
  - rewrite app_nil_r. unfold split_one_child in H. destruct (split_default_index (l_ch l)); [|discriminate].
    now apply (split_at_preserves n).
  - rewrite app_nil_r. now apply merge_single_child_preserves.
Qed.

(* ---- rewrites anywhere in the tree ------------------------------------------------------------------------------------------------ *)
Lemma side_b_sound r l : side_b r l = true ->
  match r with
  | RUnroll i => l_wf l = None \/ exists c, nth_error (l_ch l) i = Some c /\ (1 <= l_rep c)%nat
  | RUnrollChildren => (1 <= l_rep l)%nat
  | _ => True
  end.
Proof.
  destruct r; cbn [side_b]; auto.
  - intro H. apply orb_true_iff in H as [H|H].
    + left. destruct (l_wf l); [discriminate | reflexivity].
    + right. destruct (nth_error (l_ch l) i) as [c|]; [|discriminate]. exists c. split; auto. now apply Nat.leb_le.
  - intro H. now apply Nat.leb_le.
Qed.

Theorem apply_at_spec path r : forall l l',
  apply_at path r l = Some l' -> side_at path r l = true ->
  ldur l' = ldur l /\ Permutation (loop_windows l' ++ lost_at path r l) (loop_windows l).
Proof.
  induction path as [|i rest IH]; intros l l' H Hs; cbn [apply_at lost_at side_at] in *.
  - apply apply_rw_spec; auto. now apply side_b_sound.
  - destruct l as [n wf ms ch]. cbn [l_ch] in Hs. destruct (nth_error ch i) as [c|] eqn:E; [|discriminate].
    destruct (apply_at rest r c) as [c'|] eqn:Ec; [|discriminate]. injection H as <-.
    destruct (IH c c' Ec Hs) as [Hd Hw].
    pose proof (nth_error_split3 _ _ _ E) as Hsplit.
    set (pre := firstn i ch) in *. set (post := skipn (S i) ch) in *.
    destruct (replace_mid n wf ms pre [c] [c'] post (lost_at rest r c)) as [R1 R2].
    + cbn [map sumc]. now rewrite Hd.
    + right. split; destruct pre; discriminate.
    + now rewrite !single_piece.
    + change (ldur (Loop n wf ms (pre ++ [c'] ++ post)) = ldur (Loop n wf ms ch) /\
              Permutation (loop_windows (Loop n wf ms (pre ++ [c'] ++ post)) ++
                           tile n (body_of wf (map ldur ch)) (shift (sumc (map ldur pre)) (lost_at rest r c)))
                          (loop_windows (Loop n wf ms ch))).
      rewrite Hsplit. auto.
Qed.

(* any sequence of rewrites anywhere: the duration is kept, no window is ever added or moved, and the windows that
   disappear are exactly the accumulated own windows of unrolled loops *)
Theorem run_seq_spec steps : forall l l' lost,
  run_seq steps l = Some (l', lost) -> sides_ok steps l = true ->
  ldur l' = ldur l /\ Permutation (loop_windows l' ++ lost) (loop_windows l).
Proof.
  induction steps as [|[path r] rest IH]; intros l l' lost H Hs; cbn [run_seq sides_ok] in *.
  - injection H as <- <-. rewrite app_nil_r. auto.
  - apply andb_prop in Hs as [Hs1 Hs2]. destruct (apply_at path r l) as [l1|] eqn:E1; [|discriminate].
    destruct (run_seq rest l1) as [[l2 lost2]|] eqn:E2; [|discriminate]. injection H as <- <-.
    destruct (apply_at_spec path r l l1 E1 Hs1) as [A1 A2]. destruct (IH l1 l2 lost2 E2 Hs2) as [B1 B2].
    split; [congruence|]. rewrite app_assoc. etransitivity; [apply Permutation_app_tail; exact B2 | exact A2].
Qed.
