(* C02 — which parameters a template declares (PulseTemplate.parameter_names), and "the assignment provides them".
   Definitions only.  ProofsParams.v: two assignments that agree on the declared parameters give the same program,
   duration, windows, and the same verdict of every check. *)
From Coq Require Import ZArith QArith Qcanon List Bool.
Require Import QV.C02.Spec QV.C02.Model.
Import ListNotations.

Fixpoint evars (e : expr) : list N :=
  match e with
  | EC _ => []
  | EV x => [x]
  | EAdd a b | ESub a b | EMul a b => evars a ++ evars b
  end.
Definition dvars (ms : list decl) : list N := flat_map (fun d => match d with (_, b, l) => evars b ++ evars l end) ms.
Definition cvars (cs : list pcon) : list N := flat_map (fun c => match c with (_, a, b) => evars a ++ evars b end) cs.
Definition remove_N (x : N) (l : list N) : list N := filter (fun y => negb (N.eqb y x)) l.
(* MappingPT.parameter_names: the variables of the mapping expressions of the inner template's parameters (a parameter
   without entry is mapped to itself: allow_partial_parameter_mapping) *)
Definition map_params (pm : list (N * expr)) (inner : list N) : list N :=
  flat_map (fun x => match lookup pm x with Some e => evars e | None => [x] end) inner.

Fixpoint params (p : pt) : list N :=
  match p with
  | Atom _ d ms => evars d ++ dvars ms
  | Multi ms subs => dvars ms ++ flat_map params subs
  | Arith ms l r => dvars ms ++ params l ++ params r
  | Seq ms subs => dvars ms ++ flat_map params subs
  | Rep ms c b => dvars ms ++ evars c ++ params b
  | For ms i a b s body => dvars ms ++ evars a ++ evars b ++ evars s ++ remove_N i (params body)
  | Map pm _ cs b => cvars cs ++ map_params pm (params b)
  | Rev b => params b
  | Single b => params b
  | Pass b => params b
  end.

Definition memN (x : N) (l : list N) : bool := existsb (N.eqb x) l.
(* every declared parameter has a value in the assignment (given as an association list) *)
Definition provided (p : pt) (en : list (N * Qc)) : bool := forallb (fun x => memN x (map fst en)) (params p).
(* two assignments agree on the declared parameters *)
Definition agree (p : pt) (en en' : env) : Prop := forall x, In x (params p) -> en x = en' x.
