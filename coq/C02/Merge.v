(* C02 — MappingPT.__init__ merges a directly nested MappingPT (one without identifier and without parameter
   constraints) into itself at construction time (qupulse/pulses/mapping_pulse_template.py, "avoid nested mappings"):
       parameter_mapping   := {p: expr.evaluate_symbolic(outer parameter_mapping) for p, expr in inner.parameter_mapping}
       measurement_mapping := {k: outer measurement_mapping[v] for k, v in inner.measurement_mapping}
       template            := inner.template
   Definitions only.  In the model a mapping is a partial association list (a missing key is the identity), so the
   merged lists also carry the outer entries whose key the inner mapping does not mention. *)
From Coq Require Import ZArith QArith Qcanon List Bool.
Require Import QV.C02.Spec.
Import ListNotations.

(* Expression.evaluate_symbolic(substitutions) *)
Fixpoint esubst (e : expr) (pm : list (N * expr)) : expr :=
  match e with
  | EC q => EC q
  | EV x => match lookup pm x with Some e' => e' | None => EV x end
  | EAdd a b => EAdd (esubst a pm) (esubst b pm)
  | ESub a b => ESub (esubst a pm) (esubst b pm)
  | EMul a b => EMul (esubst a pm) (esubst b pm)
  end.
Definition has_key {A} (l : list (N * A)) (k : N) : bool := match lookup l k with Some _ => true | None => false end.

Definition merge_pm (pm2 pm1 : list (N * expr)) : list (N * expr) :=
  map (fun kv => (fst kv, esubst (snd kv) pm2)) pm1 ++ filter (fun kv => negb (has_key pm1 (fst kv))) pm2.
Definition merge_mm (mml2 mml1 : list (N * option N)) : list (N * option N) :=
  map (fun kv => (fst kv, match snd kv with
                          | Some v => match lookup mml2 v with Some r => r | None => Some v end
                          | None => None end)) mml1
  ++ filter (fun kv => negb (has_key mml1 (fst kv))) mml2.

(* MappingPT(template=body, parameter_mapping=pm2, measurement_mapping=mml2, parameter_constraints=cs2): an inner
   mapping is absorbed only when it has no constraints (and no identifier: a template with an identifier listed in
   to_single_waveform is a `Single` node in the model, never a bare `Map`) *)
Definition mk_map (pm2 : list (N * expr)) (mml2 : list (N * option N)) (cs2 : list pcon) (body : pt) : pt :=
  match body with
  | Map pm1 mml1 [] b => Map (merge_pm pm2 pm1) (merge_mm mml2 mml1) cs2 b
  | _ => Map pm2 mml2 cs2 body
  end.

(* the tree the constructors really build: inner nodes are constructed first, so an outer constructor sees the
   already merged inner mapping (chains of mappings collapse completely) *)
Fixpoint norm (p : pt) : pt :=
  match p with
  | Atom z d ms => Atom z d ms
  | Multi ms subs => Multi ms (map norm subs)
  | Arith ms l r => Arith ms (norm l) (norm r)
  | Seq ms subs => Seq ms (map norm subs)
  | Rep ms c b => Rep ms c (norm b)
  | For ms i a b s body => For ms i a b s (norm body)
  | Map pm mml cs b => mk_map pm mml cs (norm b)
  | Rev b => Rev (norm b)
  | Single b => Single (norm b)
  | Pass b => Pass (norm b)
  end.

(* no directly nested constraint-free mapping is left *)
Fixpoint merged (p : pt) : bool :=
  match p with
  | Atom _ _ _ => true
  | Multi _ subs => forallb merged subs
  | Arith _ l r => merged l && merged r
  | Seq _ subs => forallb merged subs
  | Rep _ _ b => merged b
  | For _ _ _ _ _ b => merged b
  | Map _ _ _ b => merged b && match b with Map _ _ [] _ => false | _ => true end
  | Rev b => merged b
  | Single b => merged b
  | Pass b => merged b
  end.
