(* C02 round 6 — Loop.cleanup() on loops WITH dead nodes (nodes below which nothing is played): for every loop whose inner
   nodes carry no waveform the result has the same duration and reports exactly the windows of the tree without its dead
   non-root nodes (Corr.prune) - the specification the CLoop cases are judged by. *)
From Coq Require Import ZArith QArith Qcanon List Bool Permutation Lia.
Require Import QV.C02.Spec QV.C02.Model QV.C02.Proofs QV.C02.Proofs2 QV.C02.Proofs3 QV.C02.ProofsR5.
Require QV.C02.Corr.
Import ListNotations.
Open Scope Qc_scope.
Notation alive := QV.C02.Corr.alive.
Notation prune := QV.C02.Corr.prune.

Definition solid (l : loop) : bool := match l_wf l, l_ch l with None, [] => false | _, _ => true end.
Definition live_children (ch : list loop) : list loop := flat_map (fun c => if alive c then [prune c] else []) ch.
Lemma prune_eq n wf ms ch : prune (Loop n wf ms ch) = Loop n wf ms (live_children ch).
Proof. reflexivity. Qed.
Lemma body_of_None ds : body_of None ds = sumc ds.
Proof. destruct ds; reflexivity. Qed.

Lemma nowf_inner n wf ms c ch : nowf (Loop n wf ms (c :: ch)) = true -> wf = None /\ forallb nowf (c :: ch) = true.
Proof. cbn [nowf]. intro H. apply andb_prop in H as [H1 H2]. cbn [is_nil orb] in H1. destruct wf; [discriminate|]. auto. Qed.

Lemma dead_dur l : nowf l = true -> alive l = false -> ldur l = 0.
Proof.
  induction l as [n wf ms ch IH] using loop_ind'. intros Hn Ha. rewrite ldur_eq. destruct ch as [|c ch].
  - cbn in Ha. destruct wf; [discriminate|]. cbn. ring.
  - destruct (nowf_inner _ _ _ _ _ Hn) as [-> Hc]. rewrite body_of_None.
    assert (E : sumc (map ldur (c :: ch)) = 0).
    { change (existsb alive (c :: ch) = false) in Ha. revert IH Hc Ha. generalize (c :: ch) as l. intros l IHl.
      induction IHl as [|x l Hx _ IHl]; cbn [forallb existsb map sumc]; intros Hc Ha; [reflexivity|].
      apply andb_prop in Hc as [H1 H2]. apply orb_false_elim in Ha as [H3 H4].
      rewrite (Hx H1 H3), (IHl H2 H4). ring. }
    rewrite E. ring.
Qed.

Lemma live_nil ch : live_children ch = [] <-> existsb alive ch = false.
Proof.
  induction ch as [|c ch IH]; cbn [live_children flat_map existsb]; [tauto|]. fold (live_children ch).
  destruct (alive c); cbn [app orb]; [split; discriminate| exact IH].
Qed.

(* a cleaned child against the pruned child *)
Definition crel (c' pc : loop) : Prop :=
  nowf c' = true /\ solid c' = true /\ ldur c' = ldur pc /\ Permutation (loop_windows c') (loop_windows pc).
Definition clean_ok (l : loop) : Prop :=
  nowf l = true ->
  nowf (cleanup l) = true /\ ldur (cleanup l) = ldur l /\ ldur (prune l) = ldur l /\
  Permutation (loop_windows (cleanup l)) (loop_windows (prune l)) /\
  (alive l = true -> solid (cleanup l) = true) /\ (l_ch l <> [] -> alive l = false -> solid (cleanup l) = false).

Lemma clean_child_nonleaf n wf ms x ch :
  clean_child (Loop n wf ms (x :: ch)) =
  if solid (cleanup (Loop n wf ms (x :: ch))) then [cleanup (Loop n wf ms (x :: ch))] else [].
Proof.
  unfold clean_child. cbv zeta. destruct (cleanup (Loop n wf ms (x :: ch))) as [n' wf' ms' ch'].
  unfold solid. cbn [l_wf l_ch]. destruct wf'; [reflexivity|]. destruct ch'; reflexivity.
Qed.

Lemma clean_child_spec c : nowf c = true -> clean_ok c ->
  ldur (prune c) = ldur c /\
  if alive c then exists c', clean_child c = [c'] /\ crel c' (prune c) else clean_child c = [].
Proof.
  intros Hn Hc. destruct c as [n wf ms [|x ch]].
  - split; [reflexivity|]. cbn [alive clean_child]. destruct wf; [|reflexivity].
    exists (Loop n (Some q) ms []). split; [reflexivity|]. repeat split; auto.
  - destruct (Hc Hn) as (C1 & C2 & C3 & C4 & C5 & C6). split; [exact C3|]. rewrite clean_child_nonleaf.
    destruct (alive (Loop n wf ms (x :: ch))) eqn:Ea.
    + rewrite (C5 eq_refl). eexists. split; [reflexivity|]. repeat split; auto. congruence.
    + rewrite C6; [reflexivity| cbn; discriminate | reflexivity].
Qed.

Lemma clean_children_spec ch :
  Forall clean_ok ch -> forallb nowf ch = true ->
  Forall2 crel (flat_map clean_child ch) (live_children ch) /\
  sumc (map ldur (live_children ch)) = sumc (map ldur ch).
Proof.
  induction 1 as [|c ch Hc _ IH]; cbn [forallb flat_map live_children map sumc]; intro Hn; [split; auto|].
  fold (live_children ch). apply andb_prop in Hn as [Hn1 Hn2]. destruct (IH Hn2) as [F S].
  destruct (clean_child_spec c Hn1 Hc) as [D A]. destruct (alive c) eqn:Ea.
  - destruct A as (c' & -> & Rc). cbn [app map sumc]. split; [constructor; auto|]. now rewrite D, S.
  - rewrite A. cbn [app]. split; [exact F|]. rewrite S, (dead_dur c Hn1 Ea). ring.
Qed.

Lemma F2_length {A B} (R : A -> B -> Prop) l l' : Forall2 R l l' -> length l = length l'.
Proof. induction 1; cbn; auto. Qed.
Lemma crel_lists ch' pr :
  Forall2 crel ch' pr ->
  map ldur ch' = map ldur pr /\ Forall2 piece_eq (pieces ch') (pieces pr) /\ forallb nowf ch' = true /\
  forallb solid ch' = true.
Proof.
  induction 1 as [|c' c ch' ch (H1 & H2 & H3 & H4) _ (I1 & I2 & I3 & I4)]; cbn [map pieces forallb]; [auto|].
  repeat split.
  - now rewrite H3, I1.
  - constructor; [split; cbn; auto| exact I2].
  - now rewrite H1, I3.
  - now rewrite H2, I4.
Qed.

(* _merge_single_child keeps duration and windows (no assumption on the child) *)
Lemma merge_keeps n m cwf cms cch ms :
  is_nil ms || (m =? 1)%nat = true ->
  ldur (Loop (n * m) cwf (cms ++ ms) cch) = ldur (Loop n None ms [Loop m cwf cms cch]) /\
  Permutation (loop_windows (Loop (n * m) cwf (cms ++ ms) cch)) (loop_windows (Loop n None ms [Loop m cwf cms cch])).
Proof.
  intro Hc. split.
  - rewrite !ldur_eq. cbn [map]. rewrite body_of_nonleaf. cbn [sumc]. rewrite ldur_eq, natc_mul. ring.
  - rewrite !loop_windows_eq. cbn [map pieces]. rewrite body_of_nonleaf. cbn [sumc seq_windows].
    rewrite shift_0, app_nil_r, ldur_eq, loop_windows_eq.
    set (Bc := body_of cwf (map ldur cch)). set (X := seq_windows 0 (pieces cch)).
    replace (Bc * natc m + 0) with (Bc * natc m) by ring.
    apply orb_true_iff in Hc as [Hc|Hc].
    + destruct ms; [|discriminate]. cbn [app]. rewrite app_nil_r. symmetry. apply tile_tile.
    + apply Nat.eqb_eq in Hc. subst m. rewrite Nat.mul_1_r, natc_1, tile_1.
      replace (Bc * 1) with Bc by ring. apply tile_perm. perm_app.
Qed.

Theorem cleanup_clean_ok l : clean_ok l.
Proof.
  induction l as [n wf ms ch IH] using loop_ind'. intro Hn. rewrite cleanup_eq, prune_eq.
  destruct ch as [|c0 ch0].
  - cbn [flat_map merge_or_keep live_children]. repeat split; auto.
  - destruct (nowf_inner _ _ _ _ _ Hn) as [-> Hch]. set (ch := c0 :: ch0) in *.
    destruct (clean_children_spec ch IH Hch) as [F S]. set (ch' := flat_map clean_child ch) in *.
    set (pr := live_children ch) in *.
    destruct (crel_lists _ _ F) as (Hd & Hp & Hw & Hs).
    assert (Ha : alive (Loop n None ms ch) = existsb alive ch) by reflexivity.
    assert (Hlen : length ch' = length pr) by (eapply F2_length; eauto).
    (* the result before _merge_single_child *)
    assert (K : nowf (Loop n None ms ch') = true /\ ldur (Loop n None ms ch') = ldur (Loop n None ms ch) /\
                ldur (Loop n None ms pr) = ldur (Loop n None ms ch) /\
                Permutation (loop_windows (Loop n None ms ch')) (loop_windows (Loop n None ms pr))).
    { repeat split.
      - cbn [nowf]. rewrite Hw. now rewrite orb_true_r.
      - rewrite !ldur_eq, Hd, !body_of_None, S. reflexivity.
      - rewrite !ldur_eq, !body_of_None, S. reflexivity.
      - rewrite !loop_windows_eq, Hd. apply tile_perm. apply Permutation_app_head. now apply seq_windows_perm. }
    destruct K as (K1 & K2 & K3 & K4).
    assert (Hdead : alive (Loop n None ms ch) = false -> ch' = []).
    { intro E. rewrite Ha in E. apply live_nil in E. fold pr in E. rewrite E in Hlen. now destruct ch'. }
    assert (Hlive : alive (Loop n None ms ch) = true -> ch' <> []).
    { intros E E'. rewrite E' in Hlen. destruct pr eqn:Ep; [|discriminate]. apply live_nil in Ep. congruence. }
    assert (Keep : nowf (Loop n None ms ch') = true /\ ldur (Loop n None ms ch') = ldur (Loop n None ms ch) /\
              ldur (Loop n None ms pr) = ldur (Loop n None ms ch) /\
              Permutation (loop_windows (Loop n None ms ch')) (loop_windows (Loop n None ms pr)) /\
              (alive (Loop n None ms ch) = true -> solid (Loop n None ms ch') = true) /\
              (l_ch (Loop n None ms ch) <> [] -> alive (Loop n None ms ch) = false -> solid (Loop n None ms ch') = false)).
    { repeat split; auto.
      - intro E. specialize (Hlive E). unfold solid. cbn [l_wf l_ch]. destruct ch'; congruence.
      - intros _ E. rewrite (Hdead E). reflexivity. }
    unfold merge_or_keep. destruct ch' as [|[m cwf cms cch] [|c2 r]]; try exact Keep.
    destruct (is_nil ms || (m =? 1)%nat) eqn:Hc; [|exact Keep].
    destruct (merge_keeps n m cwf cms cch ms Hc) as [M1 M2].
    cbn [forallb] in Hw, Hs. rewrite andb_true_r in Hw, Hs.
    repeat split; auto;
      try (now rewrite M1); try (etransitivity; [exact M2| exact K4]);
      try (intros _ E; specialize (Hdead E); discriminate).
Qed.

(* Loop.cleanup() of ANY loop whose inner nodes carry no waveform (dead nodes - leaves without a waveform, inner nodes
   below which nothing is played - anywhere, with windows of their own): the duration is kept and the windows reported
   afterwards are exactly those of the tree without its dead non-root nodes; the dead nodes' durations are 0, so removing
   them moves nothing *)
Theorem cleanup_is_prune l : nowf l = true ->
  nowf (cleanup l) = true /\ ldur (cleanup l) = ldur l /\ ldur (prune l) = ldur l /\
  Permutation (loop_windows (cleanup l)) (QV.C02.Corr.exec_windows (prune l)).
Proof.
  intro H. destruct (cleanup_clean_ok l H) as (C1 & C2 & C3 & C4 & _). rewrite exec_windows_eq. auto.
Qed.

(* without dead nodes nothing is pruned (so this contains C02_cleanup_preserves) *)
Lemma prune_wfl l : wfl l = true -> prune l = l.
Proof.
  induction l as [n wf ms ch IH] using loop_ind'. intro Hw. rewrite prune_eq. f_equal.
  destruct ch as [|c ch]; [reflexivity|]. cbn [wfl] in Hw. destruct wf; [discriminate|].
  revert IH Hw. generalize (c :: ch) as l. intros l IHl. induction IHl as [|x l Hx _ IHl]; cbn [forallb live_children flat_map]; intro Hw; [reflexivity|].
  fold (live_children l). apply andb_prop in Hw as [H1 H2].
  assert (Ha : alive x = true).
  { clear - H1. induction x as [n wf ms ch IH] using loop_ind'. cbn [wfl alive] in *. destruct ch as [|c ch]; [destruct wf; auto|].
    destruct wf; [discriminate|]. cbn [forallb existsb] in *. apply andb_prop in H1 as [H1 _]. inversion IH; subst. rewrite (H2 H1). reflexivity. }
  rewrite Ha, (Hx H1), (IHl H2). reflexivity.
Qed.

(* the dead-node clause is not vacuous: a window on a dead child and one on a dead grandchild disappear, the others stay *)
Example cleanup_is_prune_nonvacuous :
  let w n b := (n, Q2Qc b, Q2Qc 1) : window in
  let dead := Loop 2 None [w 1%N 0] [Loop 1 None [w 2%N 0] []] in
  let l := Loop 2 None [w 0%N 0] [Loop 1 (Some (Q2Qc 2)) [w 3%N 1] []; dead; Loop 1 None [w 4%N 0] []] in
  nowf l && negb (wfl l) && (length (loop_windows l) =? 14)%nat && (length (loop_windows (cleanup l)) =? 4)%nat
  && (length (loop_windows (prune l)) =? 4)%nat = true.
Proof. vm_compute. reflexivity. Qed.
