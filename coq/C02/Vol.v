(* C02 — when do the windows reported after a volatile count update (Model.vwin: cached body durations of the build)
   coincide with the windows of the same tree recomputed from scratch with the new counts (loop_windows (zip_rep a b))?
   Executable guard on the pair (program as built, same shape with the new counts).  Definitions only. *)
From Coq Require Import ZArith QArith Qcanon List Bool.
Require Import QV.C02.Spec QV.C02.Model.
Import ListNotations.

(* same shape and the same repetition count everywhere *)
Fixpoint stable (a b : loop) {struct a} : bool :=
  match a, b with
  | Loop n _ _ ch, Loop n' _ _ ch' =>
      Nat.eqb n n' &&
      (fix go (l l' : list loop) : bool :=
         match l, l' with
         | [], [] => true
         | x :: r, y :: r' => stable x y && go r r'
         | _, _ => false
         end) ch ch'
  end.
Definition kids_stable (a b : loop) : bool :=
  (fix go (l l' : list loop) : bool :=
     match l, l' with
     | [], [] => true
     | x :: r, y :: r' => stable x y && go r r'
     | _, _ => false
     end) (l_ch a) (l_ch b).

(* the count of the loop itself may differ freely; below it only the LAST child may contain changed counts, and if
   that child's own children changed (its cached body duration is stale) this loop must run once (count 1 after the
   update), so that the stale duration is never used as a tiling step or as an offset *)
Fixpoint vwok (a b : loop) {struct a} : bool :=
  match a, b with
  | Loop _ _ _ ch, Loop n _ _ ch' =>
      (fix go (l l' : list loop) : bool :=
         match l, l' with
         | [], [] => true
         | x :: r, y :: r' =>
             match r with
             | [] => is_nil r' && vwok x y && (kids_stable x y || Nat.eqb n 1)
             | _ => stable x y && go r r'
             end
         | _, _ => false
         end) ch ch'
  end.
