(* C02 — property theorems (statements only; proofs live in Proofs*.v). *)
From Coq Require Import ZArith QArith Qcanon List Bool Permutation.
Require Import QV.C02.Spec QV.C02.Model QV.C02.Proofs QV.C02.Proofs2 QV.C02.Proofs3.
Import ListNotations.
Open Scope Qc_scope.

(* The windows reported by the instantiated program are exactly (as a multiset) the windows the template tree denotes:
   every declaration once per execution of its node, at that execution's start + begin, renamed / dropped through the
   composed measurement mappings, mirrored per execution of an enclosing reversed part.  Unbounded in tree shape,
   nesting, repetition counts, ranges, parameters and mappings. *)
Theorem C02_windows : forall p en mm prog,
  create_program p en mm = Program prog -> Permutation (loop_windows prog) (denote p en mm).
Proof. intros p en mm prog H. apply (create_program_windows p en mm prog H). Qed.
Print Assumptions C02_windows.

(* ... and the program lasts as long as the template says *)
Theorem C02_duration : forall p en mm prog,
  create_program p en mm = Program prog -> ldur prog = tdur p en.
Proof. intros p en mm prog H. apply (create_program_windows p en mm prog H). Qed.
Print Assumptions C02_duration.

(* no program is produced exactly when the template plays nothing (then it denotes no window either) *)
Theorem C02_empty : forall p en mm,
  valid p en mm = true -> (create_program p en mm = NoProgram <-> plays p en = false).
Proof. exact create_program_none. Qed.
Print Assumptions C02_empty.

Theorem C02_empty_denotes_nothing : forall p en mm, plays p en = false -> denote p en mm = [] /\ tdur p en = 0.
Proof. intros p en mm H. split; [now apply denote_noplay | now apply tdur_noplay]. Qed.
Print Assumptions C02_empty_denotes_nothing.

(* corollary: if every declaration lies inside its own node (Spec.inside), every reported window lies inside
   [0, program duration] — also inside reversed parts, repetitions and iterations *)
Theorem C02_inside : forall p en mm prog,
  create_program p en mm = Program prog -> inside p en = true ->
  Forall (win_in 0 (ldur prog)) (loop_windows prog).
Proof. exact program_windows_inside. Qed.
Print Assumptions C02_inside.

(* Loop.reverse_inplace on ANY loop tree (windows on any node, any repetition counts): same duration, every window
   mirrored about the total duration *)
Theorem C02_reverse_mirrors : forall l,
  ldur (reverse_loop l) = ldur l /\
  Permutation (loop_windows (reverse_loop l)) (mirror (ldur l) (loop_windows l)).
Proof. exact reverse_loop_spec. Qed.
Print Assumptions C02_reverse_mirrors.

(* Loop.cleanup() keeps duration and windows of any loop tree without empty loops ... *)
Theorem C02_cleanup_preserves : forall l, wfl l = true ->
  wfl (cleanup l) = true /\ ldur (cleanup l) = ldur l /\ Permutation (loop_windows (cleanup l)) (loop_windows l).
Proof. exact cleanup_preserves. Qed.
Print Assumptions C02_cleanup_preserves.

(* ... in particular of every program the builder produces: the property also holds after cleanup() *)
Theorem C02_windows_after_cleanup : forall p en mm prog,
  create_program p en mm = Program prog ->
  ldur (cleanup prog) = tdur p en /\ Permutation (loop_windows (cleanup prog)) (denote p en mm).
Proof. exact cleanup_program_windows. Qed.
Print Assumptions C02_windows_after_cleanup.

(* the independent additive reading of a Loop (body played rep times one after the other; oracle of the hand-built
   loop cases, Corr.exec_windows) is exactly what _get_measurement_windows' tiling computes *)
Theorem C02_loop_windows_additive : forall l, QV.C02.Corr.exec_windows l = loop_windows l.
Proof. exact exec_windows_eq. Qed.
Print Assumptions C02_loop_windows_additive.

(* non-vacuity: a reversed repetition inside a sequence with renaming satisfies the hypotheses of C02_windows and
   C02_inside (a program is produced, all declarations inside their nodes) and reports 4 windows *)
Example C02_example :
  let a := Atom false (EC (Q2Qc 3)) [(1%N, EC (Q2Qc 1), EC (Q2Qc 1))] in
  let p := Seq [(2%N, EC (Q2Qc 0), EC (Q2Qc 9))] [a; Rev (Rep [] (EC (Q2Qc 2)) (Map [] [(1%N, Some 3%N)] a))] in
  match create_program p (fun _ => Q2Qc 0) Some with
  | Program prog => inside p (fun _ => Q2Qc 0) && (length (loop_windows prog) =? 4)%nat
  | _ => false
  end = true.
Proof. vm_compute. reflexivity. Qed.
