(* C02 — property theorems (statements only; proofs live in Proofs*.v). *)
From Coq Require Import ZArith QArith Qcanon List Bool Permutation.
Require Import QV.C02.Spec QV.C02.Model QV.C02.Proofs QV.C02.Proofs2 QV.C02.Proofs3.
Require Import QV.C02.Stack QV.C02.ProofsStack QV.C02.Merge QV.C02.ProofsMerge QV.C02.Rewrite QV.C02.ProofsRw QV.C02.ProofsAccept.
Require Import QV.C02.Flatten QV.C02.ProofsFlat QV.C02.Vol QV.C02.ProofsVol QV.C02.Params QV.C02.ProofsParams.
Require Import QV.C02.ProofsAtomic QV.C02.ProofsR5 QV.C02.Render QV.C02.ProofsRender QV.C02.ProofsClean.
Import ListNotations.
Open Scope Qc_scope.

(* The windows reported by the instantiated program are exactly (as a multiset) the windows the template tree denotes:
   every declaration once per execution of its node, at that execution's start + begin, renamed / dropped through the
   composed measurement mappings, mirrored per execution of an enclosing reversed part.  Unbounded in tree shape,
   nesting, repetition counts, ranges, parameters and mappings. *)
Theorem C02_windows : forall p en mm prog,
  create_program p en mm = Program prog -> Permutation (loop_windows prog) (denote p en mm).
Proof. exact windows_perm. Qed.
Print Assumptions C02_windows.

(* TOTAL form (round 5): the hypothesis "a program is produced" of C02_windows is not a loophole - every assignment with
   nothing to object to (Spec.must_accept, defined on the template alone) for which the template plays anything DOES get
   a program, with the template's duration and exactly the denoted windows *)
Theorem C02_windows_total : forall p en mm,
  must_accept p en = true -> plays p en = true ->
  exists prog, create_program p en mm = Program prog /\ ldur prog = tdur p en /\
               Permutation (loop_windows prog) (denote p en mm).
Proof. exact windows_total. Qed.
Print Assumptions C02_windows_total.

(* ... and the program lasts as long as the template says *)
Theorem C02_duration : forall p en mm prog,
  create_program p en mm = Program prog -> ldur prog = tdur p en.
Proof. exact program_duration. Qed.
Print Assumptions C02_duration.

(* no program is produced exactly when the template plays nothing (then it denotes no window either) *)
Theorem C02_empty : forall p en mm,
  check p en mm = None -> (create_program p en mm = NoProgram <-> plays p en = false).
Proof. exact create_program_none. Qed.
Print Assumptions C02_empty.

Theorem C02_empty_denotes_nothing : forall p en mm, plays p en = false -> denote p en mm = [] /\ tdur p en = 0.
Proof. exact empty_denotes_nothing. Qed.
Print Assumptions C02_empty_denotes_nothing.

(* corollary: if every declaration lies inside its own node (Spec.inside), every reported window lies inside
   [0, program duration] — also inside reversed parts, repetitions and iterations *)
Theorem C02_inside : forall p en mm prog,
  create_program p en mm = Program prog -> inside p en = true ->
  Forall (win_in 0 (ldur prog)) (loop_windows prog).
Proof. exact program_windows_inside. Qed.
Print Assumptions C02_inside.

(* Loop.reverse_inplace on ANY loop tree (windows on any node, any repetition counts): same duration, every window
   mirrored about the total duration *)
Theorem C02_reverse_mirrors : forall l,
  ldur (reverse_loop l) = ldur l /\
  Permutation (loop_windows (reverse_loop l)) (mirror (ldur l) (loop_windows l)).
Proof. exact reverse_loop_spec. Qed.
Print Assumptions C02_reverse_mirrors.

(* Loop.cleanup() keeps duration and windows of any loop tree without empty loops ... *)
Theorem C02_cleanup_preserves : forall l, wfl l = true ->
  wfl (cleanup l) = true /\ ldur (cleanup l) = ldur l /\ Permutation (loop_windows (cleanup l)) (loop_windows l).
Proof. exact cleanup_preserves. Qed.
Print Assumptions C02_cleanup_preserves.

(* ... in particular of every program the builder produces: the property also holds after cleanup() *)
Theorem C02_windows_after_cleanup : forall p en mm prog,
  create_program p en mm = Program prog ->
  ldur (cleanup prog) = tdur p en /\ Permutation (loop_windows (cleanup prog)) (denote p en mm).
Proof. exact cleanup_program_windows. Qed.
Print Assumptions C02_windows_after_cleanup.

(* the independent additive reading of a Loop (body played rep times one after the other; oracle of the hand-built
   loop cases, Corr.exec_windows) is exactly what _get_measurement_windows' tiling computes *)
Theorem C02_loop_windows_additive : forall l,
  QV.C02.Corr.exec_dur l = ldur l /\ QV.C02.Corr.exec_windows l = loop_windows l.
Proof. exact exec_reading_eq. Qed.
Print Assumptions C02_loop_windows_additive.

(* ---- round 2: the Python stack machine ------------------------------------------------------------------------------ *)
(* REFINEMENT.  LoopBuilder as the stack machine it is (Stack.v: explicit stack of Loop / LoopGuard frames per builder,
   a stack of builders for time_reversed / new_subprogram, every method and every context-manager enter / exit a
   separate step).  Running the calls a template performs (Stack.events) from ANY machine state whose innermost
   builder is the concretisation of a functional builder state t (guards in front of the Loop frame they write to)
   ends - without getting stuck - in the concretisation of `build p en mm t`; the frames below the guards, the other
   builders and the identity of the Loop frame are untouched.  For all templates, environments and mappings. *)
Theorem C02_stack_refines : forall p en mm t n x rest bs,
  run (events p en mm) (conc t n x rest :: bs) = Some (conc (build p en mm t) n x rest :: bs).
Proof. exact stack_refines. Qed.
Print Assumptions C02_stack_refines.

(* ... in particular create_program on a fresh LoopBuilder returns the program of the functional builder: same
   children, same own measurements, same body duration (the whole root Loop is equal) *)
Theorem C02_stack_program : forall p en mm, sm_program p en mm = Some (to_program (build p en mm fresh)).
Proof. exact stack_program. Qed.
Print Assumptions C02_stack_program.

(* hence the property holds of the stack machine's program *)
Theorem C02_stack_windows : forall p en mm prog,
  check p en mm = None -> sm_program p en mm = Some (Some prog) ->
  ldur prog = tdur p en /\ Permutation (loop_windows prog) (denote p en mm).
Proof. exact stack_windows. Qed.
Print Assumptions C02_stack_windows.

(* ---- round 2: MappingPT's constructor-time merging ----------------------------------------------------------------------- *)
(* the tree the constructors really build (Merge.norm: every MappingPT absorbs a directly nested constraint-free
   MappingPT, composing the parameter substitutions and the measurement renamings) plays, lasts and denotes exactly
   what the tree as written does - for every environment and mapping *)
Theorem C02_mapping_merge : forall p en mm,
  plays (norm p) en = plays p en /\ tdur (norm p) en = tdur p en /\ denote (norm p) en mm = denote p en mm.
Proof. exact mapping_merge. Qed.
Print Assumptions C02_mapping_merge.

Theorem C02_mapping_merge_program : forall p en mm prog,
  create_program (norm p) en mm = Program prog ->
  ldur prog = tdur p en /\ Permutation (loop_windows prog) (denote p en mm).
Proof. exact norm_program_windows. Qed.
Print Assumptions C02_mapping_merge_program.

(* ... and that tree has no constraint-free mapping directly inside a mapping left (chains collapse completely) *)
Theorem C02_mapping_merge_complete : forall p, merged (norm p) = true.
Proof. exact norm_merged. Qed.
Print Assumptions C02_mapping_merge_complete.

(* the merged mappings are the compositions, pointwise *)
Theorem C02_merge_composes : forall pm2 pm1 mml2 mml1 en mm,
  (forall x, menv (merge_pm pm2 pm1) en x = menv pm1 (menv pm2 en) x) /\
  (forall k, mcomp (merge_mm mml2 mml1) mm k = mcomp mml1 (mcomp mml2 mm) k).
Proof. exact merge_composes. Qed.
Print Assumptions C02_merge_composes.

(* ---- round 2: windows under the structural rewrites of Loop ----------------------------------------------------------------- *)
(* every rewrite keeps the duration, and windows-after ++ (the windows the rewrite is known to drop) = windows-before;
   nothing is dropped by encapsulate, split_one_child, _merge_single_child *)
Theorem C02_rewrites : forall r l l',
  apply_rw r l = Some l' ->
  match r with
  | RUnroll i => l_wf l = None \/ exists c, nth_error (l_ch l) i = Some c /\ (1 <= l_rep c)%nat
  | RUnrollChildren => (1 <= l_rep l)%nat
  | _ => True
  end ->
  ldur l' = ldur l /\ Permutation (loop_windows l' ++ lost_rw r l) (loop_windows l).
Proof. exact apply_rw_spec. Qed.
Print Assumptions C02_rewrites.

(* the same for a rewrite applied to ANY sub-loop (path of child indices), and for ANY sequence of such rewrites -
   which is what flatten_and_balance and cleanup perform: the duration is kept, no window is ever added or moved, and
   the windows that disappear are exactly the accumulated own windows of the loops that were unrolled *)
Theorem C02_rewrite_anywhere : forall path r l l',
  apply_at path r l = Some l' -> side_at path r l = true ->
  ldur l' = ldur l /\ Permutation (loop_windows l' ++ lost_at path r l) (loop_windows l).
Proof. exact apply_at_spec. Qed.
Print Assumptions C02_rewrite_anywhere.
Theorem C02_rewrite_sequences : forall steps l l' lost,
  run_seq steps l = Some (l', lost) -> sides_ok steps l = true ->
  ldur l' = ldur l /\ Permutation (loop_windows l' ++ lost) (loop_windows l).
Proof. exact run_seq_spec. Qed.
Print Assumptions C02_rewrite_sequences.
Example C02_rewrite_sequences_nonvacuous :
  let c := Loop 2 None [(0%N, Q2Qc 1, Q2Qc 1)] [Loop 3 (Some (Q2Qc 2)) [(1%N, Q2Qc 0, Q2Qc 1)] []; Loop 1 (Some (Q2Qc 1)) [] []] in
  let l := Loop 1 None [(2%N, Q2Qc 0, Q2Qc 1)] [Loop 1 (Some (Q2Qc 1)) [] []; Loop 1 None [] [c]] in
  (* what flatten_and_balance(1) does here: merge the single child, then unroll it *)
  let steps := [([1%nat], RMerge); ([], RUnroll 1)] in
  match run_seq steps l with
  | Some (l', lost) => sides_ok steps l && (length lost =? 2)%nat && (length (loop_windows l') =? 7)%nat
  | None => false
  end = true.
Proof. vm_compute. reflexivity. Qed.

(* Loop.unroll() / Loop.unroll_children() as they are lose the unrolled loop's own windows: the unguarded statement
   "the rewrite keeps get_measurement_windows()" is false of the faithful model (and of the code: known finding
   rewrite-drops-own-measurements) ... *)
Theorem C02_unroll_keeps_windows_refuted :
  exists i l l', unroll_at i l = Some l' /\ ~ Permutation (loop_windows l') (loop_windows l).
Proof. exact unroll_at_refuted. Qed.
Print Assumptions C02_unroll_keeps_windows_refuted.
Theorem C02_unroll_children_keeps_windows_refuted :
  exists l l', (1 <= l_rep l)%nat /\ unroll_children l = Some l' /\ ~ Permutation (loop_windows l') (loop_windows l).
Proof. exact unroll_children_refuted. Qed.
Print Assumptions C02_unroll_children_keeps_windows_refuted.

(* ... and true under the executable guard "the rewritten loop has no own windows to lose" *)
(* guard_C02_rewrite_drops_own_measurements r l := is_nil (lost_rw r l)   (Rewrite.v) *)
Theorem C02_rewrites_preserve : forall r l l',
  apply_rw r l = Some l' ->
  match r with
  | RUnroll i => l_wf l = None \/ exists c, nth_error (l_ch l) i = Some c /\ (1 <= l_rep c)%nat
  | RUnrollChildren => (1 <= l_rep l)%nat
  | _ => True
  end ->
  guard_C02_rewrite_drops_own_measurements r l = true ->
  ldur l' = ldur l /\ Permutation (loop_windows l') (loop_windows l).
Proof. exact rewrites_preserve. Qed.
Print Assumptions C02_rewrites_preserve.
Example C02_rewrites_preserve_nonvacuous :
  let c := Loop 2 None [] [Loop 3 (Some (Q2Qc 2)) [(0%N, Q2Qc 0, Q2Qc 1)] []; Loop 1 (Some (Q2Qc 1)) [] []] in
  let l := Loop 2 None [(1%N, Q2Qc 1, Q2Qc 1)] [Loop 1 (Some (Q2Qc 1)) [] []; c] in
  match apply_rw (RUnroll 1) l with
  | Some l' => guard_C02_rewrite_drops_own_measurements (RUnroll 1) l && (length (loop_windows l') =? 14)%nat
  | None => false
  end = true.
Proof. vm_compute. reflexivity. Qed.

(* ---- round 2: what the code does with a declaration that sticks out of its node ------------------------------------------- *)
(* nothing compares a window with the duration of its node: such an assignment is accepted and the window is
   reported beyond the end of the program (the `inside` hypothesis of C02_inside cannot be dropped) *)
Example C02_outside_is_accepted :
  let p := Atom false (EC (Q2Qc 2)) [(1%N, EC (Q2Qc 1), EC (Q2Qc 3))] in
  match create_program p (fun _ => Q2Qc 0) Some with
  | Program prog => negb (inside p (fun _ => Q2Qc 0)) && must_accept p (fun _ => Q2Qc 0)
                    && Qceqb (ldur prog) (Q2Qc 2)
                    && match loop_windows prog with [(_, b, l)] => Qcltb (ldur prog) (b + l) | _ => false end
  | _ => false
  end = true.
Proof. vm_compute. reflexivity. Qed.

(* ---- round 2: which assignments are refused, and how ------------------------------------------------------------------ *)
(* an assignment with nothing to object to (no violated constraint, integer counts / range bounds, step <> 0, no
   negative begin / length, equal durations inside atomic composites) passes every check: never Rejected *)
Theorem C02_accepts : forall p en mm,
  must_accept p en = true -> check p en mm = None /\ forall k, create_program p en mm <> Rejected k.
Proof. exact accepts. Qed.
Print Assumptions C02_accepts.

Theorem C02_must_accept_iff_no_violation : forall p en, must_accept p en = true <-> viol p en = [].
Proof. exact must_accept_viol. Qed.
Print Assumptions C02_must_accept_iff_no_violation.

(* every refusal is legitimate and of the right kind: the kind reported is the class of a condition that really is
   violated somewhere in the tree (constraint / non-integer count / ValueError conditions / atomic duration mismatch);
   "window outside [0, duration of its node]" is not among the kinds - the code never checks it (C02_outside_is_accepted) *)
Theorem C02_refusal_is_legitimate : forall p en mm k,
  create_program p en mm = Rejected k -> In (kclass k) (viol p en).
Proof. exact refusal_is_legitimate. Qed.
Print Assumptions C02_refusal_is_legitimate.

(* ---- round 2: volatile repetition counts ------------------------------------------------------------------------------- *)
(* "after the counts are updated the windows are the declared ones under the new counts" is FALSE of the faithful
   model (Model.updated_windows: the tree built under en with the counts of en2, read with the cached body
   durations of the build) and of the code (known finding
   volatile-update-stale-offsets): the window of the atom behind the repetition stays at 4 instead of moving to 6 *)
Theorem C02_volatile_update_refuted :
  exists p en en2 mm ws,
    (forall x, x <> 5%N -> en x = en2 x) /\ updated_windows p en en2 mm = Some ws /\
    ~ Permutation ws (denote p en2 mm).
Proof. exact volatile_update_refuted. Qed.
Print Assumptions C02_volatile_update_refuted.

(* ---- round 3: flatten_and_balance is a sequence of the modelled rewrites ------------------------------------------------- *)
(* Flatten.fab = Loop.flatten_and_balance(depth) on the Loop model with windows (while loop + recursion on fuel, tied to
   the code by the CFlatM cases: same logged rewrites, same result).  Whatever it returns is Rewrite.run_seq of the
   steps it logged - for every loop, depth and fuel: a theorem of the model, no longer a per-run replay *)
Theorem C02_flatten_is_rewrite_sequence : forall fuel d l l' st,
  flatten_and_balance fuel d l = Some (l', st) -> exists lost, run_seq st l = Some (l', lost).
Proof. exact (fun fuel d => fab_is_run_seq fuel d 0). Qed.
Print Assumptions C02_flatten_is_rewrite_sequence.

(* hence (C02_rewrite_sequences) it keeps the duration, adds and moves nothing; what disappears are own windows of
   loops it unrolled *)
Theorem C02_flatten_windows : forall fuel d l l' st,
  flatten_and_balance fuel d l = Some (l', st) -> sides_ok st l = true ->
  ldur l' = ldur l /\ exists lost, Permutation (loop_windows l' ++ lost) (loop_windows l).
Proof. exact fab_windows. Qed.
Print Assumptions C02_flatten_windows.
(* round 5: the side conditions need not be assumed for loops whose inner nodes carry no waveform (ProofsR5.nowf;
   implied by Proofs3.wfl, which holds of every program the builder produces): all rewrites flatten_and_balance performs
   satisfy them, and the result is again such a loop ... *)
Theorem C02_flatten_side_conditions_hold : forall fuel d l l' st,
  nowf l = true -> flatten_and_balance fuel d l = Some (l', st) ->
  sides_ok st l = true /\ nowf l' = true /\ ldur l' = ldur l /\
  exists lost, run_seq st l = Some (l', lost) /\ Permutation (loop_windows l' ++ lost) (loop_windows l).
Proof. exact fab_windows_nowf. Qed.
Print Assumptions C02_flatten_side_conditions_hold.
(* ... so for every program built from a template: flatten_and_balance keeps the template's duration, adds and moves
   nothing; what it no longer reports (`lost`: own windows of loops it unrolled, known finding) completes the denoted windows *)
Theorem C02_flatten_program_windows : forall p en mm prog fuel d l' st,
  create_program p en mm = Program prog -> flatten_and_balance fuel d prog = Some (l', st) ->
  ldur l' = tdur p en /\ exists lost, Permutation (loop_windows l' ++ lost) (denote p en mm).
Proof. exact fab_program_windows. Qed.
Print Assumptions C02_flatten_program_windows.
Example C02_flatten_nonvacuous :
  let c := Loop 2 None [(0%N, Q2Qc 1, Q2Qc 1)] [Loop 3 (Some (Q2Qc 2)) [(1%N, Q2Qc 0, Q2Qc 1)] []; Loop 1 (Some (Q2Qc 1)) [] []] in
  let l := Loop 1 None [(2%N, Q2Qc 0, Q2Qc 1)] [Loop 1 (Some (Q2Qc 1)) [] []; Loop 1 None [] [c]] in
  match flatten_and_balance 50 1 l with
  | Some (l', st) => sides_ok st l && (length st =? 2)%nat && (depth l' =? 1)%nat && (length (loop_windows l') =? 7)%nat
  | None => false
  end = true.
Proof. vm_compute. reflexivity. Qed.

(* ---- round 3: the positive statement about volatile updates (Loop level) ---------------------------------------------------- *)
(* a = the program as built, b = the same shape with the updated counts.  Under the executable guard Vol.vwok (below
   every loop only the LAST child contains changed counts, and a loop whose cached body duration went stale is
   repeated once) the windows reported after the update (Model.vwin, cached durations) are exactly the windows of the
   tree recomputed from scratch with the new counts.  The count of any loop satisfying this may change freely, in
   particular the windows inside a volatile repetition tile with the new count. *)
Theorem C02_volatile_follows : forall a b, vwok a b = true -> vwin a b = loop_windows (zip_rep a b).
Proof. exact vwok_windows. Qed.
Print Assumptions C02_volatile_follows.
Theorem C02_volatile_unchanged : forall a b, stable a b = true -> vwin a b = loop_windows a /\ zip_rep a b = a.
Proof. exact volatile_unchanged. Qed.
Print Assumptions C02_volatile_unchanged.
(* the guard is satisfiable with a real change, and it cannot simply be dropped *)
Example C02_volatile_follows_nonvacuous :
  let w n b := (n, Q2Qc b, Q2Qc 1) : window in
  let a := Loop 1 None [w 0%N 0] [Loop 1 (Some (Q2Qc 1)) [] []; Loop 2 None [w 1%N 0] [Loop 1 (Some (Q2Qc 2)) [] []]] in
  let b := Loop 1 None [w 0%N 0] [Loop 1 (Some (Q2Qc 1)) [] []; Loop 3 None [w 1%N 0] [Loop 1 (Some (Q2Qc 2)) [] []]] in
  vwok a b && negb (Nat.eqb (length (vwin a b)) (length (loop_windows a))) = true.
Proof. exact vwok_nonvacuous. Qed.
Theorem C02_volatile_guard_needed : exists a b, vwok a b = false /\ vwin a b <> loop_windows (zip_rep a b).
Proof. exact volatile_guard_needed. Qed.
Print Assumptions C02_volatile_guard_needed.

(* ---- round 3: the declared parameters suffice ------------------------------------------------------------------------------ *)
(* Params.params p = PulseTemplate.parameter_names (compared with the code's answer in every CMissing case).  Two
   assignments that agree on them give the same "plays", duration, denoted windows and the same program: the value (or
   absence) of any other parameter never matters, and a ParameterNotProvidedException is legitimate only if a declared
   parameter is missing (check_spec of the CMissing cases). *)
Theorem C02_declared_parameters_suffice : forall p en en',
  (forall x, In x (params p) -> en x = en' x) -> forall mm,
  plays p en = plays p en' /\ tdur p en = tdur p en' /\ denote p en mm = denote p en' mm /\
  to_program (build p en mm fresh) = to_program (build p en' mm fresh).
Proof. exact declared_parameters_suffice. Qed.
Print Assumptions C02_declared_parameters_suffice.

(* ---- round 4: wrappers around atomic parts inside atomic composites ------------------------------------------------------ *)
(* TimeReversalPT / ParallelChannelPT / ArithmeticPT(scalar) / MappingPT around an atomic template are atomic themselves
   and may be parts of an AtomicMultiChannelPT / ArithmeticAtomicPT; there their windows are collected through
   get_measurement_windows (Spec.adecls: a reversed part mirrored about its own duration) instead of being built
   through _internal_create_program (Spec.denote).  Both paths give the same windows for every atomic template that
   plays, so C02_windows / C02_inside speak about such composites as well. *)
Theorem C02_atomic_part_same_as_program : forall p en mm,
  is_atomic p = true -> plays p en = true -> denote p en mm = adecls p en mm.
Proof. exact atomic_position_agrees. Qed.
Print Assumptions C02_atomic_part_same_as_program.
Theorem C02_atomic_part_nonvacuous :
  is_atomic awrap_example = true /\
  match create_program awrap_example (fun _ => Q2Qc 0) Some with
  | Program prog => loop_windows prog = [(1%N, Q2Qc 3, Q2Qc 1); (2%N, Q2Qc 0, Q2Qc 1)]
  | _ => False
  end.
Proof. exact awrap_example_ok. Qed.
Print Assumptions C02_atomic_part_nonvacuous.

(* round 4: windows are a multiset - declarations that evaluate to the same (name, begin, length) (parallel parts, a
   declaration repeated on one node, windows of abutting executions, names merged by a mapping) are ALL reported: every
   triple occurs in the program exactly as often as the template denotes it (corollary of C02_windows, stated because
   "collapse equal windows" is the behaviour seed C02-5 introduced) *)
Theorem C02_coinciding_windows_kept :
  forall (eq_dec : forall a b : window, {a = b} + {a <> b}) p en mm prog w,
  create_program p en mm = Program prog ->
  count_occ eq_dec (loop_windows prog) w = count_occ eq_dec (denote p en mm) w.
Proof. exact coinciding_kept. Qed.
Print Assumptions C02_coinciding_windows_kept.
Theorem C02_coinciding_windows_nonvacuous :
  match create_program coincide_example (fun _ => Q2Qc 0) Some with
  | Program prog => loop_windows prog = [(1%N, Q2Qc 1, Q2Qc 2); (1%N, Q2Qc 1, Q2Qc 2); (1%N, Q2Qc 1, Q2Qc 2);
                                        (1%N, Q2Qc 5, Q2Qc 2); (1%N, Q2Qc 5, Q2Qc 2); (1%N, Q2Qc 5, Q2Qc 2)]
  | _ => False
  end.
Proof. exact coincide_example_ok. Qed.
Print Assumptions C02_coinciding_windows_nonvacuous.

(* ---- round 6: the second observation point, plotting.render(program, rate, render_measurements=True, time_slice)[2] -------- *)
(* Render.render_meas = the measurement part of render() (slice validation, the strict overlap filter of an explicit slice,
   the sample-count refusal), tied to the code by the CRender cases.  Whatever it reports for a program built from a
   template is, as a multiset, what the template denotes (default slice), resp. exactly the denoted windows with
   begin < end and begin + length > start (explicit slice): nothing extra, nothing missing, duplicates kept *)
Theorem C02_render_windows : forall p en mm prog rate slice ws,
  create_program p en mm = Program prog -> render_meas rate slice prog = ROk ws ->
  Permutation ws (render_denote p en mm slice).
Proof. exact render_windows. Qed.
Print Assumptions C02_render_windows.

(* total form: with the default slice nothing is refused for an acceptable assignment of a template that plays, as long as
   duration x rate >= 1 (two samples) *)
Theorem C02_render_total : forall p en mm rate,
  must_accept p en = true -> plays p en = true -> 1 <= tdur p en * rate ->
  exists prog ws, create_program p en mm = Program prog /\ render_meas rate None prog = ROk ws /\
                  Permutation ws (denote p en mm).
Proof. exact render_total. Qed.
Print Assumptions C02_render_total.

(* an explicit slice [0, e] covering the program reports every denoted window of positive length when the declarations
   lie inside their nodes; a zero-length window at t = 0 or t = duration is reported by the default slice only
   (C02_render_boundary_stamp: the hypothesis is needed; the class seed C02-10 moved into the default path) *)
Theorem C02_render_whole_slice : forall p en mm prog rate e ws,
  create_program p en mm = Program prog -> inside p en = true -> tdur p en <= e ->
  Forall (fun w : window => 0 < snd w) (denote p en mm) ->
  render_meas rate (Some (0, e)) prog = ROk ws -> Permutation ws (denote p en mm).
Proof. exact render_whole_slice. Qed.
Print Assumptions C02_render_whole_slice.
Example C02_render_boundary_stamp :
  let p := Atom false (EC (Q2Qc 2)) [(1%N, EC (Q2Qc 0), EC (Q2Qc 0)); (2%N, EC (Q2Qc 2), EC (Q2Qc 0))] in
  match create_program p (fun _ => Q2Qc 0) Some with
  | Program prog =>
      match render_meas (Q2Qc 1) None prog, render_meas (Q2Qc 1) (Some (Q2Qc 0, Q2Qc 2)) prog with
      | ROk ws, ROk ws' => (length ws =? 2)%nat && (length ws' =? 0)%nat && inside p (fun _ => Q2Qc 0)
      | _, _ => false
      end
  | _ => false
  end = true.
Proof. exact render_boundary_stamp. Qed.

(* ---- round 6: cleanup() of loops WITH dead nodes ------------------------------------------------------------------------- *)
(* C02_cleanup_preserves needs wfl (no dead node).  For ANY loop whose inner nodes carry no waveform (ProofsR5.nowf; dead
   nodes - leaves without waveform, inner nodes below which nothing is played - anywhere, with windows of their own)
   cleanup() keeps the duration and reports exactly the windows of the tree without its dead non-root nodes
   (Corr.prune, read additively by Corr.exec_windows): the specification clause of the CLoop cases, now a theorem of the
   model.  Dead nodes last 0, so removing them moves nothing (third conjunct). *)
Theorem C02_cleanup_is_prune : forall l, nowf l = true ->
  nowf (cleanup l) = true /\ ldur (cleanup l) = ldur l /\ ldur (QV.C02.Corr.prune l) = ldur l /\
  Permutation (loop_windows (cleanup l)) (QV.C02.Corr.exec_windows (QV.C02.Corr.prune l)).
Proof. exact cleanup_is_prune. Qed.
Print Assumptions C02_cleanup_is_prune.
(* without dead nodes nothing is pruned *)
Theorem C02_prune_nothing_without_dead_nodes : forall l, wfl l = true -> QV.C02.Corr.prune l = l.
Proof. exact prune_wfl. Qed.
Print Assumptions C02_prune_nothing_without_dead_nodes.
Example C02_cleanup_is_prune_nonvacuous :
  let w n b := (n, Q2Qc b, Q2Qc 1) : window in
  let dead := Loop 2 None [w 1%N 0] [Loop 1 None [w 2%N 0] []] in
  let l := Loop 2 None [w 0%N 0] [Loop 1 (Some (Q2Qc 2)) [w 3%N 1] []; dead; Loop 1 None [w 4%N 0] []] in
  nowf l && negb (wfl l) && (length (loop_windows l) =? 14)%nat && (length (loop_windows (cleanup l)) =? 4)%nat
  && (length (loop_windows (QV.C02.Corr.prune l)) =? 4)%nat = true.
Proof. exact cleanup_is_prune_nonvacuous. Qed.

(* non-vacuity: a reversed repetition inside a sequence with renaming satisfies the hypotheses of C02_windows and
   C02_inside (a program is produced, all declarations inside their nodes) and reports 4 windows *)
Example C02_example :
  let a := Atom false (EC (Q2Qc 3)) [(1%N, EC (Q2Qc 1), EC (Q2Qc 1))] in
  let p := Seq [(2%N, EC (Q2Qc 0), EC (Q2Qc 9))] [a; Rev (Rep [] (EC (Q2Qc 2)) (Map [] [(1%N, Some 3%N)] [] a))] in
  match create_program p (fun _ => Q2Qc 0) Some with
  | Program prog => inside p (fun _ => Q2Qc 0) && (length (loop_windows prog) =? 4)%nat
  | _ => false
  end = true.
Proof. vm_compute. reflexivity. Qed.
