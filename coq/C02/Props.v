(* C02 — property theorems (statements only; proofs live in Proofs*.v). *)
From Coq Require Import ZArith QArith Qcanon List Bool.
Require Import QV.C02.Spec QV.C02.Model.
