(* C02 — property theorems (statements only; proofs live in Proofs*.v). *)
From Coq Require Import ZArith QArith Qcanon List Bool Permutation.
Require Import QV.C02.Spec QV.C02.Model QV.C02.Proofs QV.C02.Proofs2.
Import ListNotations.
Open Scope Qc_scope.

(* The windows reported by the instantiated program are exactly (as a multiset) the windows the template tree denotes:
   every declaration once per execution of its node, at that execution's start + begin, renamed / dropped through the
   composed measurement mappings, mirrored per execution of an enclosing reversed part.  Unbounded in tree shape,
   nesting, repetition counts, ranges, parameters and mappings. *)
Theorem C02_windows : forall p en mm prog,
  create_program p en mm = Program prog -> Permutation (loop_windows prog) (denote p en mm).
Proof. intros p en mm prog H. apply (create_program_windows p en mm prog H). Qed.
Print Assumptions C02_windows.

(* ... and the program lasts as long as the template says *)
Theorem C02_duration : forall p en mm prog,
  create_program p en mm = Program prog -> ldur prog = tdur p en.
Proof. intros p en mm prog H. apply (create_program_windows p en mm prog H). Qed.
Print Assumptions C02_duration.

(* no program is produced exactly when the template plays nothing (then it denotes no window either) *)
Theorem C02_empty : forall p en mm,
  valid p en mm = true -> (create_program p en mm = NoProgram <-> plays p en = false).
Proof. exact create_program_none. Qed.
Print Assumptions C02_empty.

(* Loop.reverse_inplace on ANY loop tree (windows on any node, any repetition counts): same duration, every window
   mirrored about the total duration *)
Theorem C02_reverse_mirrors : forall l,
  ldur (reverse_loop l) = ldur l /\
  Permutation (loop_windows (reverse_loop l)) (mirror (ldur l) (loop_windows l)).
Proof. exact reverse_loop_spec. Qed.
Print Assumptions C02_reverse_mirrors.
