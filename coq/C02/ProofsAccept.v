(* C02 — proofs, part 7: which assignments are refused.  An assignment with nothing to object to (Spec.must_accept)
   passes every check of the model (so create_program never answers Rejected), and must_accept is exactly "no
   violated condition anywhere in the tree" (Spec.viol = []). *)
From Coq Require Import ZArith QArith Qcanon Qround List Bool Permutation Lia.
Require Import QV.C02.Spec QV.C02.Model QV.C02.Proofs QV.C02.Proofs2.
Import ListNotations.
Open Scope Qc_scope.

Lemma decl_nonneg_ok en mm ms : forallb (decl_nonneg en) ms = true -> decls_ok ms en mm = true.
Proof.
  unfold decls_ok. induction ms as [|[[n b] l] ms IH]; cbn [forallb]; [reflexivity|]. intro H.
  apply andb_prop in H as [H1 H2]. rewrite (IH H2), andb_true_r. cbn [decl_ok decl_nonneg] in *.
  destruct (mm n); auto.
Qed.
Lemma decls_chk_none en mm ms : forallb (decl_nonneg en) ms = true -> decls_chk ms en mm = None.
Proof. intro H. unfold decls_chk. now rewrite (decl_nonneg_ok en mm ms H). Qed.

Lemma first_err_none {A} (f : A -> option rkind) l : (forall x, In x l -> f x = None) -> first_err (map f l) = None.
Proof.
  induction l as [|a l IH]; intro H; cbn [map first_err]; [reflexivity|].
  rewrite (H a (or_introl eq_refl)). apply IH. intros; apply H; now right.
Qed.

(* atomic trees: build_waveform succeeds and every declaration is fine *)
Lemma atomic_accept p : forall en mm,
  must_accept p en = true -> adur_ok p en = true -> awf_chk p en = None /\ adecls_ok p en mm = true.
Proof.
  induction p using pt_ind'; intros en mm Hm Ha; cbn [must_accept adur_ok awf_chk adecls_ok] in *; try discriminate.
  - apply andb_prop in Hm as [H1 _]. split; [reflexivity | now apply decl_nonneg_ok].
  - apply andb_prop in Hm as [Hm _]. apply andb_prop in Hm as [H1 H2].
    rewrite forallb_forall in H2, Ha. rewrite Forall_forall in H.
    assert (Hs : forall s, In s subs -> awf_chk s en = None /\ adecls_ok s en mm = true).
    { intros s Hs. specialize (Ha s Hs). apply andb_prop in Ha as [Ha1 _]. apply H; auto. }
    split.
    + rewrite (first_err_none (fun s => awf_chk s en)) by (intros s Hs0; apply Hs; auto). cbn [orelse].
      replace (forallb _ subs) with true; [reflexivity|]. symmetry. apply forallb_forall. intros s Hs0.
      specialize (Ha s Hs0). now apply andb_prop in Ha as [_ Ha2].
    + rewrite (decl_nonneg_ok en mm ms H1). cbn [andb]. apply forallb_forall. intros s Hs0. apply Hs; auto.
  - apply andb_prop in Hm as [Hm _]. apply andb_prop in Hm as [Hm H3]. apply andb_prop in Hm as [H1 H2].
    apply andb_prop in Ha as [Ha A3]. apply andb_prop in Ha as [A1 A2].
    destruct (IHp1 en mm H2 A1) as [B1 B2], (IHp2 en mm H3 A2) as [C1 C2].
    rewrite B1, C1, A3, B2, C2, (decl_nonneg_ok en mm ms H1). auto.
  - apply andb_prop in Hm as [H1 H2]. rewrite H1. cbn [guard_k orelse]. now apply IHp.
  - now apply IHp.
  - now apply IHp.
  - now apply IHp.
Qed.

Theorem must_accept_checks p : forall en mm, must_accept p en = true -> check p en mm = None.
Proof.
  induction p using pt_ind'; intros en mm Hm.
  - cbn [check]. assert (Ha : adur_ok (Atom z d ms) en = true) by reflexivity.
    destruct (atomic_accept _ en mm Hm Ha) as [A1 A2]. rewrite A1, A2. cbn. now destruct (_ || _).
  - cbn [check]. assert (Ha : adur_ok (Multi ms subs) en = true) by (cbn [must_accept] in Hm; now apply andb_prop in Hm as [_ ?]).
    destruct (atomic_accept _ en mm Hm Ha) as [A1 A2]. rewrite A1, A2. cbn [orelse guard_k]. now destruct (plays _ _).
  - cbn [check]. assert (Ha : adur_ok (Arith ms p1 p2) en = true) by (cbn [must_accept] in Hm; now apply andb_prop in Hm as [_ ?]).
    destruct (atomic_accept _ en mm Hm Ha) as [A1 A2]. rewrite A1, A2. cbn [orelse guard_k]. now destruct (plays _ _).
  - cbn [check must_accept] in *. apply andb_prop in Hm as [H1 H2]. rewrite (decls_chk_none en mm ms H1). cbn [orelse].
    apply (first_err_none (fun s => check s en mm)). intros s Hs. rewrite Forall_forall in H. rewrite forallb_forall in H2.
    apply H; auto.
  - cbn [check must_accept] in *. apply andb_prop in Hm as [Hm H3]. apply andb_prop in Hm as [H1 H2].
    rewrite H2. cbn [guard_k orelse]. destruct (_ <? _)%nat; [|reflexivity].
    rewrite (decls_chk_none en mm ms H1). cbn [orelse]. now apply IHp.
  - cbn [check must_accept] in *. apply andb_prop in Hm as [Hm H6]. apply andb_prop in Hm as [Hm H5].
    apply andb_prop in Hm as [Hm H4]. apply andb_prop in Hm as [Hm H3]. apply andb_prop in Hm as [H1 H2].
    rewrite H2, H3, H4, H5. cbn [andb guard_k orelse]. rewrite (decls_chk_none en mm ms H1). cbn [orelse].
    apply (first_err_none (fun v => check p (upd en i (Zc v)) mm)). intros v Hv. rewrite forallb_forall in H6. apply IHp; auto.
  - cbn [check must_accept] in *. apply andb_prop in Hm as [H1 H2]. rewrite H1. cbn [guard_k orelse]. now apply IHp.
  - cbn [check must_accept] in *. now apply IHp.
  - cbn [check must_accept] in *. now apply IHp.
  - cbn [check must_accept] in *. now apply IHp.
Qed.

Corollary must_accept_not_rejected p en mm : must_accept p en = true -> forall k, create_program p en mm <> Rejected k.
Proof. intros H k. unfold create_program. rewrite (must_accept_checks p en mm H). destruct (to_program _); discriminate. Qed.

(* must_accept = no violated condition anywhere *)
Lemma unless_nil b c : unless b c = [] <-> b = true.
Proof. destruct b; cbn; split; congruence. Qed.
Lemma app_nil_iff {A} (a b : list A) : a ++ b = [] <-> a = [] /\ b = [].
Proof. split; [apply app_eq_nil | intros [-> ->]; reflexivity]. Qed.
Lemma flat_map_nil_iff {A B} (f : A -> list B) l : flat_map f l = [] <-> forall x, In x l -> f x = [].
Proof.
  induction l as [|a l IH]; cbn [flat_map]; [split; [intros _ x []|auto]|].
  rewrite app_nil_iff, IH. split.
  - intros [H1 H2] x [->|Hx]; auto.
  - intro H. split; [apply H; now left | intros; apply H; now right].
Qed.

Theorem must_accept_viol p : forall en, must_accept p en = true <-> viol p en = [].
Proof.
  induction p using pt_ind'; intro en; cbn [must_accept viol].
  - rewrite app_nil_iff, !unless_nil, andb_true_iff. reflexivity.
  - rewrite !app_nil_iff, !unless_nil, !andb_true_iff, flat_map_nil_iff, (forallb_forall (fun s => must_accept s en) subs).
    rewrite Forall_forall in H. split.
    + intros [[H1 H2] H3]. repeat split; auto. intros s Hs. apply (proj1 (H s Hs en)). now apply H2.
    + intros (H1 & H2 & H3). repeat split; auto. intros s Hs. apply (proj2 (H s Hs en)). now apply H2.
  - rewrite !app_nil_iff, !unless_nil, !andb_true_iff, IHp1, IHp2. tauto.
  - rewrite !app_nil_iff, !unless_nil, !andb_true_iff, flat_map_nil_iff, (forallb_forall (fun s => must_accept s en) subs).
    rewrite Forall_forall in H. split.
    + intros [H1 H2]. split; auto. intros s Hs. apply (proj1 (H s Hs en)). now apply H2.
    + intros (H1 & H2). split; auto. intros s Hs. apply (proj2 (H s Hs en)). now apply H2.
  - rewrite !app_nil_iff, !unless_nil, !andb_true_iff, IHp. tauto.
  - rewrite !app_nil_iff, !unless_nil, !andb_true_iff, flat_map_nil_iff,
      (forallb_forall (fun v => must_accept p (upd en i (Zc v))) (range_vals a b s en)). split.
    + intros (((((H1 & H2) & H3) & H4) & H5) & H6). repeat split; auto. intros v Hv. apply (proj1 (IHp _)). now apply H6.
    + intros (H1 & ((H2 & H3) & H4) & H5 & H6). repeat split; auto. intros v Hv. apply (proj2 (IHp _)). now apply H6.
  - rewrite !app_nil_iff, !unless_nil, !andb_true_iff, IHp. tauto.
  - apply IHp.
  - apply IHp.
  - apply IHp.
Qed.

(* ---- every refusal of the model is legitimate: the kind it reports is the class of a condition that is violated
   somewhere in the tree (Spec.viol) ------------------------------------------------------------------------------------ *)
Lemma In_unless b c : b = false -> In c (unless b c).
Proof. intros ->. now left. Qed.
Lemma decls_chk_some ms en mm k :
  decls_chk ms en mm = Some k -> k = KNegWindow /\ forallb (decl_nonneg en) ms = false.
Proof.
  unfold decls_chk, guard_k. destruct (decls_ok ms en mm) eqn:E; [discriminate|]. intro H. injection H as <-.
  split; [reflexivity|]. destruct (forallb (decl_nonneg en) ms) eqn:F; [|reflexivity].
  rewrite (decl_nonneg_ok en mm ms F) in E. discriminate.
Qed.
Lemma first_err_some {A} (f : A -> option rkind) l k :
  first_err (map f l) = Some k -> exists x, In x l /\ f x = Some k.
Proof.
  induction l as [|a l IH]; cbn [map first_err]; [discriminate|]. destruct (f a) eqn:E.
  - intro H. injection H as <-. exists a. split; [now left | exact E].
  - intro H. destruct (IH H) as (x & Hx & Hf). exists x. split; [now right | exact Hf].
Qed.
Lemma first_err_all_none {A} (f : A -> option rkind) l :
  first_err (map f l) = None -> forall x, In x l -> f x = None.
Proof.
  induction l as [|a l IH]; cbn [map first_err]; [intros _ x []|]. destruct (f a) eqn:E; [discriminate|].
  intros H x [->|Hx]; auto.
Qed.
Lemma orelse_some a b k : orelse a b = Some k -> a = Some k \/ (a = None /\ b = Some k).
Proof. destruct a; cbn; intro H; [left; exact H | right; auto]. Qed.
Lemma guard_k_some b k k' : guard_k b k = Some k' -> b = false /\ k' = k.
Proof. destruct b; cbn; [discriminate|]. intro H. injection H as <-. auto. Qed.
Lemma In_flat_map_intro {A B} (f : A -> list B) l x y : In x l -> In y (f x) -> In y (flat_map f l).
Proof. intros H1 H2. apply in_flat_map. eauto. Qed.

Lemma awf_chk_viol p : forall en k,
  awf_chk p en = Some k -> In (kclass k) (viol p en) \/ (k = KAtomicDur /\ adur_ok p en = false).
Proof.
  induction p using pt_ind'; intros en k Hk; cbn [awf_chk] in Hk; try (injection Hk as <-; right; split; reflexivity).
  - discriminate.
  - apply orelse_some in Hk as [Hk|[_ Hk]].
    + apply first_err_some in Hk as (s & Hs & Hk). rewrite Forall_forall in H.
      destruct (H s Hs en k Hk) as [Hin|[-> Had]].
      * left. cbn [viol]. apply in_or_app. right. apply in_or_app. left. eapply In_flat_map_intro; eauto.
      * right. split; [reflexivity|]. cbn [adur_ok]. apply not_true_is_false. intro F. rewrite forallb_forall in F.
        specialize (F s Hs). rewrite Had in F. discriminate.
    + apply guard_k_some in Hk as [Hb ->]. right. split; [reflexivity|]. cbn [adur_ok].
      apply not_true_is_false. intro F. rewrite forallb_forall in F.
      assert (forallb (fun s => negb (plays s en) || Qceqb (tdur s en) (tdur (Multi ms subs) en)) subs = true).
      { apply forallb_forall. intros s Hs. specialize (F s Hs). now apply andb_prop in F as [_ ?]. }
      congruence.
  - apply orelse_some in Hk as [Hk|[_ Hk]]; [|apply orelse_some in Hk as [Hk|[_ Hk]]].
    + destruct (IHp1 en k Hk) as [Hin|[-> Had]].
      * left. cbn [viol]. apply in_or_app. right. apply in_or_app. now left.
      * right. split; [reflexivity|]. cbn [adur_ok]. now rewrite Had.
    + destruct (IHp2 en k Hk) as [Hin|[-> Had]].
      * left. cbn [viol]. apply in_or_app. right. apply in_or_app. right. apply in_or_app. now left.
      * right. split; [reflexivity|]. cbn [adur_ok]. rewrite Had. now rewrite andb_false_r.
    + apply guard_k_some in Hk as [Hb ->]. right. split; [reflexivity|]. cbn [adur_ok]. rewrite Hb. apply andb_false_r.
  - apply orelse_some in Hk as [Hk|[_ Hk]].
    + apply guard_k_some in Hk as [Hb ->]. left. cbn [viol kclass]. apply in_or_app. left. now apply In_unless.
    + destruct (IHp (menv pm en) k Hk) as [Hin|[-> Had]].
      * left. cbn [viol]. apply in_or_app. now right.
      * right. split; [reflexivity|]. exact Had.
  - destruct (IHp en k Hk) as [Hin|[-> Had]]; [left; exact Hin | right; split; [reflexivity | exact Had]].
  - destruct (IHp en k Hk) as [Hin|[-> Had]]; [left; exact Hin | right; split; [reflexivity | exact Had]].
  - destruct (IHp en k Hk) as [Hin|[-> Had]]; [left; exact Hin | right; split; [reflexivity | exact Had]].
Qed.

Lemma adecls_bad_viol p : forall en mm,
  awf_chk p en = None -> adecls_ok p en mm = false -> In EValue (viol p en).
Proof.
  induction p using pt_ind'; intros en mm Ha Hd; cbn [awf_chk adecls_ok] in *; try discriminate.
  - cbn [viol]. apply in_or_app. left. apply In_unless.
    destruct (forallb (decl_nonneg en) ms) eqn:F; [|reflexivity]. rewrite (decl_nonneg_ok en mm ms F) in Hd. discriminate.
  - destruct (first_err (map (fun s => awf_chk s en) subs)) eqn:E; [discriminate|]. cbn [orelse] in Ha.
    pose proof (first_err_all_none (fun s => awf_chk s en) subs E) as Hn.
    cbn [viol]. apply andb_false_iff in Hd as [Hd|Hd].
    + apply in_or_app. left. apply In_unless.
      destruct (forallb (decl_nonneg en) ms) eqn:F; [|reflexivity]. rewrite (decl_nonneg_ok en mm ms F) in Hd. discriminate.
    + apply in_or_app. right. apply in_or_app. left.
      assert (exists s, In s subs /\ adecls_ok s en mm = false) as (s & Hs & Hf).
      { clear -Hd. induction subs as [|a l IH]; cbn [forallb] in Hd; [discriminate|].
        apply andb_false_iff in Hd as [Hd|Hd]; [exists a; split; [now left|exact Hd]|].
        destruct (IH Hd) as (s & Hs & Hf). exists s. split; [now right|exact Hf]. }
      rewrite Forall_forall in H. eapply In_flat_map_intro; [exact Hs|]. apply (H s Hs en mm); auto.
  - destruct (awf_chk p1 en) eqn:E1; [discriminate|]. destruct (awf_chk p2 en) eqn:E2; [discriminate|].
    cbn [viol]. apply andb_false_iff in Hd as [Hd|Hd]; [apply andb_false_iff in Hd as [Hd|Hd]|].
    + apply in_or_app. left. apply In_unless.
      destruct (forallb (decl_nonneg en) ms) eqn:F; [|reflexivity]. rewrite (decl_nonneg_ok en mm ms F) in Hd. discriminate.
    + apply in_or_app. right. apply in_or_app. left. now apply (IHp1 en mm).
    + apply in_or_app. right. apply in_or_app. right. apply in_or_app. left. now apply (IHp2 en mm).
  - destruct (forallb (pcon_ok en) cs); [|discriminate]. cbn [guard_k orelse] in Ha.
    cbn [viol]. apply in_or_app. right. now apply (IHp (menv pm en) (mcomp mml mm)).
  - now apply (IHp en mm).
  - now apply (IHp en mm).
  - now apply (IHp en mm).
Qed.

Lemma atomic_check_viol p en mm k :
  (match p with Atom _ _ _ | Multi _ _ | Arith _ _ _ => True | _ => False end) ->
  orelse (awf_chk p en) (if plays p en then guard_k (adecls_ok p en mm) KNegWindow else None) = Some k ->
  In (kclass k) (viol p en).
Proof.
  intros Hp Hk. apply orelse_some in Hk as [Hk|[Hn Hk]].
  - destruct (awf_chk_viol p en k Hk) as [Hin|[-> Had]]; [exact Hin|].
    destruct p; try contradiction; cbn [adur_ok] in Had; try discriminate; cbn [viol kclass].
    + apply in_or_app. right. apply in_or_app. right. apply In_unless. exact Had.
    + apply in_or_app. right. apply in_or_app. right. apply in_or_app. right. apply In_unless. exact Had.
  - destruct (plays p en); [|discriminate]. apply guard_k_some in Hk as [Hb ->]. now apply (adecls_bad_viol p en mm).
Qed.

Theorem check_viol p : forall en mm k, check p en mm = Some k -> In (kclass k) (viol p en).
Proof.
  induction p using pt_ind'; intros en mm k Hk.
  - apply (atomic_check_viol (Atom z d ms) en mm k I Hk).
  - apply (atomic_check_viol (Multi ms subs) en mm k I Hk).
  - apply (atomic_check_viol (Arith ms p1 p2) en mm k I Hk).
  - cbn [check] in Hk. cbn [viol]. apply orelse_some in Hk as [Hk|[_ Hk]].
    + apply decls_chk_some in Hk as [-> Hf]. apply in_or_app. left. now apply In_unless.
    + apply first_err_some in Hk as (s & Hs & Hk). apply in_or_app. right. rewrite Forall_forall in H.
      eapply In_flat_map_intro; [exact Hs|]. now apply (H s Hs en mm).
  - cbn [check] in Hk. cbn [viol]. apply orelse_some in Hk as [Hk|[_ Hk]].
    + apply guard_k_some in Hk as [Hb ->]. apply in_or_app. right. apply in_or_app. left. now apply In_unless.
    + destruct (_ <? _)%nat; [|discriminate]. apply orelse_some in Hk as [Hk|[_ Hk]].
      * apply decls_chk_some in Hk as [-> Hf]. apply in_or_app. left. now apply In_unless.
      * apply in_or_app. right. apply in_or_app. right. now apply (IHp en mm).
  - cbn [check] in Hk. cbn [viol]. apply orelse_some in Hk as [Hk|[_ Hk]]; [|apply orelse_some in Hk as [Hk|[_ Hk]];
      [|apply orelse_some in Hk as [Hk|[_ Hk]]]].
    + apply guard_k_some in Hk as [Hb ->]. apply in_or_app. right. apply in_or_app. left. now apply In_unless.
    + apply guard_k_some in Hk as [Hb ->]. apply in_or_app. right. apply in_or_app. right. apply in_or_app. left.
      now apply In_unless.
    + apply decls_chk_some in Hk as [-> Hf]. apply in_or_app. left. now apply In_unless.
    + apply first_err_some in Hk as (v & Hv & Hk). do 3 (apply in_or_app; right).
      eapply In_flat_map_intro; [exact Hv|]. now apply (IHp _ mm).
  - cbn [check] in Hk. cbn [viol]. apply orelse_some in Hk as [Hk|[_ Hk]].
    + apply guard_k_some in Hk as [Hb ->]. apply in_or_app. left. now apply In_unless.
    + apply in_or_app. right. now apply (IHp _ (mcomp mml mm)).
  - cbn [check viol] in *. now apply (IHp en mm).
  - cbn [check viol] in *. now apply (IHp en mm).
  - cbn [check viol] in *. now apply (IHp en mm).
Qed.
