(* C02 — specification: template trees with measurement declarations and the windows they denote.
   Everything here is defined on the TEMPLATE TREE alone (no program, no builder):
     plays  p env     : does the node contribute anything to the program (a node that plays nothing is not executed)
     tdur   p env     : duration of one execution of the node
     denote p env mm  : the windows of one execution of the node, relative to its start:
                        own declarations (renamed through mm, dropped when mapped to nothing) + the windows of every
                        execution of every sub-node shifted to the start of that execution; a reversed part is
                        mirrored about its own duration.
   Times are canonical rationals (Qc) so that equality of windows is Leibniz equality. *)
From Coq Require Import ZArith QArith Qcanon Qround List Bool.
Import ListNotations.
Open Scope Qc_scope.

Definition Zc (z : Z) : Qc := Q2Qc (inject_Z z).
Definition natc (n : nat) : Qc := Zc (Z.of_nat n).
Definition qfloor (q : Qc) : Z := Qfloor (this q).
Definition is_int (q : Qc) : bool := Qeq_bool (inject_Z (Qfloor (this q))) (this q).
Definition Qcleb (a b : Qc) : bool := Qle_bool (this a) (this b).
Definition Qcltb (a b : Qc) : bool := negb (Qle_bool (this b) (this a)).
Definition Qceqb (a b : Qc) : bool := Qeq_bool (this a) (this b).

(* ---- expressions over parameters ------------------------------------------------------------------------------- *)
Inductive expr :=
| EC (q : Qc) | EV (x : N) | EAdd (a b : expr) | ESub (a b : expr) | EMul (a b : expr).
Definition env := N -> Qc.
Fixpoint eval (e : expr) (en : env) : Qc :=
  match e with
  | EC q => q
  | EV x => en x
  | EAdd a b => eval a en + eval b en
  | ESub a b => eval a en - eval b en
  | EMul a b => eval a en * eval b en
  end.
Definition upd (en : env) (x : N) (v : Qc) : env := fun y => if N.eqb y x then v else en y.

Fixpoint lookup {A} (l : list (N * A)) (k : N) : option A :=
  match l with
  | [] => None
  | (k', v) :: r => if N.eqb k k' then Some v else lookup r k
  end.

(* ---- declarations, windows, measurement mappings --------------------------------------------------------------- *)
Definition decl := (N * expr * expr)%type.          (* name, begin, length *)
Definition window := (N * Qc * Qc)%type.            (* name, begin, length *)
Definition mmap := N -> option N.                   (* None = the window is dropped *)

Definition eval_decl (en : env) (mm : mmap) (d : decl) : list window :=
  match d with
  | (n, b, l) => match mm n with Some n' => [(n', eval b en, eval l en)] | None => [] end
  end.
Definition eval_decls (ms : list decl) (en : env) (mm : mmap) : list window := flat_map (eval_decl en mm) ms.

Definition wshift (d : Qc) (w : window) : window := match w with (n, b, l) => (n, b + d, l) end.
Definition wmirror (D : Qc) (w : window) : window := match w with (n, b, l) => (n, D - (b + l), l) end.
Definition shift (d : Qc) (ws : list window) : list window := map (wshift d) ws.
Definition mirror (D : Qc) (ws : list window) : list window := map (wmirror D) ws.

(* sequential composition of pieces (duration, windows relative to the piece's start), first piece starting at off *)
Fixpoint seq_windows (off : Qc) (pieces : list (Qc * list window)) : list window :=
  match pieces with
  | [] => []
  | (d, w) :: r => shift off w ++ seq_windows (off + d) r
  end.
Fixpoint sumc (l : list Qc) : Qc := match l with [] => 0 | x :: r => x + sumc r end.

(* ---- parameter / measurement-name mappings of a mapping node ---------------------------------------------------- *)
Definition menv (pm : list (N * expr)) (en : env) : env :=
  fun x => match lookup pm x with Some e => eval e en | None => en x end.
Definition mcomp (mml : list (N * option N)) (mm : mmap) : mmap :=
  fun k => match lookup mml k with Some (Some v) => mm v | Some None => None | None => mm k end.

(* ---- python range ------------------------------------------------------------------------------------------------ *)
Definition range_len (a b s : Z) : Z :=
  if (0 <? s)%Z then (if (a <? b)%Z then (b - a - 1) / s + 1 else 0)%Z
  else if (s <? 0)%Z then (if (b <? a)%Z then (a - b - 1) / (- s) + 1 else 0)%Z
  else 0%Z.
Definition range_list (a b s : Z) : list Z :=
  map (fun k => (a + Z.of_nat k * s)%Z) (seq 0 (Z.to_nat (range_len a b s))).

(* parameter constraint of a node: (strict, a, b) means a < b (strict) or a <= b *)
Definition pcon := (bool * expr * expr)%type.
Definition pcon_ok (en : env) (c : pcon) : bool :=
  match c with (s, a, b) => if s then Qcltb (eval a en) (eval b en) else Qcleb (eval a en) (eval b en) end.

(* ---- template trees ---------------------------------------------------------------------------------------------- *)
Inductive pt :=
| Atom (z : bool) (dur : expr) (ms : list decl)       (* atomic leaf; z: plays even with duration 0 (FunctionPT) *)
| Multi (ms : list decl) (subs : list pt)             (* AtomicMultiChannelPT over atomic parts *)
| Arith (ms : list decl) (l r : pt)                   (* ArithmeticAtomicPT over atomic parts *)
| Seq (ms : list decl) (subs : list pt)               (* SequencePT *)
| Rep (ms : list decl) (count : expr) (body : pt)     (* RepetitionPT *)
| For (ms : list decl) (idx : N) (start stop step : expr) (body : pt)   (* ForLoopPT *)
| Map (pm : list (N * expr)) (mml : list (N * option N)) (cs : list pcon) (body : pt)
                                                      (* MappingPT: parameter mapping, measurement mapping,
                                                         parameter constraints (checked in the OUTER scope) *)
| Rev (body : pt)                                     (* TimeReversalPT *)
| Single (body : pt)                                  (* body is listed in to_single_waveform *)
| Pass (body : pt).                                   (* ParallelChannelPT / ArithmeticPT with a scalar *)

Definition rep_count (c : expr) (en : env) : nat := Z.to_nat (qfloor (eval c en)).     (* max(0, count) *)
Definition range_vals (a b s : expr) (en : env) : list Z :=
  range_list (qfloor (eval a en)) (qfloor (eval b en)) (qfloor (eval s en)).

(* does an atomic part have a waveform / does a node append anything to the program *)
Fixpoint plays (p : pt) (en : env) : bool :=
  match p with
  | Atom z d _ => z || Qcltb 0 (eval d en)
  | Multi _ subs => existsb (fun s => plays s en) subs
  | Arith _ l r => plays l en || plays r en
  | Seq _ subs => existsb (fun s => plays s en) subs
  | Rep _ c b => (0 <? rep_count c en)%nat && plays b en
  | For _ i a b s body => existsb (fun v => plays body (upd en i (Zc v))) (range_vals a b s en)
  | Map pm _ _ b => plays b (menv pm en)
  | Rev b => plays b en
  | Single b => plays b en
  | Pass b => plays b en
  end.

Fixpoint first_some {A} (l : list (option A)) : option A :=
  match l with [] => None | Some x :: _ => Some x | None :: r => first_some r end.

Fixpoint tdur (p : pt) (en : env) : Qc :=
  match p with
  | Atom z d _ => if z || Qcltb 0 (eval d en) then eval d en else 0
  | Multi _ subs =>
      match first_some (map (fun s => if plays s en then Some (tdur s en) else None) subs) with
      | Some d => d | None => 0 end
  | Arith _ l r => if plays l en then tdur l en else tdur r en
  | Seq _ subs => sumc (map (fun s => tdur s en) subs)
  | Rep _ c b => natc (rep_count c en) * tdur b en
  | For _ i a b s body => sumc (map (fun v => tdur body (upd en i (Zc v))) (range_vals a b s en))
  | Map pm _ _ b => tdur b (menv pm en)
  | Rev b => tdur b en
  | Single b => tdur b en
  | Pass b => tdur b en
  end.

(* all windows declared inside an atomic composite (they all belong to the one atomic node) *)
Fixpoint adecls (p : pt) (en : env) (mm : mmap) : list window :=
  match p with
  | Atom _ _ ms => eval_decls ms en mm
  | Multi ms subs => eval_decls ms en mm ++ flat_map (fun s => adecls s en mm) subs
  | Arith ms l r => eval_decls ms en mm ++ adecls l en mm ++ adecls r en mm
  | Map pm mml _ b => adecls b (menv pm en) (mcomp mml mm)
  (* round 4: wrappers around an atomic part inside an atomic composite (all of them answer _is_atomic() = True): a
     reversed part mirrors its windows about its own duration, the pass-through nodes forward them; an identifier
     listed in to_single_waveform means nothing below an atomic node *)
  | Rev b => mirror (tdur b en) (adecls b en mm)
  | Pass b => adecls b en mm
  | Single b => adecls b en mm
  | _ => []
  end.

Fixpoint denote (p : pt) (en : env) (mm : mmap) : list window :=
  match p with
  | Atom _ _ _ => if plays p en then adecls p en mm else []
  | Multi _ _ => if plays p en then adecls p en mm else []
  | Arith _ _ _ => if plays p en then adecls p en mm else []
  | Seq ms subs =>
      if plays p en
      then eval_decls ms en mm ++ seq_windows 0 (map (fun s => (tdur s en, denote s en mm)) subs)
      else []
  | Rep ms c b =>
      if plays p en
      then eval_decls ms en mm ++ seq_windows 0 (repeat (tdur b en, denote b en mm) (rep_count c en))
      else []
  | For ms i a b s body =>
      if plays p en
      then eval_decls ms en mm ++
           seq_windows 0 (map (fun v => let en' := upd en i (Zc v) in (tdur body en', denote body en' mm))
                              (range_vals a b s en))
      else []
  | Map pm mml _ b => denote b (menv pm en) (mcomp mml mm)
  | Rev b => mirror (tdur b en) (denote b en mm)
  | Single b => denote b en mm
  | Pass b => denote b en mm
  end.

(* ---- "every declaration lies inside its own node" (hypothesis of the corollary) ---------------------------------- *)
Definition decl_inside (D : Qc) (en : env) (d : decl) : bool :=
  match d with (_, b, l) => Qcleb 0 (eval b en) && Qcleb 0 (eval l en) && Qcleb (eval b en + eval l en) D end.
Definition decls_inside (D : Qc) (ms : list decl) (en : env) : bool := forallb (decl_inside D en) ms.

Fixpoint ainside (D : Qc) (p : pt) (en : env) : bool :=
  match p with
  | Atom _ _ ms => decls_inside D ms en
  | Multi ms subs => decls_inside D ms en && forallb (fun s => ainside D s en) subs
  | Arith ms l r => decls_inside D ms en && ainside D l en && ainside D r en
  | Map pm _ _ b => ainside D b (menv pm en)
  | Rev b => Qcleb 0 (tdur b en) && Qcleb (tdur b en) D && ainside (tdur b en) b en
  | Pass b => ainside D b en
  | Single b => ainside D b en
  | _ => true
  end.

Fixpoint inside (p : pt) (en : env) : bool :=
  match p with
  | Atom _ _ _ => Qcleb 0 (tdur p en) && ainside (tdur p en) p en
  | Multi _ _ => Qcleb 0 (tdur p en) && ainside (tdur p en) p en
  | Arith _ _ _ => Qcleb 0 (tdur p en) && ainside (tdur p en) p en
  | Seq ms subs => decls_inside (tdur p en) ms en && forallb (fun s => inside s en) subs
  | Rep ms c b => decls_inside (tdur p en) ms en && inside b en
  | For ms i a b s body =>
      decls_inside (tdur p en) ms en && forallb (fun v => inside body (upd en i (Zc v))) (range_vals a b s en)
  | Map pm _ _ b => inside b (menv pm en)
  | Rev b => inside b en
  | Single b => inside b en
  | Pass b => inside b en
  end.

(* ---- a sufficient condition for "the assignment is accepted": nothing the code could reject -------------------- *)
Definition decl_nonneg (en : env) (d : decl) : bool :=
  match d with (_, b, l) => Qcleb 0 (eval b en) && Qcleb 0 (eval l en) end.
Fixpoint is_atomic (p : pt) : bool :=
  match p with
  | Atom _ _ _ => true
  | Multi _ subs => forallb is_atomic subs
  | Arith _ l r => is_atomic l && is_atomic r
  | Map _ _ _ b => is_atomic b
  | Rev b | Pass b | Single b => is_atomic b
  | _ => false
  end.
(* all playing parts of an atomic composite have the same duration (otherwise the waveform constructor raises) *)
Fixpoint adur_ok (p : pt) (en : env) : bool :=
  match p with
  | Atom _ _ _ => true
  | Multi _ subs => forallb (fun s => adur_ok s en && (negb (plays s en) || Qceqb (tdur s en) (tdur p en))) subs
  | Arith _ l r => adur_ok l en && adur_ok r en &&
                   (negb (plays l en) || negb (plays r en) || Qceqb (tdur l en) (tdur r en))
  | Map pm _ _ b => adur_ok b (menv pm en)
  | Rev b | Pass b | Single b => adur_ok b en
  | _ => false
  end.

Fixpoint must_accept (p : pt) (en : env) : bool :=
  match p with
  | Atom _ d ms => forallb (decl_nonneg en) ms && Qcleb 0 (eval d en)
  | Multi ms subs => forallb (decl_nonneg en) ms && forallb (fun s => must_accept s en) subs && adur_ok p en
  | Arith ms l r => forallb (decl_nonneg en) ms && must_accept l en && must_accept r en && adur_ok p en
  | Seq ms subs => forallb (decl_nonneg en) ms && forallb (fun s => must_accept s en) subs
  | Rep ms c b => forallb (decl_nonneg en) ms && is_int (eval c en) && must_accept b en
  | For ms i a b s body =>
      forallb (decl_nonneg en) ms && is_int (eval a en) && is_int (eval b en) && is_int (eval s en)
      && negb (qfloor (eval s en) =? 0)%Z
      && forallb (fun v => must_accept body (upd en i (Zc v))) (range_vals a b s en)
  | Map pm _ cs b => forallb (pcon_ok en) cs && must_accept b (menv pm en)
  | Rev b => must_accept b en
  | Single b => must_accept b en
  | Pass b => must_accept b en
  end.

(* ---- which KIND of refusal is legitimate: the classes of all conditions violated anywhere in the tree -------------- *)
Inductive eclass :=
| EConstraint      (* ParameterConstraintViolation *)
| ENotInt          (* ParameterNotIntegerException *)
| EValue           (* ValueError: negative begin / length, non-integer range bound, step 0 *)
| EOther           (* any other exception class *)
| EAnyc.           (* specification side only: a violated condition for which every class is acceptable *)
Definition eclass_eqb (a b : eclass) : bool :=
  match a, b with
  | EConstraint, EConstraint | ENotInt, ENotInt | EValue, EValue | EOther, EOther | EAnyc, EAnyc => true
  | _, _ => false
  end.
Definition unless (b : bool) (c : eclass) : list eclass := if b then [] else [c].

Fixpoint viol (p : pt) (en : env) : list eclass :=
  match p with
  | Atom _ d ms => unless (forallb (decl_nonneg en) ms) EValue ++ unless (Qcleb 0 (eval d en)) EAnyc
  | Multi ms subs => unless (forallb (decl_nonneg en) ms) EValue ++ flat_map (fun s => viol s en) subs
                     ++ unless (adur_ok p en) EAnyc
  | Arith ms l r => unless (forallb (decl_nonneg en) ms) EValue ++ viol l en ++ viol r en ++ unless (adur_ok p en) EAnyc
  | Seq ms subs => unless (forallb (decl_nonneg en) ms) EValue ++ flat_map (fun s => viol s en) subs
  | Rep ms c b => unless (forallb (decl_nonneg en) ms) EValue ++ unless (is_int (eval c en)) ENotInt ++ viol b en
  | For ms i a b s body =>
      unless (forallb (decl_nonneg en) ms) EValue
      ++ unless (is_int (eval a en) && is_int (eval b en) && is_int (eval s en)) EValue
      ++ unless (negb (qfloor (eval s en) =? 0)%Z) EValue
      ++ flat_map (fun v => viol body (upd en i (Zc v))) (range_vals a b s en)
  | Map pm _ cs b => unless (forallb (pcon_ok en) cs) EConstraint ++ viol b (menv pm en)
  | Rev b => viol b en
  | Single b => viol b en
  | Pass b => viol b en
  end.
(* a refusal of class c is legitimate iff some violated condition has that class (or allows any class) *)
Definition may_reject (c : eclass) (p : pt) (en : env) : bool :=
  existsb (fun v => eclass_eqb v c || eclass_eqb v EAnyc) (viol p en).
