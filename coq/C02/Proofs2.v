(* C02 — proofs, part 2: the builder.  Induction on the template tree with the invariant of DESIGN Appendix D3:
   a template either leaves the top untouched (it plays nothing) or appends children of total duration tdur and adds
   exactly (pending guard windows ++ denote p) at the current body duration, clearing every pending guard. *)
From Coq Require Import ZArith QArith Qcanon Qround List Bool Permutation Lia Lqa.
Require Import QV.C02.Spec QV.C02.Model QV.C02.Proofs.
Import ListNotations.
Open Scope Qc_scope.
Arguments shift : simpl never.
Arguments mirror : simpl never.
Arguments tile : simpl never.

(* ---- induction principle for templates ---------------------------------------------------------------------------------- *)
Section PtInd.
  Variable P : pt -> Prop.
  Hypothesis HAtom : forall z d ms, P (Atom z d ms).
  Hypothesis HMulti : forall ms subs, Forall P subs -> P (Multi ms subs).
  Hypothesis HArith : forall ms l r, P l -> P r -> P (Arith ms l r).
  Hypothesis HSeq : forall ms subs, Forall P subs -> P (Seq ms subs).
  Hypothesis HRep : forall ms c b, P b -> P (Rep ms c b).
  Hypothesis HFor : forall ms i a b s body, P body -> P (For ms i a b s body).
  Hypothesis HMap : forall pm mml cs b, P b -> P (Map pm mml cs b).
  Hypothesis HRev : forall b, P b -> P (Rev b).
  Hypothesis HSingle : forall b, P b -> P (Single b).
  Hypothesis HPass : forall b, P b -> P (Pass b).
  Fixpoint pt_ind' (p : pt) : P p :=
    let fix go (l : list pt) : Forall P l :=
        match l with [] => Forall_nil _ | x :: r => Forall_cons x (pt_ind' x) (go r) end in
    match p with
    | Atom z d ms => HAtom z d ms
    | Multi ms subs => HMulti ms subs (go subs)
    | Arith ms l r => HArith ms l r (pt_ind' l) (pt_ind' r)
    | Seq ms subs => HSeq ms subs (go subs)
    | Rep ms c b => HRep ms c b (pt_ind' b)
    | For ms i a b s body => HFor ms i a b s body (pt_ind' body)
    | Map pm mml cs b => HMap pm mml cs b (pt_ind' b)
    | Rev b => HRev b (pt_ind' b)
    | Single b => HSingle b (pt_ind' b)
    | Pass b => HPass b (pt_ind' b)
    end.
End PtInd.

(* ---- a node that plays nothing has duration 0 and denotes no window ----------------------------------------------------- *)
Lemma sumc_all_zero {A} (f : A -> Qc) l : (forall x, In x l -> f x = 0) -> sumc (map f l) = 0.
Proof. induction l; intro H; cbn; [reflexivity|]. rewrite (H a (or_introl eq_refl)), IHl; [ring|]. intros; apply H; now right. Qed.
Lemma existsb_false {A} (f : A -> bool) l : existsb f l = false -> forall x, In x l -> f x = false.
Proof.
  induction l; intros H x Hx; [destruct Hx|]. cbn in H. apply orb_false_iff in H as [H1 H2].
  destruct Hx as [->|Hx]; auto.
Qed.
Lemma first_some_none {A B} (g : A -> bool) (h : A -> B) l :
  existsb g l = false -> first_some (map (fun s => if g s then Some (h s) else None) l) = None.
Proof.
  induction l; intro H; cbn; [reflexivity|]. cbn in H. apply orb_false_iff in H as [H1 H2]. rewrite H1. auto.
Qed.

Lemma tdur_noplay p : forall en, plays p en = false -> tdur p en = 0.
Proof.
  induction p using pt_ind'; intros en Hp; cbn [plays tdur] in *.
  - now rewrite Hp.
  - rewrite first_some_none; auto.
  - apply orb_false_iff in Hp as [H1 H2]. rewrite H1. auto.
  - apply sumc_all_zero. intros s Hs. rewrite Forall_forall in H. apply H; auto. eapply existsb_false in Hp; eauto.
  - apply andb_false_iff in Hp as [Hn|Hb].
    + apply Nat.ltb_ge in Hn. replace (rep_count c en) with 0%nat by lia. rewrite natc_0. ring.
    + rewrite IHp by auto. ring.
  - apply sumc_all_zero. intros v Hv. apply IHp. eapply existsb_false in Hp; eauto.
  - auto.
  - auto.
  - auto.
  - auto.
Qed.
Lemma denote_noplay p : forall en mm, plays p en = false -> denote p en mm = [].
Proof.
  induction p using pt_ind'; intros en mm Hp; cbn [denote]; try (rewrite Hp; reflexivity); cbn [plays] in Hp.
  - auto.
  - rewrite IHp; auto.
  - auto.
  - auto.
Qed.

(* ---- the builder invariant --------------------------------------------------------------------------------------------------- *)
Definition chdur (t : top) : Qc := sumc (map ldur (t_ch t)).
Definition top_windows (t : top) : list window := t_ms t ++ seq_windows 0 (pieces (t_ch t)).

Lemma t_body_eq t : t_body t = chdur t.
Proof. unfold t_body, chdur. destruct (t_ch t); reflexivity. Qed.

Definition step_ok (pl : bool) (dur : Qc) (ws : list window) (t t' : top) : Prop :=
  if pl then
    t_ch t' <> [] /\ t_pend t' = map (fun _ => []) (t_pend t) /\ chdur t' = chdur t + dur /\
    Permutation (top_windows t') (top_windows t ++ shift (chdur t) (concat (rev (t_pend t)) ++ ws))
  else t' = t /\ dur = 0 /\ ws = [].

Lemma step_ok_perm d d' w w' t t' :
  step_ok true d w t t' -> d = d' -> Permutation w w' -> step_ok true d' w' t t'.
Proof.
  intros (H1 & H2 & H3 & H4) <- Hw. repeat split; auto.
  etransitivity; [exact H4|]. apply Permutation_app_head. apply shift_perm. apply Permutation_app_head. exact Hw.
Qed.

Lemma concat_cleared {A B} (l : list A) : concat (rev (map (fun _ => @nil B) l)) = [].
Proof.
  rewrite <- map_rev. induction (rev l); cbn; auto.
Qed.
Lemma map_cleared {A B} (l : list A) :
  map (fun _ : list B => @nil B) (map (fun _ => @nil B) l) = map (fun _ => @nil B) l.
Proof. rewrite map_map. reflexivity. Qed.

Lemma step_ok_compose p1 d1 w1 p2 d2 w2 t t1 t2 :
  step_ok p1 d1 w1 t t1 -> step_ok p2 d2 w2 t1 t2 ->
  step_ok (p1 || p2) (d1 + d2) (w1 ++ shift d1 w2) t t2.
Proof.
  destruct p1, p2; cbn [orb]; intros H1 H2.
  - destruct H1 as (A1 & A2 & A3 & A4), H2 as (B1 & B2 & B3 & B4). repeat split; auto.
    + rewrite B2, A2. apply map_cleared.
    + rewrite B3, A3. ring.
    + etransitivity; [exact B4|]. rewrite A2, concat_cleared, A3. cbn [app].
      etransitivity; [apply Permutation_app_tail; exact A4|].
      rewrite <- app_assoc. apply Permutation_app_head.
      rewrite (app_assoc _ w1), (shift_app _ (_ ++ w1)), shift_shift.
      replace (d1 + chdur t) with (chdur t + d1) by ring. reflexivity.
  - destruct H2 as (-> & -> & ->). eapply step_ok_perm; [exact H1| ring |].
    unfold shift at 1. cbn [map]. now rewrite app_nil_r.
  - destruct H1 as (-> & -> & ->). eapply step_ok_perm; [exact H2| ring |]. now rewrite shift_0.
  - destruct H1 as (-> & -> & ->), H2 as (-> & -> & ->). repeat split; auto; try ring.
Qed.

Lemma fold_ok {A} (f : A -> top -> top) (pl : A -> bool) (du : A -> Qc) (ws : A -> list window) (l : list A) :
  (forall a, In a l -> forall t, step_ok (pl a) (du a) (ws a) t (f a t)) ->
  forall t, step_ok (existsb pl l) (sumc (map du l)) (seq_windows 0 (map (fun a => (du a, ws a)) l)) t
                    (fold_left (fun t a => f a t) l t).
Proof.
  induction l as [|a l IH]; intros H t; cbn [existsb map sumc seq_windows fold_left].
  - repeat split; auto.
  - rewrite shift_0, (seq_windows_0 (0 + du a)). replace (0 + du a) with (du a) by ring.
    eapply step_ok_compose; [apply H; now left|]. apply IH. intros; apply H; now right.
Qed.

(* add measurements, then append a child *)
Lemma append_add_ok c m t : step_ok true (ldur c) (m ++ loop_windows c) t (append c (add_meas m t)).
Proof.
  unfold step_ok, append, add_meas, top_windows, chdur. destruct t as [ch ms pend]. cbn [t_ch t_ms t_pend].
  assert (Hb : forall p, t_body (mkTop ch ms p) = sumc (map ldur ch)) by (intro; apply t_body_eq).
  destruct pend as [|p ps]; cbn [t_ch t_ms t_pend]; rewrite ?Hb.
  - repeat split.
    + destruct ch; discriminate.
    + rewrite map_app, sumc_app. cbn. ring.
    + cbn [rev concat map app]. unfold pieces. rewrite map_app. cbn [map]. rewrite seq_windows_snoc.
      fold (pieces ch). rewrite total_pieces.
      replace (0 + sumc (map ldur ch)) with (sumc (map ldur ch)) by ring.
      rewrite shift_app. unfold shift at 2. cbn [map]. rewrite app_nil_r.
      perm_app.
  - repeat split.
    + destruct ch; discriminate.
    + rewrite map_app, sumc_app. cbn. ring.
    + unfold pieces. rewrite map_app. cbn [map]. rewrite seq_windows_snoc.
      fold (pieces ch). rewrite total_pieces.
      replace (0 + sumc (map ldur ch)) with (sumc (map ldur ch)) by ring.
      cbn [rev]. rewrite !concat_app. cbn [concat]. rewrite !app_nil_r.
      rewrite !shift_app. perm_app.
Qed.
Lemma add_meas_nil t : add_meas [] t = t.
Proof.
  unfold add_meas. destruct t as [ch ms [|p ps]]; cbn [t_ch t_ms t_pend].
  - unfold shift. cbn. now rewrite app_nil_r.
  - now rewrite app_nil_r.
Qed.

Lemma loop_windows_leaf d : loop_windows (leaf d) = [].
Proof. unfold leaf. rewrite loop_windows_eq. apply tile_1. Qed.
Lemma ldur_leaf d : ldur (leaf d) = d.
Proof. unfold leaf. rewrite ldur_eq. cbn [map body_of]. rewrite natc_1. ring. Qed.

(* the program of an inner builder that started fresh *)
Lemma fresh_result pl d w t' :
  step_ok pl d w fresh t' ->
  if pl then exists c cs, t_ch t' = c :: cs /\ t_pend t' = [] /\ sumc (map ldur (t_ch t')) = d /\
                          Permutation (top_windows t') w
  else t' = fresh.
Proof.
  destruct pl; cbn [step_ok].
  - intros (H1 & H2 & H3 & H4). destruct (t_ch t') as [|c cs] eqn:E; [congruence|].
    exists c, cs. repeat split; auto.
    + unfold chdur in H3. rewrite E in H3. rewrite H3. cbn. ring.
    + etransitivity; [exact H4|]. cbn. rewrite shift_0. reflexivity.
  - now intros (-> & _).
Qed.

Lemma root_of_inner n t' c cs w d :
  t_ch t' = c :: cs -> sumc (map ldur (t_ch t')) = d -> Permutation (top_windows t') w ->
  ldur (Loop n None (t_ms t') (t_ch t')) = d * natc n /\
  Permutation (loop_windows (Loop n None (t_ms t') (t_ch t'))) (tile n d w).
Proof.
  intros E Hd Hw. rewrite ldur_eq, loop_windows_eq.
  assert (HB : body_of None (map ldur (t_ch t')) = d) by (rewrite <- Hd, E; reflexivity).
  rewrite HB. split; [reflexivity|]. apply tile_perm. exact Hw.
Qed.

(* ---- build ------------------------------------------------------------------------------------------------------------------ *)
Definition build_ok_at (p : pt) : Prop :=
  forall en mm t, step_ok (plays p en) (tdur p en) (denote p en mm) t (build p en mm t).

Lemma build_Seq ms subs en mm t :
  build (Seq ms subs) en mm t =
  pop (fold_left (fun t s => build s en mm t) subs (push (eval_decls ms en mm) t)).
Proof.
  reflexivity.
Qed.

Lemma pop_push w t : pop (push w t) = t.
Proof. now destruct t. Qed.

(* with_sequence: push the node's own windows, run the parts, pop *)
Lemma sequence_ok pl d w own t t2 :
  step_ok pl d w (push own t) t2 ->
  step_ok pl d (if pl then own ++ w else []) t (pop t2).
Proof.
  destruct pl; cbn [step_ok].
  - intros (H1 & H2 & H3 & H4). unfold pop, push in *. cbn [t_ch t_ms t_pend] in *. repeat split; auto.
    + rewrite H2. reflexivity.
    + unfold top_windows in *. cbn [t_ch t_ms] in *. etransitivity; [exact H4|].
      unfold chdur. cbn [t_ch rev]. rewrite concat_app. cbn [concat]. rewrite app_nil_r, <- (app_assoc _ own w). reflexivity.
  - intros (-> & -> & ->). rewrite pop_push. auto.
Qed.

Lemma atomic_ok p :
  (forall en mm t, build p en mm t =
                   if plays p en then append (leaf (tdur p en)) (add_meas (adecls p en mm) t) else t) ->
  (forall en mm, denote p en mm = if plays p en then adecls p en mm else []) ->
  build_ok_at p.
Proof.
  intros Hb Hd en mm t. rewrite Hb, Hd. destruct (plays p en) eqn:Hp.
  - eapply step_ok_perm; [apply append_add_ok| apply ldur_leaf |]. rewrite loop_windows_leaf, app_nil_r. reflexivity.
  - repeat split; auto. now apply tdur_noplay.
Qed.

Definition Q_at (p : pt) : Prop := build_ok_at p /\ forall x, p = Single x -> build_ok_at x.

Lemma rev_inner_ok b : Q_at b -> forall en mm,
  step_ok (plays b en) (tdur b en) (denote b en mm) fresh
          (match b with Single x => build x en mm fresh | _ => build b en mm fresh end).
Proof.
  intros [H1 H2] en mm. destruct b; try apply H1. specialize (H2 b eq_refl). apply H2.
Qed.

Theorem build_ok_all p : Q_at p.
Proof.
  induction p using pt_ind'; (split; [|try discriminate]).
  - (* Atom *) apply atomic_ok; reflexivity.
  - (* Multi *) apply atomic_ok; reflexivity.
  - (* Arith *) apply atomic_ok; reflexivity.
  - (* Seq *)
    intros en mm t. rewrite build_Seq.
    change (denote (Seq ms subs) en mm) with
      (if plays (Seq ms subs) en
       then eval_decls ms en mm ++ seq_windows 0 (map (fun s => (tdur s en, denote s en mm)) subs) else []).
    apply sequence_ok. cbn [plays tdur].
    apply (fold_ok (fun s t => build s en mm t) (fun s => plays s en) (fun s => tdur s en) (fun s => denote s en mm)).
    intros s Hs t0. rewrite Forall_forall in H. apply (proj1 (H s Hs)).
  - (* Rep *)
    intros en mm t. destruct IHp as [IH _]. cbn [build plays tdur denote].
    destruct (0 <? rep_count c en)%nat eqn:Hn; cbn [andb].
    + specialize (IH en mm fresh). apply fresh_result in IH. destruct (plays p en) eqn:Hp.
      * destruct IH as (c0 & cs & E & _ & Hd & Hw). unfold with_repetition. rewrite E. rewrite <- E.
        destruct (root_of_inner (rep_count c en) _ _ _ _ _ E Hd Hw) as [R1 R2].
        eapply step_ok_perm; [apply append_add_ok| rewrite R1; ring |].
        apply Permutation_app_head. rewrite seq_windows_repeat. exact R2.
      * rewrite IH. cbn. repeat split; auto. rewrite (tdur_noplay p en Hp). ring.
    + repeat split; auto. apply Nat.ltb_ge in Hn. replace (rep_count c en) with 0%nat by lia. rewrite natc_0. ring.
  - (* For *)
    intros en mm t. destruct IHp as [IH _]. cbn [build].
    change (denote (For ms i a b s p) en mm) with
      (if plays (For ms i a b s p) en
       then eval_decls ms en mm ++
            seq_windows 0 (map (fun v => (tdur p (upd en i (Zc v)), denote p (upd en i (Zc v)) mm)) (range_vals a b s en))
       else []).
    apply sequence_ok. cbn [plays tdur].
    apply (fold_ok (fun v t => build p (upd en i (Zc v)) mm t) (fun v => plays p (upd en i (Zc v)))
                   (fun v => tdur p (upd en i (Zc v))) (fun v => denote p (upd en i (Zc v)) mm)).
    intros v _ t0. apply IH.
  - (* Map *) intros en mm t. destruct IHp as [IH _]. cbn [build plays tdur denote]. apply IH.
  - (* Rev *)
    intros en mm t. pose proof (rev_inner_ok p IHp en mm) as IH. cbn [build plays tdur denote].
    apply fresh_result in IH. unfold time_reversed, to_program. destruct (plays p en) eqn:Hp.
    + destruct IH as (c0 & cs & E & _ & Hd & Hw). rewrite E. rewrite <- E.
      destruct (root_of_inner 1 _ _ _ _ _ E Hd Hw) as [R1 R2]. rewrite tile_1 in R2.
      rewrite natc_1 in R1. rewrite <- (add_meas_nil t) at 2.
      eapply step_ok_perm; [apply append_add_ok| rewrite reverse_loop_dur, R1; ring |].
      cbn [app]. etransitivity; [apply reverse_loop_windows|]. rewrite R1.
      replace (tdur p en * 1) with (tdur p en) by ring. apply mirror_perm. exact R2.
    + rewrite IH. cbn. repeat split; auto.
      * now apply tdur_noplay.
      * now rewrite denote_noplay.
  - (* Single *)
    intros en mm t. destruct IHp as [IH _]. specialize (IH en mm fresh). cbn [build plays tdur denote].
    apply fresh_result in IH. unfold new_subprogram, to_program. destruct (plays p en) eqn:Hp.
    + destruct IH as (c0 & cs & E & _ & Hd & Hw). rewrite E. rewrite <- E.
      destruct (root_of_inner 1 _ _ _ _ _ E Hd Hw) as [R1 R2]. rewrite tile_1 in R2. rewrite natc_1 in R1.
      eapply step_ok_perm; [apply append_add_ok| rewrite ldur_leaf, R1; ring |].
      rewrite loop_windows_leaf, app_nil_r. exact R2.
    + rewrite IH. cbn. repeat split; auto.
      * now apply tdur_noplay.
      * now apply denote_noplay.
  - (* Single, second component *) intros x Hx. inversion Hx; subst. apply (proj1 IHp).
  - (* Pass *) intros en mm t. destruct IHp as [IH _]. cbn [build plays tdur denote]. apply IH.
Qed.

Corollary build_ok p : build_ok_at p.
Proof. apply build_ok_all. Qed.

(* ---- create_program -------------------------------------------------------------------------------------------------------- *)
Theorem create_program_windows p en mm prog :
  create_program p en mm = Program prog ->
  plays p en = true /\ ldur prog = tdur p en /\ Permutation (loop_windows prog) (denote p en mm).
Proof.
  unfold create_program. destruct (check p en mm); [discriminate|].
  pose proof (build_ok p en mm fresh) as H. apply fresh_result in H. unfold to_program.
  destruct (plays p en).
  - destruct H as (c & cs & E & _ & Hd & Hw). rewrite E. rewrite <- E. intro Hp. injection Hp as <-.
    destruct (root_of_inner 1 _ _ _ _ _ E Hd Hw) as [R1 R2]. rewrite tile_1 in R2. rewrite natc_1 in R1.
    repeat split; auto. rewrite R1. ring.
  - rewrite H. cbn. discriminate.
Qed.

Theorem create_program_none p en mm :
  check p en mm = None -> (create_program p en mm = NoProgram <-> plays p en = false).
Proof.
  intro Hv. unfold create_program. rewrite Hv.
  pose proof (build_ok p en mm fresh) as H. apply fresh_result in H. unfold to_program.
  destruct (plays p en).
  - destruct H as (c & cs & E & _). rewrite E. split; discriminate.
  - rewrite H. cbn. split; auto.
Qed.
