(* C02 round 6 — the second observation point of the property: plotting.render(program, sample_rate,
   render_measurements=True, time_slice)[2].  Model of the measurement part of render() / _render_loop for a program that
   has a waveform (every program create_program returns): the windows are Loop.get_measurement_windows() flattened to
   triples; with an explicit time_slice = (start, end) the slice is validated first (ValueError), only the windows with
   begin < end and begin + length > start are kept; then (in both cases) a sample count below 2 is refused
   (PlottingNotPossibleException).  The order of the returned list (sorted by begin) is not modelled: windows are compared
   as multisets.   Definitions only. *)
From Coq Require Import ZArith QArith Qcanon List Bool.
Require Import QV.C02.Spec QV.C02.Model.
Import ListNotations.
Open Scope Qc_scope.

(* the filter of render(): strict on both sides *)
Definition overlaps (s e : Qc) (w : window) : bool :=
  match w with (_, b, l) => Qcltb b e && Qcltb s (b + l) end.

(* "time_slice[1] < time_slice[0] or time_slice[0] < 0 or time_slice[1] < 0" *)
Definition bad_slice (s e : Qc) : bool := Qcltb e s || Qcltb s 0 || Qcltb e 0.
(* "sample_count = (end_time - start_time) * sample_rate + 1;  if sample_count < 2: raise" *)
Definition too_short (rate s e : Qc) : bool := Qcltb ((e - s) * rate + 1) (1 + 1).

Inductive rres := ROk (ws : list window) | RBadSlice | RTooShort.

Definition render_meas (rate : Qc) (slice : option (Qc * Qc)) (l : loop) : rres :=
  match slice with
  | None => if too_short rate 0 (ldur l) then RTooShort else ROk (loop_windows l)
  | Some (s, e) =>
      if bad_slice s e then RBadSlice
      else if too_short rate s e then RTooShort
      else ROk (filter (overlaps s e) (loop_windows l))
  end.

(* what the specification says render reports (template tree alone): all denoted windows, or those overlapping the slice *)
Definition render_denote (p : pt) (en : env) (mm : mmap) (slice : option (Qc * Qc)) : list window :=
  match slice with
  | None => denote p en mm
  | Some (s, e) => filter (overlaps s e) (denote p en mm)
  end.
