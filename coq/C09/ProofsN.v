(* C09 — proofs, part N (round 4): a call the caller survives (a Python exception, not a model artefact) leaves no state
   behind.  Node.__setitem__ validates before it re-parents (repair of round 4), the repetition_count setter validates
   before it stores, a rejected call does nothing.  The recursive operations (reverse_inplace, cleanup) are NOT of this
   kind: a failure deep down keeps the work done so far (refuted below for the model; the code behaves the same). *)
From Coq Require Import List ZArith QArith Bool Lia Arith.
Import ListNotations.
Require Import QV.common.Util QV.C09.Model QV.C09.Proofs QV.C09.Proofs6.
Local Opaque Qred.

Definition pyexn (e : exn) : Prop := e <> ExFuel /\ e <> ExDangling.
(* every node that existed before the call is exactly as it was (allocation of the fresh argument trees appends) *)
Definition kept (h h' : heap) : Prop := forall x n, get h x = Some n -> get h' x = Some n.

Lemma kept_refl h : kept h h.
Proof. intros x n G; exact G. Qed.

Lemma bind_E_inv {A B} (m : M A) (k : A -> M B) h h' e :
  bind m k h = (h', E e) -> m h = (h', E e) \/ exists a h1, m h = (h1, R a) /\ k a h1 = (h', E e).
Proof.
  unfold bind. destruct (m h) as (h1, [a|e1]) eqn:Em; intros H.
  - right. exists a, h1. split; auto.
  - left. inversion H; subst. reflexivity.
Qed.

Lemma getn_E x h h' e : getn x h = (h', E e) -> e = ExDangling.
Proof. unfold getn. destruct (get h x); intros H; inversion H; auto. Qed.
Lemma getn_R x h h' n : getn x h = (h', R n) -> h' = h.
Proof. unfold getn. destruct (get h x); intros H; inversion H; auto. Qed.
Lemma modn_E x f h h' e : modn x f h = (h', E e) -> False.
Proof. unfold modn. intros H; inversion H. Qed.

Lemma miter_modn_E (f : id -> node -> node) : forall l h h' e, miter (fun c => modn c (f c)) l h = (h', E e) -> False.
Proof.
  induction l as [|c l IH]; intros h h' e H; cbn [miter] in H.
  - cbv [ret] in H. inversion H.
  - apply bind_E_inv in H as [H|(a & h1 & _ & H)]; [eapply modn_E; eauto|eapply IH; eauto].
Qed.

Lemma detach_removed_E x vals : forall rem h h' e, detach_removed x rem vals h = (h', E e) -> e = ExDangling.
Proof.
  unfold detach_removed. induction rem as [|c rem IH]; intros h h' e H; cbn [miter] in H.
  - cbv [ret] in H. inversion H.
  - apply bind_E_inv in H as [H|(a & h1 & _ & H)]; [|eapply IH; eauto].
    destruct (existsb (Nat.eqb c) vals); [cbv [ret] in H; inversion H|].
    apply bind_E_inv in H as [H|(nc & h1 & _ & H)]; [eapply getn_E; eauto|].
    destruct (parent nc) as [p|]; [|cbv [ret] in H; inversion H].
    destruct (Nat.eqb p x); [exfalso; eapply modn_E; eauto|cbv [ret] in H; inversion H].
Qed.

Lemma renum_E x : forall cnt a h h' e, renum x a cnt h = (h', E e) -> e = ExIndex \/ e = ExDangling.
Proof.
  induction cnt as [|c IH]; intros a h h' e H; cbn [renum] in H.
  - cbv [ret] in H. inversion H.
  - apply bind_E_inv in H as [H|(n & h1 & _ & H)]; [right; eapply getn_E; eauto|].
    destruct (py_index _ a) as [i|]; [|cbv [raise] in H; inversion H; auto].
    destruct (nth_error (children n) (Z.to_nat i)) as [ch|]; [|cbv [raise] in H; inversion H; auto].
    apply bind_E_inv in H as [H|(u & h2 & _ & H)]; [exfalso; eapply modn_E; eauto|eapply IH; eauto].
Qed.
Lemma renum_step_E x st : forall cnt a h h' e, renum_step x a st cnt h = (h', E e) -> e = ExIndex \/ e = ExDangling.
Proof.
  induction cnt as [|c IH]; intros a h h' e H; cbn [renum_step] in H.
  - cbv [ret] in H. inversion H.
  - apply bind_E_inv in H as [H|(n & h1 & _ & H)]; [right; eapply getn_E; eauto|].
    destruct (py_index _ a) as [i|]; [|cbv [raise] in H; inversion H; auto].
    destruct (nth_error (children n) (Z.to_nat i)) as [ch|]; [|cbv [raise] in H; inversion H; auto].
    apply bind_E_inv in H as [H|(u & h2 & _ & H)]; [exfalso; eapply modn_E; eauto|eapply IH; eauto].
Qed.

Lemma invalidate_all_E x h h' e : invalidate_all x h = (h', E e) -> e = ExFuel \/ e = ExDangling.
Proof. unfold invalidate_all. rewrite fueled_eq. apply invalidate_none_err. Qed.

(* ---- x[idx] = v : a Python exception means the index was rejected, and then nothing happened ------------------------------ *)
Lemma setitem_int_failed x idx v h h' e :
  loop_setitem_int x idx v h = (h', E e) -> pyexn e -> h' = h /\ e = ExIndex.
Proof.
  intros H (NF & ND). unfold loop_setitem_int in H.
  apply bind_E_inv in H as [H|(u & h1 & _ & H)].
  2:{ destruct (invalidate_all_E _ _ _ _ H); congruence. }
  unfold node_setitem_int in H.
  apply bind_E_inv in H as [H|(n & h1 & G & H)]; [apply getn_E in H; congruence|].
  apply getn_R in G. subst h1.
  destruct (py_index _ idx) as [i|]; [|unfold raise in H; inversion H; auto].
  exfalso.
  apply bind_E_inv in H as [H|(u1 & h1 & _ & H)]; [eapply modn_E; eauto|].
  apply bind_E_inv in H as [H|(u2 & h2 & _ & H)]; [eapply modn_E; eauto|].
  apply bind_E_inv in H as [H|(u3 & h3 & _ & H)]; [eapply modn_E; eauto|].
  apply detach_removed_E in H. congruence.
Qed.

(* ---- x[a:b:st] = vals : ValueError (step 0, size mismatch of an extended slice) comes before anything is touched --------------- *)
Lemma setitem_slice_failed x a b st vals h h' :
  loop_setitem_slice x a b st vals h = (h', E ExValue) -> h' = h.
Proof.
  intros H. unfold loop_setitem_slice in H.
  apply bind_E_inv in H as [H|(u & h1 & _ & H)].
  2:{ destruct (invalidate_all_E _ _ _ _ H); congruence. }
  unfold node_setitem_slice in H.
  apply bind_E_inv in H as [H|(n & h1 & G & H)]; [apply getn_E in H; congruence|].
  apply getn_R in G. subst h1.
  destruct (slice_indices a b st _) as [[[s e] st']|]; [|unfold raise in H; inversion H; auto].
  destruct (negb (st' =? 1)%Z && negb (Z.of_nat (length vals) =? range_len s e st')%Z) eqn:V;
    [unfold raise in H; inversion H; auto|].
  exfalso.
  apply bind_E_inv in H as [H|(u1 & h1 & _ & H)]; [eapply (miter_modn_E (fun _ => set_parent (Some x))); eauto|].
  apply bind_E_inv in H as [H|(u2 & h2 & _ & H)].
  { destruct (st' =? 1)%Z; [eapply modn_E; eauto|].
    cbn [negb andb] in V. apply negb_false_iff in V. rewrite V in H. eapply modn_E; eauto. }
  apply bind_E_inv in H as [H|(u3 & h3 & _ & H)].
  { destruct (negb (Z.of_nat (length vals) =? range_len s e st')%Z).
    - apply bind_E_inv in H as [H|(n' & h3 & _ & H)]; [apply getn_E in H; congruence|].
      destruct (renum_E _ _ _ _ _ _ H); congruence.
    - destruct (0 <? Z.of_nat (length vals))%Z; [destruct (renum_step_E _ _ _ _ _ _ _ H); congruence|inversion H]. }
  apply detach_removed_E in H. congruence.
Qed.

(* ---- x.repetition_count = <float> : ValueError comes before the count is stored ------------------------------------------------ *)
Lemma set_repetition_count_q_failed x q h h' e :
  set_repetition_count_q x q h = (h', E e) -> pyexn e -> h' = h /\ e = ExValue.
Proof.
  intros H (NF & ND). unfold set_repetition_count_q in H.
  destruct (Qle_bool _ rep_eps); [|unfold raise in H; inversion H; auto].
  exfalso. unfold set_repetition_count, set_repetition_definition in H.
  apply bind_E_inv in H as [H|(u & h1 & _ & H)]; [eapply modn_E; eauto|].
  unfold invalidate_parent in H.
  apply bind_E_inv in H as [H|(n & h2 & _ & H)]; [apply getn_E in H; congruence|].
  destruct (parent n) as [p|]; [|inversion H].
  apply bind_E_inv in H as [H|(np & h3 & _ & H)]; [apply getn_E in H; congruence|].
  destruct (truthy np); [destruct (invalidate_all_E _ _ _ _ H); congruence|inversion H].
Qed.

(* ---- the forest level: held nodes THEMSELVES are handed to x[i] = / x[a:b:st] = and the call is rejected -------------------------- *)
Lemma frun_at_failed fs b p k fs' e :
  frun_at fs b p k = (fs', Raised e) ->
  exists x h', k x (st_heap (f_main fs)) = (h', E e) /\ st_heap (f_main fs') = h' /\ f_held fs' = f_held fs /\
               st_root (f_main fs') = st_root (f_main fs).
Proof.
  unfold frun_at. destruct (base_of fs b) as [m|]; [|intros H; inversion H].
  unfold run_at. cbn [st_heap st_root st_vctr].
  destruct (resolve (st_heap (f_main fs)) m p) as [x|]; [|intros H; inversion H].
  destruct (k x (st_heap (f_main fs))) as (h', [u|e']) eqn:K; intros H; inversion H; subst.
  exists x, h'. cbn. repeat split; auto.
Qed.

Lemma finsert_failed fs ks b dst how fs' e :
  fstep fs (FInsert ks b dst how) = (fs', Raised e) ->
  match how with IAppend => False | IInt _ => pyexn e | ISlice _ _ _ => e = ExValue end ->
  st_heap (f_main fs') = st_heap (f_main fs) /\ f_held fs' = f_held fs /\ st_root (f_main fs') = st_root (f_main fs).
Proof.
  intros H Hh. cbn in H. destruct (held_ids (f_held fs) ks) as [vals|]; [|inversion H].
  apply frun_at_failed in H as (x & h' & K & EH & EHd & ER). rewrite EH. split; [|split; auto].
  destruct how as [|i|a0 b0 st0].
  - contradiction.
  - destruct vals as [|v vals]; [unfold ret in K; inversion K|].
    destruct (setitem_int_failed _ _ _ _ _ _ K Hh); auto.
  - subst e. eapply setitem_slice_failed; eauto.
Qed.

(* ---- the recursive operations do keep partial work: reverse_inplace on [leaf with waveform; leaf without] ---------------------------- *)
Definition partial_witness : tspec :=
  TS (RInt 1) None None [TS (RInt 1) (Some (WRamp 1 1 false)) None []; TS (RInt 1) None None []].
Lemma reverse_partial_effect :
  let s := init_state partial_witness in
  let '(s', out) := step s (OReverse []) in
  out = Raised ExAttr /\ option_map children (get (st_heap s') (st_root s')) <> option_map children (get (st_heap s) (st_root s)).
Proof. vm_compute. split; [reflexivity|discriminate]. Qed.

Lemma reject_no_effect s p e s' out : step s (OReject p e) = (s', out) -> st_heap s' = st_heap s /\ st_root s' = st_root s.
Proof.
  cbn. unfold run_at. destruct (resolve (st_heap s) (st_root s) p); intros H; inversion H; subst; cbn; auto.
Qed.
