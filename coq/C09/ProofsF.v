(* C09 — proofs, part F: the fuel the model uses suffices on states that satisfy the structural part of the invariant
   (depth of a live node < heap size, by pigeonhole); no dangling id is read by the fueled primitives *)
From Coq Require Import List ZArith QArith Bool Lia Arith.
Import ListNotations.
Require Import QV.common.Util QV.C09.Model QV.C09.Proofs QV.C09.Proofs2 QV.C09.Proofs3 QV.C09.Proofs10.
Local Opaque Qred.

Inductive depth (h : heap) (r : id) : id -> nat -> Prop :=
| depth_root : depth h r r 0
| depth_step p np c d : depth h r p d -> get h p = Some np -> In c (children np) -> depth h r c (S d).

Lemma depth_reach h r x d : depth h r x d -> reach h r x.
Proof. induction 1; [constructor|eapply reach_step; eauto]. Qed.
Lemma reach_depth h r x : reach h r x -> exists d, depth h r x d.
Proof. induction 1 as [|p np c R (d & D) G HIn]; [exists 0%nat; constructor|exists (S d); econstructor; eauto]. Qed.

Section Depth.
  Variables (h : heap) (r : id) (P : id -> Prop).
  Hypothesis I : InvExc h r P.

  (* the ancestors-or-self of a node at depth d are d+1 distinct live nodes *)
  Lemma depth_chain x d : depth h r x d ->
    exists l, length l = S d /\ NoDup l /\ forall y, In y l -> reach h r y /\ reach h y x.
  Proof.
    induction 1 as [|p np c d D (l & Ll & ND & Hl) G HIn].
    - exists [r]. split; auto. split; [constructor; [intros []|constructor]|]. intros y [<-|[]]. split; constructor.
    - exists (c :: l). split; [cbn; lia|]. pose proof (depth_reach _ _ _ _ D) as Rp.
      assert (Rpc : reach h p c) by (eapply reach_child; eauto). split.
      + constructor; auto. intros Hc. destruct (Hl c Hc) as (Rc & Rcp).
        assert (c = p) by (eapply (acyclic _ _ _ I); eauto). subst c.
        destruct (inv_rank _ _ _ I) as (rk & Hrk). specialize (Hrk p np p Rp G HIn). lia.
      + intros y [<-|Hy]; [split; [eapply reach_trans; eauto|constructor]|].
        destruct (Hl y Hy) as (Ry & Ryp). split; auto. eapply reach_trans; eauto.
  Qed.

  Lemma depth_lt x d : depth h r x d -> (d < length h)%nat.
  Proof.
    intros D. destruct (depth_chain x d D) as (l & Ll & ND & Hl).
    assert (INC : incl l (seq 0 (length h))).
    { intros y Hy. destruct (Hl y Hy) as (Ry & _). destruct (live_get _ _ _ I y Ry) as (n & G).
      apply in_seq. pose proof (get_lt _ _ _ G). lia. }
    pose proof (NoDup_incl_length ND INC) as L. rewrite seq_length in L. lia.
  Qed.

  Lemma depth_inv x d nx : depth h r x d -> get h x = Some nx ->
    (d = 0%nat /\ x = r /\ parent nx = None) \/
    (exists d' p np, d = S d' /\ parent nx = Some p /\ depth h r p d' /\ get h p = Some np /\ In x (children np)).
  Proof.
    intros D G. inversion D as [|p np c d' Dp Gp HIn]; subst.
    - left. destruct (inv_root _ _ _ I) as (nr & Gr & Pn). repeat split; congruence.
    - right. destruct (lister_unique _ _ _ I x p np (depth_reach _ _ _ _ Dp) Gp HIn) as (nx' & G' & Pp).
      exists d', p, np. repeat split; auto; congruence.
  Qed.

  (* ---- Loop._invalidate_duration never runs out of fuel --------------------------------------------------------------------------- *)
  Lemma invalidate_total_depth : forall d x, depth h r x d -> forall fuel h1 inc, (d < fuel)%nat -> cache_only h h1 ->
    exists h', invalidate fuel x inc h1 = (h', R tt).
  Proof.
    induction d as [|d IH]; intros x D fuel h1 inc L CO; (destruct fuel as [|f]; [lia|]);
      destruct (live_get _ _ _ I x (depth_reach _ _ _ _ D)) as (nx & G);
      destruct (cache_only_get _ _ _ _ CO G) as (n1 & G1 & E1);
      assert (Pn1 : parent n1 = parent nx) by (rewrite E1; destruct nx; reflexivity);
      cbn [invalidate]; unfold bind at 1; unfold getn at 1; rewrite G1.
    - destruct (depth_inv x 0 nx D G) as [(_ & _ & Pn)|(d' & p & np & E & _)]; [|discriminate].
      rewrite Pn1, Pn. destruct (cache n1), inc; cbn; unfold modn, bind, ret; eauto.
    - destruct (depth_inv x (S d) nx D G) as [(E & _)|(d' & p & np & E & Pp & Dp & Gp & HIn)]; [discriminate|].
      inversion E; subst d'. rewrite Pn1, Pp.
      set (h2 := match cache n1, inc with
                 | Some q, Some dd => upd h1 x (set_cache (Some (Qred (q + dd))))
                 | Some q, None => upd h1 x (set_cache None)
                 | None, _ => h1 end).
      assert (CO2 : cache_only h h2).
      { unfold h2. destruct (cache n1), inc; auto; (eapply cache_only_trans; [exact CO|apply cache_only_upd]). }
      assert (STEP : (match cache n1, inc with
                      | Some q, Some dd => modn x (set_cache (Some (Qred (q + dd))))
                      | Some q, None => modn x (set_cache None)
                      | None, _ => ret tt end) h1 = (h2, R tt)).
      { unfold h2. destruct (cache n1), inc; reflexivity. }
      unfold bind at 1. rewrite STEP.
      destruct (cache_only_get _ _ _ _ CO2 Gp) as (np2 & Gp2 & Ep2).
      unfold bind at 1. unfold getn at 1. rewrite Gp2.
      assert (T : truthy np2 = true).
      { rewrite Ep2. unfold truthy. destruct np as [cs0 ? ? ? ? ? ?]; cbn in *. destruct cs0; [contradiction|reflexivity]. }
      rewrite T. apply (IH p Dp); auto. lia.
  Qed.

  Lemma invalidate_total x inc fuel : reach h r x -> (length h < fuel)%nat -> exists h', invalidate fuel x inc h = (h', R tt).
  Proof.
    intros Rx L. destruct (reach_depth _ _ _ Rx) as (d & D). pose proof (depth_lt x d D).
    apply (invalidate_total_depth d x D); [lia|apply cache_only_refl].
  Qed.

  (* ---- Loop.body_duration never runs out of fuel --------------------------------------------------------------------------------------- *)
  Lemma body_duration_total_depth : forall fuel x d h1, depth h r x d -> (length h < fuel + d)%nat -> cache_only h h1 ->
    exists h' q, body_duration fuel x h1 = (h', R q) /\ cache_only h1 h'.
  Proof.
    induction fuel as [|f IH]; intros x d h1 D L CO.
    { pose proof (depth_lt x d D). lia. }
    destruct (live_get _ _ _ I x (depth_reach _ _ _ _ D)) as (nx & G).
    destruct (cache_only_get _ _ _ _ CO G) as (n1 & G1 & E1).
    rewrite body_duration_S. unfold bind at 1. unfold getn at 1. rewrite G1.
    destruct (cache n1) as [q|]; [exists h1, q; split; [reflexivity|apply cache_only_refl]|].
    assert (C1 : children n1 = children nx) by (rewrite E1; destruct nx; reflexivity).
    destruct (children n1) as [|c0 cs0] eqn:Ch.
    { cbn. unfold bind, modn, ret. eexists _, _. split; [reflexivity|apply cache_only_upd]. }
    assert (MS : forall cs hk acc, (forall c, In c cs -> In c (children nx)) -> cache_only h hk ->
               exists hk' s, msum (child_dur f) cs acc hk = (hk', R s) /\ cache_only hk hk').
    { induction cs as [|c cs IHcs]; intros hk acc Sub COk.
      - rewrite msum_nil. exists hk, acc. split; [reflexivity|apply cache_only_refl].
      - rewrite msum_cons. unfold bind at 1. unfold child_dur at 1. unfold bind at 1.
        assert (Dc : depth h r c (S d)) by (econstructor; eauto; apply Sub; now left).
        destruct (IH c (S d) hk Dc) as (ha & b & Ea & COa); [lia|auto|]. rewrite Ea.
        assert (COha : cache_only h ha) by (eapply cache_only_trans; eauto).
        destruct (live_get _ _ _ I c (depth_reach _ _ _ _ Dc)) as (nc & Gc).
        destruct (cache_only_get _ _ _ _ COha Gc) as (nca & Gca & _).
        unfold bind at 1. unfold getn at 1. rewrite Gca. unfold ret at 1.
        destruct (IHcs ha (Qred (acc + Qred (b * inject_Z (rep_count (rdf nca)))))) as (hb & s & Eb & COb); auto.
        { intros; apply Sub; now right. }
        exists hb, s. split; auto. eapply cache_only_trans; eauto. }
    cbn iota. unfold bind at 1.
    destruct (MS (c0 :: cs0) h1 0%Q) as (h2 & s & E2 & CO2); auto.
    { intros c Hc. rewrite <- C1. exact Hc. }
    rewrite E2. unfold bind, modn, ret. eexists _, _. split; [reflexivity|].
    eapply cache_only_trans; [exact CO2|apply cache_only_upd].
  Qed.

  Lemma body_duration_total x fuel : reach h r x -> (length h < fuel)%nat -> exists h' q, body_duration fuel x h = (h', R q).
  Proof.
    intros Rx L. destruct (reach_depth _ _ _ Rx) as (d & D).
    destruct (body_duration_total_depth fuel x d h D) as (h' & q & E & _); [lia|apply cache_only_refl|]. eauto.
  Qed.

  Lemma duration_total x fuel : reach h r x -> (length h < fuel)%nat -> exists h' q, duration fuel x h = (h', R q).
  Proof.
    intros Rx L. destruct (reach_depth _ _ _ Rx) as (d & D).
    destruct (body_duration_total_depth fuel x d h D) as (h' & q & E & CO); [lia|apply cache_only_refl|].
    destruct (live_get _ _ _ I x Rx) as (nx & G). destruct (cache_only_get _ _ _ _ CO G) as (n1 & G1 & _).
    unfold duration, bind. rewrite E. unfold getn. rewrite G1. unfold ret. eauto.
  Qed.

  (* ---- Loop.copy_tree_structure never runs out of fuel ---------------------------------------------------------------------------------------- *)
  Lemma copy_tree_total_depth : forall fuel x d par hc, depth h r x d -> (length h < fuel + d)%nat ->
    (forall y, (y < length h)%nat -> get hc y = get h y) -> (length h <= length hc)%nat ->
    exists h' c, copy_tree fuel x par hc = (h', R c).
  Proof.
    induction fuel as [|f IH]; intros x d par hc D L Old Len.
    { pose proof (depth_lt x d D). lia. }
    destruct (live_get _ _ _ I x (depth_reach _ _ _ _ D)) as (nx & G).
    assert (Gc : get hc x = Some nx) by (rewrite Old; auto; eapply get_lt; eauto).
    rewrite copy_tree_S. unfold bind at 1. unfold getn at 1. rewrite Gc.
    assert (MM : forall l hk, (forall c, In c l -> In c (children nx)) ->
               (forall y, (y < length h)%nat -> get hk y = get h y) -> (length h <= length hk)%nat ->
               exists hk' ids, mmap (fun c => copy_tree f c None) l hk = (hk', R ids) /\
                               (forall y, (y < length h)%nat -> get hk' y = get h y) /\ (length h <= length hk')%nat).
    { induction l as [|c l IHl]; intros hk Sub Oldk Lenk.
      - exists hk, []. cbn. auto.
      - assert (Dc : depth h r c (S d)) by (econstructor; eauto; apply Sub; now left).
        cbn [mmap]. unfold bind at 1.
        destruct (IH c (S d) None hk Dc) as (ha & ca & Ea); [lia|auto|auto|]. rewrite Ea.
        destruct (copy_tree_spec _ _ _ _ _ _ Ea) as (L1 & L2 & Oa & _).
        destruct (IHl ha) as (hb & ids & Eb & Ob & Lb).
        { intros; apply Sub; now right. }
        { intros y Ly. rewrite Oa by lia. auto. }
        { lia. }
        unfold bind at 1. rewrite Eb. unfold ret. eauto. }
    destruct (MM (children nx) hc) as (h1 & ids & E1 & O1 & L1); auto.
    unfold bind at 1. rewrite E1.
    unfold new_loop, bind, alloc. destruct (adopt_spec ids (length h1) 0%Z (h1 ++ [mkNode ids par None None (rdf nx) (wform nx) (meas nx)])) as (h2 & Ea & _).
    rewrite Ea. unfold ret. eauto.
  Qed.

  Lemma copy_tree_structure_total x np hc : reach h r x ->
    (forall y, (y < length h)%nat -> get hc y = get h y) -> (length h <= length hc)%nat ->
    exists h' c, copy_tree_structure x np hc = (h', R c).
  Proof.
    intros Rx Old Len. destruct (reach_depth _ _ _ Rx) as (d & D).
    destruct (live_get _ _ _ I x Rx) as (nx & G).
    assert (Gc : get hc x = Some nx) by (rewrite Old; auto; eapply get_lt; eauto).
    unfold copy_tree_structure, bind, getn. rewrite Gc. rewrite fueled_eq.
    apply (copy_tree_total_depth _ x d _ hc D); auto. lia.
  Qed.
End Depth.

(* ---- the setters and the queries: the ok_result hypothesis of round 1 is not needed ----------------------------------------------------------------- *)
Lemma set_waveform_total h r x w : Inv h r -> reach h r x -> exists h', set_waveform x w h = (h', R tt) /\ Inv h' r.
Proof.
  intros I Rx. unfold set_waveform, bind, modn, invalidate_all. rewrite fueled_eq.
  set (h1 := upd h x (set_wform w)).
  assert (LS : lsame h h1) by (apply lsame_upd; intros []; reflexivity).
  assert (I1 : InvExc h1 r (fun _ => True)).
  { eapply InvExc_lsame; [exact LS|exact I|]. intros y _ F. exfalso; apply F; exact Logic.I. }
  destruct (invalidate_total h1 r _ I1 x None (S (S (length h))) (reach_lsame _ _ _ _ LS Rx)) as (h' & E).
  { unfold h1. rewrite upd_length. lia. }
  assert (EQ : set_waveform x w h = (h', R tt)).
  { unfold set_waveform, bind, modn, invalidate_all. rewrite fueled_eq. fold h1.
    replace (length h1) with (length h) by (unfold h1; now rewrite upd_length). now rewrite E. }
  exists h'. split; [exact EQ|]. exact (set_waveform_inv h r x w h' (R tt) I Rx EQ Logic.I).
Qed.

Lemma set_repetition_definition_total h r x rd : Inv h r -> reach h r x ->
  exists h', set_repetition_definition x rd h = (h', R tt) /\ Inv h' r.
Proof.
  intros I Rx.
  assert (T : exists h', set_repetition_definition x rd h = (h', R tt)).
  { unfold set_repetition_definition, bind, modn, invalidate_parent.
    set (h1 := upd h x (set_rdf rd)).
    assert (LS : lsame h h1) by (apply lsame_upd; intros []; reflexivity).
    assert (I1 : InvExc h1 r (fun _ => True)).
    { eapply InvExc_lsame; [exact LS|exact I|]. intros y _ F. exfalso; apply F; exact Logic.I. }
    pose proof (reach_lsame _ _ _ _ LS Rx) as Rx1.
    destruct (live_get _ _ _ I1 x Rx1) as (n1 & G1). unfold bind, getn. rewrite G1.
    destruct (live_parent _ _ _ I1 x n1 Rx1 G1) as [(_ & Pn)|(p & np & Pp & Rp & Gp & HIn)].
    - rewrite Pn. unfold ret. eauto.
    - rewrite Pp, Gp. assert (T : truthy np = true) by (unfold truthy; destruct (children np); [contradiction|reflexivity]).
      rewrite T. unfold invalidate_all. rewrite fueled_eq.
      destruct (invalidate_total h1 r _ I1 p None (S (S (length h1))) Rp) as (h' & E); [lia|]. rewrite E. eauto. }
  destruct T as (h' & E). exists h'. split; auto. exact (set_repetition_definition_inv h r x rd h' (R tt) I Rx E Logic.I).
Qed.

Lemma duration_query_total h r x : Inv h r -> reach h r x ->
  exists h' q, fueled (fun fuel => duration fuel x) h = (h', R q) /\ Inv h' r.
Proof.
  intros I Rx. rewrite fueled_eq. destruct (duration_total h r _ I x (S (S (length h))) Rx) as (h' & q & E); [lia|].
  exists h', q. split; auto. eapply duration_inv; eauto.
Qed.

(* ---- histories over the setters and queries: no ExFuel / ExDangling outcome is possible, nothing to assume --------------------------------------------- *)
Definition basic_op (o : op) : bool :=
  match o with
  | ONop | OSetWf _ _ | OSetRepCount _ _ | OSetRepDef _ _ | OQueryDur _ | OQueryBody _ | OEq _ _ => true
  | OAddMeas _ _ => true      (* round 6 *)
  | _ => false
  end.

Lemma run_at_total s p (k : id -> M unit) s' out :
  sInv s -> run_at s p k = (s', out) ->
  (forall x, reach (st_heap s) (st_root s) x -> exists h', k x (st_heap s) = (h', R tt) /\ Inv h' (st_root s)) ->
  out_ok out /\ sInv s'.
Proof.
  intros I H K. unfold run_at in H.
  destruct (resolve (st_heap s) (st_root s) p) as [x|] eqn:Rs; [|inversion H; subst; split; [exact Logic.I|auto]].
  apply resolve_reach in Rs. destruct (K x Rs) as (h' & E & I'). rewrite E in H. inversion H; subst. split; [exact Logic.I|exact I'].
Qed.

Lemma step_basic_total s o s' out : sInv s -> basic_op o = true -> step s o = (s', out) -> out_ok out /\ sInv s'.
Proof.
  intros I B H. destruct o; try discriminate; cbn in H.
  - inversion H; subst. split; [exact Logic.I|auto].
  - eapply run_at_total; eauto. intros x Rx. cbv beta. apply set_waveform_total; auto.
  - eapply run_at_total; eauto. intros x Rx. cbv beta. apply set_repetition_definition_total; auto.
  - eapply run_at_total; eauto. intros x Rx. cbv beta. apply set_repetition_definition_total; auto.
  - eapply run_at_total; eauto. intros x Rx. cbv beta.
    destruct (duration_query_total _ _ x I Rx) as (h' & q & E & I'). exists h'. unfold bind. rewrite E. auto.
  - eapply run_at_total; eauto. intros x Rx. cbv beta.
    destruct (body_duration_total _ _ _ I x (S (S (length (st_heap s)))) Rx) as (h' & q & E); [lia|].
    exists h'. unfold bind, fueled. rewrite E. split; auto. eapply body_duration_inv; eauto.
  - inversion H; subst. split; [exact Logic.I|auto].
  - (* OAddMeas: the memoising read cannot fail, the write is a plain store *)
    eapply run_at_total; eauto. intros x Rx. cbv beta.
    destruct (body_duration_total _ _ _ I x (S (S (length (st_heap s)))) Rx) as (h1 & q & E); [lia|].
    destruct (add_measurements x ms (st_heap s)) as (h', res) eqn:EA.
    assert (I' : Inv h' (st_root s)) by (eapply add_measurements_inv; eauto).
    unfold add_measurements, bind, fueled in EA. rewrite E in EA. unfold modn in EA. inversion EA; subst. eauto.
Qed.

Lemma history_basic_total : forall ops s, sInv s -> forallb basic_op ops = true -> run_ok s ops /\ sInv (run s ops).
Proof.
  induction ops as [|o ops IH]; intros s I B; cbn in *; auto.
  apply andb_prop in B as (B1 & B2). destruct (step s o) as (s', out) eqn:St.
  destruct (step_basic_total s o s' out I B1 St) as (O1 & I'). cbn.
  destruct (IH s' I' B2) as (O2 & I2). auto.
Qed.

(* ---- what a node REPORTS (the pure reading of x.body_duration / x.duration that the observation uses) is the recomputed
   duration: the formal link between clause I1 of Inv and the `o_dur = tdur` test of check_spec ------------------------------------------------ *)
Lemma osum_cons g c l acc : osum g (c :: l) acc = match g c with Some d => osum g l (Qred (acc + d)) | None => None end.
Proof. reflexivity. Qed.

Lemma peek_body_spec h r : Inv h r -> forall fuel x d, depth h r x d -> (length h < fuel + d)%nat ->
  exists q b, peek_body fuel h x = Some q /\ tbody h x b /\ (q == b)%Q.
Proof.
  intros I. induction fuel as [|f IH]; intros x d D L.
  { pose proof (depth_lt h r _ I x d D). lia. }
  pose proof (depth_reach _ _ _ _ D) as Rx.
  destruct (live_get _ _ _ I x Rx) as (nx & G). cbn [peek_body]. rewrite G.
  destruct (cache nx) as [q|] eqn:Cq.
  { destruct (inv_cache _ _ _ I x Rx (fun f0 => f0) nx q G Cq) as (b & Tb & Eb). exists q, b. auto. }
  destruct (children nx) as [|c0 cs0] eqn:Ch.
  { exists (leaf_dur nx), (leaf_dur nx). split; [reflexivity|]. split; [apply (TB_leaf h x nx); auto|reflexivity]. }
  set (g := fun c => match peek_body f h c, get h c with
                     | Some b, Some nc => Some (Qred (b * inject_Z (rep_count (rdf nc))))
                     | _, _ => None end).
  assert (OS : forall cs acc, (forall c, In c cs -> In c (children nx)) ->
             exists q s, osum g cs acc = Some q /\ tsum h cs s /\ (q == acc + s)%Q).
  { induction cs as [|c cs IHcs]; intros acc Sub.
    - exists acc, 0%Q. split; [reflexivity|]. split; [constructor|ring].
    - assert (Dc : depth h r c (S d)) by (econstructor; eauto; apply Sub; now left).
      destruct (IH c (S d) Dc) as (qc & bc & Ec & Tc & Eqc); [lia|].
      destruct (live_get _ _ _ I c (depth_reach _ _ _ _ Dc)) as (nc & Gc).
      rewrite osum_cons. unfold g at 1. rewrite Ec, Gc.
      destruct (IHcs (Qred (acc + Qred (qc * inject_Z (rep_count (rdf nc)))))) as (q & s & Eq & Ts & Es); [intros; apply Sub; now right|].
      exists q, (bc * rep_of nc + s)%Q. split; auto. split; [constructor; auto|].
      rewrite Es. rewrite !Qred_correct. rewrite Eqc. unfold rep_of. ring. }
  destruct (OS (c0 :: cs0) 0%Q) as (q & s & Eq & Ts & Es); [rewrite Ch; auto|].
  exists q, s. split; [exact Eq|]. split; [apply (TB_inner h x nx); auto; [congruence|rewrite Ch; exact Ts]|rewrite Es; ring].
Qed.

Lemma reported_is_recomputed h r x : Inv h r -> reach h r x ->
  exists q b nx, peek_dur (S (S (length h))) h x = Some q /\ tbody h x b /\ get h x = Some nx /\ (q == b * rep_of nx)%Q.
Proof.
  intros I Rx. destruct (reach_depth _ _ _ Rx) as (d & D).
  destruct (peek_body_spec h r I (S (S (length h))) x d D) as (q & b & E & Tb & Eq); [lia|].
  destruct (live_get _ _ _ I x Rx) as (nx & G).
  exists (Qred (q * inject_Z (rep_count (rdf nx)))), b, nx. unfold peek_dur. rewrite E, G.
  split; auto. split; auto. split; auto. rewrite Qred_correct, Eq. reflexivity.
Qed.
