(* C09 — proofs, part S (round 6): a rejected unroll / unroll_children leaves no state behind (clause S4 for two of the
   structural operations, by proof instead of by inspection) *)
From Coq Require Import List ZArith QArith Bool Lia Arith.
Import ListNotations.
Require Import QV.common.Util QV.C09.Model QV.C09.Proofs QV.C09.Proofs2 QV.C09.Proofs3 QV.C09.Proofs4 QV.C09.Proofs5 QV.C09.Proofs6
               QV.C09.Proofs7 QV.C09.ProofsF.

(* x[a:b] = <fresh values> on a live node of a state with Inv cannot be rejected *)
Lemma setslice_fresh_res (mk : M (list id)) h0 r x a b stp h' res :
  FL mk -> (stp = None \/ stp = Some 1%Z) ->
  Inv h0 r -> reach h0 r x -> (vals <- mk ;; loop_setitem_slice x a b stp vals) h0 = (h', res) -> ok_result res -> res = R tt.
Proof.
  intros FM ST I0 Rx H OK. unfold bind at 1 in H.
  destruct (mk h0) as (h1, [vals|e]) eqn:B; pose proof (FM _ _ _ B) as P.
  2:{ inversion H; subst. destruct OK, P; congruence. }
  destruct P as (L1 & Pre & SS).
  assert (I1 : Inv h1 r) by (eapply Inv_ext; eauto).
  assert (Same : forall y, reach h0 r y -> get h1 y = get h0 y) by (intros; apply Pre; eapply live_lt; eauto).
  assert (Rx1 : reach h1 r x) by (eapply reach_frame; eauto).
  destruct (live_get _ _ _ I1 x Rx1) as (nx & Gx).
  assert (Lo : forall y, reach h1 r y -> (y < length h0)%nat).
  { intros y R. eapply live_lt; eauto. eapply reach_frame'; eauto. }
  destruct (fresh_vals_ok h1 r x nx _ _ vals I1 Lo SS Rx1 Gx) as (V1 & V2 & V3 & V4 & V5).
  destruct (setslice_inv h1 r x nx a b stp vals I1 Rx1 Gx ST V1 V2 V3 V4 (or_intror V5) h' res H OK) as (_ & -> & _).
  reflexivity.
Qed.

Lemma unroll_fail_no_effect h r x h' e :
  Inv h r -> reach h r x -> unroll x h = (h', E e) -> e <> ExFuel -> e <> ExDangling -> h' = h /\ (e = ExRuntime \/ e = ExType).
Proof.
  intros I Rx H N1 N2. unfold unroll in H.
  destruct (live_get _ _ _ I x Rx) as (n & G). rewrite (bind_getn x n _ h G) in H.
  destruct (is_leaf n); [inversion H; subst; auto|].
  destruct (live_parent _ _ _ I x n Rx G) as [(-> & Pn)|(p & np & Pp & Rp & Gp & HIn)].
  - rewrite Pn in H. inversion H; subst; auto.
  - rewrite Pp in H. apply In_nth_error in HIn as (i & Hi).
    destruct (inv_links _ _ _ I _ _ _ _ Rp Gp Hi) as (n' & G' & _ & Ii). assert (n' = n) by congruence. subst n'.
    rewrite Ii in H.
    assert (OK : ok_result (E e : result unit)) by (split; auto).
    pose proof (setslice_fresh_res (copies_of (children n) (rep_count (rdf n)) (fun _ => ret (NPNode p))) h r p
                (Some (Z.of_nat i)) (Some (Z.of_nat i + 1)%Z) None h' (E e) (copies_of_FL _ _ _) (or_introl eq_refl) I Rp H OK) as C.
    discriminate.
Qed.

Lemma unroll_children_fail_no_effect h r x h' e :
  Inv h r -> reach h r x -> unroll_children x h = (h', E e) -> e <> ExFuel -> e <> ExDangling -> h' = h /\ e = ExRuntime.
Proof.
  intros I Rx H N1 N2. unfold unroll_children in H.
  destruct (live_get _ _ _ I x Rx) as (n & G). rewrite (bind_getn x n _ h G) in H.
  destruct (is_leaf n); [inversion H; subst; auto|].
  set (mk := copies_of (children n) (rep_count (rdf n)) (fun _ => ret NPFalse)) in *.
  destruct ((vals <- mk ;; loop_setitem_slice x None None None vals) h) as (h1, r1) eqn:E1.
  assert (H' : (match r1 with R _ => set_repetition_count x 1 | E e => raise e end) h1 = (h', E e)).
  { revert H. unfold bind in *. destruct (mk h) as (ha, [vals|e0]); [|inversion E1; subst; auto].
    rewrite E1. destruct r1; auto. }
  assert (OK1 : ok_result r1).
  { destruct r1; cbn; auto. inversion H'; subst. split; auto. }
  pose proof (setslice_fresh_res mk h r x None None None h1 r1 (copies_of_FL _ _ _) (or_introl eq_refl) I Rx E1 OK1) as ->.
  destruct (setslice_fresh_inv mk h r x None None None h1 (R tt) (copies_of_FL _ _ _) (or_introl eq_refl) I Rx E1 OK1) as (I1 & _ & Rx1).
  destruct (set_repetition_definition_total h1 r x (RInt 1) I1 Rx1) as (h2 & E2 & _).
  unfold set_repetition_count in H'. rewrite E2 in H'. discriminate.
Qed.
