(* C09 — proofs, part 2: construction of fresh trees (Loop.__init__ / Node.__init__), the initial state *)
From Coq Require Import List ZArith QArith Bool Lia Arith.
Import ListNotations.
Require Import QV.common.Util QV.C09.Model QV.C09.Proofs.

Lemma get_app_l (h ext : heap) y : (y < length h)%nat -> get (h ++ ext) y = get h y.
Proof. intros L. unfold get. now apply nth_error_app1. Qed.
Lemma get_lt h y n : get h y = Some n -> (y < length h)%nat.
Proof. intros G. apply nth_error_Some. unfold get in G. congruence. Qed.
Lemma get_app_new (h : heap) n : get (h ++ [n]) (length h) = Some n.
Proof. unfold get. rewrite nth_error_app2 by lia. now rewrite Nat.sub_diag. Qed.
Lemma upd_length h x f : length (upd h x f) = length h.
Proof. apply upd_list_length. Qed.

(* children fields agree *)
Definition csame (h h' : heap) := forall y, option_map children (get h y) = option_map children (get h' y).
Lemma csame_refl h : csame h h. Proof. intros y; reflexivity. Qed.
Lemma csame_trans a b c : csame a b -> csame b c -> csame a c.
Proof. intros A B y; now rewrite A. Qed.
Lemma csame_sym a b : csame a b -> csame b a.
Proof. intros A y; now rewrite A. Qed.
Lemma csame_upd h x f : (forall n, children (f n) = children n) -> csame h (upd h x f).
Proof.
  intros F y. rewrite get_upd. destruct (Nat.eqb x y); auto. destruct (get h y); cbn; auto. now rewrite F.
Qed.
Lemma reach_csame h h' a b : csame h h' -> reach h a b -> reach h' a b.
Proof.
  intros S R; induction R; [constructor|].
  specialize (S p). rewrite H in S. destruct (get h' p) as [n'|] eqn:G'; cbn in S; [|discriminate].
  inversion S. eapply reach_step; eauto. congruence.
Qed.

(* ---- a fresh subtree occupying the id range [lo, hi): links, allocation order (children before parents), no caches ---- *)
Record Sub (h : heap) (lo hi : nat) (c : id) : Prop := {
  sub_get : exists n, get h c = Some n;
  sub_range : forall y, reach h c y -> (lo <= y < hi)%nat;
  sub_links : forall p np i c', reach h c p -> get h p = Some np -> nth_error (children np) i = Some c' ->
              exists nc, get h c' = Some nc /\ parent nc = Some p /\ pidx nc = Some (Z.of_nat i);
  sub_order : forall p np c', reach h c p -> get h p = Some np -> In c' (children np) -> (c' < p)%nat;
  sub_nocache : forall y n, reach h c y -> get h y = Some n -> cache n = None
}.

Lemma reach_frame_range h h' lo hi c :
  (forall y, reach h c y -> (lo <= y < hi)%nat) ->
  (forall y, (lo <= y < hi)%nat -> get h' y = get h y) ->
  forall y, reach h' c y -> reach h c y.
Proof.
  intros Rg Same y R. induction R; [constructor|].
  specialize (Rg _ IHR). rewrite Same in H by auto. eapply reach_step; eauto.
Qed.

Lemma Sub_frame h h' lo hi c :
  (forall y, (lo <= y < hi)%nat -> get h' y = get h y) -> Sub h lo hi c -> Sub h' lo hi c.
Proof.
  intros Same [A B C D E].
  assert (RR : forall y, reach h' c y -> reach h c y) by (eapply reach_frame_range; eauto).
  assert (Rc : (lo <= c < hi)%nat) by (apply B; constructor).
  split.
  - rewrite Same; auto.
  - intros y R. auto.
  - intros p np i c' R G N. pose proof (RR _ R) as R0. rewrite Same in G by auto.
    destruct (C p np i c' R0 G N) as (nc & Gc & Pc & Ic).
    exists nc; split; auto. rewrite Same; auto. apply B. eapply reach_step; eauto. eapply nth_error_In; eauto.
  - intros p np c' R G HIn. pose proof (RR _ R) as R0. rewrite Same in G by auto. eauto.
  - intros y n R G. pose proof (RR _ R) as R0. rewrite Same in G by auto. eauto.
Qed.

Lemma Sub_widen h lo hi lo' hi' c : (lo' <= lo)%nat -> (hi <= hi')%nat -> Sub h lo hi c -> Sub h lo' hi' c.
Proof. intros L1 L2 [A B C D E]; split; auto. intros y R. specialize (B y R). lia. Qed.

(* ---- Node.__init__: adoption of a list of distinct children ------------------------------------------------------------------- *)
Lemma adopt_spec : forall cs x i h,
  exists h', adopt x i cs h = (h', R tt) /\ length h' = length h /\
    (forall y, ~ In y cs -> get h' y = get h y) /\
    (forall y n', get h' y = Some n' -> exists n, get h y = Some n /\ children n' = children n /\ cache n' = cache n
                                                  /\ rdf n' = rdf n /\ wform n' = wform n /\ meas n' = meas n) /\
    (NoDup cs -> forall k c n, nth_error cs k = Some c -> get h c = Some n ->
                 exists n', get h' c = Some n' /\ parent n' = Some x /\ pidx n' = Some (i + Z.of_nat k)%Z).
Proof.
  induction cs as [|c cs IH]; intros x i h.
  - exists h. cbn. repeat split; auto.
    + intros y n' G; exists n'; repeat split; auto.
    + intros _ k c n N; destruct k; discriminate.
  - cbn. unfold bind, modn.
    set (f := fun n : node => set_pidx (Some i) (set_parent (Some x) n)).
    destruct (IH x (i + 1)%Z (upd h c f)) as (h' & Ha & Len & Oth & Fld & Adp).
    exists h'. rewrite Ha. repeat split.
    + now rewrite Len, upd_length.
    + intros y NI. rewrite Oth by (intros HIn; apply NI; now right).
      apply get_upd_other. intros ->. apply NI; now left.
    + intros y n' G. destruct (Fld y n' G) as (n1 & G1 & F1).
      rewrite get_upd in G1. destruct (Nat.eqb c y).
      * destruct (get h y) as [n|]; cbn in G1; [|discriminate]. inversion G1; subst n1.
        exists n; split; auto; destruct n; cbn in *; exact F1.
      * exists n1; auto.
    + intros ND k c' n N G. inversion ND as [|? ? NI ND']; subst.
      destruct k as [|k]; cbn in N.
      * inversion N; subst c'. rewrite Oth by auto. erewrite get_upd_same by eauto.
        eexists; split; [reflexivity|]. destruct n; cbn. split; auto. f_equal; lia.
      * assert (c' <> c) by (intros ->; apply NI; eapply nth_error_In; eauto).
        destruct (Adp ND' k c' n N) as (n' & G' & P' & I').
        { rewrite get_upd_other; auto. }
        exists n'; repeat split; auto. rewrite I'. f_equal; lia.
Qed.

Lemma reach_left h a b : reach h a b -> a = b \/ exists n c, get h a = Some n /\ In c (children n) /\ reach h c b.
Proof.
  intros R; induction R; auto.
  destruct IHR as [->|(n & c0 & G & HIn & R')].
  - right. exists np, c. repeat split; auto. constructor.
  - right. exists n, c0. repeat split; auto. eapply reach_step; eauto.
Qed.

Lemma Sub_desc_le h lo hi c y : Sub h lo hi c -> reach h c y -> (y <= c)%nat.
Proof.
  intros S R. induction R; auto.
  pose proof (sub_order _ _ _ _ S _ _ _ R H H0). lia.
Qed.

(* the root may change its parent / parent_index (it gets adopted); everything else in the range stays *)
Lemma Sub_frame_root h h' lo hi c :
  (forall y, (lo <= y < hi)%nat -> y <> c -> get h' y = get h y) ->
  (forall n, get h c = Some n -> exists n', get h' c = Some n' /\ children n' = children n /\ cache n' = cache n) ->
  Sub h lo hi c -> Sub h' lo hi c.
Proof.
  intros Same Root S. pose proof S as [A B C D E].
  assert (CS : forall y n', (lo <= y < hi)%nat -> get h' y = Some n' ->
               exists n, get h y = Some n /\ children n' = children n /\ cache n' = cache n).
  { intros y n' Ry G'. destruct (Nat.eq_dec y c) as [->|N].
    - destruct A as (n & G). destruct (Root n G) as (n2 & G2 & C2 & K2).
      assert (n2 = n') by congruence. subst. eauto.
    - rewrite Same in G' by auto. eauto. }
  assert (RR : forall y, reach h' c y -> reach h c y).
  { intros y R. induction R; [constructor|].
    destruct (CS p np (B _ IHR) H) as (n & G & Cn & _). eapply reach_step; eauto. congruence. }
  split.
  - destruct A as (n & G). destruct (Root n G) as (n' & G' & _). eauto.
  - intros y R. auto.
  - intros p np i c' R G N. pose proof (RR _ R) as R0.
    destruct (CS p np (B _ R0) G) as (n & Gn & Cn & _). rewrite Cn in N.
    destruct (C p n i c' R0 Gn N) as (nc & Gc & Pc & Ic).
    assert (Rc' : reach h c c') by (eapply reach_step; eauto; eapply nth_error_In; eauto).
    assert (c' <> c).
    { pose proof (D p n c' R0 Gn (nth_error_In _ _ N)). pose proof (Sub_desc_le _ _ _ _ _ S R0). lia. }
    exists nc; split; auto. rewrite Same; auto.
  - intros p np c' R G HIn. pose proof (RR _ R) as R0.
    destruct (CS p np (B _ R0) G) as (n & Gn & Cn & _). rewrite Cn in HIn. eauto.
  - intros y n R G. pose proof (RR _ R) as R0.
    destruct (CS y n (B _ R0) G) as (n0 & Gn & _ & Kn). rewrite Kn. eauto.
Qed.

Inductive Subs (h : heap) : nat -> nat -> list id -> Prop :=
| Subs_nil lo : Subs h lo lo []
| Subs_cons lo mid hi c cs : Sub h lo mid c -> Subs h mid hi cs -> Subs h lo hi (c :: cs).

Lemma Sub_le h lo hi c : Sub h lo hi c -> (lo <= c < hi)%nat.
Proof. intros S. apply (sub_range _ _ _ _ S). constructor. Qed.
Lemma Subs_le h lo hi cs : Subs h lo hi cs -> (lo <= hi)%nat.
Proof. induction 1; auto. pose proof (Sub_le _ _ _ _ H). lia. Qed.
Lemma Subs_In h lo hi cs c : Subs h lo hi cs -> In c cs ->
  exists lo' hi', (lo <= lo')%nat /\ (hi' <= hi)%nat /\ Sub h lo' hi' c.
Proof.
  induction 1; intros HIn; [contradiction|]. destruct HIn as [->|HIn].
  - exists lo, mid. split; [lia|]. split; [eapply Subs_le; eauto|exact H].
  - destruct (IHSubs HIn) as (lo' & hi' & L1 & L2 & S). exists lo', hi'.
    pose proof (Sub_le _ _ _ _ H). split; [lia|]. split; [lia|exact S].
Qed.
Lemma Subs_NoDup h lo hi cs : Subs h lo hi cs -> NoDup cs.
Proof.
  induction 1; constructor; auto. intros HIn.
  destruct (Subs_In _ _ _ _ _ H0 HIn) as (lo' & hi' & L1 & L2 & S).
  pose proof (Sub_le _ _ _ _ H). pose proof (Sub_le _ _ _ _ S). lia.
Qed.
(* a node of one subtree is not the root of another one in the list, nor the root of its own unless it is it *)
Lemma Subs_root_sep h lo hi cs c c' y lo1 hi1 :
  Subs h lo hi cs -> In c cs -> In c' cs -> Sub h lo1 hi1 c -> reach h c y -> y = c' -> c' = c.
Proof. Abort.

Lemma Subs_frame h h' lo hi cs :
  (forall y, (lo <= y < hi)%nat -> ~ In y cs -> get h' y = get h y) ->
  (forall c n, In c cs -> get h c = Some n -> exists n', get h' c = Some n' /\ children n' = children n /\ cache n' = cache n) ->
  Subs h lo hi cs -> Subs h' lo hi cs.
Proof.
  intros Same Root S. induction S; [constructor|].
  pose proof (Subs_le _ _ _ _ S) as L. pose proof (Sub_le _ _ _ _ H) as Lc.
  pose proof (Subs_NoDup _ _ _ _ (Subs_cons _ _ _ _ _ _ H S)) as ND. inversion ND; subst.
  econstructor.
  - eapply Sub_frame_root; [| |exact H].
    + intros y Ry N. apply Same; [lia|]. intros [<-|HIn]; [congruence|].
      destruct (Subs_In _ _ _ _ _ S HIn) as (lo' & hi' & L1 & L2 & S').
      pose proof (Sub_le _ _ _ _ S'). lia.
    + intros n G. apply Root; auto. now left.
  - apply IHS.
    + intros y Ry N. apply Same; [lia|]. intros [<-|HIn]; [lia|auto].
    + intros c0 n HIn G. apply Root; auto. now right.
Qed.

(* Loop.__init__(parent=par, children=<existing fresh subtrees>, ...) *)
Lemma new_loop_Sub h lo par ids r w m :
  Subs h lo (length h) ids ->
  exists h2, new_loop par ids r w m h = (h2, R (length h)) /\ length h2 = S (length h) /\
    (forall y, (y < lo)%nat -> get h2 y = get h y) /\
    Sub h2 lo (S (length h)) (length h) /\
    (exists nx, get h2 (length h) = Some nx /\ parent nx = par /\ pidx nx = None /\ children nx = ids /\ cache nx = None
                /\ rdf nx = r /\ wform nx = w /\ meas nx = m).
Proof.
  intros SS. unfold new_loop, bind, alloc.
  set (x := length h). set (nx := mkNode ids par None None r w m). set (h1 := h ++ [nx]).
  destruct (adopt_spec ids x 0%Z h1) as (h2 & Ha & Len & Oth & Fld & Adp).
  rewrite Ha. unfold ret. exists h2.
  pose proof (Subs_NoDup _ _ _ _ SS) as ND. pose proof (Subs_le _ _ _ _ SS) as Lle.
  assert (Gx1 : get h1 x = Some nx) by apply get_app_new.
  assert (NIx : ~ In x ids).
  { intros HIn. destruct (Subs_In _ _ _ _ _ SS HIn) as (lo' & hi' & _ & L2 & S). pose proof (Sub_le _ _ _ _ S). unfold x in *; lia. }
  assert (Gx2 : get h2 x = Some nx) by (rewrite Oth; auto).
  assert (Old : forall y, (y < x)%nat -> get h1 y = get h y) by (intros; apply get_app_l; auto).
  (* the subtrees survive the allocation and the adoption of their roots *)
  assert (SS2 : Subs h2 lo x ids).
  { eapply Subs_frame; [| |exact SS].
    - intros y Ry NI. rewrite Oth by auto. apply Old. unfold x; lia.
    - intros c n HIn G. destruct (In_nth_error _ _ HIn) as (k & Hk).
      assert (Lc : (c < x)%nat) by (apply get_lt in G; exact G).
      destruct (Adp ND k c n Hk) as (n' & G' & _); [rewrite Old; auto|].
      destruct (Fld c n' G') as (n0 & G0 & C0 & K0 & _). rewrite Old in G0 by auto.
      assert (n0 = n) by congruence. subst. eauto. }
  split; [reflexivity|]. split; [rewrite Len; unfold h1; rewrite app_length; cbn; lia|].
  split.
  { intros y Ly. rewrite Oth; [apply Old; unfold x; lia|].
    intros HIn. destruct (Subs_In _ _ _ _ _ SS HIn) as (lo' & hi' & L1 & _ & S). pose proof (Sub_le _ _ _ _ S). lia. }
  split.
  2:{ exists nx. repeat split; auto. }
  (* reachability from the new node *)
  assert (RX : forall y, reach h2 x y -> y = x \/ exists c lo' hi', In c ids /\ (lo <= lo')%nat /\ (hi' <= x)%nat /\
                                                     Sub h2 lo' hi' c /\ reach h2 c y).
  { intros y R. destruct (reach_left _ _ _ R) as [->|(n & c & G & HIn & Rc)]; auto.
    right. assert (n = nx) by congruence. subst n. cbn in HIn.
    destruct (Subs_In _ _ _ _ _ SS2 HIn) as (lo' & hi' & L1 & L2 & S). exists c, lo', hi'. auto. }
  split.
  - eauto.
  - intros y R. destruct (RX y R) as [->|(c & lo' & hi' & HIn & L1 & L2 & S & Rc)]; [unfold x; lia|].
    pose proof (sub_range _ _ _ _ S _ Rc). unfold x in *; lia.
  - intros p np i c' R G N. destruct (RX p R) as [->|(c & lo' & hi' & HIn & L1 & L2 & S & Rc)].
    + assert (np = nx) by congruence. subst np. cbn in N.
      assert (HIn : In c' ids) by (eapply nth_error_In; eauto).
      destruct (Subs_In _ _ _ _ _ SS HIn) as (lo' & hi' & _ & L2 & S). destruct (sub_get _ _ _ _ S) as (n & Gn).
      destruct (Adp ND i c' n N) as (n' & G' & P' & I'); [rewrite Old; auto; apply get_lt in Gn; exact Gn|].
      exists n'; repeat split; auto.
    + eapply (sub_links _ _ _ _ S); eauto.
  - intros p np c' R G HIn. destruct (RX p R) as [->|(c & lo' & hi' & HIn' & L1 & L2 & S & Rc)].
    + assert (np = nx) by congruence. subst np. cbn in HIn.
      destruct (Subs_In _ _ _ _ _ SS HIn) as (lo' & hi' & _ & L2 & S). pose proof (Sub_le _ _ _ _ S). unfold x in *; lia.
    + eapply (sub_order _ _ _ _ S); eauto.
  - intros y n R G. destruct (RX y R) as [->|(c & lo' & hi' & HIn' & L1 & L2 & S & Rc)].
    + assert (n = nx) by congruence. subst n. reflexivity.
    + eapply (sub_nocache _ _ _ _ S); eauto.
Qed.

(* ---- build: Loop(...) of a fresh tree given by a specification ---------------------------------------------------------------------- *)
Fixpoint build_list (l : list tspec) : M (list id) :=
  match l with [] => ret [] | c :: l' => i <- build c ;; is <- build_list l' ;; ret (i :: is) end.
Lemma build_unfold r w m cs :
  build (TS r w m cs) = bind (build_list cs) (fun ids => new_loop None ids r w m).
Proof. induction cs; reflexivity. Qed.

Fixpoint tspec_rect' (P : tspec -> Prop) (H : forall r w m cs, Forall P cs -> P (TS r w m cs)) (t : tspec) : P t :=
  match t with
  | TS r w m cs =>
      H r w m cs ((fix go (l : list tspec) : Forall P l :=
                     match l with [] => Forall_nil _ | c :: l' => Forall_cons _ (tspec_rect' P H c) (go l') end) cs)
  end.

Definition build_ok (t : tspec) : Prop :=
  forall h, exists h2 c, build t h = (h2, R c) /\ S c = length h2 /\ (length h <= c)%nat /\
    (forall y, (y < length h)%nat -> get h2 y = get h y) /\ Sub h2 (length h) (length h2) c /\
    (exists n, get h2 c = Some n /\ parent n = None).

Lemma build_spec : forall t, build_ok t.
Proof.
  apply tspec_rect'. intros r w m cs IHcs h.
  assert (BL : forall l, Forall build_ok l -> forall h0, exists h1 ids, build_list l h0 = (h1, R ids) /\
               (length h0 <= length h1)%nat /\ (forall y, (y < length h0)%nat -> get h1 y = get h0 y) /\
               Subs h1 (length h0) (length h1) ids).
  { induction 1 as [|t l Ht Hl IHl]; intros h0.
    - exists h0, []. cbn. repeat split; auto. constructor.
    - destruct (Ht h0) as (h1 & c & B1 & L1 & Lc & O1 & S1 & _).
      destruct (IHl h1) as (h2 & ids & B2 & L2 & O2 & S2).
      exists h2, (c :: ids). cbn. unfold bind. rewrite B1, B2. unfold ret.
      assert (length h0 <= length h1)%nat by lia.
      repeat split; try lia.
      + intros y Ly. rewrite O2 by lia. auto.
      + econstructor; [|exact S2]. eapply Sub_frame; [|exact S1]. intros y Ry. apply O2. lia. }
  destruct (BL cs IHcs h) as (h1 & ids & B1 & L1 & O1 & S1).
  destruct (new_loop_Sub h1 (length h) None ids r w m S1) as (h2 & NL & Len & Old & SB & (nx & Gx & Px & _)).
  exists h2, (length h1). rewrite build_unfold. unfold bind. rewrite B1, NL.
  split; [reflexivity|]. split; [lia|]. split; [lia|].
  split; [intros y Ly; rewrite Old by auto; auto|].
  split; [rewrite Len; exact SB|eauto].
Qed.

(* a fresh tree whose root has no parent satisfies the invariant *)
Lemma Sub_Inv h lo hi c : Sub h lo hi c -> (exists n, get h c = Some n /\ parent n = None) -> Inv h c.
Proof.
  intros S Root. split.
  - exact Root.
  - intros p np i c' R G N. eapply (sub_links _ _ _ _ S); eauto.
  - exists (fun y => y). intros p np c' R G HIn. eapply (sub_order _ _ _ _ S); eauto.
  - intros x R _ n q G C. rewrite (sub_nocache _ _ _ _ S x n R G) in C. discriminate.
Qed.

Lemma init_inv t : sInv (init_state t).
Proof.
  unfold sInv, init_state. destruct (build_spec t []) as (h2 & c & B & _ & _ & _ & S & Root).
  rewrite B. cbn. eapply Sub_Inv; eauto.
Qed.
