(* C09 — proofs, part 9: one step / every finite history over the whole operation alphabet *)
From Coq Require Import List ZArith QArith Bool Lia Arith.
Import ListNotations.
Require Import QV.common.Util QV.C09.Model QV.C09.Proofs QV.C09.Proofs2 QV.C09.Proofs3 QV.C09.Proofs4 QV.C09.Proofs5 QV.C09.Proofs6
               QV.C09.Proofs7 QV.C09.Proofs7x QV.C09.Proofs8 QV.C09.ProofsR QV.C09.Proofs10.

(* the argument domain: roll_constant_waveforms requires minimal_waveform_quanta >= 1 (Python raises ZeroDivisionError /
   works with negative factors otherwise; the model does not follow the code there) *)
Definition guard_C09_args (o : op) : bool :=
  match o with
  | ORoll _ mq _ _ => (1 <=? mq)%Z
  | _ => true
  end.

Lemma step_all s o s' out :
  sInv s -> guard_C09_args o = true -> step s o = (s', out) -> out_ok out -> sInv s'.
Proof.
  intros I PO H OK.
  destruct (proved_op' o) eqn:P1; [eapply step_partial'; eauto|].
  destruct o; try discriminate; cbn in H.
  - eapply run_at_inv; eauto. intros x h' res Rx Hk Okr. cbv beta in Hk.
    eapply setitem_int_fresh_inv; [apply build_fresh|exact I|exact Rx|exact Hk|exact Okr].
  - (* OSetSlice, any step *)
    eapply run_at_inv; eauto. intros x h' res Rx Hk Okr. cbv beta in Hk.
    eapply setslice_build_any; eauto.
  - eapply run_at_inv; eauto. intros x h' res Rx Hk Okr. cbv beta in Hk. eapply unroll_inv; eauto.
  - eapply run_at_inv; eauto. intros x h' res Rx Hk Okr. cbv beta in Hk. eapply unroll_children_inv; eauto.
  - eapply run_at_inv; eauto. intros x h' res Rx Hk Okr. cbv beta in Hk. eapply split_inv; eauto.
  - eapply run_at_inv; eauto. intros x h' res Rx Hk Okr. cbv beta in Hk. eapply encapsulate_inv; eauto.
  - eapply run_at_inv; eauto. intros x h' res Rx Hk Okr. cbv beta in Hk. eapply try_merge_inv; eauto.
  - eapply run_at_inv; eauto. intros x h' res Rx Hk Okr. cbv beta in Hk. rewrite fueled_eq in Hk.
    eapply (cleanup_inv (st_root s)); eauto.
  - eapply run_at_inv; eauto. intros x h' res Rx Hk Okr. cbv beta in Hk. rewrite fueled_eq in Hk.
    eapply (reverse_inv (st_root s)); eauto.
  - eapply run_at_inv; eauto. intros x h' res Rx Hk Okr. cbv beta in Hk. rewrite fueled_eq in Hk.
    cbn in PO. apply Z.leb_le in PO. eapply (roll_inv (st_root s)); eauto.
  - eapply run_at_inv; eauto. intros x h' res Rx Hk Okr. cbv beta in Hk. eapply eqcopy_inv; eauto.
  - (* OSetRepCountQ: the value is validated before anything is stored *)
    eapply run_at_inv; eauto. intros x h' res Rx Hk Okr. cbv beta in Hk. unfold set_repetition_count_q in Hk.
    destruct (Qle_bool _ rep_eps).
    + eapply set_repetition_definition_inv; [exact I| | |]; eauto.
    + unfold raise in Hk. inversion Hk; subst. exact I.
  - (* OReject: nothing happens *)
    eapply run_at_inv; eauto. intros x h' res Rx Hk Okr. cbv beta in Hk. unfold raise in Hk. inversion Hk; subst. exact I.
  - (* OAddMeas (round 6) *)
    eapply run_at_inv; eauto. intros x h' res Rx Hk Okr. cbv beta in Hk. eapply add_measurements_inv; eauto.
Qed.

Lemma history_all : forall ops s,
  sInv s -> forallb guard_C09_args ops = true -> run_ok s ops -> sInv (run s ops).
Proof.
  induction ops as [|o ops IH]; intros s I P OK; cbn in *; auto.
  apply andb_prop in P as (P1 & P2). destruct OK as (O1 & O2).
  destruct (step s o) as (s', out) eqn:St. cbn in *.
  apply IH; auto. eapply step_all; eauto.
Qed.
