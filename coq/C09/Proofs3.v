(* C09 — proofs, part 3: Loop.append_child (graft of a fresh tree + incremental patch of the cached durations) *)
From Coq Require Import List ZArith QArith Bool Lia Arith.
Import ListNotations.
Require Import QV.common.Util QV.C09.Model QV.C09.Proofs QV.C09.Proofs2.
Local Opaque Qred.

(* ---- Node.__setitem__(slice(len, len), (c,)) evaluated ------------------------------------------------------------------------------ *)
Lemma slice_indices_end len : (0 <= len)%Z -> slice_indices (Some len) (Some len) None len = Some (len, len, 1%Z).
Proof.
  intros L. unfold slice_indices. cbn.
  assert (E1 : (len <? 0)%Z = false) by (apply Z.ltb_ge; lia).
  assert (E2 : (len <=? len)%Z = true) by (apply Z.leb_le; lia).
  now rewrite E1, E2.
Qed.

Lemma bind_ret_tt (m : M unit) h : (m ;;; ret tt) h = m h.
Proof. unfold bind, ret. destruct (m h) as (h', [[]|e]); reflexivity. Qed.
Lemma bind_ext {A B} (m : M A) (k k' : A -> M B) h : (forall a h', k a h' = k' a h') -> bind m k h = bind m k' h.
Proof. intros E. unfold bind. destruct (m h) as (h', [a|e]); auto. Qed.

Lemma setitem_append h x nx c nc :
  get h x = Some nx -> get h c = Some nc -> x <> c ->
  let len := Z.of_nat (length (children nx)) in
  node_setitem_slice x (Some len) (Some len) None [c] h =
  (upd (upd (upd h c (set_parent (Some x))) x (set_children (children nx ++ [c]))) c (set_pidx (Some len)), R tt).
Proof.
  intros Gx Gc N len. unfold node_setitem_slice.
  unfold bind at 1. unfold getn at 1. rewrite Gx. fold len.
  rewrite slice_indices_end by lia.
  assert (RL : range_len len len 1 = 0%Z).
  { unfold range_len. cbn. assert ((len <? len)%Z = false) by (apply Z.ltb_ge; lia). now rewrite H. }
  rewrite RL.
  change (1 =? 1)%Z with true. cbn [negb andb]. cbv iota.
  cbn [miter]. unfold bind at 1. unfold bind at 1. unfold modn at 1. unfold ret at 1.
  set (h1 := upd h c (set_parent (Some x))).
  assert (Gx1 : get h1 x = Some nx) by (unfold h1; rewrite get_upd_other; auto).
  replace (Z.to_nat (Z.max len len) - Z.to_nat len)%nat with 0%nat by lia.
  change (1 =? 1)%Z with true. cbv iota. cbn [firstn].
  change (detach_removed x [] [c]) with (ret tt : M unit).
  erewrite bind_ext; [|intros; apply bind_ret_tt].
  cbn [length Z.of_nat Pos.of_succ_nat Z.eqb negb].
  change (1 =? 1)%Z with true. change (1 =? 0)%Z with false. cbn [negb]. change (0 <? 1)%Z with true. cbv iota.
  unfold bind at 1. unfold modn at 1.
  replace (Z.to_nat len) with (length (children nx)) by (unfold len; now rewrite Nat2Z.id).
  replace (Z.to_nat (Z.max len len)) with (length (children nx)) by (rewrite Z.max_id; unfold len; now rewrite Nat2Z.id).
  rewrite firstn_all, skipn_all, app_nil_r.
  change ((1 =? 1)%positive) with true. cbv beta iota.
  set (h2 := upd h1 x (set_children (children nx ++ [c]))).
  assert (Gx2 : get h2 x = Some (set_children (children nx ++ [c]) nx)) by (unfold h2; now apply get_upd_same).
  unfold bind at 1. unfold getn at 1. rewrite Gx2.
  replace (children (set_children (children nx ++ [c]) nx)) with (children nx ++ [c]) by (destruct nx; reflexivity).
  replace (Z.to_nat (Z.of_nat (length (children nx ++ [c])) - len)) with 1%nat
    by (rewrite app_length; cbn; unfold len; lia).
  cbn [renum]. unfold bind at 1. unfold getn at 1. rewrite Gx2.
  replace (children (set_children (children nx ++ [c]) nx)) with (children nx ++ [c]) by (destruct nx; reflexivity).
  assert (PI : py_index (Z.of_nat (length (children nx ++ [c]))) len = Some len).
  { unfold py_index. rewrite app_length. cbn.
    assert ((0 <=? len)%Z = true) by (apply Z.leb_le; unfold len; lia).
    assert ((len <? Z.of_nat (length (children nx) + 1))%Z = true) by (apply Z.ltb_lt; unfold len; lia).
    now rewrite H, H0. }
  rewrite PI.
  replace (Z.to_nat len) with (length (children nx)) by (unfold len; now rewrite Nat2Z.id).
  rewrite nth_error_app2 by lia. rewrite Nat.sub_diag. cbn [nth_error].
  unfold bind, modn, ret. reflexivity.
Qed.

(* ---- graft: the fresh tree c becomes the last child of the live node x ------------------------------------------------------------------ *)
Section Graft.
  Variables (h0 h1 h2 : heap) (r x c : id) (nx nc : node) (hi : nat).
  Hypothesis I0 : Inv h0 r.
  Hypothesis Rx : reach h0 r x.
  Hypothesis Gx : get h0 x = Some nx.
  Hypothesis Pre : forall y, (y < length h0)%nat -> get h1 y = get h0 y.
  Hypothesis SC : Sub h1 (length h0) hi c.
  Hypothesis Gc : get h1 c = Some nc.
  Let len := Z.of_nat (length (children nx)).
  Hypothesis F1 : get h2 x = Some (set_children (children nx ++ [c]) nx).
  Hypothesis F2 : get h2 c = Some (set_pidx (Some len) (set_parent (Some x) nc)).
  Hypothesis F3 : forall y, y <> x -> y <> c -> get h2 y = get h1 y.

  Lemma g_old_lt y n : get h0 y = Some n -> (y < length h0)%nat.
  Proof. apply get_lt. Qed.
  Lemma g_c_fresh : (length h0 <= c)%nat.
  Proof. pose proof (Sub_le _ _ _ _ SC). lia. Qed.
  Lemma g_x_old : (x < length h0)%nat.
  Proof. eapply g_old_lt; eauto. Qed.
  Lemma g_live_old y : reach h0 r y -> (y < length h0)%nat.
  Proof. intros R. destruct (live_get _ _ _ I0 y R) as (n & G). eapply g_old_lt; eauto. Qed.

  (* old nodes other than x are untouched *)
  Lemma g_old_same y : (y < length h0)%nat -> y <> x -> get h2 y = get h0 y.
  Proof. intros L N. rewrite F3; auto. pose proof g_c_fresh. lia. Qed.

  Lemma g_x_not_own_child : ~ In x (children nx).
  Proof.
    intros HIn. destruct (inv_rank _ _ _ I0) as (rk & Hrk). specialize (Hrk x nx x Rx Gx HIn). lia.
  Qed.

  Lemma g_reach_mono a b : reach h0 r a -> reach h0 a b -> reach h2 a b.
  Proof.
    intros Ra R. induction R; [constructor|].
    assert (Rp : reach h0 r p) by (eapply reach_trans; eauto).
    destruct (Nat.eq_dec p x) as [->|N].
    - assert (np = nx) by congruence. subst np.
      eapply reach_step; [eauto|exact F1|]. destruct nx; cbn in *. apply in_or_app; now left.
    - eapply reach_step; [eauto| |exact H0]. rewrite g_old_same; auto. now apply g_live_old.
  Qed.

  Lemma g_sub2 : Sub h2 (length h0) hi c.
  Proof.
    eapply Sub_frame_root; [| |exact SC].
    - intros y Ry N. apply F3; auto. pose proof g_x_old. lia.
    - intros n G. assert (n = nc) by congruence. subst n. eexists; split; [exact F2|]. destruct nc; auto.
  Qed.

  Lemma g_reach_split y : reach h2 r y -> reach h0 r y \/ reach h2 c y.
  Proof.
    intros R. induction R; [left; constructor|].
    destruct IHR as [R0|Rc].
    - destruct (Nat.eq_dec p x) as [->|N].
      + assert (np = set_children (children nx ++ [c]) nx) by congruence. subst np.
        destruct nx as [cs ? ? ? ? ? ?]; cbn in *. apply in_app_or in H0 as [HIn|[<-|[]]].
        * left. eapply reach_step; eauto.
        * right. constructor.
      + left. rewrite g_old_same in H; auto; [|now apply g_live_old]. eapply reach_step; eauto.
    - right. eapply reach_step; eauto.
  Qed.

  Lemma g_fresh_not_old y : reach h2 c y -> (length h0 <= y)%nat.
  Proof. intros R. pose proof (sub_range _ _ _ _ g_sub2 _ R). lia. Qed.

  Lemma graft_inv : InvExc h2 r (fun y => reach h2 y x).
  Proof.
    pose proof g_sub2 as S2. pose proof g_c_fresh as Lc. pose proof g_x_old as Lx.
    split.
    - destruct (inv_root _ _ _ I0) as (nr & G & Pn).
      destruct (Nat.eq_dec r x) as [->|N].
      + eexists; split; [exact F1|]. assert (nr = nx) by congruence. subst. destruct nx; auto.
      + exists nr; split; auto. rewrite g_old_same; auto. eapply g_old_lt; eauto.
    - intros p np i c' R G N. destruct (g_reach_split _ R) as [R0|Rc].
      + destruct (Nat.eq_dec p x) as [->|Np].
        * assert (np = set_children (children nx ++ [c]) nx) by congruence. subst np.
          assert (N' : nth_error (children nx ++ [c]) i = Some c') by (destruct nx; exact N).
          destruct (Nat.lt_ge_cases i (length (children nx))) as [Li|Li].
          -- rewrite nth_error_app1 in N' by auto.
             destruct (inv_links _ _ _ I0 _ _ _ _ Rx Gx N') as (nc' & Gc' & Pc' & Ic').
             assert (c' <> x) by (intros ->; apply g_x_not_own_child; eapply nth_error_In; eauto).
             exists nc'. split; auto. rewrite g_old_same; auto. eapply g_old_lt; eauto.
          -- rewrite nth_error_app2 in N' by auto.
             destruct (i - length (children nx))%nat as [|k] eqn:Ek; cbn in N'; [|destruct k; discriminate].
             inversion N'; subst c'. eexists; split; [exact F2|].
             assert (Ei : i = length (children nx)) by (apply Nat.sub_0_le in Ek; now apply Nat.le_antisymm).
             destruct nc; cbn. split; auto. unfold len. now rewrite Ei.
        * rewrite g_old_same in G; auto; [|now apply g_live_old].
          destruct (inv_links _ _ _ I0 _ _ _ _ R0 G N) as (nc' & Gc' & Pc' & Ic').
          destruct (Nat.eq_dec c' x) as [->|Nc].
          -- eexists; split; [exact F1|]. assert (nc' = nx) by congruence. subst. destruct nx; auto.
          -- exists nc'. split; auto. rewrite g_old_same; auto. eapply g_old_lt; eauto.
      + eapply (sub_links _ _ _ _ S2); eauto.
    - destruct (inv_rank _ _ _ I0) as (rk & Hrk).
      exists (fun y => if Nat.ltb y (length h0) then (rk y + S c)%nat else y).
      intros p np c' R G HIn. cbv beta. destruct (g_reach_split _ R) as [R0|Rc].
      + pose proof (g_live_old _ R0) as Lp. destruct (Nat.ltb_spec p (length h0)); [|lia].
        destruct (Nat.eq_dec p x) as [->|Np].
        * assert (np = set_children (children nx ++ [c]) nx) by congruence. subst np.
          assert (HIn' : In c' (children nx ++ [c])) by (destruct nx; exact HIn). clear HIn.
          apply in_app_or in HIn' as [HIn|[<-|[]]].
          -- assert (c' < length h0)%nat.
             { apply In_nth_error in HIn as (i & Hi).
               destruct (inv_links _ _ _ I0 _ _ _ _ Rx Gx Hi) as (nc' & Gc' & _). eapply g_old_lt; eauto. }
             destruct (Nat.ltb_spec c' (length h0)); [|lia].
             specialize (Hrk x _ c' Rx Gx HIn). lia.
          -- destruct (Nat.ltb_spec c (length h0)); lia.
        * rewrite g_old_same in G; auto.
          assert (c' < length h0)%nat.
          { apply In_nth_error in HIn as (i & Hi).
            destruct (inv_links _ _ _ I0 _ _ _ _ R0 G Hi) as (nc' & Gc' & _). eapply g_old_lt; eauto. }
          destruct (Nat.ltb_spec c' (length h0)); [|lia].
          specialize (Hrk p np c' R0 G HIn). lia.
      + pose proof (g_fresh_not_old _ Rc).
        assert (Rc' : reach h2 c c') by (eapply reach_step; eauto).
        pose proof (g_fresh_not_old _ Rc').
        destruct (Nat.ltb_spec p (length h0)); [lia|]. destruct (Nat.ltb_spec c' (length h0)); [lia|].
        eapply (sub_order _ _ _ _ S2); eauto.
    - intros y R NR. destruct (g_reach_split _ R) as [R0|Rc].
      + assert (Ny : y <> x) by (intros ->; apply NR; constructor).
        assert (NR0 : ~ reach h0 y x) by (intros RR; apply NR; now apply g_reach_mono).
        pose proof (g_live_old _ R0) as Ly.
        eapply cvalid_keep.
        * apply (inv_cache _ _ _ I0 y R0). auto.
        * intros n' G'. rewrite g_old_same in G'; eauto.
        * intros b Tb. eapply tbody_frame; eauto.
          intros z Rz. apply g_old_same.
          -- apply g_live_old. eapply reach_trans; eauto.
          -- intros ->. auto.
      + intros n q G C. rewrite (sub_nocache _ _ _ _ S2 y n Rc G) in C. discriminate.
  Qed.
End Graft.

(* ---- more facts about trees that satisfy the structural part of the invariant -------------------------------------------------------- *)
Section Facts2.
  Variables (h : heap) (r : id) (P : id -> Prop).
  Hypothesis I : InvExc h r P.

  Lemma children_NoDup p np : reach h r p -> get h p = Some np -> NoDup (children np).
  Proof.
    intros R G. apply NoDup_nth_error. intros i j Li E.
    destruct (nth_error (children np) i) as [c|] eqn:Ni; [|apply nth_error_None in Ni; lia].
    symmetry in E.
    destruct (inv_links _ _ _ I _ _ _ _ R G Ni) as (n1 & G1 & _ & I1).
    destruct (inv_links _ _ _ I _ _ _ _ R G E) as (n2 & G2 & _ & I2).
    assert (n1 = n2) by congruence. subst. rewrite I1 in I2. inversion I2. lia.
  Qed.

  (* the ancestors of a node form a chain *)
  Lemma chain_total a b x : reach h r a -> reach h r b -> reach h a x -> reach h b x -> reach h a b \/ reach h b a.
  Proof.
    intros Ra Rb Rax. revert b Rb. induction Rax; intros b Rb Rbx.
    - now right.
    - destruct (Nat.eq_dec b c) as [->|N].
      + left. eapply reach_step; eauto.
      + assert (Rp : reach h r p) by (eapply reach_trans; [exact Ra|exact Rax]).
        destruct (lister_unique _ _ _ I _ _ _ Rp H H0) as (nc & Gc & Pc).
        apply IHRax; auto. eapply (reach_up _ _ _ I); eauto.
  Qed.

  (* two children of p that both reach x are the same child *)
  Lemma child_on_path_unique p np z c x :
    reach h r p -> get h p = Some np -> In z (children np) -> In c (children np) ->
    reach h z x -> reach h c x -> c = z.
  Proof.
    intros Rp G Hz Hc Rzx Rcx.
    assert (Rz : reach h r z) by (eapply reach_step; [exact Rp|exact G|exact Hz]).
    assert (Rc : reach h r c) by (eapply reach_step; [exact Rp|exact G|exact Hc]).
    destruct (lister_unique _ _ _ I _ _ _ Rp G Hz) as (nz & Gz & Pz).
    destruct (lister_unique _ _ _ I _ _ _ Rp G Hc) as (nc & Gc & Pc).
    destruct (Nat.eq_dec c z) as [|N]; auto. exfalso.
    destruct (inv_rank _ _ _ I) as (rk & Hrk).
    destruct (chain_total z c x Rz Rc Rzx Rcx) as [R1|R1].
    - assert (Rzp : reach h z p) by (eapply (reach_up _ _ _ I); eauto).
      assert (z = p) by (eapply (acyclic _ _ _ I); eauto; eapply reach_child; eauto). subst z.
      specialize (Hrk p np p Rp G Hz). lia.
    - assert (Rcp : reach h c p) by (eapply (reach_up _ _ _ I); eauto).
      assert (c = p) by (eapply (acyclic _ _ _ I); eauto; eapply reach_child; eauto). subst c.
      specialize (Hrk p np p Rp G Hc). lia.
  Qed.
End Facts2.

Lemma tsum_app h l1 l2 s1 s2 : tsum h l1 s1 -> tsum h l2 s2 -> exists s, tsum h (l1 ++ l2) s /\ (s == s1 + s2)%Q.
Proof.
  intros T1; revert l2 s2. induction T1; intros l2 s2 T2; cbn.
  - exists s2; split; auto. ring.
  - destruct (IHT1 _ _ T2) as (s' & Ts & Es). eexists; split; [econstructor; eauto|]. rewrite Es. ring.
Qed.

(* the recomputed sum over a duplicate-free child list when exactly the child z changed its body by D *)
Lemma tsum_one_changed hA hB z D : forall cs s,
  NoDup cs ->
  (forall c' n', In c' cs -> get hA c' = Some n' -> exists n2, get hB c' = Some n2 /\ rep_of n2 = rep_of n') ->
  (forall c' b, In c' cs -> c' <> z -> tbody hA c' b -> tbody hB c' b) ->
  (forall b, tbody hA z b -> exists b', tbody hB z b' /\ (b' == b + D)%Q) ->
  tsum hA cs s ->
  exists s', tsum hB cs s' /\
    (In z cs -> exists nz, get hA z = Some nz /\ (s' == s + D * rep_of nz)%Q) /\ (~ In z cs -> (s' == s)%Q).
Proof.
  induction cs as [|c cs IH]; intros s ND Rep Oth Chg T.
  - inversion T; subst. exists 0%Q. split; [constructor|]. split; [intros []|reflexivity].
  - inversion T as [|? ? b nc s0 Tb Gnc Ts]; subst.
    inversion ND as [|? ? NI ND']; subst.
    destruct (IH s0 ND') as (s' & Ts' & In1 & In2); auto.
    { intros; eapply Rep; eauto; now right. }
    { intros; eapply Oth; eauto; now right. }
    destruct (Rep c nc (or_introl eq_refl) Gnc) as (n2 & G2 & R2).
    destruct (Nat.eq_dec c z) as [->|N].
    + destruct (Chg b Tb) as (b' & Tb' & Eb').
      exists (b' * rep_of n2 + s')%Q. split; [constructor; auto|]. split.
      * intros _. exists nc. split; auto. rewrite (In2 NI), Eb', R2. ring.
      * intros NIn. exfalso. apply NIn. now left.
    + exists (b * rep_of n2 + s')%Q. split; [constructor; auto; eapply Oth; eauto; now left|]. split.
      * intros [->|HIn]; [congruence|]. destruct (In1 HIn) as (nz & Gz & Ez). exists nz; split; auto.
        rewrite Ez, R2. ring.
      * intros NIn. rewrite In2, R2; [reflexivity|]. intros HIn. apply NIn. now right.
Qed.

(* ---- the incremental patch ---------------------------------------------------------------------------------------------------------------- *)
Section Append.
  Variables (h0 h1 h2 : heap) (r x c : id) (nx nc : node) (hi : nat).
  Hypothesis I0 : Inv h0 r.
  Hypothesis Rx : reach h0 r x.
  Hypothesis Gx : get h0 x = Some nx.
  Hypothesis Pre : forall y, (y < length h0)%nat -> get h1 y = get h0 y.
  Hypothesis SC : Sub h1 (length h0) hi c.
  Hypothesis Gc : get h1 c = Some nc.
  Let len := Z.of_nat (length (children nx)).
  Hypothesis F1 : get h2 x = Some (set_children (children nx ++ [c]) nx).
  Hypothesis F2 : get h2 c = Some (set_pidx (Some len) (set_parent (Some x) nc)).
  Hypothesis F3 : forall y, y <> x -> y <> c -> get h2 y = get h1 y.
  (* the incremental branch is taken: x had children before, or it had no waveform *)
  Hypothesis Branch : children nx <> [] \/ wform nx = None.
  Variable bc : Q.
  Hypothesis Tc : tbody h2 c bc.
  Let dc : Q := (bc * rep_of nc)%Q.

  Let I2 : InvExc h2 r (fun y => reach h2 y x) := graft_inv h0 h1 h2 r x c nx nc hi I0 Rx Gx Pre SC Gc F1 F2 F3.
  Let old_same := g_old_same h0 h1 h2 x c nx hi Pre SC F3.
  Let live_old := g_live_old h0 r I0.

  (* an old node keeps parent and repetition definition *)
  Lemma a_old_fields y n0 : get h0 y = Some n0 ->
    exists n2, get h2 y = Some n2 /\ parent n2 = parent n0 /\ rdf n2 = rdf n0 /\ cache n2 = cache n0.
  Proof.
    intros G. destruct (Nat.eq_dec y x) as [->|N].
    - assert (n0 = nx) by congruence. subst. eexists; split; [exact F1|]. destruct nx; auto.
    - exists n0. split; auto. rewrite old_same; auto. eapply get_lt; eauto.
  Qed.

  Lemma a_frame_old y b : reach h0 r y -> ~ reach h0 y x -> tbody h0 y b -> tbody h2 y b.
  Proof.
    intros Ry NR T. eapply tbody_frame; eauto. intros z Rz. apply old_same.
    - apply live_old. eapply reach_trans; eauto.
    - intros ->. auto.
  Qed.

  Inductive Delta : id -> Q -> Prop :=
  | D_self : Delta x dc
  | D_up z nz p D : Delta z D -> get h0 z = Some nz -> parent nz = Some p -> Delta p (D * rep_of nz)%Q.

  Lemma delta_spec y D : Delta y D ->
    reach h0 r y /\ reach h0 y x /\ forall b0, tbody h0 y b0 -> exists b, tbody h2 y b /\ (b == b0 + D)%Q.
  Proof.
    induction 1 as [|z nz p D Dz (Rz & Rzx & IH) Gz Pz].
    - split; auto. split; [constructor|]. intros b0 T0.
      assert (Tc1 : tsum h2 [c] (bc * rep_of (set_pidx (Some len) (set_parent (Some x) nc)) + 0)%Q)
        by (constructor; auto; constructor).
      replace (rep_of (set_pidx (Some len) (set_parent (Some x) nc))) with (rep_of nc) in Tc1 by (destruct nc; reflexivity).
      inversion T0 as [? n G C|? n s G C Ts]; subst; assert (n = nx) by congruence; subst n.
      + (* x was a leaf without waveform *)
        destruct Branch as [B|B]; [congruence|].
        exists (bc * rep_of nc + 0)%Q. split.
        * apply (TB_inner h2 x (set_children (children nx ++ [c]) nx));
            [exact F1|destruct nx; cbn in *; rewrite C; discriminate|].
          replace (children (set_children (children nx ++ [c]) nx)) with ([] ++ [c]) by (destruct nx; cbn in *; now rewrite C).
          exact Tc1.
        * unfold leaf_dur. rewrite B. unfold dc. ring.
      + assert (Ts2 : tsum h2 (children nx) b0).
        { eapply (proj2 (tbody_tsum_frame h0 h2)); eauto. intros c' z HIn Rz.
          assert (Rc' : reach h0 r c') by (eapply reach_step; eauto).
          apply old_same.
          - apply live_old. eapply reach_trans; eauto.
          - intros ->. assert (x = c') by (eapply (acyclic _ _ _ I0); eauto; eapply reach_child; eauto). subst c'.
            eapply (g_x_not_own_child h0 r x nx I0 Rx Gx); eauto. }
        destruct (tsum_app _ _ _ _ _ Ts2 Tc1) as (s' & Ts' & Es').
        exists s'. split.
        * apply (TB_inner h2 x (set_children (children nx ++ [c]) nx));
            [exact F1|destruct nx as [cs ? ? ? ? ? ?]; cbn; destruct cs; discriminate|].
          replace (children (set_children (children nx ++ [c]) nx)) with (children nx ++ [c]) by (destruct nx; reflexivity).
          exact Ts'.
        * rewrite Es'. unfold dc. ring.
    - destruct (live_parent _ _ _ I0 z nz Rz Gz) as [(_ & Pn)|(p' & np & Pp & Rp & Gp & HIn)]; [congruence|].
      assert (p' = p) by congruence. subst p'.
      assert (Rpx : reach h0 p x) by (eapply reach_trans; [eapply reach_child; eauto|auto]).
      split; auto. split; auto. intros b0 T0.
      assert (Npx : p <> x).
      { intros ->. assert (x = z) by (eapply (acyclic _ _ _ I0); eauto; eapply reach_child; eauto). subst z.
        destruct (inv_rank _ _ _ I0) as (rk & Hrk). specialize (Hrk x np x Rx Gp HIn). lia. }
      assert (Gp2 : get h2 p = Some np) by (rewrite old_same; auto).
      inversion T0 as [? n G C|? n s G C Ts]; subst; assert (n = np) by congruence; subst n.
      + rewrite C in HIn. contradiction.
      + destruct (tsum_one_changed h0 h2 z D (children np) b0) as (s' & Ts' & In1 & _); auto.
        * eapply (children_NoDup _ _ _ I0); eauto.
        * intros c' n' HIn' G'. destruct (a_old_fields c' n' G') as (n2 & G2 & _ & R2 & _).
          exists n2; split; auto. unfold rep_of. now rewrite R2.
        * intros c' b HIn' Nz T'. apply a_frame_old; auto.
          -- eapply reach_step; eauto.
          -- intros Rc'. apply Nz. eapply (child_on_path_unique _ _ _ I0); eauto.
        * destruct (In1 HIn) as (nz' & Gz' & Es). assert (nz' = nz) by congruence. subst nz'.
          exists s'. split; auto. apply (TB_inner h2 p np); auto.
  Qed.

  (* the walk Loop._invalidate_duration(body_duration_increment=d) from z upwards *)
  Lemma walk_inc : forall fuel z d D h h',
    invalidate fuel z (Some d) h = (h', R tt) ->
    cache_only h2 h -> reach h2 r z ->
    InvExc h r (fun y => reach h y z) ->
    (forall y n n0, reach h2 y z -> reach h2 r y -> get h y = Some n -> get h0 y = Some n0 -> cache n = cache n0) ->
    Delta z D -> (d == D)%Q -> Inv h' r.
  Proof.
    induction fuel as [|f IH]; intros z d D h h' H CO Rz2 IW W3 DZ ED; cbn in H; [discriminate|].
    pose proof (cache_only_shape _ _ CO) as SH.
    assert (Rz : reach h r z) by (eapply reach_shape; eauto).
    destruct (delta_spec z D DZ) as (Rz0 & Rzx0 & AZ).
    destruct (live_get _ _ _ I0 z Rz0) as (n0 & Gz0).
    unfold bind at 1 in H. unfold getn at 1 in H.
    destruct (get h z) as [n|] eqn:Gz; [|discriminate].
    (* the node z in h2, h and h0 *)
    destruct (a_old_fields z n0 Gz0) as (n2 & Gz2 & Pz2 & Rdz2 & Cz2).
    destruct (cache_only_get _ _ _ _ CO Gz2) as (n' & Gz' & En). assert (n' = n) by congruence. subst n'.
    assert (Pn : parent n = parent n0) by (rewrite En; destruct n2; cbn in *; congruence).
    assert (Rdn : rdf n = rdf n0) by (rewrite En; destruct n2; cbn in *; congruence).
    assert (Cn : cache n = cache n0) by (apply (W3 z n n0); [apply reach_refl|exact Rz2|exact Gz|exact Gz0]).
    set (hp := match cache n with Some q => upd h z (set_cache (Some (Qred (q + d)))) | None => h end).
    assert (C1 : cache_only h hp) by (unfold hp; destruct (cache n); [apply cache_only_upd|apply cache_only_refl]).
    assert (SH1 : same_shape h hp) by (apply cache_only_shape; auto).
    assert (Oth : forall y, y <> z -> get hp y = get h y).
    { intros y N. unfold hp. destruct (cache n); auto. apply get_upd_other; auto. }
    (* z itself is valid after the patch *)
    assert (Vz : cvalid hp z).
    { intros m q' Gm Cm. unfold hp in Gm. destruct (cache n) as [q|] eqn:Cq.
      - erewrite get_upd_same in Gm by eauto. inversion Gm; subst m. destruct n; cbn in Cm. inversion Cm; subst q'.
        destruct (inv_cache _ _ _ I0 z Rz0 (fun f => f) n0 q Gz0) as (b0 & T0 & E0); [cbn in *; congruence|].
        destruct (AZ b0 T0) as (b & Tb & Eb). exists b. split.
        + eapply tbody_shape; [|exact Tb]. intros y. rewrite <- (SH1 y). apply SH.
        + rewrite Qred_correct, E0, ED, Eb. reflexivity.
      - congruence. }
    (* everything that does not reach z stays valid *)
    assert (Voff : forall y, reach h r y -> y <> z -> ~ reach h y z -> cvalid hp y).
    { intros y Ry N NR. eapply cvalid_shape_same; [exact SH1|apply (inv_cache _ _ _ IW); auto|].
      intros m Gm. rewrite Oth in Gm by auto. eauto. }
    assert (H' : (match parent n with
                  | None => ret tt
                  | Some p => fun hh => match getn p hh with
                                        | (hh', R np) => (if truthy np
                                                          then invalidate f p (Some (Qred (d * inject_Z (rep_count (rdf n)))))
                                                          else ret tt) hh'
                                        | (hh', E e) => (hh', E e) end
                  end) hp = (h', R tt)).
    { unfold hp. destruct (cache n); cbn in H; unfold modn, ret, bind in *; cbn in *; exact H. }
    clear H.
    destruct (live_parent _ _ _ IW z n Rz Gz) as [(-> & Pnone)|(p & np & Pp & Rp & Gp & HIn)].
    - rewrite Pnone in H'. inversion H'; subst h'.
      eapply InvExc_cache_only; [exact C1|exact IW|].
      intros y Ry _. destruct (Nat.eq_dec y r) as [->|N]; auto.
      apply Voff; auto. intros Ryr. apply N. eapply (root_top _ _ _ IW); eauto.
    - rewrite Pp in H'. unfold getn in H'.
      destruct (cache_only_get _ _ _ _ C1 Gp) as (np1 & Gp1 & Ep1). rewrite Gp1 in H'.
      assert (T : truthy np1 = true).
      { rewrite Ep1. unfold truthy. destruct np as [cs0 ? ? ? ? ? ?]; cbn in *. destruct cs0; [contradiction|reflexivity]. }
      rewrite T in H'.
      assert (Rp2 : reach h2 r p) by (eapply reach_shape; [apply same_shape_sym; exact SH|exact Rp]).
      assert (Rpz2 : reach h2 p z).
      { eapply reach_shape; [apply same_shape_sym; exact SH|]. eapply reach_child; eauto. }
      eapply (IH p _ (D * rep_of n0)%Q hp h' H').
      + eapply cache_only_trans; eauto.
      + exact Rp2.
      + eapply InvExc_cache_only; [exact C1|exact IW|].
        intros y Ry NR. destruct (Nat.eq_dec y z) as [->|N]; auto.
        apply Voff; auto. intros Ryz. apply NR. eapply reach_shape; [exact SH1|].
        eapply (reach_up _ _ _ IW); eauto.
      + intros y m m0 Ryp Ry Gm Gm0.
        assert (Nyz : y <> z).
        { intros ->. assert (z = p) by (eapply (acyclic _ _ _ I2); eauto). subst p.
          destruct (inv_rank _ _ _ IW) as (rk & Hrk). specialize (Hrk z np z Rz Gp HIn). lia. }
        rewrite Oth in Gm by auto.
        apply (W3 y m m0); [eapply reach_trans; [exact Ryp|exact Rpz2]|exact Ry|exact Gm|exact Gm0].
      + eapply D_up; eauto. congruence.
      + rewrite Qred_correct, ED. unfold rep_of. rewrite Rdn. reflexivity.
  Qed.
End Append.

(* queries never change children fields (whatever the outcome) *)
Lemma body_duration_spec_shape : forall fuel x h h' res, body_duration fuel x h = (h', res) -> csame h h' /\ True.
Proof.
  induction fuel as [|f IH]; intros x h h' res H.
  - cbn in H. inversion H; subst. split; [apply csame_refl|auto].
  - rewrite body_duration_S in H. unfold bind at 1 in H. unfold getn in H.
    destruct (get h x) as [n|] eqn:G; [|inversion H; subst; split; [apply csame_refl|auto]].
    destruct (cache n); [inversion H; subst; split; [apply csame_refl|auto]|].
    assert (UC : forall hh q, csame hh (upd hh x (set_cache q))) by (intros; apply csame_upd; intros []; reflexivity).
    destruct (children n) as [|c0 cs0] eqn:Ch.
    { cbn in H. unfold bind, modn, ret in H. inversion H; subst. split; auto. }
    assert (MS : forall cs h0 acc h0' res0, msum (child_dur f) cs acc h0 = (h0', res0) -> csame h0 h0').
    { induction cs as [|c cs IHcs]; intros h0 acc h0' res0 HM.
      - rewrite msum_nil in HM. inversion HM; subst. apply csame_refl.
      - rewrite msum_cons in HM. unfold bind at 1 in HM. unfold child_dur at 1 in HM. unfold bind at 1 in HM.
        destruct (body_duration f c h0) as (h1, r1) eqn:BD.
        destruct (IH _ _ _ _ BD) as (CS1 & _).
        destruct r1 as [b1|e1]; [|inversion HM; subst; auto].
        unfold bind at 1 in HM. unfold getn in HM. destruct (get h1 c); [|inversion HM; subst; auto].
        unfold ret at 1 in HM. eapply csame_trans; eauto. }
    cbn iota in H. unfold bind at 1 in H.
    destruct (msum (child_dur f) (c0 :: cs0) 0%Q h) as (h1, r1) eqn:HM.
    pose proof (MS _ _ _ _ _ HM) as CS1.
    destruct r1; [|inversion H; subst; auto].
    unfold bind, modn, ret in H. inversion H; subst. split; auto. eapply csame_trans; eauto.
Qed.

(* the memoising query writes only below the queried node *)
Lemma body_duration_frame : forall fuel x h h' res,
  body_duration fuel x h = (h', res) -> forall y, ~ reach h x y -> get h' y = get h y.
Proof.
  induction fuel as [|f IH]; intros x h h' res H y NR.
  - cbn in H. inversion H; subst; auto.
  - rewrite body_duration_S in H. unfold bind at 1 in H. unfold getn in H.
    destruct (get h x) as [n|] eqn:G; [|inversion H; subst; auto].
    destruct (cache n); [inversion H; subst; auto|].
    assert (Nyx : x <> y) by (intros ->; apply NR; constructor).
    destruct (children n) as [|c0 cs0] eqn:Ch.
    { cbn in H. unfold bind, modn, ret in H. inversion H; subst. now apply get_upd_other. }
    assert (MS : forall cs h0 acc h0' res0,
               msum (child_dur f) cs acc h0 = (h0', res0) -> csame h h0 ->
               (forall c, In c cs -> In c (children n)) -> get h0' y = get h0 y /\ csame h h0').
    { induction cs as [|c cs IHcs]; intros h0 acc h0' res0 HM CS Sub0.
      - rewrite msum_nil in HM. inversion HM; subst. auto.
      - rewrite msum_cons in HM. unfold bind at 1 in HM. unfold child_dur at 1 in HM. unfold bind at 1 in HM.
        destruct (body_duration f c h0) as (h1, r1) eqn:BD.
        assert (NRc : ~ reach h0 c y).
        { intros Rc. apply NR. eapply reach_trans; [eapply reach_child; eauto; apply Sub0; now left|].
          eapply reach_csame; [apply csame_sym; exact CS|exact Rc]. }
        pose proof (IH _ _ _ _ BD y NRc) as E1.
        assert (CS1 : csame h h1).
        { destruct (body_duration_spec_shape f c h0 h1 r1 BD). eapply csame_trans; eauto. }
        destruct r1 as [b1|e1]; [|inversion HM; subst; auto].
        unfold bind at 1 in HM. unfold getn in HM. destruct (get h1 c); [|inversion HM; subst; auto].
        unfold ret at 1 in HM.
        destruct (IHcs _ _ _ _ HM CS1) as (E2 & CS2); [intros; apply Sub0; now right|].
        split; [congruence|auto]. }
    cbn iota in H. unfold bind at 1 in H.
    destruct (msum (child_dur f) (c0 :: cs0) 0%Q h) as (h1, r1) eqn:HM.
    destruct (MS _ _ _ _ _ HM (csame_refl h)) as (E1 & _); [rewrite Ch; auto|].
    destruct r1; [|inversion H; subst; auto].
    unfold bind, modn, ret in H. inversion H; subst. rewrite get_upd_other; auto.
Qed.

(* ---- Loop.append_child of a freshly built tree ------------------------------------------------------------------------------------------------ *)
Lemma invalidate_some_err : forall fuel y d h0 h0' e0,
  invalidate fuel y (Some d) h0 = (h0', E e0) -> model_err e0.
Proof.
  induction fuel as [|f IHf]; intros y d h0 h0' e0 HH; cbn in HH.
  - inversion HH; left; auto.
  - unfold bind, getn in HH. destruct (get h0 y) as [n0|]; [|inversion HH; right; auto].
    destruct (cache n0); cbn in HH; unfold modn, bind, ret in HH; cbn in HH;
      (destruct (parent n0) as [p0|]; [|discriminate]);
      unfold getn in HH;
      match type of HH with context [get ?hh p0] => destruct (get hh p0) as [np0|] end;
      try (inversion HH; right; auto; fail);
      (destruct (truthy np0); [eapply IHf; eauto|discriminate]).
Qed.

(* `mk` allocates a fresh tree (freshly built, or a copy) *)
Definition fresh_maker (mk : M id) (h0 : heap) : Prop :=
  forall h1 res, mk h0 = (h1, res) ->
  match res with
  | R c => (length h0 <= c)%nat /\ (forall y, (y < length h0)%nat -> get h1 y = get h0 y) /\
           exists hi, Sub h1 (length h0) hi c
  | E e => model_err e
  end.

Lemma append_fresh_inv (mk : M id) h0 r x h' res :
  fresh_maker mk h0 ->
  Inv h0 r -> reach h0 r x -> (c <- mk ;; append_child x c) h0 = (h', res) -> ok_result res -> Inv h' r.
Proof.
  intros FM I0 Rx H OK.
  unfold bind at 1 in H. destruct (mk h0) as (h1, [c|e]) eqn:B; pose proof (FM _ _ B) as FMB.
  2:{ inversion H; subst. destruct OK, FMB; congruence. }
  destruct FMB as (Lc0 & Pre & hi & SC).
  destruct (live_get _ _ _ I0 x Rx) as (nx & Gx).
  pose proof (get_lt _ _ _ Gx) as Lx.
  assert (Gx1 : get h1 x = Some nx) by (rewrite Pre; auto).
  destruct (sub_get _ _ _ _ SC) as (nc & Gc).
  assert (Nxc : x <> c) by lia.
  unfold append_child in H. unfold bind at 1 in H. unfold getn at 1 in H. rewrite Gx1 in H.
  unfold bind at 1 in H. rewrite (setitem_append h1 x nx c nc Gx1 Gc Nxc) in H.
  set (len := Z.of_nat (length (children nx))) in *.
  set (h2 := upd (upd (upd h1 c (set_parent (Some x))) x (set_children (children nx ++ [c]))) c (set_pidx (Some len))) in *.
  assert (F1 : get h2 x = Some (set_children (children nx ++ [c]) nx)).
  { unfold h2. rewrite get_upd_other by auto. apply get_upd_same. rewrite get_upd_other; auto. }
  assert (F2 : get h2 c = Some (set_pidx (Some len) (set_parent (Some x) nc))).
  { unfold h2. apply get_upd_same. rewrite get_upd_other by auto. now apply get_upd_same. }
  assert (F3 : forall y, y <> x -> y <> c -> get h2 y = get h1 y).
  { intros y N1 N2. unfold h2. rewrite !get_upd_other; auto. }
  pose proof (graft_inv h0 h1 h2 r x c nx nc _ I0 Rx Gx Pre SC Gc F1 F2 F3) as I2.
  pose proof (g_sub2 h0 h1 h2 x c nx nc _ Gx SC Gc F2 F3) as S2.
  assert (Rx2 : reach h2 r x) by (apply (g_reach_mono h0 h1 h2 r x c nx nc _ I0 Gx Pre SC F1 F2 F3 r x); [apply reach_refl|exact Rx]).
  unfold bind at 1 in H. unfold getn at 1 in H. rewrite F1 in H.
  assert (LC : last_child (set_children (children nx ++ [c]) nx) = Some c).
  { unfold last_child. replace (children (set_children (children nx ++ [c]) nx)) with (children nx ++ [c]) by (destruct nx; reflexivity).
    rewrite app_length. cbn. rewrite Nat.add_1_r. cbn. rewrite nth_error_app2 by lia. now rewrite Nat.sub_diag. }
  rewrite LC in H.
  replace (children (set_children (children nx ++ [c]) nx)) with (children nx ++ [c]) in H by (destruct nx; reflexivity).
  replace (wform (set_children (children nx ++ [c]) nx)) with (wform nx) in H by (destruct nx; reflexivity).
  (* which branch? *)
  assert (BR : (children nx = [] /\ exists w, wform nx = Some w) \/ (children nx <> [] \/ wform nx = None)).
  { destruct (children nx); [|right; left; discriminate]. destruct (wform nx); [left; eauto|right; right; auto]. }
  destruct BR as [(Cn & w & Wn)|Branch].
  - (* the node was a leaf with a waveform: reset walk *)
    rewrite Cn, Wn in H. cbn [app] in H. unfold invalidate_all in H. rewrite fueled_eq in H.
    destruct (invalidate _ x None h2) as (h3, [[]|e]) eqn:W; inversion H; subst.
    2:{ destruct OK as (N1 & N2). destruct (invalidate_none_err _ _ _ _ _ W); congruence. }
    eapply invalidate_none_spec; eauto.
  - assert (HB : (d <- fueled (fun fuel => duration fuel c) ;; fueled (fun fuel => invalidate fuel x (Some d))) h2 = (h', res)).
    { destruct (children nx) as [|a l] eqn:Cn.
      - destruct Branch as [Bb|Bb]; [congruence|]. rewrite Bb in H. exact H.
      - destruct l; cbn [app] in H; exact H. }
    clear H. unfold bind at 1 in HB. rewrite fueled_eq in HB. unfold duration, bind at 1 in HB.
    destruct (body_duration _ c h2) as (h3, rb) eqn:BD.
    destruct (body_duration_spec _ _ _ _ _ BD) as ((CO & VP) & RB).
    { intros y Ry n q G C. rewrite (sub_nocache _ _ _ _ S2 y n Ry G) in C. discriminate. }
    destruct rb as [bq|e].
    2:{ inversion HB; subst. destruct OK as (N1 & N2). destruct RB; congruence. }
    destruct RB as (b & Tb & Eb).
    unfold bind at 1 in HB. unfold getn at 1 in HB.
    destruct (cache_only_get _ _ _ _ CO F2) as (nc3 & Gc3 & Enc3). rewrite Gc3 in HB. unfold ret at 1 in HB.
    rewrite fueled_eq in HB.
    destruct (invalidate _ x _ h3) as (h4, [[]|e]) eqn:W; inversion HB; subst.
    2:{ destruct OK as (N1 & N2). destruct (invalidate_some_err _ _ _ _ _ _ W); congruence. }
    eapply (walk_inc h0 h1 h2 r x c nx nc _ I0 Rx Gx Pre SC Gc F1 F2 F3 Branch b Tb _ x _ (b * rep_of nc)%Q h3 h' W); auto.
    + eapply InvExc_cache_only; [exact CO|exact I2|].
      intros y Ry NR. apply VP. apply (inv_cache _ _ _ I2); auto.
      intros Ryx. apply NR. eapply reach_shape; [apply cache_only_shape; exact CO|exact Ryx].
    + intros y n n0 Ryx Ry G3 G0.
      pose proof (get_lt _ _ _ G0) as Ly.
      assert (NRc : ~ reach h2 c y).
      { intros Rc. pose proof (sub_range _ _ _ _ S2 _ Rc). lia. }
      rewrite (body_duration_frame _ _ _ _ _ BD y NRc) in G3.
      destruct (Nat.eq_dec y x) as [->|N].
      * rewrite F1 in G3. inversion G3; subst n. assert (n0 = nx) by congruence. subst. destruct nx; reflexivity.
      * rewrite (g_old_same h0 h1 h2 x c nx _ Pre SC F3 y Ly N) in G3. congruence.
    + apply (D_self h0 x nc b).
    + rewrite Qred_correct, Eb. unfold rep_of.
      replace (rdf nc3) with (rdf nc); [reflexivity|]. rewrite Enc3. destruct nc; reflexivity.
Qed.

Lemma build_fresh t h0 : fresh_maker (build t) h0.
Proof.
  intros h1 res B. destruct (build_spec t h0) as (h1' & c & B' & Lc1 & Lc0 & Pre & SC & _).
  rewrite B' in B. inversion B; subst. repeat split; eauto.
Qed.

Lemma append_child_inv h0 r x t h' res :
  Inv h0 r -> reach h0 r x -> (c <- build t ;; append_child x c) h0 = (h', res) -> ok_result res -> Inv h' r.
Proof. apply append_fresh_inv. apply build_fresh. Qed.

(* ---- Loop.copy_tree_structure allocates a fresh tree ---------------------------------------------------------------------------------------- *)
Lemma copy_tree_S f x par :
  copy_tree (S f) x par =
  (n <- getn x ;; ids <- mmap (fun c => copy_tree f c None) (children n) ;;
   new_loop par ids (rdf n) (wform n) (meas n)).
Proof. reflexivity. Qed.

Definition copy_post (h : heap) (h2 : heap) (res : result id) : Prop :=
  match res with
  | R c => S c = length h2 /\ (length h <= c)%nat /\ (forall y, (y < length h)%nat -> get h2 y = get h y) /\
           Sub h2 (length h) (length h2) c
  | E e => model_err e
  end.

Lemma copy_tree_spec : forall fuel x par h h2 res, copy_tree fuel x par h = (h2, res) -> copy_post h h2 res.
Proof.
  induction fuel as [|f IH]; intros x par h h2 res H.
  - cbn in H. inversion H; subst. left; reflexivity.
  - rewrite copy_tree_S in H. unfold bind at 1 in H. unfold getn at 1 in H.
    destruct (get h x) as [n|]; [|inversion H; subst; right; reflexivity].
    assert (MM : forall l h0 h1 r1, mmap (fun c => copy_tree f c None) l h0 = (h1, r1) ->
                 match r1 with
                 | R ids => (length h0 <= length h1)%nat /\ (forall y, (y < length h0)%nat -> get h1 y = get h0 y) /\
                            Subs h1 (length h0) (length h1) ids
                 | E e => model_err e
                 end).
    { induction l as [|c l IHl]; intros h0 h1 r1 HM.
      - cbn in HM. inversion HM; subst. repeat split; auto. constructor.
      - cbn in HM. unfold bind at 1 in HM.
        destruct (copy_tree f c None h0) as (ha, ra) eqn:CT.
        pose proof (IH _ _ _ _ _ CT) as Pa.
        destruct ra as [ca|e]; [|inversion HM; subst; exact Pa].
        destruct Pa as (La & Lca & Oa & Sa).
        unfold bind at 1 in HM.
        destruct (mmap _ l ha) as (hb, rb) eqn:MB.
        pose proof (IHl _ _ _ MB) as Pb.
        destruct rb as [ids|e]; [|inversion HM; subst; exact Pb].
        destruct Pb as (Lb & Ob & Sb).
        unfold ret in HM. inversion HM; subst.
        assert (length h0 <= length ha)%nat by lia.
        split; [lia|]. split.
        + intros y Ly. rewrite Ob by lia. auto.
        + econstructor; [|exact Sb]. eapply Sub_frame; [|exact Sa]. intros y Ry. apply Ob. lia. }
    unfold bind at 1 in H.
    destruct (mmap _ (children n) h) as (h1, r1) eqn:MB.
    pose proof (MM _ _ _ _ MB) as P1.
    destruct r1 as [ids|e]; [|inversion H; subst; exact P1].
    destruct P1 as (L1 & O1 & S1).
    destruct (new_loop_Sub h1 (length h) par ids (rdf n) (wform n) (meas n) S1) as (h2' & NL & Len & Old & SB & _).
    rewrite NL in H. inversion H; subst.
    split; [lia|]. split; [lia|]. split.
    + intros y Ly. rewrite Old by auto. auto.
    + rewrite Len. exact SB.
Qed.

Lemma copy_fresh x np h0 : fresh_maker (copy_tree_structure x np) h0.
Proof.
  intros h1 res H. unfold copy_tree_structure, bind, getn in H.
  destruct (get h0 x) as [n|]; [|inversion H; subst; right; reflexivity].
  rewrite fueled_eq in H. pose proof (copy_tree_spec _ _ _ _ _ _ H) as P.
  destruct res as [c|e]; [|exact P]. destruct P as (L1 & L2 & O & S). repeat split; eauto.
Qed.

(* ---- histories over the operations proved so far (now including append_child) ------------------------------------------------------------- *)
Definition proved_op' (o : op) : bool :=
  proved_op o || match o with OAppend _ _ | OCopyAppend _ _ _ => true | _ => false end.

Lemma step_partial' s o s' out :
  sInv s -> proved_op' o = true -> step s o = (s', out) -> out_ok out -> sInv s'.
Proof.
  intros I PO H OK. unfold proved_op' in PO. apply orb_prop in PO as [PO|PO]; [eapply step_partial; eauto|].
  destruct o; try discriminate; cbn in H.
  - eapply run_at_inv; eauto. intros x h' res Rx Hk Okr. cbv beta in Hk.
    eapply append_child_inv; [exact I|exact Rx|exact Hk|exact Okr].
  - destruct (resolve (st_heap s) (st_root s) dst) as [d|] eqn:Rd; [|inversion H; subst; auto].
    apply resolve_reach in Rd.
    eapply run_at_inv; eauto. intros x h' res Rx Hk Okr. cbv beta in Hk.
    eapply append_fresh_inv; [apply copy_fresh|exact I|exact Rd|exact Hk|exact Okr].
Qed.

Lemma history_partial' : forall ops s,
  sInv s -> forallb proved_op' ops = true -> run_ok s ops -> sInv (run s ops).
Proof.
  induction ops as [|o ops IH]; intros s I P OK; cbn in *; auto.
  apply andb_prop in P as (P1 & P2). destruct OK as (O1 & O2).
  destruct (step s o) as (s', out) eqn:St. cbn in *.
  apply IH; auto. eapply step_partial'; eauto.
Qed.

(* ---- Loop.__eq__ reads structure, counts, waveforms and measurements only ---------------------------------------------------------------------- *)
Definition eshape (n : node) := (children n, rdf n, wform n, meas n).
Definition esame (h h' : heap) := forall y, option_map eshape (get h y) = option_map eshape (get h' y).

Lemma list_eqb_ext {A} (e1 e2 : A -> A -> bool) : (forall x y, e1 x y = e2 x y) ->
  forall a b, list_eqb e1 a b = list_eqb e2 a b.
Proof. intros E; induction a; intros [|y b]; cbn; auto. now rewrite E, IHa. Qed.

Lemma loop_eqb_esame h h' : esame h h' -> forall fuel a b, loop_eqb fuel h a b = loop_eqb fuel h' a b.
Proof.
  intros S. induction fuel as [|f IH]; intros a b; cbn; auto.
  pose proof (S a) as Sa. pose proof (S b) as Sb.
  destruct (get h a) as [na|], (get h' a) as [na'|]; cbn in Sa; try discriminate; auto.
  destruct (get h b) as [nb|], (get h' b) as [nb'|]; cbn in Sb; try discriminate; auto.
  unfold eshape in *. inversion Sa; inversion Sb.
  repeat match goal with Hx : _ = _ |- _ => rewrite Hx end.
  f_equal. apply list_eqb_ext. exact IH.
Qed.
