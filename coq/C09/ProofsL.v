(* C09 — proofs, part L (round 5): the clause "every node's recorded position locates that very node from the root" linked
   to the functions the observation uses (Node.get_location / Node.locate), and non-vacuity witnesses for the history and
   failed-call theorems *)
From Coq Require Import List ZArith QArith Bool Lia Arith.
Import ListNotations.
Require Import QV.common.Util QV.C09.Model QV.C09.Proofs QV.C09.Proofs2 QV.C09.Proofs3 QV.C09.ProofsF QV.C09.Proofs9.

Lemma locate_app h : forall l x l',
  locate h x (l ++ l') = match locate h x l with LNode y => locate h y l' | LError => LError end.
Proof.
  induction l as [|[i|] l IH]; intros x l'; cbn; auto.
  destruct (get h x) as [n|]; auto.
  destruct (py_index (Z.of_nat (length (children n))) i) as [j|]; auto.
  destruct (nth_error (children n) (Z.to_nat j)) as [c|]; auto.
Qed.

Lemma py_index_nat len i : (i < len)%nat -> py_index (Z.of_nat len) (Z.of_nat i) = Some (Z.of_nat i).
Proof.
  intros L. unfold py_index.
  assert (E : (0 <=? Z.of_nat i)%Z && (Z.of_nat i <? Z.of_nat len)%Z = true).
  { apply andb_true_intro; split; [apply Z.leb_le|apply Z.ltb_lt]; lia. }
  rewrite E. reflexivity.
Qed.

Lemma resolve_app h : forall p x q,
  resolve h x (p ++ q) = match resolve h x p with Some y => resolve h y q | None => None end.
Proof.
  induction p as [|i p IH]; intros x q; cbn; auto.
  destruct (get h x) as [n|]; auto. destruct (nth_error (children n) i) as [c|]; auto.
Qed.

Definition loc_of_path (p : path) : list (option Z) := map (fun i => Some (Z.of_nat i)) p.

Section Loc.
  Variables (h : heap) (r : id) (P : id -> Prop).
  Hypothesis I : InvExc h r P.

  (* a live node at depth d: get_location answers (with any fuel above d) the list of positions along the path from the
     root to the node - the path that `resolve` follows -, and locate from the root along that answer ends at the node *)
  Lemma location_depth x d : depth h r x d ->
    exists p, length p = d /\ resolve h r p = Some x /\
              (forall fuel, (d < fuel)%nat -> get_location fuel h x = Some (loc_of_path p)) /\
              locate h r (loc_of_path p) = LNode x.
  Proof.
    induction 1 as [|p np c d D (pp & Ll & RS & GL & LC) G HIn].
    - exists []. split; auto. split; auto. split; auto. intros [|f] L; [lia|]. cbn.
      destruct (inv_root _ _ _ I) as (nr & Gr & Pn). rewrite Gr, Pn. reflexivity.
    - apply In_nth_error in HIn as (i & N).
      destruct (inv_links _ _ _ I p np i c (depth_reach _ _ _ _ D) G N) as (nc & Gc & Pc & Xc).
      assert (Li : (i < length (children np))%nat) by (apply nth_error_Some; congruence).
      exists (pp ++ [i]). split; [rewrite app_length; cbn; lia|]. split; [|split].
      + rewrite resolve_app, RS. cbn. rewrite G, N. reflexivity.
      + intros [|f] L; [lia|]. cbn [get_location]. rewrite Gc, Pc, G.
        assert (T : truthy np = true).
        { unfold truthy. destruct (children np); [destruct i; discriminate|reflexivity]. }
        rewrite T, (GL f) by lia. rewrite Xc. unfold loc_of_path. rewrite map_app. reflexivity.
      + unfold loc_of_path in *. rewrite map_app, locate_app, LC. cbn. rewrite G.
        rewrite py_index_nat by auto. rewrite Nat2Z.id, N. reflexivity.
  Qed.

  Lemma location_roundtrip x : reach h r x ->
    exists p, resolve h r p = Some x /\
              get_location (S (S (length h))) h x = Some (loc_of_path p) /\ locate h r (loc_of_path p) = LNode x.
  Proof.
    intros Rx. destruct (reach_depth _ _ _ Rx) as (d & D). pose proof (depth_lt h r P I x d D) as L.
    destruct (location_depth x d D) as (p & _ & RS & GL & LC). exists p. split; [exact RS|]. split; [apply GL; lia|exact LC].
  Qed.
End Loc.

(* ---- non-vacuity witnesses ------------------------------------------------------------------------------------------- *)
Fixpoint outcomes (s : state) (ops : list op) : list outcome :=
  match ops with [] => [] | o :: r => snd (step s o) :: outcomes (fst (step s o)) r end.

Definition nv_init : tspec :=
  TS (RInt 2) None None
     [TS (RInt 3) (Some (WConst 16 2)) None [];
      TS (RInt 2) None (Some [(1, 0%Q, 1%Q)])
         [TS (RInt 1) (Some (WRamp 2 1 false)) None []; TS (RVol 2 7 1) (Some (WConst 4 1)) None []]].
Definition nv_leaf : tspec := TS (RInt 2) (Some (WConst 1 2)) None [].
Definition nv_ops : list op :=
  [OQueryDur []; OAppend [1%nat] nv_leaf; ORoll [] 2 2 1; OQueryBody [1%nat]; OUnroll [1%nat]; OReverse [];
   OSetSlice [] (Some (-1)%Z) None None [nv_leaf; nv_leaf]; OQueryDur []; OSetInt [] 9 nv_leaf; OSplit [] (Some 0%Z);
   OEncapsulate [0%nat]; OSetRepCountQ [0%nat] (15 # 2); OSetRepCountQ [0%nat] (3 # 1); OUnrollChildren [0%nat];
   OCopyAppend [0%nat] [] 1; OCleanup [] true true; OSetWf [0%nat] None; OMerge []; OQueryDur []].

Lemma run_ok_outcomes : forall ops s, Forall (fun o => match o with Raised ExFuel | Raised ExDangling => False | _ => True end)
                                             (outcomes s ops) -> run_ok s ops.
Proof.
  induction ops as [|o ops IH]; intros s F; cbn; auto.
  cbn in F. inversion F; subst. split; auto.
Qed.

Lemma history_nonvacuous :
  forallb guard_C09_args nv_ops = true /\ run_ok (init_state nv_init) nv_ops /\
  outcomes (init_state nv_init) nv_ops =
    [Done; Done; Done; Done; Done; Done; Done; Done; Raised ExIndex; Done; Done; Raised ExValue; Done; Done; Done; Done;
     Done; Done; Done].
Proof.
  assert (E : outcomes (init_state nv_init) nv_ops =
    [Done; Done; Done; Done; Done; Done; Done; Done; Raised ExIndex; Done; Done; Raised ExValue; Done; Done; Done; Done;
     Done; Done; Done]) by (vm_compute; reflexivity).
  split; [reflexivity|]. split; [|exact E].
  apply run_ok_outcomes. rewrite E. repeat constructor.
Qed.

(* the hypotheses of the five parts of C09_failed_call_no_effect are satisfiable (each failing call on a 3-level tree) *)
Definition nv_heap : heap := st_heap (init_state nv_init).
Definition nv_root : id := st_root (init_state nv_init).
Lemma failed_call_nonvacuous :
  (exists h' e, loop_setitem_int nv_root 9 0%nat nv_heap = (h', E e) /\ e <> ExFuel /\ e <> ExDangling) /\
  (exists h', loop_setitem_slice nv_root None None (Some 0%Z) [] nv_heap = (h', E ExValue)) /\
  (exists h', loop_setitem_slice nv_root None None (Some 2%Z) [0%nat; 1%nat; 2%nat] nv_heap = (h', E ExValue)) /\
  (exists h' e, set_repetition_count_q nv_root (15 # 2) nv_heap = (h', E e) /\ e <> ExFuel /\ e <> ExDangling) /\
  (exists fs', fstep (mkF (init_state nv_init) [0%nat]) (FInsert [0%nat] None [] (IInt 9)) = (fs', Raised ExIndex)) /\
  (exists fs', fstep (mkF (init_state nv_init) [0%nat]) (FInsert [0%nat] None [] (ISlice None None (Some 0%Z))) = (fs', Raised ExValue)).
Proof.
  split; [eexists _, _; split; [vm_compute; reflexivity|split; discriminate]|].
  split; [eexists; vm_compute; reflexivity|].
  split; [eexists; vm_compute; reflexivity|].
  split; [eexists _, _; split; [vm_compute; reflexivity|split; discriminate]|].
  split; eexists; vm_compute; reflexivity.
Qed.

(* ---- the three clauses of the property, end to end: after ANY history from ANY constructed tree, for EVERY live node ---- *)
Lemma property_all t ops :
  forallb guard_C09_args ops = true -> run_ok (init_state t) ops ->
  let s := run (init_state t) ops in
  let h := st_heap s in let r := st_root s in
  forall x, reach h r x ->
    (exists q b nx, peek_dur (S (S (length h))) h x = Some q /\ tbody h x b /\ get h x = Some nx /\ (q == b * rep_of nx)%Q) /\
    (exists p, resolve h r p = Some x /\ get_location (S (S (length h))) h x = Some (loc_of_path p) /\
               locate h r (loc_of_path p) = LNode x) /\
    (forall nx i c, get h x = Some nx -> nth_error (children nx) i = Some c ->
       exists nc, get h c = Some nc /\ parent nc = Some x /\ pidx nc = Some (Z.of_nat i)).
Proof.
  intros G OK s h r x Rx.
  assert (I : Inv h r) by (apply (history_all ops (init_state t)); auto; apply init_inv).
  split; [apply (reported_is_recomputed h r x I Rx)|].
  split; [eapply location_roundtrip; eauto|].
  intros nx i c Gx N. eapply (inv_links _ _ _ I); eauto.
Qed.

(* ---- round 6: add_measurements inside histories ------------------------------------------------------------------------ *)
(* one add_measurements step from a state with Inv: cannot run out of fuel / hit a dangling id, and keeps Inv *)
Lemma step_add_measurements s p ms s' out : sInv s -> step s (OAddMeas p ms) = (s', out) -> out_ok out /\ sInv s'.
Proof. intros I H. exact (step_basic_total s (OAddMeas p ms) s' out I eq_refl H). Qed.

(* witness: windows added to an inner node (body duration 10: offsets shifted), to a leaf, to the root, between a query and
   edits that change the durations again; the history is over setters / queries / add_measurements only, so no run_ok
   hypothesis is needed; the measurement lists afterwards *)
Definition am_ops : list op :=
  [OQueryDur []; OAddMeas [1%nat] [(5, 0%Q, 1%Q); (6, 1 # 2, 2%Q)]; OAddMeas [0%nat] [(7, 0%Q, 1%Q)];
   OSetWf [1%nat; 0%nat] (Some (WConst 3 1)); OAddMeas [1%nat] [(8, 0%Q, 1%Q)]; OSetRepCount [1%nat] 5; OAddMeas [] [(9, 1%Q, 1%Q)];
   OAddMeas [7%nat] [(9, 1%Q, 1%Q)]; OQueryDur []].
Definition meas_at (s : state) (p : path) : option (option (list mw)) :=
  match resolve (st_heap s) (st_root s) p with
  | Some x => match get (st_heap s) x with Some n => Some (meas n) | None => None end
  | None => None
  end.
Lemma add_measurements_nonvacuous :
  forallb basic_op am_ops = true /\ forallb guard_C09_args am_ops = true /\
  outcomes (init_state nv_init) am_ops = [Done; Done; Done; Done; Done; Done; Done; BadPath; Done] /\
  meas_at (run (init_state nv_init) am_ops) [1%nat] = Some (Some [(1, 0%Q, 1%Q); (5, 10%Q, 1%Q); (6, 21 # 2, 2%Q); (8, 11%Q, 1%Q)]) /\
  meas_at (run (init_state nv_init) am_ops) [0%nat] = Some (Some [(7, 16%Q, 1%Q)]) /\
  meas_at (run (init_state nv_init) am_ops) [] = Some (Some [(9, 104%Q, 1%Q)]).
Proof. repeat split; vm_compute; reflexivity. Qed.
