(* C09 — proofs, part 6: Node.__setitem__ with a simple slice evaluated; Loop.__setitem__(slice) as a replacement of the
   subtree at the node *)
From Coq Require Import List ZArith QArith Bool Lia Arith.
Import ListNotations.
Require Import QV.common.Util QV.C09.Model QV.C09.Proofs QV.C09.Proofs2 QV.C09.Proofs3 QV.C09.Proofs4 QV.C09.Proofs5.
Local Opaque Qred.

(* only the link fields differ *)
Definition lnk (n n' : node) : Prop := n' = set_pidx (pidx n') (set_parent (parent n') n).
Lemma lnk_refl n : lnk n n. Proof. destruct n; reflexivity. Qed.
Lemma lnk_trans a b c : lnk a b -> lnk b c -> lnk a c.
Proof. unfold lnk. intros A B. rewrite B, A. destruct a; reflexivity. Qed.
Lemma lnk_keeps n n' : lnk n n' -> keeps n n'.
Proof. unfold lnk. intros ->. destruct n; repeat split. Qed.
Lemma lnk_set_parent p n : lnk n (set_parent p n). Proof. destruct n; reflexivity. Qed.
Lemma lnk_set_pidx p n : lnk n (set_pidx p n). Proof. destruct n; reflexivity. Qed.

(* heaps that differ in link fields of nodes other than x only *)
Definition lheap (x : id) (h h' : heap) : Prop :=
  length h' = length h /\ get h' x = get h x /\
  forall y, match get h y, get h' y with
            | Some n, Some n' => lnk n n'
            | None, None => True
            | _, _ => False
            end.
Lemma lheap_refl x h : lheap x h h.
Proof. repeat split. intros y. destruct (get h y); auto using lnk_refl. Qed.
Lemma lheap_trans x a b c : lheap x a b -> lheap x b c -> lheap x a c.
Proof.
  intros (L1 & X1 & A) (L2 & X2 & B). repeat split; try congruence.
  intros y. specialize (A y); specialize (B y).
  destruct (get a y), (get b y), (get c y); try contradiction; auto. eapply lnk_trans; eauto.
Qed.
Lemma lheap_upd x h y f : y <> x -> (forall n, lnk n (f n)) -> lheap x h (upd h y f).
Proof.
  intros N F. repeat split; [apply upd_length|apply get_upd_other; auto|].
  intros z. rewrite get_upd. destruct (Nat.eqb y z); destruct (get h z); cbn; auto using lnk_refl.
Qed.
Lemma lheap_get x h h' y n : lheap x h h' -> get h y = Some n -> exists n', get h' y = Some n' /\ lnk n n'.
Proof. intros (_ & _ & A) G. specialize (A y). rewrite G in A. destruct (get h' y); [eauto|contradiction]. Qed.

Lemma bind_modn {B} y f (k : M B) h : (modn y f ;;; k) h = k (upd h y f).
Proof. reflexivity. Qed.
Lemma bind_getn {B} y n (k : node -> M B) h : get h y = Some n -> (n0 <- getn y ;; k n0) h = k n h.
Proof. intros G. unfold bind, getn. now rewrite G. Qed.
Lemma bind_R {A B} (m : M A) (k : A -> M B) h h' a : m h = (h', R a) -> bind m k h = k a h'.
Proof. intros E. unfold bind. now rewrite E. Qed.
Lemma bind_E {A B} (m : M A) (k : A -> M B) h h' e : m h = (h', E e) -> bind m k h = (h', E e).
Proof. intros E0. unfold bind. now rewrite E0. Qed.

(* ---- phase 1: parse_child re-parents the values ----------------------------------------------------------------------------------- *)
Lemma miter_parent_spec x : forall vals h, ~ In x vals ->
  exists h', miter (fun c => modn c (set_parent (Some x))) vals h = (h', R tt) /\ lheap x h h' /\
    (forall y, ~ In y vals -> get h' y = get h y) /\
    (forall y n, In y vals -> get h y = Some n -> exists n', get h' y = Some n' /\ parent n' = Some x /\ pidx n' = pidx n).
Proof.
  induction vals as [|v vals IH]; intros h NI.
  - exists h. cbn. split; [reflexivity|]. split; [apply lheap_refl|]. split; [auto|]. intros y n [].
  - cbn [miter]. rewrite bind_modn.
    destruct (IH (upd h v (set_parent (Some x)))) as (h' & E & LH & Oth & Val); [intros HIn; apply NI; now right|].
    exists h'. rewrite E. split; auto. split.
    { eapply lheap_trans; [|exact LH]. apply lheap_upd; [intros ->; apply NI; now left|apply lnk_set_parent]. }
    split.
    + intros y NIy. rewrite Oth by (intros H; apply NIy; now right). apply get_upd_other. intros ->; apply NIy; now left.
    + intros y n HIn G. destruct (in_dec Nat.eq_dec y vals) as [HI|HN].
      * destruct (Nat.eq_dec v y) as [->|N].
        -- apply (Val y (set_parent (Some x) n)) in HI; [|now apply get_upd_same].
           destruct HI as (n' & G' & P' & I'). exists n'; repeat split; auto.
        -- apply (Val y n HI). rewrite get_upd_other; auto.
      * destruct HIn as [->|HIn]; [|contradiction].
        rewrite Oth by auto. erewrite get_upd_same by eauto. eexists; split; [reflexivity|]. destruct n; auto.
Qed.

(* ---- phase 3: the renumbering loop ------------------------------------------------------------------------------------------------- *)
Lemma renum_step_1 x : forall cnt a, renum_step x a 1 cnt = renum x a cnt.
Proof. induction cnt as [|c IH]; intros a; cbn; auto. now rewrite IH. Qed.

Lemma renum_spec x n new : children n = new -> NoDup new -> ~ In x new ->
  forall cnt a h, get h x = Some n -> (forall c, In c new -> exists nc, get h c = Some nc) ->
  (a + cnt <= length new)%nat ->
  exists h', renum x (Z.of_nat a) cnt h = (h', R tt) /\ lheap x h h' /\
    (forall y, ~ In y new -> get h' y = get h y) /\
    (forall i c nc, nth_error new i = Some c -> get h c = Some nc ->
       get h' c = Some (if (a <=? i)%nat && (i <? a + cnt)%nat then set_pidx (Some (Z.of_nat i)) nc else nc)).
Proof.
  intros Cn ND NI. induction cnt as [|cnt IH]; intros a h G Live L.
  - exists h. cbn [renum]. split; [reflexivity|]. split; [apply lheap_refl|]. split; [auto|].
    intros i c nc N Gc. replace ((a <=? i)%nat && (i <? a + 0)%nat) with false; auto.
    symmetry. apply andb_false_iff. destruct (Nat.leb_spec a i); auto. right. apply Nat.ltb_ge. lia.
  - cbn [renum]. rewrite (bind_getn x n _ h G). rewrite Cn.
    assert (PI : py_index (Z.of_nat (length new)) (Z.of_nat a) = Some (Z.of_nat a)).
    { unfold py_index. assert ((0 <=? Z.of_nat a)%Z = true) by (apply Z.leb_le; lia).
      assert ((Z.of_nat a <? Z.of_nat (length new))%Z = true) by (apply Z.ltb_lt; lia). now rewrite H, H0. }
    rewrite PI, Nat2Z.id.
    destruct (nth_error new a) as [ch|] eqn:Na; [|apply nth_error_None in Na; lia].
    assert (HIn : In ch new) by (eapply nth_error_In; eauto).
    assert (Nch : ch <> x) by (intros ->; auto).
    rewrite bind_modn.
    set (h1 := upd h ch (set_pidx (Some (Z.of_nat a)))).
    destruct (IH (S a) h1) as (h' & E & LH & Oth & Pos).
    { unfold h1. rewrite get_upd_other; auto. }
    { intros c Hc. unfold h1. rewrite get_upd. destruct (Live c Hc) as (nc & Gc). rewrite Gc. destruct (Nat.eqb ch c); cbn; eauto. }
    { lia. }
    exists h'. replace (Z.of_nat a + 1)%Z with (Z.of_nat (S a)) by lia. rewrite E. split; auto. split.
    { eapply lheap_trans; [|exact LH]. apply lheap_upd; auto. intros; apply lnk_set_pidx. }
    split.
    + intros y NIy. rewrite Oth by auto. unfold h1. apply get_upd_other. intros ->; auto.
    + intros i c nc N Gc. destruct (Nat.eq_dec c ch) as [->|Nc].
      * assert (i = a).
        { apply (proj1 (NoDup_nth_error new) ND); [apply nth_error_Some; congruence|congruence]. }
        subst i. rewrite (Pos a ch (set_pidx (Some (Z.of_nat a)) nc) N) by (unfold h1; now apply get_upd_same).
        replace ((S a <=? a)%nat && (a <? S a + cnt)%nat) with false
          by (symmetry; apply andb_false_iff; left; apply Nat.leb_gt; lia).
        replace ((a <=? a)%nat && (a <? a + S cnt)%nat) with true; auto.
        symmetry. apply andb_true_iff. split; [apply Nat.leb_le; lia|apply Nat.ltb_lt; lia].
      * assert (i <> a) by (intros ->; congruence).
        rewrite (Pos i c nc N) by (unfold h1; rewrite get_upd_other; auto).
        replace ((S a <=? i)%nat && (i <? S a + cnt)%nat) with ((a <=? i)%nat && (i <? a + S cnt)%nat); auto.
        destruct (Nat.leb_spec a i), (Nat.leb_spec (S a) i), (Nat.ltb_spec i (a + S cnt)), (Nat.ltb_spec i (S a + cnt)); cbn; auto; lia.
Qed.

(* ---- phase 4: replaced children forget the node -------------------------------------------------------------------------------------- *)
Lemma detach_spec x vals : forall removed h, ~ In x removed -> (forall c, In c removed -> exists n, get h c = Some n) ->
  exists h', detach_removed x removed vals h = (h', R tt) /\ lheap x h h' /\
    (forall y, ~ In y removed \/ In y vals -> get h' y = get h y) /\
    (forall y n, get h y = Some n -> parent n <> Some x -> get h' y = get h y).
Proof.
  induction removed as [|c removed IH]; intros h NI Live.
  - exists h. cbn. split; [reflexivity|]. split; [apply lheap_refl|auto].
  - unfold detach_removed. cbn [miter]. fold (detach_removed x removed vals).
    assert (NI' : ~ In x removed) by (intros H; apply NI; now right).
    destruct (existsb (Nat.eqb c) vals) eqn:EV.
    + destruct (IH h NI') as (h' & E & LH & Oth & Unt); [intros; apply Live; now right|].
      exists h'. split; [exact E|]. split; [exact LH|]. split; [|exact Unt].
      intros y [N|V]; apply Oth; auto. left. intros H; apply N; now right.
    + assert (NV : ~ In c vals).
      { intros HIn. apply Bool.not_true_iff_false in EV. apply EV. apply existsb_exists. exists c; split; auto. apply Nat.eqb_refl. }
      destruct (Live c (or_introl eq_refl)) as (nc & Gc).
      unfold bind at 1. unfold bind at 1. unfold getn at 1. rewrite Gc.
      assert (Ncx : c <> x) by (intros ->; apply NI; now left).
      assert (STEP : exists h1, (match parent nc with
                                 | Some p => if Nat.eqb p x then modn c (fun n => set_pidx None (set_parent None n)) else ret tt
                                 | None => ret tt end) h = (h1, R tt) /\ lheap x h h1 /\
                                (forall y, y <> c -> get h1 y = get h y) /\
                                (parent nc <> Some x -> h1 = h)).
      { destruct (parent nc) as [p|]; [destruct (Nat.eqb_spec p x)|]; unfold modn, ret;
          eexists; (split; [reflexivity|]); (split; [|split; [intros; try reflexivity|intros; try reflexivity]]); auto using lheap_refl.
        - apply lheap_upd; auto. intros n. destruct n; reflexivity.
        - apply get_upd_other; auto.
        - subst p. congruence. }
      destruct STEP as (h1 & E1 & LH1 & O1 & U1). rewrite E1.
      destruct (IH h1 NI') as (h' & E & LH & Oth & Unt).
      { intros c' Hc'. destruct (Live c' (or_intror Hc')) as (n' & G'). destruct (lheap_get _ _ _ _ _ LH1 G') as (n2 & G2 & _); eauto. }
      exists h'. rewrite E. split; auto. split; [eapply lheap_trans; eauto|]. split.
      { intros y [N|V].
        * rewrite Oth by (left; intros H; apply N; now right). apply O1. intros ->; apply N; now left.
        * destruct (Nat.eq_dec y c) as [->|Nyc]; [contradiction|]. rewrite Oth by auto. apply O1; auto. }
      intros y n G P. assert (E1y : get h1 y = get h y).
      { destruct (Nat.eq_dec y c) as [->|Nyc]; [|apply O1; auto]. assert (n = nc) by congruence. subst n. rewrite U1; auto. }
      rewrite <- E1y. apply (Unt y n); auto. congruence.
Qed.

(* ---- slice.indices for a simple slice -------------------------------------------------------------------------------------------------- *)
Lemma slice_indices_simple a b stp len : (stp = None \/ stp = Some 1%Z) -> (0 <= len)%Z ->
  exists s e, slice_indices a b stp len = Some (s, e, 1%Z) /\ (0 <= s <= len)%Z /\ (0 <= e <= len)%Z /\
              (a = None -> s = 0%Z) /\ (b = None -> e = len).
Proof.
  intros ST L. unfold slice_indices.
  assert (E : match stp with Some s => s | None => 1%Z end = 1%Z) by (destruct ST as [->| ->]; reflexivity).
  rewrite E. cbn.
  set (clip := fun v : Z => if (v <? 0)%Z then (let v' := (v + len)%Z in if (v' <? 0)%Z then 0%Z else v')
                            else if (len <=? v)%Z then len else v).
  assert (CL : forall v, (0 <= clip v <= len)%Z).
  { intros v. unfold clip. destruct (Z.ltb_spec v 0); [destruct (Z.ltb_spec (v + len) 0)|destruct (Z.leb_spec len v)]; lia. }
  exists (match a with Some v => clip v | None => 0%Z end), (match b with Some v => clip v | None => len end).
  split; [reflexivity|]. split; [destruct a; [apply CL|lia]|]. split; [destruct b; [apply CL|lia]|].
  split; intros ->; reflexivity.
Qed.

(* ---- list facts ---------------------------------------------------------------------------------------------------------------------- *)
Lemma nodup_app {A} (l1 l2 : list A) : NoDup (l1 ++ l2) <-> NoDup l1 /\ NoDup l2 /\ (forall a, In a l1 -> ~ In a l2).
Proof.
  induction l1 as [|a l1 IH]; cbn.
  - split; [intros H; repeat split; auto; constructor|intros (_ & H & _); auto].
  - split.
    + intros H. inversion H as [|? ? NI ND]; subst. apply IH in ND as (N1 & N2 & D).
      split; [constructor; auto; intros HIn; apply NI; apply in_or_app; now left|].
      split; auto. intros b [<-|HIn]; [intros H2; apply NI; apply in_or_app; now right|auto].
    + intros (N1 & N2 & D). inversion N1 as [|? ? NI ND]; subst. constructor.
      * intros HIn. apply in_app_or in HIn as [HIn|HIn]; [auto|]. apply (D a); auto.
      * apply IH. repeat split; auto.
Qed.

Lemma skipn_skipn' {A} (l : list A) : forall b a, skipn a (skipn b l) = skipn (b + a) l.
Proof.
  revert l. intros l b; revert l. induction b as [|b IH]; intros l a; cbn [skipn plus]; auto.
  destruct l; [now rewrite !skipn_nil|]. cbn. apply IH.
Qed.

Lemma split3 {A} (l : list A) i j : (i <= j)%nat -> (j <= length l)%nat ->
  exists A0 Rm B, l = A0 ++ Rm ++ B /\ firstn i l = A0 /\ skipn j l = B /\ firstn (j - i) (skipn i l) = Rm /\
                  length A0 = i /\ length Rm = (j - i)%nat.
Proof.
  intros L1 L2. exists (firstn i l), (firstn (j - i) (skipn i l)), (skipn j l).
  split.
  - rewrite <- (firstn_skipn i l) at 1. f_equal.
    rewrite <- (firstn_skipn (j - i) (skipn i l)) at 1. f_equal.
    rewrite skipn_skipn'. f_equal. lia.
  - repeat split; auto; [rewrite firstn_length; lia|rewrite firstn_length, skipn_length; lia].
Qed.

(* what the slice assignment leaves behind (R tt outcome) *)
Definition slice_eval_post (h : heap) (x : id) (nx : node) (a b stp : option Z) (vals : list id) : Prop :=
  let cs := children nx in
  exists h' new,
    node_setitem_slice x a b stp vals h = (h', R tt) /\ length h' = length h /\
    get h' x = Some (set_children new nx) /\
    (forall y n, y <> x -> get h y = Some n -> exists n', get h' y = Some n' /\ lnk n n') /\
    (forall y, y <> x -> ~ In y vals -> ~ In y cs -> get h' y = get h y) /\
    (forall i c, nth_error new i = Some c ->
       exists n', get h' c = Some n' /\ parent n' = Some x /\ pidx n' = Some (Z.of_nat i)) /\
    (forall c, In c new -> In c cs \/ In c vals) /\ (forall v, In v vals -> In v new) /\ NoDup new /\ ~ In x new /\
    ((a = None /\ b = None /\ (stp = None \/ stp = Some 1%Z)) -> new = vals) /\
    (forall y n, y <> x -> ~ In y new -> get h y = Some n -> parent n <> Some x -> get h' y = get h y).

(* ---- Node.__setitem__ with a simple slice -------------------------------------------------------------------------------------------------- *)
Section SimpleSlice.
  Variables (h : heap) (x : id) (nx : node) (a b stp : option Z) (vals : list id).
  Let cs := children nx.
  Hypothesis ST : stp = None \/ stp = Some 1%Z.
  Hypothesis Gx : get h x = Some nx.
  Hypothesis NIc : ~ In x cs.
  Hypothesis NIv : ~ In x vals.
  Hypothesis NDc : NoDup cs.
  Hypothesis NDv : NoDup vals.
  (* the links of the old children are only needed when some of them are kept *)
  Hypothesis Lc : forall i c, nth_error cs i = Some c ->
                  exists n, get h c = Some n /\ ((a = None /\ b = None) \/ (parent n = Some x /\ pidx n = Some (Z.of_nat i))).
  Hypothesis Lv : forall c, In c vals -> exists n, get h c = Some n.
  Hypothesis DJ : (forall v, In v vals -> ~ In v cs) \/ (a = None /\ b = None).

  Lemma setitem_simple_eval : slice_eval_post h x nx a b stp vals.
  Proof.
    unfold slice_eval_post. fold cs.
    set (len := Z.of_nat (length cs)).
    destruct (slice_indices_simple a b stp len ST) as (s & e & SI & Rs & Re & Sa & Sb); [unfold len; lia|].
    set (sn := Z.to_nat s). set (en := Z.to_nat (Z.max s e)).
    assert (L1 : (sn <= en)%nat) by (unfold sn, en; lia).
    assert (L2 : (en <= length cs)%nat) by (unfold en, len in *; lia).
    destruct (split3 cs sn en L1 L2) as (A0 & Rm & B & Ecs & EA & EB & ERm & LA & LRm).
    set (new := A0 ++ vals ++ B).
    assert (NDparts : NoDup A0 /\ NoDup Rm /\ NoDup B /\ (forall c, In c A0 -> ~ In c Rm /\ ~ In c B) /\ (forall c, In c Rm -> ~ In c B)).
    { pose proof NDc as ND. rewrite Ecs in ND. apply nodup_app in ND as (N1 & N23 & D1).
      apply nodup_app in N23 as (N2 & N3 & D2). repeat split; auto.
      - intros HIn. apply (D1 c H). apply in_or_app; now left.
      - intros HIn. apply (D1 c H). apply in_or_app; now right. }
    destruct NDparts as (NDA & NDR & NDB & DA & DR).
    assert (InA : forall c, In c A0 -> In c cs) by (intros c H; rewrite Ecs; apply in_or_app; now left).
    assert (InR : forall c, In c Rm -> In c cs) by (intros c H; rewrite Ecs; apply in_or_app; right; apply in_or_app; now left).
    assert (InB : forall c, In c B -> In c cs) by (intros c H; rewrite Ecs; apply in_or_app; right; apply in_or_app; now right).
    assert (FULL : a = None /\ b = None -> A0 = [] /\ B = []).
    { intros (Ea & Eb). assert (s = 0%Z) by auto. assert (e = len) by auto.
      assert (sn = 0%nat) by (unfold sn; lia). assert (en = length cs) by (unfold en, len in *; lia).
      split; [rewrite <- EA, H1; reflexivity|rewrite <- EB, H2; apply skipn_all]. }
    assert (NDnew : NoDup new).
    { destruct DJ as [D|F].
      - unfold new. apply nodup_app. split; auto. split.
        + apply nodup_app. repeat split; auto. intros v Hv HB. apply (D v Hv). auto.
        + intros c HA HIn. apply in_app_or in HIn as [Hv|HB]; [apply (D c Hv); auto|apply (DA c HA); auto].
      - destruct (FULL F) as (-> & ->). unfold new. cbn. now rewrite app_nil_r. }
    assert (NInew : ~ In x new).
    { unfold new. intros HIn. apply in_app_or in HIn as [H|H]; [apply NIc; auto|].
      apply in_app_or in H as [H|H]; [auto|apply NIc; auto]. }
    (* phase 1 *)
    destruct (miter_parent_spec x vals h NIv) as (h1 & E1 & LH1 & O1 & V1).
    assert (Gx1 : get h1 x = Some nx) by (destruct LH1 as (_ & Ex & _); congruence).
    unfold node_setitem_slice. rewrite (bind_getn x nx _ h Gx).
    fold cs. fold len. rewrite SI. change (1 =? 1)%Z with true. cbn [negb andb]. cbv iota.
    rewrite (bind_R _ _ _ _ _ E1).
    fold sn. fold en. rewrite EA, EB, ERm. fold new.
    rewrite bind_modn. set (h2 := upd h1 x (set_children new)).
    assert (Gx2 : get h2 x = Some (set_children new nx)) by (unfold h2; now apply get_upd_same).
    assert (O2 : forall y, y <> x -> get h2 y = get h1 y) by (intros; unfold h2; apply get_upd_other; auto).
    (* the state of the listed children before the renumbering *)
    set (k := length vals).
    assert (PRE : forall i c, nth_error new i = Some c ->
              exists n2, get h2 c = Some n2 /\ parent n2 = Some x /\
                         ((i < sn)%nat -> pidx n2 = Some (Z.of_nat i)) /\
                         (k = length Rm -> (sn + k <= i)%nat -> pidx n2 = Some (Z.of_nat i))).
    { intros i c N. assert (Ncx : c <> x) by (intros ->; apply NInew; eapply nth_error_In; eauto).
      rewrite O2 by auto.
      assert (OLD : forall j n, get h c = Some n -> parent n = Some x -> pidx n = Some (Z.of_nat j) ->
                exists n2, get h1 c = Some n2 /\ parent n2 = Some x /\ pidx n2 = Some (Z.of_nat j)).
      { intros j n G P I.
        destruct (in_dec Nat.eq_dec c vals) as [HI|HN].
        - destruct (V1 c n HI G) as (n' & G' & P' & I'). exists n'; repeat split; auto. congruence.
        - exists n. rewrite O1; auto. }
      unfold new in N. destruct (Nat.lt_ge_cases i sn) as [Li|Li].
      - rewrite nth_error_app1 in N by lia.
        assert (Nj : nth_error cs i = Some c) by (rewrite Ecs; rewrite nth_error_app1 by lia; auto).
        destruct (Lc i c Nj) as (n & G & [F|(P & I)]); [destruct (FULL F) as (EA0 & _); rewrite EA0 in LA; cbn in LA; lia|].
        destruct (OLD i n G P I) as (n2 & G2 & P2 & I2). exists n2; repeat split; auto; try (intros; lia).
      - rewrite nth_error_app2 in N by lia. rewrite LA in N.
        destruct (Nat.lt_ge_cases (i - sn) k) as [Lk|Lk].
        + rewrite nth_error_app1 in N by (fold k; lia).
          assert (Hv : In c vals) by (eapply nth_error_In; eauto).
          destruct (Lv c Hv) as (n & G). destruct (V1 c n Hv G) as (n' & G' & P' & _).
          exists n'; repeat split; auto; try (intros; lia).
        + rewrite nth_error_app2 in N by (fold k; lia). fold k in N.
          assert (Nj : nth_error cs (sn + length Rm + (i - sn - k)) = Some c).
          { rewrite Ecs. rewrite nth_error_app2 by lia. rewrite nth_error_app2 by lia. rewrite LA.
            replace (sn + length Rm + (i - sn - k) - sn - length Rm)%nat with (i - sn - k)%nat by lia. exact N. }
          destruct (Lc _ c Nj) as (n & G & [F|(P & I)]);
            [destruct (FULL F) as (_ & EB0); rewrite EB0 in N; destruct (i - sn - k)%nat; discriminate|].
          destruct (OLD _ n G P I) as (n2 & G2 & P2 & I2). exists n2; split; [auto|]; split; [auto|]; split; [intros; lia|].
          intros Ek _. rewrite I2. do 2 f_equal. lia. }
    (* phase 3 *)
    assert (RL : range_len s e 1 = Z.of_nat (length Rm)).
    { unfold range_len. change (0 <? 1)%Z with true. cbv iota. rewrite LRm. unfold sn, en.
      destruct (Z.ltb_spec s e); [rewrite Z.div_1_r; lia|lia]. }
    assert (Lnew : length new = (sn + k + length B)%nat) by (unfold new; rewrite !app_length; fold k; lia).
    assert (P3 : exists h3,
       (if negb (Z.of_nat (length vals) =? range_len s e 1)%Z
        then (let first := if (0 <? 1)%Z then s else e in
              n' <- getn x ;; renum x first (Z.to_nat (Z.of_nat (length (children n')) - first)))
        else if (0 <? Z.of_nat (length vals))%Z then renum_step x s 1 (Z.to_nat (range_len s e 1)) else ret tt) h2 = (h3, R tt) /\
       lheap x h2 h3 /\ (forall y, ~ In y new -> get h3 y = get h2 y) /\
       (forall i c, nth_error new i = Some c -> exists n3, get h3 c = Some n3 /\ parent n3 = Some x /\ pidx n3 = Some (Z.of_nat i))).
    { assert (Live2 : forall c, In c new -> exists nc, get h2 c = Some nc).
      { intros c HIn. apply In_nth_error in HIn as (i & Hi). destruct (PRE i c Hi) as (n2 & G2 & _); eauto. }
      assert (Cn2 : children (set_children new nx) = new) by (destruct nx; reflexivity).
      assert (Es : s = Z.of_nat sn) by (unfold sn; lia).
      rewrite RL. fold k. destruct (Z.eqb_spec (Z.of_nat k) (Z.of_nat (length Rm))) as [Ek|Nk]; cbn [negb].
      - apply Nat2Z.inj in Ek. destruct (Z.ltb_spec 0 (Z.of_nat k)) as [Pk|Zk].
        + rewrite renum_step_1. rewrite Nat2Z.id, Es.
          destruct (renum_spec x _ new Cn2 NDnew NInew (length Rm) sn h2 Gx2 Live2) as (h3 & E3 & LH3 & O3 & Pos3); [lia|].
          exists h3. split; auto. split; auto. split; auto.
          intros i c N. destruct (PRE i c N) as (n2 & G2 & P2 & I2a & I2b).
          rewrite (Pos3 i c n2 N G2). eexists; split; [reflexivity|].
          destruct ((sn <=? i)%nat && (i <? sn + length Rm)%nat) eqn:T.
          * destruct n2; cbn in *; auto.
          * split; auto. apply andb_false_iff in T as [T|T].
            -- apply Nat.leb_gt in T. auto.
            -- apply Nat.ltb_ge in T. apply I2b; auto. lia.
        + exists h2. split; [reflexivity|]. split; [apply lheap_refl|]. split; auto.
          intros i c N. destruct (PRE i c N) as (n2 & G2 & P2 & I2a & I2b).
          exists n2; repeat split; auto. destruct (Nat.lt_ge_cases i sn); auto. apply I2b; auto; lia.
      - change (0 <? 1)%Z with true. cbv iota zeta. rewrite (bind_getn x _ _ h2 Gx2). rewrite Cn2.
        replace (Z.to_nat (Z.of_nat (length new) - s)) with (length new - sn)%nat by lia. rewrite Es.
        destruct (renum_spec x _ new Cn2 NDnew NInew (length new - sn) sn h2 Gx2 Live2) as (h3 & E3 & LH3 & O3 & Pos3); [lia|].
        exists h3. split; auto. split; auto. split; auto.
        intros i c N. destruct (PRE i c N) as (n2 & G2 & P2 & I2a & I2b).
        rewrite (Pos3 i c n2 N G2). eexists; split; [reflexivity|].
        assert (Li : (i < length new)%nat) by (apply nth_error_Some; congruence).
        destruct ((sn <=? i)%nat && (i <? sn + (length new - sn))%nat) eqn:T.
        + destruct n2; cbn in *; auto.
        + split; auto. apply andb_false_iff in T as [T|T]; [apply Nat.leb_gt in T; auto|apply Nat.ltb_ge in T; lia]. }
    destruct P3 as (h3 & E3 & LH3 & O3 & Pos3).
    rewrite (bind_R _ _ _ _ _ E3).
    (* phase 4 *)
    assert (NIR : ~ In x Rm) by (intros H; apply NIc; auto).
    assert (LH13 : forall y n, y <> x -> get h1 y = Some n -> exists n3, get h3 y = Some n3 /\ lnk n n3).
    { intros y n N G. rewrite <- O2 in G by auto. eapply lheap_get; eauto. }
    destruct (detach_spec x vals Rm h3 NIR) as (h4 & E4 & LH4 & O4 & U4).
    { intros c HIn. assert (c <> x) by (intros ->; auto). destruct (In_nth_error _ _ (InR c HIn)) as (j & Hj). destruct (Lc j c Hj) as (n & G & _).
      destruct (lheap_get _ _ _ _ _ LH1 G) as (n1 & G1 & _). destruct (LH13 c n1 H G1) as (n3 & G3 & _); eauto. }
    exists h4, new. rewrite E4. split; auto. split.
    { destruct LH4 as (L4 & _). destruct LH3 as (L3 & _). destruct LH1 as (L1' & _). rewrite L4, L3. unfold h2. rewrite upd_length. auto. }
    split.
    { destruct LH4 as (_ & X4 & _). destruct LH3 as (_ & X3 & _). congruence. }
    split.
    { intros y n N G. destruct (lheap_get _ _ _ _ _ LH1 G) as (n1 & G1 & K1).
      destruct (LH13 y n1 N G1) as (n3 & G3 & K3). destruct (lheap_get _ _ _ _ _ LH4 G3) as (n4 & G4 & K4).
      exists n4; split; auto. eapply lnk_trans; eauto. eapply lnk_trans; eauto. }
    split.
    { intros y N NV NC. rewrite O4 by (left; intros H; apply NC; auto).
      rewrite O3; [rewrite O2 by auto; apply O1; auto|].
      unfold new. intros HIn. apply in_app_or in HIn as [H|H]; [apply NC; auto|].
      apply in_app_or in H as [H|H]; [auto|apply NC; auto]. }
    split.
    { intros i c N. destruct (Pos3 i c N) as (n3 & G3 & P3' & I3). exists n3. split; auto.
      rewrite O4; auto. unfold new in N. apply nth_error_In in N.
      apply in_app_or in N as [H|H]; [left; apply (DA c H)|].
      apply in_app_or in H as [H|H]; [now right|left]. intros HR. apply (DR c HR); auto. }
    split.
    { unfold new. intros c HIn. apply in_app_or in HIn as [H|H]; [left; auto|].
      apply in_app_or in H as [H|H]; [now right|left; auto]. }
    split.
    { intros v Hv. unfold new. apply in_or_app; right; apply in_or_app; now left. }
    split; auto. split; auto. split.
    { intros (F1 & F2 & _). destruct (FULL (conj F1 F2)) as (-> & ->). unfold new. cbn. apply app_nil_r. }
    intros y n N NIy G P.
    assert (NVy : ~ In y vals) by (intros Hv; apply NIy; unfold new; apply in_or_app; right; apply in_or_app; now left).
    assert (G3 : get h3 y = get h y) by (rewrite O3 by auto; rewrite O2 by auto; apply O1; auto).
    rewrite (U4 y n); congruence.
  Qed.
End SimpleSlice.

(* ---- clearing caches never hurts ------------------------------------------------------------------------------------------------------------ *)
Lemma invalidate_none_any fuel y h h' res r : invalidate fuel y None h = (h', res) -> Inv h r -> Inv h' r.
Proof.
  intros H I. destruct (invalidate_none_cache_only _ _ _ _ _ H) as (CO & SAME).
  eapply InvExc_cache_only; [exact CO|exact I|].
  intros z Rz _. eapply cvalid_cache_only_same; eauto. apply (inv_cache _ _ _ I); auto.
Qed.

Lemma cache_only_lheap_like h h' y n : cache_only h h' -> get h y = Some n ->
  exists n', get h' y = Some n' /\ children n' = children n /\ parent n' = parent n /\ pidx n' = pidx n /\
             rdf n' = rdf n /\ wform n' = wform n /\ meas n' = meas n.
Proof.
  intros C G. destruct (cache_only_get _ _ _ _ C G) as (n' & G' & E). exists n'. split; auto.
  rewrite E. destruct n; cbn; repeat split.
Qed.

(* a child's subtree contains neither the parent nor a sibling *)
Lemma child_subtree_sep h r x nx c y : Inv h r -> reach h r x -> get h x = Some nx -> In c (children nx) -> reach h c y ->
  y <> x /\ (y <> c -> ~ In y (children nx)).
Proof.
  intros I Rx G HIn Rc. split.
  - intros ->. assert (Rxc : reach h x c) by (eapply reach_child; eauto).
    assert (x = c) by (eapply (acyclic _ _ _ I); eauto). subst c.
    destruct (inv_rank _ _ _ I) as (rk & Hrk). specialize (Hrk x nx x Rx G HIn). lia.
  - intros N HIy. apply N. symmetry. eapply (child_on_path_unique _ _ _ I x nx y c y); eauto. constructor.
Qed.

(* ---- Loop.__setitem__(simple slice, vals): replacement of the subtree at x, then the reset walk -------------------------------------------------- *)
Section SetSlice.
  Variables (h : heap) (r x : id) (nx : node) (a b stp : option Z) (vals : list id).
  Let cs := children nx.
  Hypothesis I0 : Inv h r.
  Hypothesis Rx : reach h r x.
  Hypothesis Gx : get h x = Some nx.
  Hypothesis EV : slice_eval_post h x nx a b stp vals.
  Hypothesis V1 : NoDup vals.
  Hypothesis V2 : forall v, In v vals -> LI h v (fun _ => False).
  Hypothesis V3 : forall v y, In v vals -> reach h v y -> y <> x /\ (y <> v -> ~ In y vals /\ ~ In y cs).
  Hypothesis V4 : forall v, In v vals -> reach h r v -> reach h x v.
  Hypothesis V5 : (a = None /\ b = None /\ (stp = None \/ stp = Some 1%Z)) \/ (forall c y, In c cs -> reach h c y -> ~ In y vals).

  Lemma setslice_inv_gen h' res :
    loop_setitem_slice x a b stp vals h = (h', res) -> ok_result res ->
    Inv h' r /\ res = R tt /\ reach h' r x /\ length h' = length h /\
    exists new c', get h' x = Some (set_cache c' (set_children new nx)) /\
      (forall c, In c new -> In c cs \/ In c vals) /\ (forall v, In v vals -> In v new) /\
      ((a = None /\ b = None /\ (stp = None \/ stp = Some 1%Z)) -> new = vals) /\
      (forall y n, y <> x -> get h y = Some n -> exists n', get h' y = Some n' /\ rdf n' = rdf n /\ wform n' = wform n /\
                                                  meas n' = meas n /\ children n' = children n) /\
      (forall y, reach h r y -> ~ reach h x y -> exists n n', get h y = Some n /\ get h' y = Some n' /\ n' = set_cache (cache n') n).
  Proof.
    intros H OK.
    assert (NIc : ~ In x cs) by (intros HIn; eapply (rp_x_not_own_child h r x nx I0 Rx Gx); eauto).
    destruct EV as (h1 & new & E1 & Len1 & G1 & LK & SAME & POS & MEM & VIN & NDn & NIn & FULL & _).
    unfold loop_setitem_slice in H. rewrite (bind_R _ _ _ _ _ E1) in H.
    (* the subtree at x after the assignment *)
    assert (LX : LI h1 x (fun y => y = x)).
    { apply (LI_node h1 x (set_children new nx) G1).
      replace (children (set_children new nx)) with new by (destruct nx; reflexivity).
      intros i c N. split; [apply (POS i c N)|].
      assert (HInN : In c new) by (eapply nth_error_In; eauto).
      assert (CASE : In c vals \/ (In c cs /\ forall y, reach h c y -> ~ In y vals)).
      { destruct V5 as [F|S].
        - left. rewrite (FULL F) in HInN. exact HInN.
        - destruct (MEM c HInN) as [Hc|Hv]; [right; split; auto; intros; eapply S; eauto|now left]. }
      destruct CASE as [Hv|(Hc & NV)].
      - apply (LI_frame h h1 c _ (V2 c Hv)). intros y n Ry Gy.
        destruct (V3 c y Hv Ry) as (Nyx & Sep).
        destruct (LK y n Nyx Gy) as (n' & G' & K'). exists n'. split; auto. split; [apply lnk_keeps; auto|].
        intros Nyc. destruct (Sep Nyc) as (S1 & S2). rewrite SAME in G' by auto. split; congruence.
      - assert (Rc : reach h x c) by (eapply reach_child; eauto).
        apply (LI_frame h h1 c _ (LI_sub _ _ _ _ (LI_sub _ _ _ _ (InvExc_LI _ _ _ I0) Rx) Rc)). intros y n Ry Gy.
        destruct (child_subtree_sep h r x nx c y I0 Rx Gx Hc Ry) as (Nyx & Sep).
        destruct (LK y n Nyx Gy) as (n' & G' & K'). exists n'. split; auto. split; [apply lnk_keeps; auto|].
        intros Nyc. assert (E : get h1 y = get h y) by (apply SAME; auto). rewrite E in G'. split; congruence. }
    assert (OUT : forall y, reach h r y -> ~ reach h x y -> get h1 y = get h y).
    { intros y Ry NR. apply SAME.
      - intros ->. apply NR. constructor.
      - intros Hv. apply NR. apply V4; auto.
      - intros Hc. apply NR. eapply reach_child; eauto. }
    assert (PP : parent (set_children new nx) = parent nx /\ pidx (set_children new nx) = pidx nx) by (destruct nx; split; reflexivity).
    destruct PP as (PP1 & PP2).
    pose proof (replace_inv h h1 r x nx _ I0 Rx Gx G1 PP1 PP2 LX OUT) as IE.
    pose proof (rp_reach_x h h1 r x nx I0 Rx Gx OUT) as Rx1.
    unfold invalidate_all in H. rewrite fueled_eq in H.
    destruct (invalidate _ x None h1) as (h2, [[]|e]) eqn:W; inversion H; subst h2 res.
    2:{ destruct OK as (N1 & N2). destruct (invalidate_none_err _ _ _ _ _ W); congruence. }
    destruct (invalidate_none_cache_only _ _ _ _ _ W) as (CO & _).
    split; [eapply invalidate_none_spec; eauto|]. split; auto.
    split; [eapply reach_shape; [apply cache_only_shape; exact CO|exact Rx1]|].
    split.
    { rewrite <- Len1. clear - CO. revert CO. generalize h1 h'. intros ha hb C.
      destruct (Nat.lt_trichotomy (length ha) (length hb)) as [L|[L|L]]; auto; exfalso.
      - specialize (C (length ha)). destruct (get ha (length ha)) eqn:G1; [apply get_lt in G1; lia|].
        destruct (get hb (length ha)) eqn:G2; auto. apply nth_error_None in G2. lia.
      - specialize (C (length hb)). destruct (get hb (length hb)) eqn:G1; [apply get_lt in G1; lia|].
        destruct (get ha (length hb)) eqn:G2; auto. apply nth_error_None in G2. lia. }
    destruct (cache_only_get _ _ _ _ CO G1) as (nx' & Gx' & Ex').
    exists new, (cache nx'). split; [rewrite Gx'; f_equal; rewrite Ex'; destruct nx; reflexivity|].
    split; auto. split; auto. split; auto. split.
    - intros y n N G. destruct (LK y n N G) as (n1 & Gn1 & K1).
      destruct (cache_only_lheap_like _ _ _ _ CO Gn1) as (n2 & Gn2 & C2 & _ & _ & R2 & W2 & M2).
      exists n2. split; auto. unfold lnk in K1. rewrite K1 in *. destruct n; cbn in *. repeat split; congruence.
    - intros y Ry NR. destruct (live_get _ _ _ I0 y Ry) as (n & G). rewrite <- (OUT y Ry NR) in G.
      destruct (cache_only_get _ _ _ _ CO G) as (n' & G' & E'). rewrite (OUT y Ry NR) in G. eauto.
  Qed.
End SetSlice.

Lemma setslice_inv h r x nx a b stp vals :
  Inv h r -> reach h r x -> get h x = Some nx -> (stp = None \/ stp = Some 1%Z) -> NoDup vals ->
  (forall v, In v vals -> LI h v (fun _ => False)) ->
  (forall v y, In v vals -> reach h v y -> y <> x /\ (y <> v -> ~ In y vals /\ ~ In y (children nx))) ->
  (forall v, In v vals -> reach h r v -> reach h x v) ->
  ((a = None /\ b = None) \/ (forall c y, In c (children nx) -> reach h c y -> ~ In y vals)) ->
  forall h' res, loop_setitem_slice x a b stp vals h = (h', res) -> ok_result res ->
    Inv h' r /\ res = R tt /\ reach h' r x /\ length h' = length h /\
    exists new c', get h' x = Some (set_cache c' (set_children new nx)) /\
      (forall c, In c new -> In c (children nx) \/ In c vals) /\ (forall v, In v vals -> In v new) /\
      ((a = None /\ b = None) -> new = vals) /\
      (forall y n, y <> x -> get h y = Some n -> exists n', get h' y = Some n' /\ rdf n' = rdf n /\ wform n' = wform n /\
                                                  meas n' = meas n /\ children n' = children n) /\
      (forall y, reach h r y -> ~ reach h x y -> exists n n', get h y = Some n /\ get h' y = Some n' /\ n' = set_cache (cache n') n).
Proof.
  intros I0 Rx Gx ST V1 V2 V3 V4 V5 h' res H OK.
  assert (EV : slice_eval_post h x nx a b stp vals).
  { assert (NIc : ~ In x (children nx)) by (intros HIn; eapply (rp_x_not_own_child h r x nx I0 Rx Gx); eauto).
    assert (NIv : ~ In x vals) by (intros HIn; destruct (V3 x x HIn (reach_refl _ _)) as (N & _); congruence).
    assert (NDc : NoDup (children nx)) by (eapply (children_NoDup _ _ _ I0); eauto).
    apply setitem_simple_eval; auto.
    - intros i c N. destruct (inv_links _ _ _ I0 _ _ _ _ Rx Gx N) as (n & G & P & I). eauto.
    - intros c HIn. eapply LI_live; [apply (V2 c HIn)|constructor].
    - destruct V5 as [F|S]; [now right|left]. intros v Hv Hc. apply (S v v Hc (reach_refl _ _) Hv). }
  assert (V5' : (a = None /\ b = None /\ (stp = None \/ stp = Some 1%Z)) \/ (forall c y, In c (children nx) -> reach h c y -> ~ In y vals))
    by (destruct V5 as [(F1 & F2)|S]; [left; auto|right; auto]).
  destruct (setslice_inv_gen h r x nx a b stp vals I0 Rx Gx EV V2 V3 V4 V5' h' res H OK)
    as (I' & E' & Rx' & L' & new & c' & G' & M' & VI' & F' & K' & O').
  split; auto. split; auto. split; auto. split; auto. exists new, c'.
  split; auto. split; auto. split; auto. split; [intros (F1 & F2); apply F'; auto|]. split; auto.
Qed.
