(* C09 — proofs, part 1: the invariant, frame lemmas, the reset walk, the setters, the memoising queries *)
From Coq Require Import List ZArith QArith Bool Lia Arith.
Import ListNotations.
Require Import QV.common.Util QV.C09.Model.

(* ---- heap lemmas -------------------------------------------------------------------------------------------------- *)
Lemma upd_list_length {A} (l : list A) i f : length (upd_list l i f) = length l.
Proof. revert i; induction l; intros [|i]; cbn; auto. Qed.

Lemma nth_upd_list_same {A} (l : list A) i f a :
  nth_error l i = Some a -> nth_error (upd_list l i f) i = Some (f a).
Proof. revert i; induction l; intros [|i] H; cbn in *; try discriminate; auto. congruence. Qed.

Lemma nth_upd_list_none {A} (l : list A) i f j :
  nth_error l j = None -> nth_error (upd_list l i f) j = None.
Proof.
  intros H. apply nth_error_None. rewrite upd_list_length. now apply nth_error_None.
Qed.

Lemma nth_upd_list_other {A} (l : list A) i j f :
  i <> j -> nth_error (upd_list l i f) j = nth_error l j.
Proof.
  revert i j; induction l; intros [|i] [|j] H; cbn; auto; try congruence.
Qed.

Lemma get_upd_same h x f n : get h x = Some n -> get (upd h x f) x = Some (f n).
Proof. apply nth_upd_list_same. Qed.
Lemma get_upd_other h x y f : x <> y -> get (upd h x f) y = get h y.
Proof. apply nth_upd_list_other. Qed.
Lemma get_upd h x y f :
  get (upd h x f) y = if Nat.eqb x y then option_map f (get h y) else get h y.
Proof.
  destruct (Nat.eqb_spec x y) as [->|N].
  - destruct (get h y) eqn:E; cbn.
    + now apply get_upd_same.
    + now apply nth_upd_list_none.
  - now apply get_upd_other.
Qed.

(* ---- reachability, recomputed duration ----------------------------------------------------------------------------- *)
Inductive reach (h : heap) (a : id) : id -> Prop :=
| reach_refl : reach h a a
| reach_step p np c : reach h a p -> get h p = Some np -> In c (children np) -> reach h a c.

Lemma reach_trans h a b c : reach h a b -> reach h b c -> reach h a c.
Proof. intros H1 H2; induction H2; eauto using reach. Qed.

Lemma reach_child h p np c : get h p = Some np -> In c (children np) -> reach h p c.
Proof. intros; eapply reach_step; eauto using reach. Qed.

Definition leaf_dur (n : node) : Q := match wform n with Some w => Qred (wf_dur w) | None => 0%Q end.
Definition rep_of (n : node) : Q := inject_Z (rep_count (rdf n)).

Inductive tbody (h : heap) : id -> Q -> Prop :=
| TB_leaf x n : get h x = Some n -> children n = [] -> tbody h x (leaf_dur n)
| TB_inner x n s : get h x = Some n -> children n <> [] -> tsum h (children n) s -> tbody h x s
with tsum (h : heap) : list id -> Q -> Prop :=
| TS_nil : tsum h [] 0%Q
| TS_cons c cs b nc s : tbody h c b -> get h c = Some nc -> tsum h cs s -> tsum h (c :: cs) (b * rep_of nc + s)%Q.

Scheme tbody_mind := Induction for tbody Sort Prop
  with tsum_mind := Induction for tsum Sort Prop.
Combined Scheme tbody_tsum_ind from tbody_mind, tsum_mind.

Lemma tbody_tsum_fun h :
  (forall x b, tbody h x b -> forall b', tbody h x b' -> b = b') /\
  (forall l s, tsum h l s -> forall s', tsum h l s' -> s = s').
Proof.
  apply tbody_tsum_ind.
  - intros x n G C b' H'. inversion H'; subst.
    + rewrite G in H; inversion H; subst; auto.
    + rewrite G in H; inversion H; subst; congruence.
  - intros x n s G C T IH b' H'. inversion H'; subst.
    + rewrite G in H; inversion H; subst; congruence.
    + rewrite G in H; inversion H; subst. now apply IH.
  - intros s' H'. inversion H'; auto.
  - intros c cs b nc s T IH G T2 IH2 s' H'. inversion H'; subst.
    match goal with |- _ = (?b0 * rep_of ?m + ?s0)%Q =>
      assert (m = nc) by congruence; subst m;
      assert (b = b0) by (apply IH; assumption); assert (s = s0) by (apply IH2; assumption); subst; reflexivity end.
Qed.
Lemma tbody_fun h x b b' : tbody h x b -> tbody h x b' -> b = b'.
Proof. intros H; now apply (proj1 (tbody_tsum_fun h)). Qed.

(* frame: the recomputed duration of y only reads nodes reachable from y *)
Lemma tbody_tsum_frame h h' :
  (forall x b, tbody h x b -> (forall z, reach h x z -> get h' z = get h z) -> tbody h' x b) /\
  (forall l s, tsum h l s -> (forall c z, In c l -> reach h c z -> get h' z = get h z) -> tsum h' l s).
Proof.
  apply tbody_tsum_ind.
  - intros x n G C F. apply (TB_leaf h' x n); auto. rewrite F; auto; constructor.
  - intros x n s G C T IH F. apply (TB_inner h' x n); auto.
    + rewrite F; auto; constructor.
    + apply IH. intros c z I R. apply F. eapply reach_trans; [eapply reach_child; eauto|auto].
  - constructor.
  - intros c cs b nc s T IH G T2 IH2 F. constructor.
    + apply IH. intros z R. eapply F; [left; reflexivity|auto].
    + rewrite (F c c); auto; [now left|constructor].
    + apply IH2. intros c' z I R. eapply F; [right; eauto|auto].
Qed.
Lemma tbody_frame h h' x b :
  tbody h x b -> (forall z, reach h x z -> get h' z = get h z) -> tbody h' x b.
Proof. apply (proj1 (tbody_tsum_frame h h')). Qed.

(* nodes agree on everything the recomputation and reachability read *)
Definition shape (n : node) := (children n, rdf n, wform n).
Definition same_shape (h h' : heap) := forall y, option_map shape (get h y) = option_map shape (get h' y).

Lemma same_shape_sym h h' : same_shape h h' -> same_shape h' h.
Proof. intros H y; symmetry; apply H. Qed.

Lemma same_shape_get h h' y n : same_shape h h' -> get h y = Some n ->
  exists n', get h' y = Some n' /\ children n' = children n /\ rdf n' = rdf n /\ wform n' = wform n.
Proof.
  intros S G. specialize (S y). rewrite G in S. destruct (get h' y) as [n'|]; cbn in S; [|discriminate].
  unfold shape in S. inversion S. eauto.
Qed.

Lemma tbody_tsum_shape h h' : same_shape h h' ->
  (forall x b, tbody h x b -> tbody h' x b) /\ (forall l s, tsum h l s -> tsum h' l s).
Proof.
  intros S. apply tbody_tsum_ind.
  - intros x n G C. destruct (same_shape_get _ _ _ _ S G) as (n' & G' & C' & R' & W').
    replace (leaf_dur n) with (leaf_dur n') by (unfold leaf_dur; now rewrite W').
    apply (TB_leaf h' x n'); congruence.
  - intros x n s G C T IH. destruct (same_shape_get _ _ _ _ S G) as (n' & G' & C' & R' & W').
    apply (TB_inner h' x n'); auto; congruence.
  - constructor.
  - intros c cs b nc s T IH G T2 IH2. destruct (same_shape_get _ _ _ _ S G) as (n' & G' & C' & R' & W').
    replace (rep_of nc) with (rep_of n') by (unfold rep_of; now rewrite R').
    constructor; auto.
Qed.
Lemma tbody_shape h h' x b : same_shape h h' -> tbody h x b -> tbody h' x b.
Proof. intros S; apply (proj1 (tbody_tsum_shape h h' S)). Qed.

Lemma reach_shape h h' a b : same_shape h h' -> reach h a b -> reach h' a b.
Proof.
  intros S R; induction R; [constructor|].
  destruct (same_shape_get _ _ _ _ S H) as (n' & G' & C' & _).
  eapply reach_step; eauto. now rewrite C'.
Qed.

(* ---- the invariant ------------------------------------------------------------------------------------------------- *)
(* the cached body duration of y, if any, equals the recomputed one *)
Definition cvalid (h : heap) (y : id) : Prop :=
  forall n c, get h y = Some n -> cache n = Some c -> exists b, tbody h y b /\ (c == b)%Q.

Record InvExc (h : heap) (r : id) (P : id -> Prop) : Prop := {
  inv_root : exists nr, get h r = Some nr /\ parent nr = None;
  (* I2 + I3: every child listed at position i of a reachable node records that position and that parent *)
  inv_links : forall p np i c, reach h r p -> get h p = Some np -> nth_error (children np) i = Some c ->
              exists nc, get h c = Some nc /\ parent nc = Some p /\ pidx nc = Some (Z.of_nat i);
  (* the reachable part is a well-founded tree *)
  inv_rank : exists rk : id -> nat, forall p np c, reach h r p -> get h p = Some np -> In c (children np) -> (rk c < rk p)%nat;
  (* I1, for every reachable node outside the exception set *)
  inv_cache : forall x, reach h r x -> ~ P x -> cvalid h x
}.
Definition Inv (h : heap) (r : id) : Prop := InvExc h r (fun _ => False).

Lemma InvExc_weaken h r (P Q : id -> Prop) : (forall x, reach h r x -> Q x -> P x) -> InvExc h r Q -> InvExc h r P.
Proof. intros W [A B C D]; split; auto. Qed.

Section Facts.
  Variables (h : heap) (r : id) (P : id -> Prop).
  Hypothesis I : InvExc h r P.

  Lemma live_get x : reach h r x -> exists n, get h x = Some n.
  Proof.
    intros R; inversion R; subst.
    - destruct (inv_root _ _ _ I) as (nr & G & _); eauto.
    - apply In_nth_error in H1 as (i & Hi).
      destruct (inv_links _ _ _ I _ _ _ _ H H0 Hi) as (nc & G & _); eauto.
  Qed.

  Lemma lister_unique x p np : reach h r p -> get h p = Some np -> In x (children np) ->
    exists nx, get h x = Some nx /\ parent nx = Some p.
  Proof.
    intros R G HIn. apply In_nth_error in HIn as (i & Hi).
    destruct (inv_links _ _ _ I _ _ _ _ R G Hi) as (nc & G' & Pp & _); eauto.
  Qed.

  Lemma rank_reach : exists rk : id -> nat, forall a b, reach h r a -> reach h a b -> a <> b -> (rk b < rk a)%nat.
  Proof.
    destruct (inv_rank _ _ _ I) as (rk & Hrk). exists rk.
    intros a b Ra Rab. induction Rab; intros N; [congruence|].
    assert ((rk c < rk p)%nat) by (eapply Hrk; eauto; eapply reach_trans; eauto).
    destruct (Nat.eq_dec a p) as [->|N']; [auto|]. specialize (IHRab N'). lia.
  Qed.

  Lemma acyclic a b : reach h r a -> reach h a b -> reach h b a -> a = b.
  Proof.
    intros Ra Rab Rba. destruct rank_reach as (rk & Hrk).
    destruct (Nat.eq_dec a b); auto.
    assert ((rk b < rk a)%nat) by (apply Hrk; auto).
    assert ((rk a < rk b)%nat) by (apply Hrk; auto; eapply reach_trans; eauto).
    lia.
  Qed.

  (* the root is nobody's child *)
  Lemma root_top y : reach h r y -> reach h y r -> y = r.
  Proof. intros R1 R2. symmetry. eapply acyclic; eauto using reach. Qed.

  (* going up: whoever reaches x either is x or reaches x's recorded parent *)
  Lemma reach_up y x nx p : reach h r y -> reach h y x -> y <> x -> get h x = Some nx -> parent nx = Some p ->
    reach h y p.
  Proof.
    intros Ry R N G Pp. inversion R; subst; [congruence|].
    assert (Rp : reach h r p0) by (eapply reach_trans; eauto).
    destruct (lister_unique _ _ _ Rp H0 H1) as (nx' & G' & Pp'). congruence.
  Qed.

  (* a live non-root node has a live recorded parent that lists it *)
  Lemma live_parent x nx : reach h r x -> get h x = Some nx ->
    (x = r /\ parent nx = None) \/
    (exists p np, parent nx = Some p /\ reach h r p /\ get h p = Some np /\ In x (children np)).
  Proof.
    intros R G. inversion R; subst.
    - left. destruct (inv_root _ _ _ I) as (nr & G' & Pn). split; congruence.
    - right. destruct (lister_unique _ _ _ H H0 H1) as (nx' & G' & Pp).
      exists p, np. repeat split; auto; congruence.
  Qed.

  (* every live node has a recomputed body duration *)
  Lemma live_tbody x : reach h r x -> exists b, tbody h x b.
  Proof.
    destruct (inv_rank _ _ _ I) as (rk & Hrk).
    remember (rk x) as k eqn:Ek. revert x Ek.
    induction k as [k IH] using lt_wf_ind. intros x Ek R.
    destruct (live_get x R) as (n & G).
    destruct (children n) as [|c0 cs0] eqn:C.
    - exists (leaf_dur n). apply (TB_leaf h x n); auto.
    - assert (S : exists s, tsum h (children n) s).
      { assert (Hall : forall c, In c (children n) -> exists b nc, tbody h c b /\ get h c = Some nc).
        { intros c Hc. assert (Rc : reach h r c) by (eapply reach_step; eauto).
          destruct (IH (rk c)) with (x := c) as (b & Tb); auto.
          - subst k. eapply Hrk; eauto.
          - destruct (live_get c Rc) as (nc & Gc). eauto. }
        clear C. induction (children n) as [|c cs IHl].
        - eexists; constructor.
        - destruct IHl as (s & Ts); [intros; apply Hall; now right|].
          destruct (Hall c (or_introl eq_refl)) as (b & nc & Tb & Gc).
          eexists; econstructor; eauto. }
      destruct S as (s & Ts). exists s. apply (TB_inner h x n); auto. congruence.
  Qed.
End Facts.

(* ---- modifications that touch caches only ----------------------------------------------------------------------------- *)
Definition cache_only (h h' : heap) : Prop :=
  forall y, match get h y, get h' y with
            | Some n, Some n' => n' = set_cache (cache n') n
            | None, None => True
            | _, _ => False
            end.

Lemma cache_only_refl h : cache_only h h.
Proof. intros y. destruct (get h y) as [[]|]; cbn; auto. Qed.

Lemma cache_only_trans h1 h2 h3 : cache_only h1 h2 -> cache_only h2 h3 -> cache_only h1 h3.
Proof.
  intros A B y. specialize (A y); specialize (B y).
  destruct (get h1 y) as [n1|], (get h2 y) as [n2|], (get h3 y) as [n3|]; auto; try contradiction.
  rewrite B, A. destruct n1; reflexivity.
Qed.

Lemma cache_only_upd h x c : cache_only h (upd h x (set_cache c)).
Proof.
  intros y. rewrite get_upd. destruct (Nat.eqb x y); destruct (get h y) as [[]|]; cbn; auto.
Qed.

Lemma cache_only_shape h h' : cache_only h h' -> same_shape h h'.
Proof.
  intros C y. specialize (C y). destruct (get h y) as [n|], (get h' y) as [n'|]; try contradiction; auto.
  rewrite C. destruct n; reflexivity.
Qed.

Lemma cache_only_get h h' y n : cache_only h h' -> get h y = Some n ->
  exists n', get h' y = Some n' /\ n' = set_cache (cache n') n.
Proof. intros C G. specialize (C y). rewrite G in C. destruct (get h' y); [eauto|contradiction]. Qed.

Lemma cache_only_get' h h' y n' : cache_only h h' -> get h' y = Some n' ->
  exists n, get h y = Some n /\ n' = set_cache (cache n') n.
Proof. intros C G. specialize (C y). rewrite G in C. destruct (get h y); [eauto|contradiction]. Qed.

(* everything of the invariant except I1 is insensitive to cache-only changes *)
Lemma InvExc_cache_only h h' r P P' :
  cache_only h h' -> InvExc h r P -> (forall x, reach h r x -> ~ P' x -> cvalid h' x) -> InvExc h' r P'.
Proof.
  intros C [A B R D] V.
  pose proof (cache_only_shape _ _ C) as S. pose proof (same_shape_sym _ _ S) as S'.
  split.
  - destruct A as (nr & G & Pn). destruct (cache_only_get _ _ _ _ C G) as (n' & G' & E).
    exists n'; split; auto. rewrite E. destruct nr; cbn in *; auto.
  - intros p np i c Rp G Hi.
    destruct (cache_only_get' _ _ _ _ C G) as (n & Gn & E).
    assert (Hi' : nth_error (children n) i = Some c) by (rewrite E in Hi; destruct n; exact Hi).
    destruct (B p n i c (reach_shape _ _ _ _ S' Rp) Gn Hi') as (nc & Gc & Pc & Ic).
    destruct (cache_only_get _ _ _ _ C Gc) as (nc' & Gc' & Ec).
    exists nc'; split; auto. rewrite Ec. destruct nc; cbn in *; auto.
  - destruct R as (rk & Hrk). exists rk. intros p np c Rp G HIn.
    destruct (cache_only_get' _ _ _ _ C G) as (n & Gn & E).
    eapply Hrk; eauto using reach_shape. rewrite E in HIn. destruct n; exact HIn.
  - intros x Rx NP. apply V; auto. eapply reach_shape; eauto.
Qed.

Lemma cvalid_cache_only_same h h' y :
  cache_only h h' -> cvalid h y ->
  (forall n n', get h y = Some n -> get h' y = Some n' -> cache n' = cache n \/ cache n' = None) -> cvalid h' y.
Proof.
  intros C V Same n' c G' Cc.
  destruct (cache_only_get' _ _ _ _ C G') as (n & G & E).
  destruct (Same n n' G G') as [Eq|Eq]; [|congruence].
  destruct (V n c G) as (b & Tb & Qb); [congruence|].
  exists b; split; auto. eapply tbody_shape; eauto using cache_only_shape.
Qed.

(* ---- the reset walk (Loop._invalidate_duration()) ------------------------------------------------------------------------ *)
Definition ok_result {A} (r : result A) : Prop := match r with R _ => True | E e => e <> ExFuel /\ e <> ExDangling end.

(* clears caches only *)
Lemma invalidate_none_cache_only fuel : forall x h h' res,
  invalidate fuel x None h = (h', res) ->
  cache_only h h' /\ (forall y n n', get h y = Some n -> get h' y = Some n' -> cache n' = cache n \/ cache n' = None).
Proof.
  induction fuel as [|f IH]; intros x h h' res H; cbn in H.
  - inversion H; subst. split; [apply cache_only_refl|]. intros; left; congruence.
  - unfold bind, getn in H. destruct (get h x) as [n|] eqn:G.
    2:{ inversion H; subst. split; [apply cache_only_refl|]. intros; left; congruence. }
    set (h1 := match cache n with Some _ => upd h x (set_cache None) | None => h end).
    assert (H1 : cache_only h h1 /\ (forall y m m', get h y = Some m -> get h1 y = Some m' -> cache m' = cache m \/ cache m' = None)).
    { unfold h1. destruct (cache n).
      - split; [apply cache_only_upd|]. intros y m m' Gm Gm'. rewrite get_upd in Gm'.
        destruct (Nat.eqb x y); [|left; congruence]. rewrite Gm in Gm'. cbn in Gm'. inversion Gm'. right; destruct m; reflexivity.
      - split; [apply cache_only_refl|]. intros; left; congruence. }
    assert (H' : (match parent n with
                  | None => ret tt
                  | Some p => fun h0 => match getn p h0 with
                                        | (h0', R np) => (if truthy np then invalidate f p None else ret tt) h0'
                                        | (h0', E e) => (h0', E e) end
                  end) h1 = (h', res)).
    { unfold h1. destruct (cache n); cbn in H; unfold modn, ret, bind in *; cbn in *; exact H. }
    clear H. destruct H1 as (C1 & S1).
    destruct (parent n) as [p|].
    + unfold getn in H'. destruct (get h1 p) as [np|].
      * destruct (truthy np).
        -- apply IH in H' as (C2 & S2). split; [eapply cache_only_trans; eauto|].
           intros y m m' Gm Gm'. destruct (cache_only_get _ _ _ _ C1 Gm) as (m1 & Gm1 & _).
           destruct (S1 y m m1 Gm Gm1) as [E1|E1], (S2 y m1 m' Gm1 Gm') as [E2|E2]; auto; left + right; congruence.
        -- inversion H'; subst. auto.
      * inversion H'; subst. auto.
    + inversion H'; subst. auto.
Qed.

(* after the walk from x every ancestor-or-self of x has an empty cache *)
Lemma invalidate_none_spec fuel : forall x h h' r,
  invalidate fuel x None h = (h', R tt) ->
  reach h r x -> InvExc h r (fun y => reach h y x) -> Inv h' r.
Proof.
  induction fuel as [|f IH]; intros x h h' r H Rx I; cbn in H; [discriminate|].
  pose proof (invalidate_none_cache_only (S f) x h h' (R tt)) as CO. cbn in CO. specialize (CO H).
  destruct CO as (CO & SAME).
  unfold bind, getn in H. destruct (get h x) as [n|] eqn:G; [|discriminate].
  set (h1 := match cache n with Some _ => upd h x (set_cache None) | None => h end).
  assert (C1 : cache_only h h1) by (unfold h1; destruct (cache n); [apply cache_only_upd|apply cache_only_refl]).
  assert (G1 : exists n1, get h1 x = Some n1 /\ cache n1 = None).
  { unfold h1. destruct (cache n) eqn:Cn.
    - erewrite get_upd_same by eauto. eexists; split; eauto; destruct n; reflexivity.
    - eauto. }
  assert (SAME1 : forall y m m', get h y = Some m -> get h1 y = Some m' -> cache m' = cache m \/ cache m' = None).
  { unfold h1. destruct (cache n).
    - intros y m m' Gm Gm'. rewrite get_upd in Gm'.
      destruct (Nat.eqb x y); [|left; congruence]. rewrite Gm in Gm'. cbn in Gm'. inversion Gm'. right; destruct m; reflexivity.
    - intros; left; congruence. }
  assert (H' : (match parent n with
                | None => ret tt
                | Some p => fun h0 => match getn p h0 with
                                      | (h0', R np) => (if truthy np then invalidate f p None else ret tt) h0'
                                      | (h0', E e) => (h0', E e) end
                end) h1 = (h', R tt)).
  { unfold h1. destruct (cache n); cbn in H; unfold modn, ret, bind in *; cbn in *; exact H. }
  clear H.
  destruct (live_parent _ _ _ I x n Rx G) as [(-> & Pn)|(p & np & Pp & Rp & Gp & HIn)].
  - (* x is the root: the walk ends here *)
    rewrite Pn in H'. inversion H'; subst h'.
    eapply InvExc_cache_only; eauto.
    intros y Ry _. destruct (Nat.eq_dec y r) as [->|N].
    + destruct G1 as (n1 & Gn1 & Cn1). intros m c Gm Cm. congruence.
    + eapply cvalid_cache_only_same; eauto.
      apply (inv_cache _ _ _ I); auto. intros Ryr. apply N. eapply root_top; eauto.
  - rewrite Pp in H'. unfold getn in H'.
    destruct (cache_only_get _ _ _ _ C1 Gp) as (np1 & Gp1 & Ep1). rewrite Gp1 in H'.
    assert (T : truthy np1 = true).
    { rewrite Ep1. unfold truthy. destruct np as [cs0 ? ? ? ? ? ?]; cbn in *. destruct cs0; [contradiction|reflexivity]. }
    rewrite T in H'.
    pose proof (cache_only_shape _ _ C1) as S1.
    eapply IH; [exact H'|eapply reach_shape; eauto|].
    eapply InvExc_cache_only; [exact C1|exact I|].
    intros y Ry NR. destruct (Nat.eq_dec y x) as [->|N].
    + destruct G1 as (n1 & Gn1 & Cn1). intros m c Gm Cm. congruence.
    + eapply cvalid_cache_only_same; eauto.
      apply (inv_cache _ _ _ I); auto. intros Ryx. apply NR.
      eapply reach_shape; eauto. eapply reach_up; eauto.
Qed.

(* ---- modifications that leave children / parent / parent_index alone ------------------------------------------------------ *)
Definition lshape (n : node) := (children n, parent n, pidx n).
Definition lsame (h h' : heap) := forall y, option_map lshape (get h y) = option_map lshape (get h' y).

Lemma lsame_get h h' y n : lsame h h' -> get h y = Some n ->
  exists n', get h' y = Some n' /\ children n' = children n /\ parent n' = parent n /\ pidx n' = pidx n.
Proof.
  intros S G. specialize (S y). rewrite G in S. destruct (get h' y) as [n'|]; cbn in S; [|discriminate].
  unfold lshape in S. inversion S. eauto.
Qed.
Lemma lsame_sym h h' : lsame h h' -> lsame h' h.
Proof. intros H y; symmetry; apply H. Qed.
Lemma reach_lsame h h' a b : lsame h h' -> reach h a b -> reach h' a b.
Proof.
  intros S R; induction R; [constructor|].
  destruct (lsame_get _ _ _ _ S H) as (n' & G' & C' & _).
  eapply reach_step; eauto. now rewrite C'.
Qed.

Lemma InvExc_lsame h h' r P P' :
  lsame h h' -> InvExc h r P -> (forall x, reach h r x -> ~ P' x -> cvalid h' x) -> InvExc h' r P'.
Proof.
  intros S [A B R D] V. pose proof (lsame_sym _ _ S) as S'.
  split.
  - destruct A as (nr & G & Pn). destruct (lsame_get _ _ _ _ S G) as (n' & G' & _ & Pp & _).
    exists n'; split; congruence.
  - intros p np i c Rp G Hi.
    destruct (lsame_get _ _ _ _ S' G) as (n & Gn & Cn & _).
    rewrite <- Cn in Hi.
    destruct (B p n i c (reach_lsame _ _ _ _ S' Rp) Gn Hi) as (nc & Gc & Pc & Ic).
    destruct (lsame_get _ _ _ _ S Gc) as (nc' & Gc' & _ & Pc' & Ic').
    exists nc'; repeat split; congruence.
  - destruct R as (rk & Hrk). exists rk. intros p np c Rp G HIn.
    destruct (lsame_get _ _ _ _ S' G) as (n & Gn & Cn & _).
    eapply Hrk; eauto using reach_lsame. congruence.
  - intros x Rx NP. apply V; auto. eapply reach_lsame; eauto.
Qed.

Lemma lsame_upd h x f : (forall n, lshape (f n) = lshape n) -> lsame h (upd h x f).
Proof.
  intros F y. rewrite get_upd. destruct (Nat.eqb x y); auto. destruct (get h y); cbn; auto. now rewrite F.
Qed.

(* a cached value stays valid when the node keeps its cache and the recomputation is unaffected *)
Lemma cvalid_keep h h' y :
  cvalid h y ->
  (forall n', get h' y = Some n' -> exists n, get h y = Some n /\ cache n = cache n') ->
  (forall b, tbody h y b -> tbody h' y b) -> cvalid h' y.
Proof.
  intros V G T n' c G' C'. destruct (G n' G') as (n & Gn & Cn).
  destruct (V n c Gn) as (b & Tb & Qb); [congruence|]. eauto.
Qed.

(* a change at node x does not affect the recomputed duration of a live y that does not reach x *)
Lemma tbody_off_path h h' r P x y b :
  InvExc h r P -> (forall z, z <> x -> get h' z = get h z) ->
  ~ reach h y x -> tbody h y b -> tbody h' y b.
Proof.
  intros I Same NR T. eapply tbody_frame; eauto.
  intros z Rz. apply Same. intros ->. auto.
Qed.

(* changing only the repetition definition of x does not affect x's own recomputed body duration *)
Lemma tbody_self_rdf h r P x nx rd b :
  InvExc h r P -> reach h r x -> get h x = Some nx -> tbody h x b -> tbody (upd h x (set_rdf rd)) x b.
Proof.
  intros I Rx G T.
  assert (G' : get (upd h x (set_rdf rd)) x = Some (set_rdf rd nx)) by (now apply get_upd_same).
  inversion T; subst.
  - assert (n = nx) by congruence. subst n.
    replace (leaf_dur nx) with (leaf_dur (set_rdf rd nx)) by (destruct nx; reflexivity).
    apply (TB_leaf _ x (set_rdf rd nx)); auto.
  - assert (n = nx) by congruence. subst n.
    apply (TB_inner _ x (set_rdf rd nx)); auto.
    eapply (proj2 (tbody_tsum_frame h _)); eauto.
    intros c z HIn Rz. apply get_upd_other. intros <-.
    (* x would be reachable from its own child *)
    assert (Rc : reach h x c) by (eapply reach_child; eauto).
    assert (x = c) by (eapply (acyclic _ _ _ I); eauto). subst c.
    destruct (inv_rank _ _ _ I) as (rk & Hrk). specialize (Hrk x nx x Rx G HIn). lia.
Qed.

Lemma fueled_eq {A} (k : nat -> M A) h : fueled k h = k (S (S (length h))) h.
Proof. reflexivity. Qed.

(* Loop.waveform setter *)
Lemma set_waveform_inv h r x w h' res :
  Inv h r -> reach h r x -> set_waveform x w h = (h', res) -> ok_result res -> Inv h' r.
Proof.
  intros I Rx H OK. unfold set_waveform, bind, modn, invalidate_all in H. rewrite fueled_eq in H.
  set (h1 := upd h x (set_wform w)) in *.
  assert (LS : lsame h h1) by (apply lsame_upd; intros []; reflexivity).
  destruct (invalidate _ x None h1) as (h2, [[]|e]) eqn:W; inversion H; subst.
  2:{ (* the walk only fails by fuel / dangling pointers, excluded by ok_result unless impossible *)
      destruct OK as (N1 & N2).
      exfalso. clear H.
      (* any error of the walk is ExFuel or ExDangling *)
      assert (Err : forall fuel y h0 h0' e0, invalidate fuel y None h0 = (h0', E e0) -> e0 = ExFuel \/ e0 = ExDangling).
      { induction fuel as [|f IHf]; intros y h0 h0' e0 HH; cbn in HH.
        - inversion HH; auto.
        - unfold bind, getn in HH. destruct (get h0 y) as [n0|]; [|inversion HH; auto].
          destruct (cache n0); cbn in HH; unfold modn, bind, ret in HH; cbn in HH;
            (destruct (parent n0) as [p0|]; [|discriminate]);
            unfold getn in HH;
            match type of HH with context [get ?hh p0] => destruct (get hh p0) as [np0|] end;
            try (inversion HH; auto; fail);
            (destruct (truthy np0); [eapply IHf; eauto|discriminate]). }
      destruct (Err _ _ _ _ _ W); congruence. }
  eapply invalidate_none_spec; [exact W|eapply reach_lsame; eauto|].
  eapply InvExc_lsame; [exact LS|exact I|].
  intros y Ry NR.
  assert (Nyx : y <> x) by (intros ->; apply NR; constructor).
  eapply cvalid_keep.
  - apply (inv_cache _ _ _ I); auto.
  - intros n' G'. unfold h1 in G'. rewrite get_upd_other in G' by auto. eauto.
  - intros b Tb. apply (tbody_off_path h h1 r _ x y b I); [| |exact Tb].
    + intros z Nz. unfold h1. apply get_upd_other; auto.
    + intros Ryx. apply NR. eapply reach_lsame; eauto.
Qed.

Lemma invalidate_none_err : forall fuel y h0 h0' e0,
  invalidate fuel y None h0 = (h0', E e0) -> e0 = ExFuel \/ e0 = ExDangling.
Proof.
  induction fuel as [|f IHf]; intros y h0 h0' e0 HH; cbn in HH.
  - inversion HH; auto.
  - unfold bind, getn in HH. destruct (get h0 y) as [n0|]; [|inversion HH; auto].
    destruct (cache n0); cbn in HH; unfold modn, bind, ret in HH; cbn in HH;
      (destruct (parent n0) as [p0|]; [|discriminate]);
      unfold getn in HH;
      match type of HH with context [get ?hh p0] => destruct (get hh p0) as [np0|] end;
      try (inversion HH; auto; fail);
      (destruct (truthy np0); [eapply IHf; eauto|discriminate]).
Qed.

(* Loop.repetition_definition / repetition_count setters *)
Lemma set_repetition_definition_inv h r x rd h' res :
  Inv h r -> reach h r x -> set_repetition_definition x rd h = (h', res) -> ok_result res -> Inv h' r.
Proof.
  intros I Rx H OK. unfold set_repetition_definition, bind, modn, invalidate_parent in H.
  set (h1 := upd h x (set_rdf rd)) in *.
  assert (LS : lsame h h1) by (apply lsame_upd; intros []; reflexivity).
  destruct (live_get _ _ _ I x Rx) as (nx & Gx).
  assert (Gx1 : get h1 x = Some (set_rdf rd nx)) by (now apply get_upd_same).
  unfold bind, getn in H. rewrite Gx1 in H.
  replace (parent (set_rdf rd nx)) with (parent nx) in H by (destruct nx; reflexivity).
  (* validity of caches of all live nodes that are x itself or do not reach x *)
  assert (KEEP : forall y, reach h r y -> (y = x \/ ~ reach h y x) -> cvalid h1 y).
  { intros y Ry [->|NR].
    - eapply cvalid_keep.
      + apply (inv_cache _ _ _ I); auto.
      + intros n' G'. rewrite Gx1 in G'. inversion G'; subst. exists nx; split; auto; destruct nx; reflexivity.
      + intros b Tb. eapply tbody_self_rdf; eauto.
    - assert (Nyx : y <> x) by (intros ->; apply NR; constructor).
      eapply cvalid_keep.
      + apply (inv_cache _ _ _ I); auto.
      + intros n' G'. unfold h1 in G'. rewrite get_upd_other in G' by auto. eauto.
      + intros b Tb. apply (tbody_off_path h h1 r _ x y b I); [|exact NR|exact Tb].
        intros z Nz. unfold h1. apply get_upd_other; auto. }
  destruct (live_parent _ _ _ I x nx Rx Gx) as [(-> & Pn)|(p & np & Pp & Rp & Gp & HIn)].
  - rewrite Pn in H. inversion H; subst.
    eapply InvExc_lsame; [exact LS|exact I|].
    intros y Ry _. apply KEEP; auto.
    destruct (Nat.eq_dec y r); [now left|right]. intros Ryr. apply n. eapply root_top; eauto.
  - rewrite Pp in H.
    destruct (lsame_get _ _ _ _ LS Gp) as (np1 & Gp1 & Cp1 & _). rewrite Gp1 in H.
    assert (T : truthy np1 = true).
    { unfold truthy. rewrite Cp1. destruct (children np); [contradiction|reflexivity]. }
    rewrite T in H. unfold invalidate_all in H. rewrite fueled_eq in H.
    destruct (invalidate _ p None h1) as (h2, [[]|e]) eqn:W; inversion H; subst.
    2:{ destruct OK as (N1 & N2). destruct (invalidate_none_err _ _ _ _ _ W); congruence. }
    eapply invalidate_none_spec; [exact W|eapply reach_lsame; eauto|].
    eapply InvExc_lsame; [exact LS|exact I|].
    intros y Ry NR. apply KEEP; auto.
    destruct (Nat.eq_dec y x); [now left|right]. intros Ryx. apply NR.
    eapply reach_lsame; eauto. eapply reach_up; eauto.
Qed.

(* ---- the memoising queries (Loop.body_duration / Loop.duration) ------------------------------------------------------------- *)
Definition child_dur (f : nat) (c : id) : M Q :=
  b <- body_duration f c ;; nc <- getn c ;; ret (Qred (b * inject_Z (rep_count (rdf nc)))).

Lemma body_duration_S f x :
  body_duration (S f) x =
  (n <- getn x ;;
   match cache n with
   | Some q => ret q
   | None =>
       match children n with
       | [] => let q := match wform n with Some w => Qred (wf_dur w) | None => 0%Q end in
               modn x (set_cache (Some q)) ;;; ret q
       | cs => s <- msum (child_dur f) cs 0%Q ;; modn x (set_cache (Some s)) ;;; ret s
       end
   end).
Proof. reflexivity. Qed.

Definition model_err (e : exn) : Prop := e = ExFuel \/ e = ExDangling.
Lemma msum_cons g c r acc : msum g (c :: r) acc = (d <- g c ;; msum g r (Qred (acc + d))).
Proof. reflexivity. Qed.
Lemma msum_nil g acc : msum g [] acc = ret acc.
Proof. reflexivity. Qed.
Local Opaque Qred.

Lemma cvalid_shape_same h h' y :
  same_shape h h' -> cvalid h y ->
  (forall n', get h' y = Some n' -> exists n, get h y = Some n /\ cache n = cache n') -> cvalid h' y.
Proof.
  intros S V G. eapply cvalid_keep; eauto. intros b. now apply tbody_shape.
Qed.

Definition memo_post (h h' : heap) : Prop :=
  cache_only h h' /\ (forall y, cvalid h y -> cvalid h' y).

Lemma memo_post_refl h : memo_post h h.
Proof. split; [apply cache_only_refl|auto]. Qed.
Lemma memo_post_trans h1 h2 h3 : memo_post h1 h2 -> memo_post h2 h3 -> memo_post h1 h3.
Proof. intros [A B] [C D]; split; [eapply cache_only_trans; eauto|auto]. Qed.

(* writing a correct value into an empty cache *)
Lemma memo_post_write h x n q b :
  get h x = Some n -> tbody h x b -> (q == b)%Q -> memo_post h (upd h x (set_cache (Some q))).
Proof.
  intros G T E. split; [apply cache_only_upd|].
  pose proof (cache_only_shape _ _ (cache_only_upd h x (Some q))) as S.
  intros y V n' c G' C'. rewrite get_upd in G'.
  destruct (Nat.eqb_spec x y) as [->|N].
  - rewrite G in G'. cbn in G'. inversion G'; subst n'. destruct n; cbn in C'. inversion C'; subst c.
    exists b; split; auto. eapply tbody_shape; eauto.
  - destruct (V n' c G' C') as (b' & T' & E'). exists b'; split; auto. eapply tbody_shape; eauto.
Qed.

Lemma body_duration_spec : forall fuel x h h' res,
  body_duration fuel x h = (h', res) ->
  (forall y, reach h x y -> cvalid h y) ->
  memo_post h h' /\
  match res with R q => exists b, tbody h x b /\ (q == b)%Q | E e => model_err e end.
Proof.
  induction fuel as [|f IH]; intros x h h' res H V.
  - cbn in H. inversion H; subst. split; [apply memo_post_refl|left; reflexivity].
  - rewrite body_duration_S in H. unfold bind at 1 in H. unfold getn in H.
    destruct (get h x) as [n|] eqn:G.
    2:{ inversion H; subst. split; [apply memo_post_refl|right; reflexivity]. }
    destruct (cache n) as [q|] eqn:Cn.
    { inversion H; subst. split; [apply memo_post_refl|].
      destruct (V x (reach_refl _ _) n q G Cn) as (b & T & E). eauto. }
    destruct (children n) as [|c0 cs0] eqn:Ch.
    { (* leaf *)
      cbn in H. unfold bind, modn, ret in H. inversion H; subst.
      assert (T : tbody h x (leaf_dur n)) by (apply (TB_leaf h x n); auto).
      split; [eapply memo_post_write; eauto; reflexivity|].
      exists (leaf_dur n); split; auto. reflexivity. }
    (* inner node: sum over the children *)
    assert (MS : forall cs h0 acc h0' res0,
               msum (child_dur f) cs acc h0 = (h0', res0) ->
               (forall c y, In c cs -> reach h0 c y -> cvalid h0 y) ->
               memo_post h0 h0' /\
               match res0 with
               | R q => exists s, tsum h0 cs s /\ (q == acc + s)%Q
               | E e => model_err e
               end).
    { induction cs as [|c cs IHcs]; intros h0 acc h0' res0 HM VV.
      - rewrite msum_nil in HM. inversion HM; subst. split; [apply memo_post_refl|].
        exists 0%Q; split; [constructor|ring].
      - rewrite msum_cons in HM. unfold bind at 1 in HM. unfold child_dur at 1 in HM. unfold bind at 1 in HM.
        destruct (body_duration f c h0) as (h1, r1) eqn:BD.
        destruct (IH _ _ _ _ BD) as (MP1 & R1); [intros y Ry; eapply VV; eauto; now left|].
        destruct r1 as [b1|e1].
        2:{ inversion HM; subst. split; auto. }
        destruct R1 as (b & Tb & Eb).
        unfold bind at 1 in HM. unfold getn in HM. destruct (get h1 c) as [nc1|] eqn:Gc1.
        2:{ inversion HM; subst. split; [auto|right; reflexivity]. }
        unfold ret at 1 in HM.
        pose proof (cache_only_shape _ _ (proj1 MP1)) as S1.
        destruct (IHcs _ _ _ _ HM) as (MP2 & R2).
        { intros c' y HIn Ry. apply (proj2 MP1). eapply VV; [right; eauto|].
          eapply reach_shape; [apply same_shape_sym; eauto|auto]. }
        split; [eapply memo_post_trans; eauto|].
        destruct res0 as [q|e]; auto.
        destruct R2 as (s & Ts & Es).
        destruct (cache_only_get' _ _ _ _ (proj1 MP1) Gc1) as (nc & Gc & Enc).
        exists (b * rep_of nc + s)%Q. split.
        + constructor; auto. eapply (proj2 (tbody_tsum_shape _ _ (same_shape_sym _ _ S1))); eauto.
        + rewrite Es. rewrite !Qred_correct. rewrite Eb.
          unfold rep_of. replace (rdf nc1) with (rdf nc) by (rewrite Enc; destruct nc; reflexivity). ring. }
    cbn iota in H. unfold bind at 1 in H.
    destruct (msum (child_dur f) (c0 :: cs0) 0%Q h) as (h1, r1) eqn:HM.
    destruct (MS _ _ _ _ _ HM) as (MP1 & R1).
    { intros c y HIn Ry. apply V. eapply reach_trans; [|exact Ry]. eapply reach_child; eauto. now rewrite Ch. }
    destruct r1 as [s|e].
    2:{ inversion H; subst. split; auto. }
    destruct R1 as (s' & Ts & Es).
    unfold bind, modn, ret in H. inversion H; subst.
    assert (T : tbody h x s') by (apply (TB_inner h x n); auto; congruence).
    pose proof (cache_only_shape _ _ (proj1 MP1)) as S1.
    destruct (cache_only_get _ _ _ _ (proj1 MP1) G) as (n1 & G1 & _).
    split.
    + eapply memo_post_trans; [exact MP1|].
      apply (memo_post_write h1 x n1 s s'); [exact G1|eapply tbody_shape; eauto|rewrite Es; ring].
    + exists s'; split; auto. rewrite Es; ring.
Qed.

(* ---- queries preserve the invariant ---------------------------------------------------------------------------------------------- *)
Lemma memo_post_inv h h' r : memo_post h h' -> Inv h r -> Inv h' r.
Proof.
  intros [C V] I. eapply InvExc_cache_only; [exact C|exact I|].
  intros x Rx _. apply V. apply (inv_cache _ _ _ I); auto.
Qed.

Lemma reach_live_cvalid h r x : Inv h r -> reach h r x -> forall y, reach h x y -> cvalid h y.
Proof. intros I Rx y Ry. apply (inv_cache _ _ _ I); auto. eapply reach_trans; eauto. Qed.

Lemma body_duration_inv fuel h r x h' res :
  Inv h r -> reach h r x -> body_duration fuel x h = (h', res) -> Inv h' r.
Proof.
  intros I Rx H. destruct (body_duration_spec _ _ _ _ _ H) as (MP & _); [eapply reach_live_cvalid; eauto|].
  eapply memo_post_inv; eauto.
Qed.

Lemma duration_inv fuel h r x h' res :
  Inv h r -> reach h r x -> duration fuel x h = (h', res) -> Inv h' r.
Proof.
  intros I Rx H. unfold duration, bind in H.
  destruct (body_duration fuel x h) as (h1, r1) eqn:BD.
  pose proof (body_duration_inv _ _ _ _ _ _ I Rx BD) as I1.
  destruct r1; [|inversion H; subst; auto].
  unfold getn in H. destruct (get h1 x); inversion H; subst; auto.
Qed.

(* ---- histories: the operations proved so far ----------------------------------------------------------------------------------------- *)
Definition sInv (s : state) : Prop := Inv (st_heap s) (st_root s).
Definition out_ok (o : outcome) : Prop :=
  match o with Raised ExFuel | Raised ExDangling => False | _ => True end.

Lemma resolve_reach h : forall p x y, resolve h x p = Some y -> reach h x y.
Proof.
  induction p as [|i p IH]; intros x y H; cbn in H.
  - inversion H; constructor.
  - destruct (get h x) as [n|] eqn:G; [|discriminate].
    destruct (nth_error (children n) i) as [c|] eqn:N; [|discriminate].
    eapply reach_trans; [eapply reach_child; eauto; eapply nth_error_In; eauto|]. now apply IH.
Qed.

(* operations whose preservation of the invariant is proved for all heaps and arguments *)
Definition proved_op (o : op) : bool :=
  match o with
  | ONop | OSetWf _ _ | OSetRepCount _ _ | OSetRepDef _ _ | OQueryDur _ | OQueryBody _ | OEq _ _ => true
  | _ => false
  end.

Lemma run_at_inv s p k s' out :
  sInv s -> run_at s p k = (s', out) -> out_ok out ->
  (forall x h' res, reach (st_heap s) (st_root s) x -> k x (st_heap s) = (h', res) -> ok_result res -> Inv h' (st_root s)) ->
  sInv s'.
Proof.
  intros I H OK K. unfold run_at in H.
  destruct (resolve (st_heap s) (st_root s) p) as [x|] eqn:Rs; [|inversion H; subst; auto].
  apply resolve_reach in Rs.
  destruct (k x (st_heap s)) as (h', [u|e]) eqn:Kx; inversion H; subst; unfold sInv; cbn.
  - eapply K; eauto; exact Logic.I.
  - eapply K; eauto; cbn; cbn in OK; destruct e; try contradiction; split; discriminate.
Qed.

Lemma step_partial s o s' out :
  sInv s -> proved_op o = true -> step s o = (s', out) -> out_ok out -> sInv s'.
Proof.
  intros I PO H OK. destruct o; try discriminate; cbn in H.
  - inversion H; subst; auto.
  - eapply run_at_inv; eauto. intros x h' res Rx Hk Okr. cbv beta in Hk. eapply set_waveform_inv; [exact I| | |]; eauto.
  - eapply run_at_inv; eauto. intros x h' res Rx Hk Okr. cbv beta in Hk. eapply set_repetition_definition_inv; [exact I| | |]; eauto.
  - eapply run_at_inv; eauto. intros x h' res Rx Hk Okr. cbv beta in Hk. eapply set_repetition_definition_inv; [exact I| | |]; eauto.
  - eapply run_at_inv; eauto. intros x h' res Rx Hk Okr. cbv beta in Hk. unfold bind in Hk. rewrite fueled_eq in Hk.
    destruct (duration _ x (st_heap s)) as (h1, r1) eqn:D.
    pose proof (duration_inv _ _ _ _ _ _ I Rx D). destruct r1; inversion Hk; subst; auto.
  - eapply run_at_inv; eauto. intros x h' res Rx Hk Okr. cbv beta in Hk. unfold bind in Hk. rewrite fueled_eq in Hk.
    destruct (body_duration _ x (st_heap s)) as (h1, r1) eqn:D.
    pose proof (body_duration_inv _ _ _ _ _ _ I Rx D). destruct r1; inversion Hk; subst; auto.
  - inversion H; subst; auto.
Qed.

(* every step of the history ends without a model artefact (fuel / dangling id) *)
Fixpoint run_ok (s : state) (ops : list op) : Prop :=
  match ops with
  | [] => True
  | o :: r => out_ok (snd (step s o)) /\ run_ok (fst (step s o)) r
  end.

Lemma history_partial : forall ops s,
  sInv s -> forallb proved_op ops = true -> run_ok s ops -> sInv (run s ops).
Proof.
  induction ops as [|o ops IH]; intros s I P OK; cbn in *; auto.
  apply andb_prop in P as (P1 & P2). destruct OK as (O1 & O2).
  destruct (step s o) as (s', out) eqn:St. cbn in *.
  apply IH; auto. eapply step_partial; eauto.
Qed.

(* ---- non-vacuity: a concrete state that satisfies the invariant ------------------------------------------------------------------------ *)
Definition leaf_state (w : wf) : state := mkState [mkNode [] None None None (RInt 2) (Some w) None] 0%nat 0.

Lemma leaf_state_inv w : sInv (leaf_state w).
Proof.
  unfold sInv, leaf_state; cbn.
  assert (RR : forall y, reach [mkNode [] None None None (RInt 2) (Some w) None] 0%nat y -> y = 0%nat).
  { intros y R. induction R; auto. subst p. cbn in H. inversion H; subst. cbn in H0. contradiction. }
  split.
  - eexists; split; reflexivity.
  - intros p np i c R G N. apply RR in R; subst. cbn in G. inversion G; subst. cbn in N. destruct i; discriminate.
  - exists (fun _ => 0%nat). intros p np c R G HIn. apply RR in R; subst. cbn in G. inversion G; subst. contradiction.
  - intros x R _ n c G C. apply RR in R; subst. cbn in G. inversion G; subst. discriminate.
Qed.
