(* C09 — proofs *)
From Coq Require Import List ZArith QArith Bool Lia.
Import ListNotations.
Require Import QV.common.Util QV.C09.Model.
