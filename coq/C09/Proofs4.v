(* C09 — proofs, part 4: replacing the children list of a live node by kept old children and fresh trees ("regraft"),
   Loop.__setitem__ with an integer index *)
From Coq Require Import List ZArith QArith Bool Lia Arith.
Import ListNotations.
Require Import QV.common.Util QV.C09.Model QV.C09.Proofs QV.C09.Proofs2 QV.C09.Proofs3.
Local Opaque Qred.

(* frame by shape: the recomputed duration of y only reads children / counts / waveforms of nodes reachable from y *)
Lemma tbody_tsum_frame_shape h h' :
  (forall x b, tbody h x b -> (forall z, reach h x z -> option_map shape (get h' z) = option_map shape (get h z)) -> tbody h' x b) /\
  (forall l s, tsum h l s -> (forall c z, In c l -> reach h c z -> option_map shape (get h' z) = option_map shape (get h z)) -> tsum h' l s).
Proof.
  assert (GS : forall z n, get h z = Some n -> option_map shape (get h' z) = option_map shape (get h z) ->
               exists n', get h' z = Some n' /\ children n' = children n /\ rdf n' = rdf n /\ wform n' = wform n).
  { intros z n G E. rewrite G in E. destruct (get h' z) as [n'|]; cbn in E; [|discriminate].
    unfold shape in E. inversion E. eauto. }
  apply tbody_tsum_ind.
  - intros x n G C F. destruct (GS x n G (F x (reach_refl _ _))) as (n' & G' & C' & R' & W').
    replace (leaf_dur n) with (leaf_dur n') by (unfold leaf_dur; now rewrite W').
    apply (TB_leaf h' x n'); congruence.
  - intros x n s G C T IH F. destruct (GS x n G (F x (reach_refl _ _))) as (n' & G' & C' & R' & W').
    apply (TB_inner h' x n'); auto; [congruence|]. rewrite C'. apply IH.
    intros c z HIn R. apply F. eapply reach_trans; [eapply reach_child; eauto|auto].
  - constructor.
  - intros c cs b nc s T IH G T2 IH2 F.
    destruct (GS c nc G (F c c (or_introl eq_refl) (reach_refl _ _))) as (n' & G' & C' & R' & W').
    replace (rep_of nc) with (rep_of n') by (unfold rep_of; now rewrite R').
    constructor; auto.
    + apply IH. intros z R. eapply F; [left; reflexivity|auto].
    + apply IH2. intros c' z HIn R. eapply F; [right; eauto|auto].
Qed.

Section Regraft.
  Variables (h0 h2 : heap) (r x : id) (nx : node) (new fresh : list id) (M : nat).
  Hypothesis I0 : Inv h0 r.
  Hypothesis Rx : reach h0 r x.
  Hypothesis Gx : get h0 x = Some nx.
  Hypothesis FS : forall c, In c fresh -> exists lo hi, (length h0 <= lo)%nat /\ (hi <= M)%nat /\ Sub h2 lo hi c.
  Hypothesis G1 : get h2 x = Some (set_children new nx).
  Hypothesis GK : forall c', In c' new -> In c' (children nx) \/ In c' fresh.
  Hypothesis G3 : forall i c', nth_error new i = Some c' ->
                  exists n2, get h2 c' = Some n2 /\ parent n2 = Some x /\ pidx n2 = Some (Z.of_nat i).
  (* old nodes other than x: untouched, except that kept children may have been renumbered *)
  Hypothesis G4a : forall y, (y < length h0)%nat -> y <> x -> ~ In y new -> get h2 y = get h0 y.
  Hypothesis G4b : forall y n0, In y new -> In y (children nx) -> get h0 y = Some n0 ->
                   exists pi, get h2 y = Some (set_pidx pi n0).

  Lemma rg_live_old y : reach h0 r y -> (y < length h0)%nat.
  Proof. intros R. destruct (live_get _ _ _ I0 y R) as (n & G). eapply get_lt; eauto. Qed.

  Lemma rg_fresh_ge c y : In c fresh -> reach h2 c y -> (length h0 <= y)%nat.
  Proof. intros HIn R. destruct (FS c HIn) as (lo & hi & L1 & L2 & S). pose proof (sub_range _ _ _ _ S _ R). lia. Qed.

  (* an old node other than x keeps everything but (possibly) its recorded position *)
  Lemma rg_old y n0 : (y < length h0)%nat -> y <> x -> get h0 y = Some n0 ->
    exists pi, get h2 y = Some (set_pidx pi n0) /\ (~ In y new -> pi = pidx n0).
  Proof.
    intros L N G. destruct (in_dec Nat.eq_dec y new) as [HIn|NI].
    - destruct (GK y HIn) as [K|F].
      + destruct (G4b y n0 HIn K G) as (pi & G2). exists pi; split; auto. intros NI; contradiction.
      + pose proof (rg_fresh_ge y y F (reach_refl _ _)). lia.
    - exists (pidx n0). split; auto. rewrite G4a; auto. rewrite G. destruct n0; reflexivity.
  Qed.

  Lemma rg_x_not_child_of_self c' : In c' (children nx) -> c' <> x.
  Proof.
    intros HIn ->. destruct (inv_rank _ _ _ I0) as (rk & Hrk). specialize (Hrk x nx x Rx Gx HIn). lia.
  Qed.

  (* paths to x survive: they never use an edge out of x *)
  Lemma rg_reach_to_x y b : reach h0 r y -> reach h0 y b -> reach h0 b x -> reach h2 y b.
  Proof.
    intros Ry R. induction R; intros Rbx; [constructor|].
    assert (Rp : reach h0 r p) by (eapply reach_trans; eauto).
    assert (Rpc : reach h0 p c) by (eapply reach_child; eauto).
    assert (Npx : p <> x).
    { intros ->. assert (x = c) by (eapply (acyclic _ _ _ I0); eauto). subst c.
      assert (np = nx) by congruence. subst np.
      exact (rg_x_not_child_of_self x H0 eq_refl). }
    destruct (rg_old p np (rg_live_old _ Rp) Npx H) as (pi & G2 & _).
    eapply reach_step; [apply IHR; eapply reach_trans; eauto|exact G2|]. destruct np; exact H0.
  Qed.

  Lemma rg_reach_split y : reach h2 r y -> reach h0 r y \/ exists c, In c fresh /\ reach h2 c y.
  Proof.
    intros R. induction R; [left; constructor|].
    destruct IHR as [R0|(c0 & F & Rc)].
    - destruct (Nat.eq_dec p x) as [->|N].
      + assert (np = set_children new nx) by congruence. subst np.
        assert (HIn : In c new) by (destruct nx; exact H0).
        destruct (GK c HIn) as [K|F].
        * left. eapply reach_step; eauto.
        * right. exists c; split; auto. constructor.
      + destruct (live_get _ _ _ I0 p R0) as (n0 & G0).
        destruct (rg_old p n0 (rg_live_old _ R0) N G0) as (pi & G2 & _).
        assert (np = set_pidx pi n0) by congruence. subst np.
        left; eapply reach_step; eauto; destruct n0; exact H0.
    - right. exists c0; split; auto. eapply reach_step; eauto.
  Qed.

  Lemma regraft_inv : InvExc h2 r (fun y => reach h2 y x).
  Proof.
    split.
    - destruct (inv_root _ _ _ I0) as (nr & G & Pn).
      destruct (Nat.eq_dec r x) as [->|N].
      + eexists; split; [exact G1|]. assert (nr = nx) by congruence. subst. destruct nx; auto.
      + destruct (rg_old r nr (get_lt _ _ _ G) N G) as (pi & G2 & _).
        eexists; split; [exact G2|]. destruct nr; auto.
    - intros p np i c' R G N. destruct (rg_reach_split _ R) as [R0|(c0 & F & Rc)].
      + destruct (Nat.eq_dec p x) as [->|Np].
        * assert (np = set_children new nx) by congruence. subst np.
          apply G3. destruct nx; exact N.
        * destruct (live_get _ _ _ I0 p R0) as (n0 & G0).
          destruct (rg_old p n0 (rg_live_old _ R0) Np G0) as (pi & G2 & _).
          assert (np = set_pidx pi n0) by congruence. subst np.
          assert (N0 : nth_error (children n0) i = Some c') by (destruct n0; exact N).
          destruct (inv_links _ _ _ I0 _ _ _ _ R0 G0 N0) as (nc' & Gc' & Pc' & Ic').
          destruct (Nat.eq_dec c' x) as [->|Nc].
          -- eexists; split; [exact G1|]. assert (nc' = nx) by congruence. subst. destruct nx; auto.
          -- (* c' is a child of p <> x, so it is not among the new children of x *)
             assert (NI : ~ In c' new).
             { intros HIn. destruct (GK c' HIn) as [K|Fr].
               - apply In_nth_error in K as (j & Hj).
                 destruct (inv_links _ _ _ I0 _ _ _ _ Rx Gx Hj) as (m & Gm & Pm & _). congruence.
               - pose proof (rg_fresh_ge c' c' Fr (reach_refl _ _)). pose proof (get_lt _ _ _ Gc'). lia. }
             destruct (rg_old c' nc' (get_lt _ _ _ Gc') Nc Gc') as (pi' & G2' & E'). rewrite (E' NI) in G2'.
             eexists; split; [exact G2'|]. destruct nc'; auto.
      + destruct (FS c0 F) as (lo & hi & _ & _ & S). eapply (sub_links _ _ _ _ S); eauto.
    - destruct (inv_rank _ _ _ I0) as (rk & Hrk).
      exists (fun y => if Nat.ltb y (length h0) then (rk y + S M)%nat else y).
      intros p np c' R G HIn. cbv beta. destruct (rg_reach_split _ R) as [R0|(c0 & F & Rc)].
      + pose proof (rg_live_old _ R0) as Lp. destruct (Nat.ltb_spec p (length h0)); [|lia].
        destruct (Nat.eq_dec p x) as [->|Np].
        * assert (np = set_children new nx) by congruence. subst np.
          assert (HIn' : In c' new) by (destruct nx; exact HIn).
          destruct (GK c' HIn') as [K|Fr].
          -- assert (c' < length h0)%nat.
             { apply In_nth_error in K as (j & Hj).
               destruct (inv_links _ _ _ I0 _ _ _ _ Rx Gx Hj) as (m & Gm & _). eapply get_lt; eauto. }
             destruct (Nat.ltb_spec c' (length h0)); [|lia]. specialize (Hrk x nx c' Rx Gx K). lia.
          -- destruct (FS c' Fr) as (lo & hi & L1 & L2 & S). pose proof (Sub_le _ _ _ _ S).
             destruct (Nat.ltb_spec c' (length h0)); lia.
        * destruct (live_get _ _ _ I0 p R0) as (n0 & G0).
          destruct (rg_old p n0 Lp Np G0) as (pi & G2 & _).
          assert (np = set_pidx pi n0) by congruence. subst np.
          assert (HIn0 : In c' (children n0)) by (destruct n0; exact HIn).
          assert (c' < length h0)%nat.
          { apply In_nth_error in HIn0 as (j & Hj).
            destruct (inv_links _ _ _ I0 _ _ _ _ R0 G0 Hj) as (m & Gm & _). eapply get_lt; eauto. }
          destruct (Nat.ltb_spec c' (length h0)); [|lia]. specialize (Hrk p n0 c' R0 G0 HIn0). lia.
      + destruct (FS c0 F) as (lo & hi & L1 & L2 & S).
        pose proof (sub_range _ _ _ _ S _ Rc).
        assert (Rc' : reach h2 c0 c') by (eapply reach_step; eauto).
        pose proof (sub_range _ _ _ _ S _ Rc').
        destruct (Nat.ltb_spec p (length h0)); [lia|]. destruct (Nat.ltb_spec c' (length h0)); [lia|].
        eapply (sub_order _ _ _ _ S); eauto.
    - intros y R NR. destruct (rg_reach_split _ R) as [R0|(c0 & F & Rc)].
      + assert (Ny : y <> x) by (intros ->; apply NR; constructor).
        assert (NR0 : ~ reach h0 y x) by (intros RR; apply NR; eapply rg_reach_to_x; eauto; constructor).
        destruct (live_get _ _ _ I0 y R0) as (n0 & G0).
        destruct (rg_old y n0 (rg_live_old _ R0) Ny G0) as (pi & G2 & _).
        intros n2 q Gn2 Cq. assert (n2 = set_pidx pi n0) by congruence. subst n2.
        destruct (inv_cache _ _ _ I0 y R0 (fun f => f) n0 q G0) as (b & Tb & Eb); [destruct n0; exact Cq|].
        exists b. split; auto.
        eapply (proj1 (tbody_tsum_frame_shape h0 h2)); eauto.
        intros z Rz.
        assert (Rz0 : reach h0 r z) by (eapply reach_trans; eauto).
        assert (Nz : z <> x) by (intros ->; auto).
        destruct (live_get _ _ _ I0 z Rz0) as (nz & Gz).
        destruct (rg_old z nz (rg_live_old _ Rz0) Nz Gz) as (pz & Gz2 & _).
        rewrite Gz, Gz2. destruct nz; reflexivity.
      + destruct (FS c0 F) as (lo & hi & _ & _ & S).
        intros n q G C. rewrite (sub_nocache _ _ _ _ S y n Rc G) in C. discriminate.
  Qed.
End Regraft.

(* ---- extending the heap by unrelated nodes ----------------------------------------------------------------------------------------------------- *)
Lemma Inv_ext h0 h' r : (forall y, (y < length h0)%nat -> get h' y = get h0 y) -> Inv h0 r -> Inv h' r.
Proof.
  intros Pre I0.
  assert (RR : forall y, reach h' r y -> reach h0 r y).
  { intros y R. induction R; [constructor|].
    destruct (live_get _ _ _ I0 p IHR) as (n0 & G0). rewrite Pre in H by (eapply get_lt; eauto).
    exact (reach_step h0 r p np c IHR H H0). }
  assert (LL : forall y, reach h0 r y -> (y < length h0)%nat).
  { intros y R. destruct (live_get _ _ _ I0 y R) as (n & G). eapply get_lt; eauto. }
  split.
  - destruct (inv_root _ _ _ I0) as (nr & G & Pn). exists nr; split; auto. rewrite Pre; auto. eapply get_lt; eauto.
  - intros p np i c R G N. pose proof (RR _ R) as R0. rewrite Pre in G by auto.
    destruct (inv_links _ _ _ I0 _ _ _ _ R0 G N) as (nc & Gc & Pc & Ic).
    exists nc; split; auto. rewrite Pre; auto. eapply get_lt; eauto.
  - destruct (inv_rank _ _ _ I0) as (rk & Hrk). exists rk. intros p np c R G HIn.
    pose proof (RR _ R) as R0. rewrite Pre in G by auto. eauto.
  - intros y R _ n q G C. pose proof (RR _ R) as R0. rewrite Pre in G by auto.
    destruct (inv_cache _ _ _ I0 y R0 (fun f => f) n q G C) as (b & Tb & Eb).
    exists b; split; auto. eapply tbody_frame; eauto. intros z Rz. apply Pre. apply LL. eapply reach_trans; eauto.
Qed.

Lemma nth_error_set_nth {A} (l : list A) j a k : (j < length l)%nat ->
  nth_error (set_nth l j a) k = if Nat.eqb k j then Some a else nth_error l k.
Proof.
  revert j k; induction l as [|b l IH]; intros [|j] [|k] L; cbn in *; try lia; auto.
  apply IH. lia.
Qed.
Lemma In_set_nth {A} (l : list A) j a y : In y (set_nth l j a) -> y = a \/ In y l.
Proof.
  revert j; induction l as [|b l IH]; intros [|j] H; cbn in *; auto.
  - destruct H as [<-|H]; auto.
  - destruct H as [<-|H]; auto. destruct (IH _ H); auto.
Qed.

