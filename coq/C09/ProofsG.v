(* C09 — proofs, part G (round 6): Loop.flatten_and_balance keeps the invariant *)
From Coq Require Import List ZArith QArith Bool Lia Arith.
Import ListNotations.
Require Import QV.common.Util QV.C09.Model QV.C09.Proofs QV.C09.Proofs2 QV.C09.Proofs3 QV.C09.Proofs4 QV.C09.Proofs5 QV.C09.Proofs6
               QV.C09.Proofs7 QV.C09.Proofs8 QV.C09.ProofsR QV.C09.ProofsF QV.C09.ProofsL QV.C09.ProofsS.

(* the frame survives a step that changes, outside x, caches only *)
Lemma Fr_step r h a b x : Fr r h a x ->
  (forall y, y <> x -> forall n, get a y = Some n -> exists n', get b y = Some n' /\ n' = set_cache (cache n') n) -> Fr r h b x.
Proof.
  intros F CV y Ry NR. destruct (F y Ry NR) as (n & n1 & G & G1 & E1).
  assert (Ny : y <> x) by (intros ->; apply NR; constructor).
  destruct (CV y Ny n1 G1) as (n2 & G2 & E2). exists n, n2. repeat split; auto. rewrite E2, E1. destruct n; reflexivity.
Qed.

Lemma encapsulate_inv_fr h r x h' res : Inv h r -> reach h r x -> encapsulate x h = (h', res) -> ok_result res -> Inv h' r /\ Fr r h h' x.
Proof.
  intros I Rx H OK. unfold encapsulate in H.
  destruct (live_get _ _ _ I x Rx) as (nx & Gx). rewrite (bind_getn x nx _ h Gx) in H.
  set (cs := children nx) in *. set (c := length h).
  set (ncn := mkNode cs None None None (rdf nx) (wform nx) (meas nx)).
  set (ha := h ++ [ncn]).
  destruct (adopt_spec cs c 0%Z ha) as (hb & Ea & Lenb & Othb & Fldb & Adpb).
  assert (NL : new_loop None cs (rdf nx) (wform nx) (meas nx) h = (hb, R c)).
  { unfold new_loop, bind, alloc. fold ncn. fold ha. fold c. rewrite Ea. reflexivity. }
  rewrite (bind_R _ _ _ _ _ NL) in H.
  assert (NDc : NoDup cs) by (eapply (children_NoDup _ _ _ I); eauto).
  assert (Lx : (x < c)%nat) by (eapply get_lt; eauto).
  assert (LT : forall y, reach h r y -> (y < c)%nat) by (intros; eapply live_lt; eauto).
  assert (Oa : forall y, (y < c)%nat -> get ha y = get h y) by (intros; apply get_app_l; auto).
  assert (Gca : get ha c = Some ncn) by apply get_app_new.
  assert (NIc : ~ In c cs).
  { intros HIn. assert (reach h r c) by (eapply reach_step; eauto). specialize (LT c H0). lia. }
  assert (NIx : ~ In x cs) by (intros HIn; eapply (rp_x_not_own_child h r x nx I Rx Gx); eauto).
  assert (Gxb : get hb x = Some nx) by (rewrite Othb by auto; rewrite Oa; auto).
  assert (Gcb : get hb c = Some ncn) by (rewrite Othb; auto).
  (* the slice assignment x[:] = [c] *)
  destruct (loop_setitem_slice x None None None [c] hb) as (hd, r1) eqn:E1.
  pose proof E1 as E1'. unfold loop_setitem_slice in E1.
  destruct (setitem_simple_eval hb x nx None None None [c] (or_introl eq_refl) Gxb) as
    (hc & new & Ec & Lenc & Gxc & LK & SAME & POS & MEM & VIN & NDn & NIn & FULL & UNT); auto.
  { intros [E|[]]. lia. }
  { constructor; [intros []|constructor]. }
  { intros i ch N. assert (Hch : In ch cs) by (eapply nth_error_In; eauto).
    destruct (inv_links _ _ _ I _ _ _ _ Rx Gx N) as (n & G & _).
    destruct (Adpb NDc i ch n N) as (n' & G' & _); [rewrite Oa; auto; eapply get_lt; eauto|]. eauto. }
  { intros ch [<-|[]]. eauto. }
  rewrite (bind_R _ _ _ _ _ Ec) in E1.
  assert (En : new = [c]) by (apply FULL; auto). subst new.
  (* nodes of the old tree other than x and its children are what they were *)
  assert (OLD : forall y, (y < c)%nat -> y <> x -> ~ In y cs -> get hc y = get h y).
  { intros y Ly N1 N2. rewrite SAME; auto; [rewrite Othb by auto; apply Oa; auto|intros [E|[]]; lia]. }
  (* the former children of x are now the children of c *)
  assert (KID : forall k ch, nth_error cs k = Some ch ->
            exists n n', get h ch = Some n /\ get hc ch = Some n' /\ parent n' = Some c /\ pidx n' = Some (Z.of_nat k) /\ keeps n n').
  { intros k ch N. assert (Hch : In ch cs) by (eapply nth_error_In; eauto).
    destruct (inv_links _ _ _ I _ _ _ _ Rx Gx N) as (n & G & _).
    destruct (Adpb NDc k ch n N) as (n' & G' & P' & I'); [rewrite Oa; auto; eapply get_lt; eauto|].
    destruct (Fldb ch n' G') as (n0 & G0 & F1 & F2 & F3 & F4 & F5). rewrite Oa in G0 by (eapply get_lt; eauto).
    assert (n0 = n) by congruence. subst n0.
    exists n, n'. split; auto. split.
    - rewrite (UNT ch n'); auto; [intros ->; auto|intros [E|[]]; subst; auto|rewrite P'; intros E; inversion E; lia].
    - repeat split; auto. }
  assert (LC : LI hc c (fun _ => False)).
  { assert (Gcc : exists ncc, get hc c = Some ncc /\ children ncc = cs /\ cache ncc = None).
    { destruct (LK c ncn) as (n' & G' & K'); [lia|auto|]. exists n'. split; auto. unfold lnk in K'. rewrite K'. split; reflexivity. }
    destruct Gcc as (ncc & Gcc & Ccc & Kcc).
    assert (L1 : LI hc c (fun y => y = c)).
    { apply (LI_node hc c ncc Gcc). rewrite Ccc. intros k ch N.
      destruct (KID k ch N) as (n & n' & G & G' & P' & I' & K'). split; [eauto|].
      assert (Hch : In ch cs) by (eapply nth_error_In; eauto).
      assert (Rch : reach h r ch) by (eapply reach_step; eauto).
      apply (LI_frame h hc ch _ (LI_sub _ _ _ _ (InvExc_LI _ _ _ I) Rch)). intros y ny Ry Gy.
      destruct (child_subtree_sep h r x nx ch y I Rx Gx Hch Ry) as (Nyx & Sep).
      destruct (Nat.eq_dec y ch) as [->|Nych].
      - assert (ny = n) by congruence. subst. exists n'. split; auto. split; auto. congruence.
      - exists ny. rewrite OLD; auto; [repeat split; auto|]. apply LT. eapply reach_trans; eauto. }
    split; [apply (li_links _ _ _ L1)|apply (li_wf _ _ _ L1)|].
    intros y R _. destruct (Nat.eq_dec y c) as [->|N]; [|apply (li_cache _ _ _ L1); auto].
    intros n q G Cq. assert (n = ncc) by congruence. subst. congruence. }
  assert (LX : LI hc x (fun y => y = x)).
  { apply (LI_node hc x _ Gxc). replace (children (set_children [c] nx)) with [c] by (destruct nx; reflexivity).
    intros k ch N. split; [apply (POS k ch N)|].
    destruct k; cbn in N; [inversion N; subst; auto|destruct k; discriminate]. }
  assert (OUT : forall y, reach h r y -> ~ reach h x y -> get hc y = get h y).
  { intros y Ry NR. apply OLD; auto.
    - intros ->. apply NR. constructor.
    - intros Hc. apply NR. eapply reach_child; eauto. }
  assert (PP : parent (set_children [c] nx) = parent nx /\ pidx (set_children [c] nx) = pidx nx) by (destruct nx; split; reflexivity).
  destruct PP as (PP1 & PP2).
  pose proof (replace_inv h hc r x nx _ I Rx Gx Gxc PP1 PP2 LX OUT) as IE.
  pose proof (rp_reach_x h hc r x nx I Rx Gx OUT) as Rxc.
  assert (FRc : Fr r h hc x).
  { intros y Ry NR. destruct (live_get _ _ _ I y Ry) as (ny & Gy). exists ny, ny. rewrite (OUT y Ry NR).
    repeat split; auto. destruct ny; reflexivity. }
  unfold invalidate_all in E1. rewrite fueled_eq in E1.
  destruct (invalidate_none_cache_only _ _ _ _ _ E1) as (CO & _).
  destruct r1 as [[]|e].
  2:{ rewrite (bind_E _ _ _ _ _ E1') in H. inversion H; subst. destruct OK as (N1 & N2).
      destruct (invalidate_none_err _ _ _ _ _ E1); congruence. }
  rewrite (bind_R _ _ _ _ _ E1') in H.
  assert (Id : Inv hd r) by (eapply invalidate_none_spec; eauto).
  assert (FRd : Fr r h hd x) by (eapply Fr_step; [exact FRc|intros y _ ny Gy; eapply cache_only_get; eauto]).
  assert (Rxd : reach hd r x) by (eapply reach_shape; [apply cache_only_shape; exact CO|exact Rxc]).
  unfold set_repetition_count in H.
  destruct (set_repetition_definition x (RInt 1) hd) as (he, r2) eqn:E2.
  assert (OK2 : ok_result r2).
  { destruct r2; cbn; auto. rewrite (bind_E _ _ _ _ _ E2) in H. inversion H; subst. exact OK. }
  pose proof (set_repetition_definition_inv _ _ _ _ _ _ Id Rxd E2 OK2) as Ie.
  assert (FRe : Fr r h he x).
  { eapply Fr_step; [exact FRd|]. intros y Ny ny Gy. destruct (set_repdef_effect _ _ _ _ _ E2) as (CO2 & _).
    eapply cache_only_get; [exact CO2|]. rewrite get_upd_other; auto. }
  destruct r2 as [[]|e]; [|rewrite (bind_E _ _ _ _ _ E2) in H; inversion H; subst; split; auto].
  rewrite (bind_R _ _ _ _ _ E2) in H. unfold modn in H. inversion H; subst.
  split.
  2:{ eapply Fr_step; [exact FRe|]. intros y Ny ny Gy. exists ny. rewrite get_upd_other by auto. split; auto.
      destruct ny; reflexivity. }
  destruct (cache_only_get _ _ _ _ CO Gxc) as (nxd & Gxd & Exd).
  pose proof (set_repdef_children _ _ _ _ _ E2 x) as CS. rewrite Gxd in CS.
  destruct (get he x) as [nxe|] eqn:Gxe; cbn in CS; [|discriminate].
  eapply modn_wform_nonleaf_inv; eauto.
  assert (E : children nxe = children nxd) by congruence. rewrite E, Exd. destruct nx; cbn; discriminate.
Qed.

(* Loop.unroll of a child c of p: p's child list changes, everything outside p's subtree changes caches only, p stays live *)
Lemma unroll_child_fr h r p np c h' res :
  Inv h r -> reach h r p -> get h p = Some np -> In c (children np) -> unroll c h = (h', res) -> ok_result res ->
  Inv h' r /\ Fr r h h' p /\ reach h' r p.
Proof.
  intros I Rp Gp HIn H OK.
  assert (Rc : reach h r c) by (eapply reach_step; eauto).
  unfold unroll in H. destruct (live_get _ _ _ I c Rc) as (n & G). rewrite (bind_getn c n _ h G) in H.
  destruct (is_leaf n). { inversion H; subst. split; auto. split; [apply Fr_refl; auto|auto]. }
  destruct (lister_unique _ _ _ I c p np Rp Gp HIn) as (n' & G' & Pp). assert (n' = n) by congruence. subst n'.
  rewrite Pp in H. apply In_nth_error in HIn as (i & Hi).
  destruct (inv_links _ _ _ I _ _ _ _ Rp Gp Hi) as (n' & G'' & _ & Ii). assert (n' = n) by congruence. subst n'.
  rewrite Ii in H.
  pose proof (setslice_fresh_res (copies_of (children n) (rep_count (rdf n)) (fun _ => ret (NPNode p))) h r p
                (Some (Z.of_nat i)) (Some (Z.of_nat i + 1)%Z) None h' res (copies_of_FL _ _ _) (or_introl eq_refl) I Rp H OK) as ->.
  destruct (setslice_fresh_inv (copies_of (children n) (rep_count (rdf n)) (fun _ => ret (NPNode p))) h r p
                (Some (Z.of_nat i)) (Some (Z.of_nat i + 1)%Z) None h' (R tt) (copies_of_FL _ _ _) (or_introl eq_refl) I Rp H OK)
    as (I' & F & R'). auto.
Qed.

Lemma pure_has_single_mergeable x : pureM (has_single_mergeable x).
Proof.
  unfold has_single_mergeable. apply pure_bind; [apply pure_getn|]. intros n.
  destruct (children n) as [|c [|c' l]]; try apply pure_ret.
  apply pure_bind; [apply pure_getn|]. intros nc. apply pure_ret.
Qed.

(* an operation confined to the subtree of a child c of x: x stays live, the frame of x holds *)
Lemma child_fr h h1 r x n c : Inv h r -> reach h r x -> get h x = Some n -> In c (children n) -> Fr r h h1 c ->
  reach h1 r x /\ Fr r h h1 x.
Proof.
  intros I Rx G Hc Fc. split.
  - eapply Fr_reach; eauto. intros R. destruct (child_subtree_sep h r x n c x I Rx G Hc R) as (N & _). congruence.
  - intros y Ry NR. apply Fc; auto. intros Rcy. apply NR. eapply reach_trans; [eapply reach_child; eauto|exact Rcy].
Qed.

Definition flat_spec (r : id) (fuel : nat) : Prop := forall vctr depth x i h h' res,
  Inv h r -> reach h r x -> flatten fuel vctr depth x i h = (h', res) -> ok_result res -> Inv h' r /\ Fr r h h' x /\ reach h' r x.

Lemma flatten_S f vctr depth x i : flatten (S f) vctr depth x i =
  (n <- getn x ;;
   match nth_error (children n) i with
   | None => ret tt
   | Some sub =>
       fun h =>
       let big := S (S (length h)) in
       let d := ndepth big h sub in
       (if d <? depth - 1 then encapsulate sub ;;; flatten f vctr depth x i
        else if negb (balanced big h sub) then flatten f vctr (depth - 1) sub O ;;; flatten f vctr depth x i
        else if d =? depth - 1 then flatten f vctr depth x (S i)
        else b <- has_single_mergeable sub ;;
             if b then merge_single_child (vctr + Z.of_nat (S f)) sub ;;; flatten f vctr depth x i
             else ns <- getn sub ;;
                  if negb (is_leaf ns) then unroll sub ;;; flatten f vctr depth x i
                  else flatten f vctr depth x (S i))%Z h
   end).
Proof. reflexivity. Qed.

Lemma flatten_inv r : forall fuel, flat_spec r fuel.
Proof.
  induction fuel as [|f IH]; intros vctr depth x i h h' res I Rx H OK.
  { cbn in H. inversion H; subst. destruct OK; congruence. }
  rewrite flatten_S in H.
  destruct (live_get _ _ _ I x Rx) as (n & G). rewrite (bind_getn x n _ h G) in H.
  destruct (nth_error (children n) i) as [sub|] eqn:N.
  2:{ inversion H; subst. split; auto. split; [apply Fr_refl; auto|auto]. }
  assert (Hc : In sub (children n)) by (eapply nth_error_In; eauto).
  assert (Rs : reach h r sub) by (eapply reach_step; eauto).
  cbv beta zeta in H.
  assert (CONT : forall depth' i' h1, Inv h1 r -> reach h1 r x -> Fr r h h1 x ->
             flatten f vctr depth' x i' h1 = (h', res) -> Inv h' r /\ Fr r h h' x /\ reach h' r x).
  { intros depth' i' h1 I1 Rx1 F1 Hk.
    destruct (IH vctr depth' x i' h1 h' res I1 Rx1 Hk OK) as (I' & F' & R'). split; auto. split; auto.
    eapply (Fr_trans h h1 h' r x); eauto. }
  match type of H with (if ?c then _ else _) _ = _ => destruct c eqn:B1 end.
  { unfold bind at 1 in H. destruct (encapsulate sub h) as (h1, r1) eqn:E1.
    assert (OK1 : ok_result r1) by (destruct r1; cbn; auto; inversion H; subst; exact OK).
    destruct (encapsulate_inv_fr h r sub h1 r1 I Rs E1 OK1) as (I1 & F1).
    destruct (child_fr h h1 r x n sub I Rx G Hc F1) as (Rx1 & Fx1).
    destruct r1 as [u|e]; [|inversion H; subst; auto].
    eapply CONT; eauto. }
  match type of H with (if ?c then _ else _) _ = _ => destruct c eqn:B2 end.
  { unfold bind at 1 in H. destruct (flatten f vctr (depth - 1) sub 0 h) as (h1, r1) eqn:E1.
    assert (OK1 : ok_result r1) by (destruct r1; cbn; auto; inversion H; subst; exact OK).
    destruct (IH vctr (depth - 1)%Z sub O h h1 r1 I Rs E1 OK1) as (I1 & F1 & _).
    destruct (child_fr h h1 r x n sub I Rx G Hc F1) as (Rx1 & Fx1).
    destruct r1 as [u|e]; [|inversion H; subst; auto].
    eapply CONT; eauto. }
  match type of H with (if ?c then _ else _) _ = _ => destruct c eqn:B3 end.
  { eapply CONT; eauto. apply Fr_refl; auto. }
  unfold bind at 1 in H. destruct (has_single_mergeable sub h) as (h0, rb) eqn:Eb.
  pose proof (pure_has_single_mergeable sub h h0 rb Eb) as ->.
  destruct rb as [b|e]; [|inversion H; subst; split; auto; split; [apply Fr_refl|]; auto].
  destruct b.
  - unfold bind at 1 in H. destruct (merge_single_child (vctr + Z.of_nat (S f)) sub h) as (h1, r1) eqn:E1.
    assert (OK1 : ok_result r1) by (destruct r1; cbn; auto; inversion H; subst; exact OK).
    destruct (merge_inv _ h r sub h1 r1 I Rs E1 OK1) as (I1 & F1).
    destruct (child_fr h h1 r x n sub I Rx G Hc F1) as (Rx1 & Fx1).
    destruct r1 as [u|e]; [|inversion H; subst; auto].
    eapply CONT; eauto.
  - destruct (live_get _ _ _ I sub Rs) as (ns & Gs). rewrite (bind_getn sub ns _ h Gs) in H.
    destruct (negb (is_leaf ns)).
    + unfold bind at 1 in H. destruct (unroll sub h) as (h1, r1) eqn:E1.
      assert (OK1 : ok_result r1) by (destruct r1; cbn; auto; inversion H; subst; exact OK).
      destruct (unroll_child_fr h r x n sub h1 r1 I Rx G Hc E1 OK1) as (I1 & F1 & Rx1).
      destruct r1 as [u|e]; [|inversion H; subst; auto].
      eapply CONT; eauto.
    + eapply CONT; eauto. apply Fr_refl; auto.
Qed.

(* Loop.flatten_and_balance(depth) on any live node (the fuel literal 1500 must not be unfolded by the conversion test) *)
Local Strategy 1000 [flatten].
Lemma flatten_and_balance_inv h r x vctr depth h' res :
  Inv h r -> reach h r x -> flatten_and_balance vctr depth x h = (h', res) -> ok_result res -> Inv h' r /\ reach h' r x.
Proof.
  intros I Rx H OK. unfold flatten_and_balance in H.
  destruct (flatten_inv r 1500 vctr depth x O h h' res I Rx H OK) as (I' & _ & R'). auto.
Qed.

(* non-vacuity: on the unbalanced 3-level tree nv_init (a leaf next to an inner node) flatten_and_balance(2) succeeds and
   allocates (the leaf is encapsulated); flatten_and_balance(1) succeeds as well (the inner node is unrolled / merged) *)
Lemma flatten_nonvacuous :
  match flatten_and_balance 0 2 nv_root nv_heap with (h', R tt) => (length nv_heap <? length h')%nat = true | _ => False end /\
  match flatten_and_balance 0 1 nv_root nv_heap with (h', R tt) => (length nv_heap <? length h')%nat = true | _ => False end.
Proof. split; vm_compute; reflexivity. Qed.

(* the failing calls of C09_failed_unroll_no_effect exist: node 0 of nv_heap is a leaf, nv_root has no parent *)
Lemma failed_unroll_nonvacuous :
  unroll 0%nat nv_heap = (nv_heap, E ExRuntime) /\ unroll nv_root nv_heap = (nv_heap, E ExType) /\
  unroll_children 0%nat nv_heap = (nv_heap, E ExRuntime).
Proof. repeat split; vm_compute; reflexivity. Qed.
