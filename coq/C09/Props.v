(* C09 — property theorems (statements only; proofs live in Proofs*.v). *)
From Coq Require Import List ZArith QArith Bool.
Import ListNotations.
Require Import QV.C09.Model QV.C09.Proofs.

