(* C09 — property theorems (statements only; proofs live in Proofs.v).
   Inv h r  =  (I1) every cached body duration of a node reachable from r equals the duration recomputed from leaves
               and repetition counts, (I2) every child listed at position i records parent_index i, (I3) and records
               the listing node as parent; the reachable part is a well-founded tree; the root has no parent. *)
From Coq Require Import List ZArith QArith Bool.
Import ListNotations.
Require Import QV.C09.Model QV.C09.Corr QV.C09.Proofs QV.C09.Proofs2 QV.C09.Proofs3 QV.C09.Proofs4 QV.C09.Proofs5 QV.C09.Proofs6
               QV.C09.Proofs6x QV.C09.Proofs7 QV.C09.Proofs7x QV.C09.Proofs8 QV.C09.ProofsR QV.C09.ProofsE QV.C09.ProofsF QV.C09.Proofs9 QV.C09.Proofs10 QV.C09.ProofsN QV.C09.ProofsL QV.C09.ProofsS QV.C09.ProofsG.

(* every freshly constructed tree (Loop(...) with nested children, any counts / waveforms / measurements) satisfies Inv *)
Theorem C09_init : forall t, sInv (init_state t).
Proof. exact init_inv. Qed.
Print Assumptions C09_init.

(* Loop.waveform setter, any node of the tree, any waveform / None *)
Theorem C09_set_waveform_preserves : forall h r x w h' res,
  Inv h r -> reach h r x -> set_waveform x w h = (h', res) -> ok_result res -> Inv h' r.
Proof. exact set_waveform_inv. Qed.
Print Assumptions C09_set_waveform_preserves.

(* Loop.repetition_count / repetition_definition setters (after repair fabbb68), any node, any count incl. volatile *)
Theorem C09_set_repetition_preserves : forall h r x rd h' res,
  Inv h r -> reach h r x -> set_repetition_definition x rd h = (h', res) -> ok_result res -> Inv h' r.
Proof. exact set_repetition_definition_inv. Qed.
Print Assumptions C09_set_repetition_preserves.

(* the memoising queries: whatever they write into caches is the recomputed duration; the answer is the recomputed one *)
Theorem C09_body_duration_correct : forall fuel x h h' res,
  body_duration fuel x h = (h', res) -> (forall y, reach h x y -> cvalid h y) ->
  memo_post h h' /\ match res with R q => exists b, tbody h x b /\ (q == b)%Q | E e => model_err e end.
Proof. exact body_duration_spec. Qed.
Print Assumptions C09_body_duration_correct.

Theorem C09_queries_preserve : forall fuel h r x h' res,
  Inv h r -> reach h r x -> duration fuel x h = (h', res) -> Inv h' r.
Proof. exact duration_inv. Qed.
Print Assumptions C09_queries_preserve.

(* the reset walk Loop._invalidate_duration() repairs I1 after any change confined to the subtree of x *)
Theorem C09_reset_walk_restores : forall fuel x h h' r,
  invalidate fuel x None h = (h', R tt) -> reach h r x -> InvExc h r (fun y => reach h y x) -> Inv h' r.
Proof. exact invalidate_none_spec. Qed.
Print Assumptions C09_reset_walk_restores.

(* Loop.append_child of any freshly built tree under any node of the tree: the graft (parent / parent_index of the new
   child) and the INCREMENTAL patch of every cached duration along the parent chain (or the reset, when the node was a
   leaf with a waveform, after repair 3545bc6) preserve the invariant *)
Theorem C09_append_child_preserves : forall h0 r x t h' res,
  Inv h0 r -> reach h0 r x -> (c <- build t ;; append_child x c) h0 = (h', res) -> ok_result res -> Inv h' r.
Proof. exact append_child_inv. Qed.
Print Assumptions C09_append_child_preserves.

(* dst.append_child(src.copy_tree_structure(new_parent)): any source node, any new_parent argument, any live target *)
Theorem C09_copy_append_preserves : forall h0 r d x np h' res,
  Inv h0 r -> reach h0 r d -> (c <- copy_tree_structure x np ;; append_child d c) h0 = (h', res) -> ok_result res ->
  Inv h' r.
Proof. intros h0 r d x np h' res. apply append_fresh_inv. apply copy_fresh. Qed.
Print Assumptions C09_copy_append_preserves.

(* x[idx] = <fresh tree> for any integer idx (negative and out-of-range included: the IndexError path leaves the tree
   untouched), after repair c876dc9: the recorded position is the normalised index; the replaced child is detached *)
Theorem C09_setitem_int_preserves : forall h0 r x idx t h' res,
  Inv h0 r -> reach h0 r x -> (c <- build t ;; loop_setitem_int x idx c) h0 = (h', res) -> ok_result res -> Inv h' r.
Proof. intros h0 r x idx t h' res. apply setitem_int_fresh_inv. apply build_fresh. Qed.
Print Assumptions C09_setitem_int_preserves.

(* replacing the children list of a live node x by kept old children (possibly renumbered) and roots of fresh trees,
   every listed child recording parent x and its index: everything of Inv holds except the caches of x and its
   ancestors (which the reset walk then clears, C09_reset_walk_restores).  The lemma every structural operation reduces to. *)
Theorem C09_regraft : forall h0 h2 r x nx new fresh M,
  Inv h0 r -> reach h0 r x -> get h0 x = Some nx ->
  (forall c, In c fresh -> exists lo hi, (length h0 <= lo)%nat /\ (hi <= M)%nat /\ Sub h2 lo hi c) ->
  get h2 x = Some (set_children new nx) ->
  (forall c', In c' new -> In c' (children nx) \/ In c' fresh) ->
  (forall i c', nth_error new i = Some c' ->
     exists n2, get h2 c' = Some n2 /\ parent n2 = Some x /\ pidx n2 = Some (Z.of_nat i)) ->
  (forall y, (y < length h0)%nat -> y <> x -> ~ In y new -> get h2 y = get h0 y) ->
  (forall y n0, In y new -> In y (children nx) -> get h0 y = Some n0 -> exists pi, get h2 y = Some (set_pidx pi n0)) ->
  InvExc h2 r (fun y => reach h2 y x).
Proof. exact regraft_inv. Qed.
Print Assumptions C09_regraft.

(* the subtree at a live node x is replaced by ANY subtree that satisfies the invariant locally (LI: links, well-founded,
   caches valid below x), x keeps its own link fields, nothing outside the old subtree of x changes: everything of Inv
   holds except the caches of x and its ancestors (then C09_reset_walk_restores).  Dropped nodes may change arbitrarily. *)
Theorem C09_replace : forall h0 h2 r x nx nx2,
  Inv h0 r -> reach h0 r x -> get h0 x = Some nx -> get h2 x = Some nx2 -> parent nx2 = parent nx -> pidx nx2 = pidx nx ->
  LI h2 x (fun y => y = x) -> (forall y, reach h0 r y -> ~ reach h0 x y -> get h2 y = get h0 y) ->
  InvExc h2 r (fun y => reach h2 y x).
Proof. exact replace_inv. Qed.
Print Assumptions C09_replace.

(* ... and when the duration of x (body x count) is what it was and x's own cache is valid, nothing needs invalidating
   (reverse_inplace, roll_constant_waveforms) *)
Theorem C09_replace_same_duration : forall h0 h2 r x nx nx2,
  Inv h0 r -> reach h0 r x -> get h0 x = Some nx -> get h2 x = Some nx2 -> parent nx2 = parent nx -> pidx nx2 = pidx nx ->
  (forall y, reach h0 r y -> ~ reach h0 x y -> get h2 y = get h0 y) ->
  LI h2 x (fun _ => False) ->
  (forall b, tbody h0 x b -> exists b', tbody h2 x b' /\ (b' * rep_of nx2 == b * rep_of nx)%Q) ->
  Inv h2 r.
Proof.
  intros h0 h2 r x nx nx2 I R G G2 P1 P2 OUT LX D.
  eapply (replace_same_duration h0 h2 r x nx nx2); eauto. eapply LI_weaken; [|exact LX]. intros; contradiction.
Qed.
Print Assumptions C09_replace_same_duration.

(* x[a:b:c] = [<fresh trees>] for ANY slice: plain, negative / out-of-range / empty bounds, extended with any step
   (negative, > 1; step 0 and a length mismatch raise ValueError after the values were re-parented), any number of
   values: renumbering loops, detaching of the replaced children (repair of round 2), reset walk *)
Theorem C09_setitem_slice_preserves : forall h0 r x a b stp ts h' res,
  Inv h0 r -> reach h0 r x -> (cs <- mmap build ts ;; loop_setitem_slice x a b stp cs) h0 = (h', res) -> ok_result res -> Inv h' r.
Proof. exact setslice_build_any. Qed.
Print Assumptions C09_setitem_slice_preserves.

Theorem C09_unroll_preserves : forall h r x h' res,
  Inv h r -> reach h r x -> unroll x h = (h', res) -> ok_result res -> Inv h' r.
Proof. exact unroll_inv. Qed.
Print Assumptions C09_unroll_preserves.

Theorem C09_unroll_children_preserves : forall h r x h' res,
  Inv h r -> reach h r x -> unroll_children x h = (h', res) -> ok_result res -> Inv h' r.
Proof. exact unroll_children_inv. Qed.
Print Assumptions C09_unroll_children_preserves.

(* if x._has_single_child_that_can_be_merged(): x._merge_single_child()  (all four volatile cases, measurements; round 3:
   including the emptying of the merged child, repair 62653bd / 0aafc15: `child[:] = ()` touches the unreachable husk and
   clears caches along whatever parent chain it still records) *)
Theorem C09_merge_preserves : forall vctr h r x h' res,
  Inv h r -> reach h r x -> try_merge vctr x h = (h', res) -> ok_result res -> Inv h' r.
Proof. intros. eapply try_merge_inv; eauto. Qed.
Print Assumptions C09_merge_preserves.

(* split_one_child(child_index), any index incl. negative / None / out of range (error paths leave the tree untouched):
   copy, the two repetition setters, slice insertion *)
Theorem C09_split_preserves : forall h r x ci h' res,
  Inv h r -> reach h r x -> split_one_child x ci h = (h', res) -> ok_result res -> Inv h' r.
Proof. exact split_inv. Qed.
Print Assumptions C09_split_preserves.

(* encapsulate: the old children move under a fresh node (old subtrees re-parented), x keeps exactly that node *)
Theorem C09_encapsulate_preserves : forall h r x h' res,
  Inv h r -> reach h r x -> encapsulate x h = (h', res) -> ok_result res -> Inv h' r.
Proof. exact encapsulate_inv. Qed.
Print Assumptions C09_encapsulate_preserves.

(* cleanup(actions), both actions in any combination, any depth: recursive calls on the children (each resets the caches
   of its ancestors), slice assignment of the kept children, merge *)
Theorem C09_cleanup_preserves : forall r fuel vctr rm mg x h h' res,
  Inv h r -> reach h r x -> cleanup fuel vctr rm mg x h = (h', res) -> ok_result res -> Inv h' r.
Proof. intros r fuel vctr rm mg x h h' res I R H OK. eapply (cleanup_inv r); eauto. Qed.
Print Assumptions C09_cleanup_preserves.

(* reverse_inplace: children lists reversed and renumbered at every level (the recomputed duration is the same up to ==
   under list reversal, so NO cache has to be invalidated), leaf waveforms reversed, windows mirrored (reads
   body_duration, which memoises) *)
Theorem C09_reverse_preserves : forall r fuel x h h' res,
  Inv h r -> reach h r x -> reverse_inplace fuel x h = (h', res) -> ok_result res -> Inv h' r.
Proof. intros r fuel x h h' res I R H OK. eapply (reverse_inv r); eauto. Qed.
Print Assumptions C09_reverse_preserves.

(* roll_constant_waveforms (after repairs 239f058 / 36dc22a): count and waveform of a constant leaf are rewritten through
   the private fields, only the leaf's own cache is reset: correct because duration x count of the leaf is unchanged
   (smallest_factor_ge returns a divisor).  Domain: minimal_waveform_quanta >= 1. *)
Theorem C09_roll_preserves : forall r fuel mq q sr x h h' res,
  (1 <= mq)%Z -> Inv h r -> reach h r x -> roll fuel mq q sr x h = (h', res) -> ok_result res -> Inv h' r.
Proof. intros r fuel mq q sr x h h' res L I R H OK. eapply (roll_inv r); eauto. Qed.
Print Assumptions C09_roll_preserves.

(* ---- one step / every finite history over the WHOLE operation alphabet, arbitrary target paths and arguments, inside the
   argument domain guard_C09_args (roll_constant_waveforms: minimal_waveform_quanta >= 1) --------------------------------- *)
Theorem C09_step : forall s o s' out,
  sInv s -> guard_C09_args o = true -> step s o = (s', out) -> out_ok out -> sInv s'.
Proof. exact step_all. Qed.
Print Assumptions C09_step.

Theorem C09_history : forall ops s,
  sInv s -> forallb guard_C09_args ops = true -> run_ok s ops -> sInv (run s ops).
Proof. exact history_all. Qed.
Print Assumptions C09_history.

(* from any constructed tree *)
Theorem C09_history_from_init : forall t ops,
  forallb guard_C09_args ops = true -> run_ok (init_state t) ops -> sInv (run (init_state t) ops).
Proof. intros t ops G OK. apply history_all; auto. apply init_inv. Qed.
Print Assumptions C09_history_from_init.

(* Loop.__eq__ depends on children lists, repetition definitions, waveforms and measurements only: two heaps that agree
   on these (whatever their caches, parent pointers and recorded positions are) give the same answer for every pair *)
Theorem C09_eq_structure_only : forall h h', esame h h' -> forall fuel a b, loop_eqb fuel h a b = loop_eqb fuel h' a b.
Proof. exact loop_eqb_esame. Qed.
Print Assumptions C09_eq_structure_only.

(* ... and conversely: a true answer proves structural equality (seq: same shape, node by node rdef_eqb / wf_eqb / meas_eqb),
   and structural equality is answered true as soon as the fuel exceeds the height of the left operand; on a state that
   satisfies the invariant such a fuel exists for every live node *)
Theorem C09_eq_sound : forall h fuel a b, loop_eqb fuel h a b = true -> seq h a b.
Proof. exact loop_eqb_sound. Qed.
Print Assumptions C09_eq_sound.

Theorem C09_eq_decides : forall h r P a, InvExc h r P -> reach h r a ->
  exists k, forall fuel b, (k <= fuel)%nat -> (loop_eqb fuel h a b = true <-> seq h a b).
Proof. exact loop_eqb_decides. Qed.
Print Assumptions C09_eq_decides.

(* the hypotheses are satisfiable: a one-leaf program satisfies the invariant, and a proved operation runs on it *)
Theorem C09_nonvacuous : forall w, sInv (leaf_state w) /\
  out_ok (snd (step (leaf_state w) (OSetRepCount [] 5))) /\ guard_C09_args (OSetRepCount [] 5) = true.
Proof. intros w; split; [apply leaf_state_inv|split; [exact I|reflexivity]]. Qed.
Print Assumptions C09_nonvacuous.

(* ---- fuel sufficiency (partial): on a state whose reachable part is a tree with correct links the depth of every live
   node is below the heap size (pigeonhole), hence the fuel S (S (length h)) of `fueled` never runs out and no dangling
   id is read in the three fueled primitives; for histories over setters and queries NOTHING has to be assumed --------- *)
Theorem C09_depth_bound : forall h r P x d, InvExc h r P -> depth h r x d -> (d < length h)%nat.
Proof. intros h r P x d I. apply (depth_lt h r P I). Qed.
Print Assumptions C09_depth_bound.

Theorem C09_fuel_invalidate : forall h r P x inc fuel, InvExc h r P -> reach h r x -> (length h < fuel)%nat ->
  exists h', invalidate fuel x inc h = (h', R tt).
Proof. intros h r P x inc fuel I. apply (invalidate_total h r P I). Qed.
Print Assumptions C09_fuel_invalidate.

Theorem C09_fuel_body_duration : forall h r P x fuel, InvExc h r P -> reach h r x -> (length h < fuel)%nat ->
  exists h' q, body_duration fuel x h = (h', R q).
Proof. intros h r P x fuel I. apply (body_duration_total h r P I). Qed.
Print Assumptions C09_fuel_body_duration.

Theorem C09_fuel_copy : forall h r P x np hc, InvExc h r P -> reach h r x ->
  (forall y, (y < length h)%nat -> get hc y = get h y) -> (length h <= length hc)%nat ->
  exists h' c, copy_tree_structure x np hc = (h', R c).
Proof. intros h r P x np hc I. apply (copy_tree_structure_total h r P I). Qed.
Print Assumptions C09_fuel_copy.

(* link between clause I1 of the Prop-level invariant and the `o_dur = tdur` test of check_spec: on a state satisfying
   Inv, what every live node REPORTS (the pure reading the observation uses, with the fuel the observation uses) is
   defined and equals the duration recomputed from leaves and counts *)
Theorem C09_reported_is_recomputed : forall h r x, Inv h r -> reach h r x ->
  exists q b nx, peek_dur (S (S (length h))) h x = Some q /\ tbody h x b /\ get h x = Some nx /\ (q == b * rep_of nx)%Q.
Proof. exact reported_is_recomputed. Qed.
Print Assumptions C09_reported_is_recomputed.

Theorem C09_history_basic_total : forall ops s,
  sInv s -> forallb basic_op ops = true -> run_ok s ops /\ sInv (run s ops).
Proof. exact history_basic_total. Qed.
Print Assumptions C09_history_basic_total.

(* ---- still open ----------------------------------------------------------------------------------------------------- *)
(* open: C09_history without the run_ok hypothesis (no ExFuel / ExDangling outcome on states satisfying Inv) for the
   structural operations: the primitives are total (above), the threading through every operation is not done *)
Definition C09_history_total_statement : Prop := forall ops s,
  sInv s -> forallb guard_C09_args ops = true -> run_ok s ops /\ sInv (run s ops).
(* round 3: Loop.add_measurements (reads body_duration, which memoises; writes the measurement list), any node, any windows,
   whatever the outcome *)
Theorem C09_add_measurements_preserves : forall h r x ms h' res,
  Inv h r -> reach h r x -> add_measurements x ms h = (h', res) -> Inv h' r.
Proof. exact add_measurements_inv. Qed.
Print Assumptions C09_add_measurements_preserves.

(* the forest statement of round 2 (every tree the user holds - the program and every held node outside it - satisfies Inv,
   which includes "the root records no parent") is FALSE over the alphabet of round 3: a held copy made with an explicit
   new_parent records a parent that does not list it (known finding floating-copy-explicit-parent) *)
Theorem C09_forest_r2_refuted : ~ (forall ops fs,
  sInv (f_main fs) -> f_held fs = [] -> let fs' := frun fs ops in
  sInv (f_main fs') /\ forall m, In m (f_held fs') -> in_tree (st_heap (f_main fs')) (st_root (f_main fs')) m = false ->
                                 Inv (st_heap (f_main fs')) m).
Proof. exact forest_refuted. Qed.
Print Assumptions C09_forest_r2_refuted.

(* open (tested by the correspondence check and by check_spec on the program AND on every held tree): inside
   guard_C09_forest (no held copy with an explicit parent, no held node handed back by FInsert) the program keeps the
   invariant whatever is done to the nodes that dropped out of it *)
Definition C09_forest_statement : Prop := forall ops fs,
  sInv (f_main fs) -> f_held fs = [] -> forallb guard_C09_forest ops = true -> sInv (f_main (frun fs ops)).
Example C09_forest_guard_nonvacuous :
  forallb guard_C09_forest [FHold [0%nat]; FMain (OMerge []); FAt 0 (OReverse []); FHoldCopy None [] 0 []] = true.
Proof. reflexivity. Qed.

(* round 4: a call the caller survives inside try/except leaves NO state behind.  pyexn e: a Python exception, not a model
   artefact (fuel / dangling id).  (1) x[idx] = v: the only Python exception is IndexError and then the heap is unchanged -
   v was not re-parented (repair f8d6b25: Node.__setitem__ validates before parse_child re-parents);  (2) x[a:b:st] = vals
   raising ValueError (step 0, size mismatch of an extended slice): heap unchanged;  (3) x.repetition_count = <float q>: the
   only Python exception is ValueError and then nothing was stored;  (4) the same at the forest level, where the values are
   nodes the caller HOLDS: heap, held list and root unchanged;  (5) a rejected call (OReject) does nothing. *)
Theorem C09_failed_call_no_effect :
  (forall x idx v h h' e, loop_setitem_int x idx v h = (h', E e) -> pyexn e -> h' = h /\ e = ExIndex) /\
  (forall x a b st vals h h', loop_setitem_slice x a b st vals h = (h', E ExValue) -> h' = h) /\
  (forall x q h h' e, set_repetition_count_q x q h = (h', E e) -> pyexn e -> h' = h /\ e = ExValue) /\
  (forall fs ks b dst how fs' e, fstep fs (FInsert ks b dst how) = (fs', Raised e) ->
     match how with IAppend => False | IInt _ => pyexn e | ISlice _ _ _ => e = ExValue end ->
     st_heap (f_main fs') = st_heap (f_main fs) /\ f_held fs' = f_held fs /\ st_root (f_main fs') = st_root (f_main fs)) /\
  (forall s p e s' out, step s (OReject p e) = (s', out) -> st_heap s' = st_heap s /\ st_root s' = st_root s).
Proof.
  split; [exact setitem_int_failed|]. split; [exact setitem_slice_failed|]. split; [exact set_repetition_count_q_failed|].
  split; [exact finsert_failed|exact reject_no_effect].
Qed.
Print Assumptions C09_failed_call_no_effect.

(* "a failed call has no effect" is FALSE for the recursive operations: reverse_inplace on [leaf with waveform; leaf
   without] raises AttributeError at the second leaf after the children were reversed (the code does the same; Inv is kept:
   C09_reverse_preserves holds for every outcome) *)
Theorem C09_failed_call_recursive_refuted :
  let s := init_state partial_witness in
  let '(s', out) := step s (OReverse []) in
  out = Raised ExAttr /\ option_map children (get (st_heap s') (st_root s')) <> option_map children (get (st_heap s) (st_root s)).
Proof. exact reverse_partial_effect. Qed.
Print Assumptions C09_failed_call_recursive_refuted.


(* ---- round 5 --------------------------------------------------------------------------------------------------------- *)
(* clause "every node's recorded position locates that very node from the root", linked to the functions the observation
   uses: on a state satisfying the structural part of the invariant, get_location of a live node (with the fuel the
   observation uses) is the list of positions along the path p that leads from the root to the node, and locate from the
   root along that answer ends at the node itself *)
Theorem C09_location_roundtrip : forall h r P x, InvExc h r P -> reach h r x ->
  exists p, resolve h r p = Some x /\
            get_location (S (S (length h))) h x = Some (loc_of_path p) /\ locate h r (loc_of_path p) = LNode x.
Proof. intros h r P x I. exact (location_roundtrip h r P I x). Qed.
Print Assumptions C09_location_roundtrip.

(* the three bookkeeping clauses of the property end to end: after ANY history (22-operation alphabet, any paths and
   arguments inside guard_C09_args, no model-artefact outcome: run_ok) from ANY constructed tree, EVERY live node reports the
   duration recomputed from leaves and counts, its recorded location locates it from the root, and every child it lists
   records it as parent and its index as position *)
Theorem C09_property : forall t ops,
  forallb guard_C09_args ops = true -> run_ok (init_state t) ops ->
  let s := run (init_state t) ops in
  let h := st_heap s in let r := st_root s in
  forall x, reach h r x ->
    (exists q b nx, peek_dur (S (S (length h))) h x = Some q /\ tbody h x b /\ get h x = Some nx /\ (q == b * rep_of nx)%Q) /\
    (exists p, resolve h r p = Some x /\ get_location (S (S (length h))) h x = Some (loc_of_path p) /\
               locate h r (loc_of_path p) = LNode x) /\
    (forall nx i c, get h x = Some nx -> nth_error (children nx) i = Some c ->
       exists nc, get h c = Some nc /\ parent nc = Some x /\ pidx nc = Some (Z.of_nat i)).
Proof. exact property_all. Qed.
Print Assumptions C09_property.

(* non-vacuity of C09_history / C09_property: a 19-operation history on a 3-level tree (volatile count, measurements; duration
   queries before edits, an effective roll, unroll, reverse, negative-bound slice, split, encapsulate, copies, cleanup, merge,
   one IndexError and one ValueError the caller survives) satisfies guard and run_ok *)
Theorem C09_history_nonvacuous :
  forallb guard_C09_args nv_ops = true /\ run_ok (init_state nv_init) nv_ops /\
  outcomes (init_state nv_init) nv_ops =
    [Done; Done; Done; Done; Done; Done; Done; Done; Raised ExIndex; Done; Done; Raised ExValue; Done; Done; Done; Done;
     Done; Done; Done].
Proof. exact history_nonvacuous. Qed.
Print Assumptions C09_history_nonvacuous.

(* non-vacuity of the parts of C09_failed_call_no_effect: each kind of failing call exists on that tree *)
Theorem C09_failed_call_nonvacuous :
  (exists h' e, loop_setitem_int nv_root 9 0%nat nv_heap = (h', E e) /\ e <> ExFuel /\ e <> ExDangling) /\
  (exists h', loop_setitem_slice nv_root None None (Some 0%Z) [] nv_heap = (h', E ExValue)) /\
  (exists h', loop_setitem_slice nv_root None None (Some 2%Z) [0%nat; 1%nat; 2%nat] nv_heap = (h', E ExValue)) /\
  (exists h' e, set_repetition_count_q nv_root (15 # 2) nv_heap = (h', E e) /\ e <> ExFuel /\ e <> ExDangling) /\
  (exists fs', fstep (mkF (init_state nv_init) [0%nat]) (FInsert [0%nat] None [] (IInt 9)) = (fs', Raised ExIndex)) /\
  (exists fs', fstep (mkF (init_state nv_init) [0%nat]) (FInsert [0%nat] None [] (ISlice None None (Some 0%Z))) = (fs', Raised ExValue)).
Proof. exact failed_call_nonvacuous. Qed.
Print Assumptions C09_failed_call_nonvacuous.

(* round 6: Loop.add_measurements is an operation of the history alphabet (OAddMeas): C09_step / C09_history / C09_property
   quantify over it like over every other edit, and - like the setters and queries - a step with it needs no run_ok
   hypothesis (basic_op now includes OAddMeas, see C09_history_basic_total): it cannot end in the model artefacts ExFuel /
   ExDangling on a state with Inv *)
Theorem C09_step_add_measurements : forall s p ms s' out,
  sInv s -> step s (OAddMeas p ms) = (s', out) -> out_ok out /\ sInv s'.
Proof. exact step_add_measurements. Qed.
Print Assumptions C09_step_add_measurements.

(* non-vacuity: a 9-operation history over queries, setters and add_measurements on the 3-level tree nv_init: windows added to
   an inner node with body duration 10 (then 11) are shifted by it, to a leaf (shifted by its waveform's duration 16, as the code does), to
   the root; one call addresses no node (BadPath).  The resulting measurement lists are stated. *)
Theorem C09_add_measurements_nonvacuous :
  forallb basic_op am_ops = true /\ forallb guard_C09_args am_ops = true /\
  outcomes (init_state nv_init) am_ops = [Done; Done; Done; Done; Done; Done; Done; BadPath; Done] /\
  meas_at (run (init_state nv_init) am_ops) [1%nat] = Some (Some [(1, 0%Q, 1%Q); (5, 10%Q, 1%Q); (6, 21 # 2, 2%Q); (8, 11%Q, 1%Q)]) /\
  meas_at (run (init_state nv_init) am_ops) [0%nat] = Some (Some [(7, 16%Q, 1%Q)]) /\
  meas_at (run (init_state nv_init) am_ops) [] = Some (Some [(9, 104%Q, 1%Q)]).
Proof. exact add_measurements_nonvacuous. Qed.
Print Assumptions C09_add_measurements_nonvacuous.

(* round 6: Loop.flatten_and_balance(depth) on ANY live node x of a state with Inv, any depth (also depths that make the loop
   encapsulate, recurse into a child with depth - 1, merge single children, or unroll): Inv is kept and x stays live.  Like
   every per-operation theorem under ok_result res (the run did not end in the model artefacts ExFuel / ExDangling; the
   model's loop has fuel 1500, the code's while loop has none).  Proof: induction on the fuel with the frame Fr (outside
   the subtree of x only caches change) as loop invariant; new frame lemmas for encapsulate and for unroll of a child. *)
Theorem C09_flatten_preserves : forall h r x vctr depth h' res,
  Inv h r -> reach h r x -> flatten_and_balance vctr depth x h = (h', res) -> ok_result res -> Inv h' r /\ reach h' r x.
Proof. exact flatten_and_balance_inv. Qed.
Print Assumptions C09_flatten_preserves.

Theorem C09_flatten_nonvacuous :
  match flatten_and_balance 0 2 nv_root nv_heap with (h', R tt) => (length nv_heap <? length h')%nat = true | _ => False end /\
  match flatten_and_balance 0 1 nv_root nv_heap with (h', R tt) => (length nv_heap <? length h')%nat = true | _ => False end.
Proof. exact flatten_nonvacuous. Qed.
Print Assumptions C09_flatten_nonvacuous.

(* round 6, clause S4 for two structural operations (was: by inspection): on a live node of a state with Inv, unroll /
   unroll_children raise a Python exception only BEFORE anything is stored - the heap is unchanged - and only the
   documented ones (unroll: RuntimeError on a leaf, TypeError without a parent; unroll_children: RuntimeError on a leaf);
   in particular the slice assignment of the copies into the parent cannot be rejected *)
Theorem C09_failed_unroll_no_effect : forall h r x h' e, Inv h r -> reach h r x -> e <> ExFuel -> e <> ExDangling ->
  (unroll x h = (h', E e) -> h' = h /\ (e = ExRuntime \/ e = ExType)) /\
  (unroll_children x h = (h', E e) -> h' = h /\ e = ExRuntime).
Proof.
  intros h r x h' e I Rx N1 N2. split; intros H.
  - exact (unroll_fail_no_effect h r x h' e I Rx H N1 N2).
  - exact (unroll_children_fail_no_effect h r x h' e I Rx H N1 N2).
Qed.
Print Assumptions C09_failed_unroll_no_effect.

Theorem C09_failed_unroll_nonvacuous :
  unroll 0%nat nv_heap = (nv_heap, E ExRuntime) /\ unroll nv_root nv_heap = (nv_heap, E ExType) /\
  unroll_children 0%nat nv_heap = (nv_heap, E ExRuntime).
Proof. exact failed_unroll_nonvacuous. Qed.
Print Assumptions C09_failed_unroll_nonvacuous.

(* the model's own observation passes the check that is applied to the implementation's observation *)
Definition obs_ok (s : state) : bool :=
  match observe s with Some t => spec_tree t [] true 0 [] | None => false end.

(* regression of the repaired finding roll-inner-waveform (36dc22a): the former 3-operation witness now keeps the
   observable invariant in the model (a test by evaluation, not a proof about all histories) *)
Definition roll_witness_init : tspec := TS (RInt 3) None None [TS (RInt 2) (Some (WConst 16 2)) None []].
Definition roll_witness_ops : list op :=
  [OAppend [0%nat] (TS (RInt 2) (Some (WConst 1 2)) None []); OQueryDur []; ORoll [] 2 2 1].
Example C09_roll_witness_now_ok : obs_ok (run (init_state roll_witness_init) roll_witness_ops) = true.
Proof. vm_compute. reflexivity. Qed.
