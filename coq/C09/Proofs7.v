(* C09 — proofs, part 7: fresh value lists (built trees, copies), Loop.__setitem__(slice) with fresh values, unroll,
   unroll_children, split_one_child, _merge_single_child, encapsulate *)
From Coq Require Import List ZArith QArith Bool Lia Arith.
Import ListNotations.
Require Import QV.common.Util QV.C09.Model QV.C09.Proofs QV.C09.Proofs2 QV.C09.Proofs3 QV.C09.Proofs4 QV.C09.Proofs5 QV.C09.Proofs6.
Local Opaque Qred.

(* ---- the tree does not see changes outside of it ------------------------------------------------------------------------------------------- *)
Lemma Inv_frame h h' r : (forall y, reach h r y -> get h' y = get h y) -> Inv h r -> Inv h' r.
Proof.
  intros Same I0.
  assert (RR : forall y, reach h' r y -> reach h r y).
  { intros y R. induction R; [constructor|]. rewrite Same in H by auto. eapply reach_step; eauto. }
  split.
  - destruct (inv_root _ _ _ I0) as (nr & G & Pn). exists nr; split; auto. rewrite Same; auto. constructor.
  - intros p np i c R G N. pose proof (RR _ R) as R0. rewrite Same in G by auto.
    destruct (inv_links _ _ _ I0 _ _ _ _ R0 G N) as (nc & Gc & Pc & Ic).
    exists nc; split; auto. rewrite Same; auto. eapply reach_step; eauto. eapply nth_error_In; eauto.
  - destruct (inv_rank _ _ _ I0) as (rk & Hrk). exists rk. intros p np c R G HIn.
    pose proof (RR _ R) as R0. rewrite Same in G by auto. eauto.
  - intros y R _ n q G C. pose proof (RR _ R) as R0. rewrite Same in G by auto.
    destruct (inv_cache _ _ _ I0 y R0 (fun f => f) n q G C) as (b & Tb & Eb).
    exists b; split; auto. eapply tbody_frame; eauto. intros z Rz. apply Same. eapply reach_trans; eauto.
Qed.

Lemma reach_frame h h' r : (forall y, reach h r y -> get h' y = get h y) -> forall y, reach h r y -> reach h' r y.
Proof. intros Same y R. induction R; [constructor|]. eapply reach_step; eauto. rewrite Same; auto. Qed.
Lemma reach_frame' h h' r : (forall y, reach h r y -> get h' y = get h y) -> forall y, reach h' r y -> reach h r y.
Proof. intros Same y R. induction R; [constructor|]. rewrite Same in H by auto. eapply reach_step; eauto. Qed.

(* a field of x that the links do not read is changed, then the reset walk from x *)
Lemma modn_fields_inv h r x f h' res :
  (forall n, lshape (f n) = lshape n) ->
  Inv h r -> reach h r x -> (modn x f ;;; invalidate_all x) h = (h', res) -> ok_result res ->
  Inv h' r /\ res = R tt /\ cache_only (upd h x f) h'.
Proof.
  intros LSF I Rx H OK. rewrite bind_modn in H. unfold invalidate_all in H. rewrite fueled_eq in H.
  set (h1 := upd h x f) in *.
  assert (LS : lsame h h1) by (apply lsame_upd; auto).
  destruct (invalidate _ x None h1) as (h2, [[]|e]) eqn:W; inversion H; subst.
  2:{ destruct OK as (N1 & N2). destruct (invalidate_none_err _ _ _ _ _ W); congruence. }
  split; [|split; auto; apply (invalidate_none_cache_only _ _ _ _ _ W)].
  eapply invalidate_none_spec; [exact W|eapply reach_lsame; eauto|].
  eapply InvExc_lsame; [exact LS|exact I|].
  intros y Ry NR.
  assert (Nyx : y <> x) by (intros ->; apply NR; constructor).
  eapply cvalid_keep.
  - apply (inv_cache _ _ _ I); auto.
  - intros n' G'. unfold h1 in G'. rewrite get_upd_other in G' by auto. eauto.
  - intros b Tb. apply (tbody_off_path h h1 r _ x y b I); [| |exact Tb].
    + intros z Nz. unfold h1. apply get_upd_other; auto.
    + intros Ryx. apply NR. eapply reach_lsame; eauto.
Qed.

(* waveform / measurements of a node that has children do not matter *)
Lemma tbody_wform_nonleaf h x nx w m :
  get h x = Some nx -> children nx <> [] ->
  (forall y b, tbody h y b -> tbody (upd h x (fun n => set_meas m (set_wform w n))) y b) /\
  (forall l s, tsum h l s -> tsum (upd h x (fun n => set_meas m (set_wform w n))) l s).
Proof.
  intros Gx NL. set (h' := upd h x _).
  assert (GG : forall y n, get h y = Some n -> exists n', get h' y = Some n' /\ children n' = children n /\ rdf n' = rdf n /\
                                                   (y <> x -> n' = n)).
  { intros y n G. unfold h'. rewrite get_upd. destruct (Nat.eqb_spec x y) as [->|N].
    - rewrite G. cbn. eexists; split; [reflexivity|]. destruct n; cbn; repeat split; auto; congruence.
    - exists n; repeat split; auto. }
  apply tbody_tsum_ind.
  - intros y n G C. destruct (GG y n G) as (n' & G' & C' & R' & E').
    assert (y <> x) by (intros ->; congruence). rewrite (E' H) in G'. apply (TB_leaf h' y n); auto.
  - intros y n s G C T IH. destruct (GG y n G) as (n' & G' & C' & R' & E').
    apply (TB_inner h' y n'); auto; congruence.
  - constructor.
  - intros c cs b nc s T IH G T2 IH2. destruct (GG c nc G) as (n' & G' & C' & R' & E').
    replace (rep_of nc) with (rep_of n') by (unfold rep_of; now rewrite R'). constructor; auto.
Qed.

Lemma modn_wform_nonleaf_inv h r x nx w m :
  Inv h r -> get h x = Some nx -> children nx <> [] -> Inv (upd h x (fun n => set_meas m (set_wform w n))) r.
Proof.
  intros I Gx NL. eapply InvExc_lsame; [apply lsame_upd; intros []; reflexivity|exact I|].
  intros y Ry _. eapply cvalid_keep.
  - apply (inv_cache _ _ _ I); auto.
  - intros n' G'. rewrite get_upd in G'. destruct (Nat.eqb x y).
    + destruct (get h y) as [n|]; cbn in G'; [|discriminate]. inversion G'; subst. exists n; split; auto.
    + eauto.
  - intros b Tb. apply (proj1 (tbody_wform_nonleaf h x nx w m Gx NL)); auto.
Qed.

(* ---- lists of fresh subtrees ------------------------------------------------------------------------------------------------------------------- *)
Lemma Subs_app h lo mid hi l1 l2 : Subs h lo mid l1 -> Subs h mid hi l2 -> Subs h lo hi (l1 ++ l2).
Proof. induction 1; intros S2; cbn; auto. econstructor; eauto. Qed.

Lemma Subs_sep h lo hi l : Subs h lo hi l -> forall v v', In v l -> In v' l -> reach h v v' -> v = v'.
Proof.
  induction 1 as [|lo mid hi c cs S SS IH]; intros v v' Hv Hv' R; [contradiction|].
  destruct Hv as [<-|Hv], Hv' as [<-|Hv']; auto.
  - destruct (Subs_In _ _ _ _ _ SS Hv') as (lo' & hi' & L1 & L2 & S'). pose proof (Sub_le _ _ _ _ S').
    pose proof (sub_range _ _ _ _ S _ R). lia.
  - destruct (Subs_In _ _ _ _ _ SS Hv) as (lo' & hi' & L1 & L2 & S'). pose proof (sub_range _ _ _ _ S' _ R).
    pose proof (Sub_le _ _ _ _ S). lia.
Qed.

Lemma Subs_frame_ext h h' lo hi l : (forall y, (y < hi)%nat -> get h' y = get h y) -> Subs h lo hi l -> Subs h' lo hi l.
Proof.
  intros Same SS. induction SS as [|lo mid hi c cs S1 S2 IH]; [constructor|].
  pose proof (Subs_le _ _ _ _ S2). econstructor.
  - eapply Sub_frame; [|exact S1]. intros y Ry. apply Same. lia.
  - apply IH. auto.
Qed.

(* a computation that allocates a list of fresh subtrees *)
Definition FL (m : M (list id)) : Prop :=
  forall h h1 res, m h = (h1, res) ->
  match res with
  | R ids => (length h <= length h1)%nat /\ (forall y, (y < length h)%nat -> get h1 y = get h y) /\
             Subs h1 (length h) (length h1) ids
  | E e => model_err e
  end.

Lemma FL_ret_nil : FL (ret []).
Proof. intros h h1 res H. inversion H; subst. repeat split; auto. constructor. Qed.

Lemma FL_one (m : M id) :
  (forall h h1 res, m h = (h1, res) ->
     match res with
     | R c => (forall y, (y < length h)%nat -> get h1 y = get h y) /\ Sub h1 (length h) (length h1) c
     | E e => model_err e end) ->
  forall l, FL l -> FL (a <- l ;; c <- m ;; ret (a ++ [c])).
Proof.
  intros Hm l Hl h h2 res H. unfold bind at 1 in H.
  destruct (l h) as (h1, [a|e]) eqn:El; pose proof (Hl _ _ _ El) as P1; [|inversion H; subst; auto].
  destruct P1 as (L1 & O1 & S1). unfold bind at 1 in H.
  destruct (m h1) as (h2', [c|e]) eqn:Em; pose proof (Hm _ _ _ Em) as P2; [|inversion H; subst; auto].
  destruct P2 as (O2 & S2). inversion H; subst. pose proof (Sub_le _ _ _ _ S2).
  split; [lia|]. split; [intros y Ly; rewrite O2 by lia; auto|].
  eapply Subs_app; [eapply Subs_frame_ext; [|exact S1]; auto|].
  econstructor; [exact S2|constructor].
Qed.

Lemma mmap_FL {A} (f : A -> M id) :
  (forall a h h1 res, f a h = (h1, res) ->
     match res with
     | R c => (forall y, (y < length h)%nat -> get h1 y = get h y) /\ Sub h1 (length h) (length h1) c
     | E e => model_err e end) ->
  forall l, FL (mmap f l).
Proof.
  intros Hf. induction l as [|a l IH]; [apply FL_ret_nil|].
  intros h h2 res H. cbn in H. unfold bind at 1 in H.
  destruct (f a h) as (h1, [c|e]) eqn:Ef; pose proof (Hf _ _ _ _ Ef) as P1; [|inversion H; subst; auto].
  destruct P1 as (O1 & S1). unfold bind at 1 in H.
  destruct (mmap f l h1) as (h2', [ids|e]) eqn:Em; pose proof (IH _ _ _ Em) as P2; [|inversion H; subst; auto].
  destruct P2 as (L2 & O2 & S2). inversion H; subst. pose proof (Sub_le _ _ _ _ S1).
  split; [lia|]. split; [intros y Ly; rewrite O2 by lia; auto|].
  econstructor; [eapply Sub_frame; [|exact S1]; intros y Ry; apply O2; lia|exact S2].
Qed.

Lemma build_one t h h1 res : build t h = (h1, res) ->
  match res with
  | R c => (forall y, (y < length h)%nat -> get h1 y = get h y) /\ Sub h1 (length h) (length h1) c
  | E e => model_err e end.
Proof.
  intros B. destruct (build_spec t h) as (h1' & c & B' & Lc1 & Lc0 & Pre & SC & _).
  rewrite B' in B. inversion B; subst. split; auto.
Qed.

Lemma copy_one x np h h1 res : copy_tree_structure x np h = (h1, res) ->
  match res with
  | R c => (forall y, (y < length h)%nat -> get h1 y = get h y) /\ Sub h1 (length h) (length h1) c
  | E e => model_err e end.
Proof.
  intros H. unfold copy_tree_structure, bind, getn in H.
  destruct (get h x) as [n|]; [|inversion H; subst; right; reflexivity].
  rewrite fueled_eq in H. pose proof (copy_tree_spec _ _ _ _ _ _ H) as P.
  destruct res as [c|e]; [|exact P]. destruct P as (L1 & L2 & O & S). split; auto.
Qed.

Lemma copies_of_FL cs cnt q : FL (copies_of cs cnt (fun _ => ret q)).
Proof.
  unfold copies_of.
  assert (STEP : forall acc, FL acc ->
            FL (l <- acc ;; r <- mmap (fun c => p <- (fun _ : id => ret q) c ;; copy_tree_structure c p) cs ;; ret (l ++ r))).
  { intros acc Ha h h2 res H. unfold bind at 1 in H.
    destruct (acc h) as (h1, [l|e]) eqn:El; pose proof (Ha _ _ _ El) as P1; [|inversion H; subst; auto].
    destruct P1 as (L1 & O1 & S1). unfold bind at 1 in H.
    assert (FM : FL (mmap (fun c => p <- ret q ;; copy_tree_structure c p) cs)).
    { apply mmap_FL. intros c0 h0 h0' res0 H0. apply (copy_one c0 q). exact H0. }
    destruct (mmap _ cs h1) as (h2', [rr|e]) eqn:Em; pose proof (FM _ _ _ Em) as P2; [|inversion H; subst; auto].
    destruct P2 as (L2 & O2 & S2). inversion H; subst.
    split; [lia|]. split; [intros y Ly; rewrite O2 by lia; auto|].
    eapply Subs_app; [eapply Subs_frame_ext; [|exact S1]; auto|exact S2]. }
  destruct cnt as [|p|p]; cbn; try apply FL_ret_nil.
  apply Pos.iter_invariant; auto using FL_ret_nil.
Qed.

(* fresh subtrees are acceptable values for a slice assignment at any live node *)
Lemma fresh_vals_ok h r x nx lo hi vals :
  Inv h r -> (forall y, reach h r y -> (y < lo)%nat) -> Subs h lo hi vals -> reach h r x -> get h x = Some nx ->
  NoDup vals /\ (forall v, In v vals -> LI h v (fun _ => False)) /\
  (forall v y, In v vals -> reach h v y -> y <> x /\ (y <> v -> ~ In y vals /\ ~ In y (children nx))) /\
  (forall v, In v vals -> reach h r v -> reach h x v) /\
  (forall c y, In c (children nx) -> reach h c y -> ~ In y vals).
Proof.
  intros I Lo SS Rx Gx.
  assert (GE : forall v y, In v vals -> reach h v y -> (lo <= y)%nat).
  { intros v y Hv R. destruct (Subs_In _ _ _ _ _ SS Hv) as (lo' & hi' & L1 & L2 & S).
    pose proof (sub_range _ _ _ _ S _ R). lia. }
  split; [eapply Subs_NoDup; eauto|]. split.
  { intros v Hv. destruct (Subs_In _ _ _ _ _ SS Hv) as (lo' & hi' & L1 & L2 & S). eapply Sub_LI; eauto. }
  split.
  { intros v y Hv R. pose proof (GE v y Hv R). pose proof (Lo x Rx). split; [lia|].
    intros N. split.
    - intros Hy. apply N. symmetry. eapply Subs_sep; eauto.
    - intros Hc. assert (Ry : reach h r y) by (eapply reach_step; eauto). specialize (Lo y Ry). lia. }
  split.
  { intros v Hv R. pose proof (GE v v Hv (reach_refl _ _)). specialize (Lo v R). lia. }
  intros c y Hc R Hy. pose proof (GE y y Hy (reach_refl _ _)).
  assert (Ry : reach h r y) by (eapply reach_trans; [eapply reach_step; eauto|auto]). specialize (Lo y Ry). lia.
Qed.

Lemma live_lt h r y : Inv h r -> reach h r y -> (y < length h)%nat.
Proof. intros I R. destruct (live_get _ _ _ I y R) as (n & G). eapply get_lt; eauto. Qed.

(* ---- x[a:b] = <fresh values> (simple slice), for any maker of fresh subtrees ------------------------------------------------------------------------ *)
Lemma setslice_fresh_inv (mk : M (list id)) h0 r x a b stp h' res :
  FL mk -> (stp = None \/ stp = Some 1%Z) ->
  Inv h0 r -> reach h0 r x -> (vals <- mk ;; loop_setitem_slice x a b stp vals) h0 = (h', res) -> ok_result res ->
  Inv h' r /\ (forall y, reach h0 r y -> ~ reach h0 x y -> exists n n', get h0 y = Some n /\ get h' y = Some n' /\ n' = set_cache (cache n') n) /\
  (match res with R _ => reach h' r x | E _ => True end).
Proof.
  intros FM ST I0 Rx H OK. unfold bind at 1 in H.
  destruct (mk h0) as (h1, [vals|e]) eqn:B; pose proof (FM _ _ _ B) as P.
  2:{ inversion H; subst. destruct OK, P; congruence. }
  destruct P as (L1 & Pre & SS).
  assert (I1 : Inv h1 r) by (eapply Inv_ext; eauto).
  assert (Same : forall y, reach h0 r y -> get h1 y = get h0 y) by (intros; apply Pre; eapply live_lt; eauto).
  assert (Rx1 : reach h1 r x) by (eapply reach_frame; eauto).
  destruct (live_get _ _ _ I1 x Rx1) as (nx & Gx).
  assert (Lo : forall y, reach h1 r y -> (y < length h0)%nat).
  { intros y R. eapply live_lt; eauto. eapply reach_frame'; eauto. }
  destruct (fresh_vals_ok h1 r x nx _ _ vals I1 Lo SS Rx1 Gx) as (V1 & V2 & V3 & V4 & V5).
  destruct (setslice_inv h1 r x nx a b stp vals I1 Rx1 Gx ST V1 V2 V3 V4 (or_intror V5) h' res H OK)
    as (I' & -> & Rx' & _ & new & c' & _ & _ & _ & _ & _ & OUTc).
  split; auto. split; auto.
  intros y Ry NR. destruct (OUTc y) as (n & n' & G & G' & E).
  - eapply reach_frame; eauto.
  - intros R1. apply NR. clear - R1 Same Rx. 
    assert (forall z, reach h1 x z -> reach h0 x z).
    { intros z R. induction R; [constructor|]. rewrite Same in H by (eapply reach_trans; eauto). eapply reach_step; eauto. }
    auto.
  - rewrite Same in G by auto. eauto.
Qed.

Definition Fr (r : id) (h h' : heap) (x : id) : Prop :=
  forall y, reach h r y -> ~ reach h x y -> exists n n', get h y = Some n /\ get h' y = Some n' /\ n' = set_cache (cache n') n.

(* x[a:b] = [<fresh trees>] *)
Lemma setslice_build_inv h0 r x a b stp ts h' res :
  (stp = None \/ stp = Some 1%Z) ->
  Inv h0 r -> reach h0 r x -> (cs <- mmap build ts ;; loop_setitem_slice x a b stp cs) h0 = (h', res) -> ok_result res -> Inv h' r.
Proof.
  intros ST I Rx H OK.
  assert (FM : FL (mmap build ts)) by (apply mmap_FL; intros t h h1 res0; apply build_one).
  destruct (setslice_fresh_inv _ h0 r x a b stp h' res FM ST I Rx H OK) as (I' & _). exact I'.
Qed.

(* ---- Loop.unroll ---------------------------------------------------------------------------------------------------------------------------------- *)
Lemma py_index_nat len i : (i < len)%nat -> py_index (Z.of_nat len) (Z.of_nat i) = Some (Z.of_nat i).
Proof.
  intros L. unfold py_index. assert ((0 <=? Z.of_nat i)%Z = true) by (apply Z.leb_le; lia).
  assert ((Z.of_nat i <? Z.of_nat len)%Z = true) by (apply Z.ltb_lt; lia). now rewrite H, H0.
Qed.

Lemma unroll_inv h r x h' res : Inv h r -> reach h r x -> unroll x h = (h', res) -> ok_result res -> Inv h' r.
Proof.
  intros I Rx H OK. unfold unroll in H.
  destruct (live_get _ _ _ I x Rx) as (n & G). rewrite (bind_getn x n _ h G) in H.
  destruct (is_leaf n); [inversion H; subst; auto|].
  destruct (live_parent _ _ _ I x n Rx G) as [(-> & Pn)|(p & np & Pp & Rp & Gp & HIn)].
  - rewrite Pn in H. inversion H; subst; auto.
  - rewrite Pp in H. apply In_nth_error in HIn as (i & Hi).
    destruct (inv_links _ _ _ I _ _ _ _ Rp Gp Hi) as (n' & G' & _ & Ii). assert (n' = n) by congruence. subst n'.
    rewrite Ii in H.
    destruct (setslice_fresh_inv (copies_of (children n) (rep_count (rdf n)) (fun _ => ret (NPNode p))) h r p
                (Some (Z.of_nat i)) (Some (Z.of_nat i + 1)%Z) None h' res (copies_of_FL _ _ _) (or_introl eq_refl) I Rp H OK) as (I' & _).
    exact I'.
Qed.

(* ---- Loop.unroll_children ---------------------------------------------------------------------------------------------------------------------------- *)
Lemma unroll_children_inv h r x h' res : Inv h r -> reach h r x -> unroll_children x h = (h', res) -> ok_result res -> Inv h' r.
Proof.
  intros I Rx H OK. unfold unroll_children in H.
  destruct (live_get _ _ _ I x Rx) as (n & G). rewrite (bind_getn x n _ h G) in H.
  destruct (is_leaf n); [inversion H; subst; auto|].
  set (mk := copies_of (children n) (rep_count (rdf n)) (fun _ => ret NPFalse)) in *.
  destruct ((vals <- mk ;; loop_setitem_slice x None None None vals) h) as (h1, r1) eqn:E1.
  assert (H' : (match r1 with R _ => set_repetition_count x 1 | E e => raise e end) h1 = (h', res)).
  { revert H. unfold bind in *. destruct (mk h) as (ha, [vals|e]); [|inversion E1; subst; auto].
    rewrite E1. destruct r1; auto. }
  assert (OK1 : ok_result r1).
  { destruct r1; cbn; auto. inversion H'; subst. exact OK. }
  destruct (setslice_fresh_inv mk h r x None None None h1 r1 (copies_of_FL _ _ _) (or_introl eq_refl) I Rx E1 OK1) as (I1 & _ & Rx1).
  destruct r1 as [[]|e]; [|inversion H'; subst; auto].
  eapply set_repetition_definition_inv; eauto.
Qed.
