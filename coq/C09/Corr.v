(* C09 — correspondence cases.  A case is an initial tree, a history of operations and, after every operation, the
   observation made on the real `Loop` objects (for every node reachable from the root: repetition count, waveform,
   measurements, the duration the node REPORTS, its recorded parent_index, where its parent pointer points, and
   whether root.locate(node.get_location()) is that node).
   check_corr: the heap model run on the same history makes the same observations.
   check_spec: the invariant of the property evaluated on the implementation's observation alone. *)
From Coq Require Import List ZArith QArith Bool.
Import ListNotations.
Require Import QV.common.Util QV.C09.Model.
Open Scope Z_scope.

Inductive prel := PNone | PPath (p : path) | POutside.
Inductive lres := LSelf | LOther | LErr.
Record oinfo := mkO {
  o_rep : Z; o_vol : bool; o_wf : option wf; o_meas : option (list mw);
  o_dur : Q;                (* node.duration as reported (caches as they are) *)
  o_pidx : option Z;        (* node.parent_index *)
  o_par : prel;             (* node.parent: None / the node at this path / an object outside the tree *)
  o_loc : lres              (* root.locate(node.get_location()) is node / another node / raises *)
}.
Inductive otree := ON (i : oinfo) (cs : list otree).

(* ---- the model's observation ---------------------------------------------------------------------------------- *)
Fixpoint live (fuel : nat) (h : heap) (x : id) (here : path) : list (id * path) :=
  match fuel with
  | O => []
  | S f =>
      match get h x with
      | None => []
      | Some n =>
          (x, here) :: (fix go (cs : list id) (i : nat) : list (id * path) :=
                          match cs with [] => [] | c :: r => live f h c (here ++ [i]) ++ go r (S i) end) (children n) O
      end
  end.
Fixpoint lookup_path (lp : list (id * path)) (x : id) : option path :=
  match lp with [] => None | (y, p) :: r => if Nat.eqb x y then Some p else lookup_path r x end.

Fixpoint omap {A B} (f : A -> option B) (l : list A) : option (list B) :=
  match l with
  | [] => Some []
  | a :: r => match f a, omap f r with Some b, Some bs => Some (b :: bs) | _, _ => None end
  end.

Fixpoint obs_tree (fuel big : nat) (h : heap) (root : id) (lp : list (id * path)) (x : id) : option otree :=
  match fuel with
  | O => None
  | S f =>
      match get h x, peek_dur big h x with
      | Some n, Some d =>
          let par := match parent n with
                     | None => PNone
                     | Some p => match lookup_path lp p with Some pa => PPath pa | None => POutside end
                     end in
          let loc := match get_location big h x with
                     | None => LErr
                     | Some l => match locate h root l with
                                 | LNode y => if Nat.eqb y x then LSelf else LOther
                                 | LError => LErr
                                 end
                     end in
          match omap (obs_tree f big h root lp) (children n) with
          | Some cs => Some (ON (mkO (rep_count (rdf n)) (is_vol (rdf n)) (wform n) (meas n) d (pidx n) par loc) cs)
          | None => None
          end
      | _, _ => None
      end
  end.
Definition observe_at (h : heap) (root : id) : option otree :=
  let big := S (S (length h)) in
  obs_tree big big h root (live big h root []) root.
Definition observe (s : state) : option otree := observe_at (st_heap s) (st_root s).
(* the node where get_location() of x's tree starts: up the recorded parents while `if self.parent:` holds *)
Fixpoint top_from (fuel : nat) (h : heap) (seen : list id) (m x : id) : id :=
  match fuel with
  | O => m
  | S f => if existsb (Nat.eqb x) seen then m      (* the recorded parents form a cycle (after a failed assignment): m itself *)
           else match get h x with
                | Some n => match parent n with
                            | Some p => match get h p with Some np => if truthy np then top_from f h (x :: seen) m p else x | None => x end
                            | None => x
                            end
                | None => x
                end
  end.
Definition top_of (fuel : nat) (h : heap) (x : id) : id := top_from fuel h [] x x.
(* the subtree below a held node m that is no longer in the program; positions are checked from the top of m's own tree *)
(* the recorded position of a node without parent says nothing: not compared *)
Definition blank_root (t : otree) : otree :=
  match t with
  | ON i cs => ON (mkO (o_rep i) (o_vol i) (o_wf i) (o_meas i) (o_dur i)
                       (match o_par i with PNone => None | _ => o_pidx i end) (o_par i) (o_loc i)) cs
  end.
Definition observe_sub (h : heap) (m : id) : option otree :=
  let big := S (S (length h)) in
  option_map blank_root (obs_tree big big h (top_of big h m) (live big h m []) m).

(* ---- comparison -------------------------------------------------------------------------------------------------- *)
Definition path_eqb (a b : path) : bool := list_eqb Nat.eqb a b.
Definition prel_eqb (a b : prel) : bool :=
  match a, b with
  | PNone, PNone | POutside, POutside => true
  | PPath p, PPath q => path_eqb p q
  | _, _ => false
  end.
Definition lres_eqb (a b : lres) : bool :=
  match a, b with LSelf, LSelf | LOther, LOther | LErr, LErr => true | _, _ => false end.
Definition oinfo_eqb (a b : oinfo) : bool :=
  (o_rep a =? o_rep b) && Bool.eqb (o_vol a) (o_vol b) && opt_eqb wf_eqb (o_wf a) (o_wf b)
  && meas_eqb (o_meas a) (o_meas b) && Qeq_bool (o_dur a) (o_dur b) && opt_eqb Z.eqb (o_pidx a) (o_pidx b)
  && prel_eqb (o_par a) (o_par b) && lres_eqb (o_loc a) (o_loc b).
Fixpoint otree_eqb (a b : otree) : bool :=
  match a, b with
  | ON i cs, ON j ds =>
      oinfo_eqb i j &&
      (fix go (l : list otree) (m : list otree) : bool :=
         match l, m with
         | [], [] => true
         | x :: l', y :: m' => otree_eqb x y && go l' m'
         | _, _ => false
         end) cs ds
  end.

(* round 3: KRecursion = RecursionError (the model runs out of fuel: only on cyclic structures); KCycle / KRecCycle = the
   operation completed / raised RecursionError and left a cyclic structure behind: the history is cut there *)
Inductive okind := KDone | KIndex | KType | KValue | KRuntime | KAttr | KAssert | KBadPath | KRecursion | KCycle | KRecCycle.
Definition kind_of (o : outcome) : option okind :=
  match o with
  | Done => Some KDone
  | BadPath => Some KBadPath
  | Raised ExIndex => Some KIndex | Raised ExType => Some KType | Raised ExValue => Some KValue
  | Raised ExRuntime => Some KRuntime | Raised ExAttr => Some KAttr | Raised ExAssert => Some KAssert
  | Raised ExFuel => Some KRecursion
  | Raised ExDangling => None
  end.
Definition okind_eqb (a b : okind) : bool :=
  match a, b with
  | KDone, KDone | KIndex, KIndex | KType, KType | KValue, KValue | KRuntime, KRuntime | KAttr, KAttr
  | KAssert, KAssert | KBadPath, KBadPath | KRecursion, KRecursion | KCycle, KCycle | KRecCycle, KRecCycle => true
  | _, _ => false
  end.

Record sobs := mkS { s_out : okind; s_eq : option bool; s_tree : otree }.
(* round 2: the program plus the trees below the nodes the user still holds after they dropped out of the program
   (None: the held node is still in the program) *)
Record fsobs := mkFS { fs_main : sobs; fs_held : list (option otree) }.
Inductive case :=
| CHist (init : tspec) (steps : list (op * sobs))
| CForest (init : tspec) (steps : list (fop * fsobs))
(* round 5: the twin of a forest case that falls into a known finding (aliased-insert / floating-copy-explicit-parent).  The
   check drops model-vs-implementation disagreements of cases whose specification fails under a known finding, so a change of
   behaviour INSIDE a known-finding class would go unnoticed; the twin carries the same history and observations, is exempt
   from the specification (it fails there by definition of the finding) and is judged by the correspondence alone *)
| CCorrOnly (init : tspec) (steps : list (fop * fsobs))
| CCrash.

Definition model_eq (s : state) (o : op) : option bool :=
  match o with
  | OEq a b =>
      match resolve (st_heap s) (st_root s) a, resolve (st_heap s) (st_root s) b with
      | Some x, Some y => Some (loop_eqb (S (S (length (st_heap s)))) (st_heap s) x y)
      | _, _ => None
      end
  | OEqCopy p _ =>
      (* the copy's root is the node allocated last *)
      match resolve (st_heap s) (st_root s) p with
      | Some x => Some (loop_eqb (S (S (length (st_heap s)))) (st_heap s) x (pred (length (st_heap s))))
      | None => None
      end
  | _ => None
  end.

Fixpoint corr_steps (s : state) (steps : list (op * sobs)) : bool :=
  match steps with
  | [] => true
  | (o, ob) :: r =>
      let '(s', out) := step s o in
      match kind_of out, observe s' with
      | Some k, Some t =>
          okind_eqb k (s_out ob) && otree_eqb t (s_tree ob) && opt_eqb Bool.eqb (model_eq s' o) (s_eq ob)
          && corr_steps s' r
      | _, _ => false
      end
  end.
Definition fop_op (o : fop) : op := match o with FMain o' => o' | FAt _ o' => o' | _ => ONop end.
Definition opt_otree_eqb (a b : option otree) : bool :=
  match a, b with Some x, Some y => otree_eqb x y | None, None => true | _, _ => false end.
Definition observe_held (fs : fstate) : option (list (option otree)) :=
  let s := f_main fs in
  omap (fun m => if in_tree (st_heap s) (st_root s) m then Some None
                 else match observe_sub (st_heap s) m with Some t => Some (Some t) | None => None end) (f_held fs).
Definition fmodel_eq (fs fs' : fstate) (o : fop) : option bool :=
  match o with
  | FMain o' => model_eq (f_main fs') o'
  | FAt k o' => match nth_error (f_held fs) k with
                | Some m => model_eq (mkState (st_heap (f_main fs')) m 0) o'
                | None => None
                end
  | _ => None
  end.
(* a node that is its own descendant somewhere below x (path longer than the heap: pigeonhole) *)
Fixpoint cyc (fuel : nat) (h : heap) (stack : list id) (x : id) : bool :=
  match fuel with
  | O => true
  | S f => if existsb (Nat.eqb x) stack then true
           else match get h x with
                | None => false
                | Some n => existsb (cyc f h (x :: stack)) (children n)
                end
  end.
Definition fcyclic (fs : fstate) : bool :=
  let h := st_heap (f_main fs) in
  let big := S (S (length h)) in
  cyc big h [] (st_root (f_main fs)) || existsb (cyc big h []) (f_held fs).
Definition is_cut (k : okind) : bool := match k with KCycle | KRecCycle => true | _ => false end.
Fixpoint fcorr_steps (fs : fstate) (steps : list (fop * fsobs)) : bool :=
  match steps with
  | [] => true
  | (o, ob) :: r =>
      let '(fs', out) := fstep fs o in
      if is_cut (s_out (fs_main ob))
      then (* the structure became cyclic: nothing can be observed, the history ends here *)
           fcyclic fs' && match out, r with
                          | Done, [] => okind_eqb KCycle (s_out (fs_main ob))
                          | Raised ExFuel, [] => okind_eqb KRecCycle (s_out (fs_main ob))
                          | _, _ => false
                          end
      else
      negb (fcyclic fs') &&
      match kind_of out, observe (f_main fs'), observe_held fs' with
      | Some k, Some t, Some hs =>
          okind_eqb k (s_out (fs_main ob)) && otree_eqb t (s_tree (fs_main ob))
          && opt_eqb Bool.eqb (fmodel_eq fs fs' o) (s_eq (fs_main ob))
          && list_eqb opt_otree_eqb hs (fs_held ob)
          && fcorr_steps fs' r
      | _, _, _ => false
      end
  end.
Definition check_corr (c : case) : bool :=
  match c with
  | CHist t steps => corr_steps (init_state t) steps
  | CForest t steps => fcorr_steps (mkF (init_state t) []) steps
  | CCorrOnly t steps => fcorr_steps (mkF (init_state t) []) steps
  | CCrash => false
  end.

(* ---- the property's own specification on the implementation's observation ----------------------------------------- *)
(* duration recomputed from leaves and repetition counts *)
Fixpoint tdur (t : otree) : Q :=
  match t with
  | ON i cs =>
      let body := match cs with
                  | [] => match o_wf i with Some w => wf_dur w | None => 0%Q end
                  | _ => (fix go (l : list otree) : Q := match l with [] => 0%Q | c :: r => Qred (tdur c + go r) end) cs
                  end in
      Qred (body * inject_Z (o_rep i))
  end.
Fixpoint spec_tree (t : otree) (here : path) (is_root : bool) (exp_idx : Z) (exp_par : path) : bool :=
  match t with
  | ON i cs =>
      Qeq_bool (o_dur i) (tdur t)                                             (* I1: reported = recomputed *)
      && (is_root || (opt_eqb Z.eqb (o_pidx i) (Some exp_idx)                 (* I2: recorded position = position *)
                      && prel_eqb (o_par i) (PPath exp_par)))                 (* I3: parent = the node that lists it *)
      && lres_eqb (o_loc i) LSelf                                             (* locate(get_location()) is self *)
      && (fix go (l : list otree) (k : nat) : bool :=
            match l with
            | [] => true
            | c :: r => spec_tree c (here ++ [k]) false (Z.of_nat k) here && go r (S k)
            end) cs O
  end.

(* equality decided by structure, counts, waveforms and measurements only (volatile counts: not decidable from the
   observation, such subtrees are left to check_corr) *)
Fixpoint has_vol (t : otree) : bool :=
  match t with ON i cs => o_vol i || existsb has_vol cs end.
Fixpoint struct_eqb (a b : otree) : bool :=
  match a, b with
  | ON i cs, ON j ds =>
      (o_rep i =? o_rep j) && opt_eqb wf_eqb (o_wf i) (o_wf j) && meas_eqb (o_meas i) (o_meas j)
      && (fix go (l : list otree) (m : list otree) : bool :=
            match l, m with
            | [], [] => true
            | x :: l', y :: m' => struct_eqb x y && go l' m'
            | _, _ => false
            end) cs ds
  end.
Fixpoint sub_at (t : otree) (p : path) : option otree :=
  match p with
  | [] => Some t
  | k :: r => match t with ON _ cs => match nth_error cs k with Some c => sub_at c r | None => None end end
  end.
Definition spec_eq (o : op) (ob : sobs) : bool :=
  match o with
  | OEq a b =>
      match sub_at (s_tree ob) a, sub_at (s_tree ob) b, s_eq ob with
      | Some ta, Some tb, Some r => if has_vol ta || has_vol tb then true else Bool.eqb r (struct_eqb ta tb)
      | _, _, _ => false
      end
  | OEqCopy p k =>
      (* a structural copy is equal; a copy that differs in one count / waveform / measurement is not *)
      match sub_at (s_tree ob) p, s_eq ob with
      | Some _, Some r => Bool.eqb r (Nat.eqb k 0 || Nat.leb 5 k)
      | _, _ => false
      end
  | _ => true
  end.

(* round 4, S4: a call that raised (the caller survives it inside try/except) leaves the program and every held tree exactly
   as they were observed before the call.  Excepted: the recursive operations reverse_inplace / cleanup / flatten_and_balance,
   where a failure deep down leaves the work done so far (the code's and the model's behaviour; the invariant is kept). *)
Definition rejecting (k : okind) : bool :=
  match k with KIndex | KType | KValue | KRuntime | KAssert => true | _ => false end.
Definition partial_op (o : op) : bool := match o with OReverse _ | OCleanup _ _ _ => true | _ => false end.
Definition partial_fop (o : fop) : bool :=
  match o with FMain o' | FAt _ o' => partial_op o' | FFlatten _ _ _ => true | _ => false end.
Fixpoint noeff_hist (prev : otree) (steps : list (op * sobs)) : bool :=
  match steps with
  | [] => true
  | (o, ob) :: r =>
      (if rejecting (s_out ob) && negb (partial_op o) then otree_eqb prev (s_tree ob) else true) && noeff_hist (s_tree ob) r
  end.
Fixpoint noeff_forest (prev : otree) (ph : list (option otree)) (steps : list (fop * fsobs)) : bool :=
  match steps with
  | [] => true
  | (o, ob) :: r =>
      (if rejecting (s_out (fs_main ob)) && negb (partial_fop o)
       then otree_eqb prev (s_tree (fs_main ob)) && list_eqb opt_otree_eqb ph (fs_held ob) else true)
      && noeff_forest (s_tree (fs_main ob)) (fs_held ob) r
  end.

Definition check_spec (c : case) : bool :=
  match c with
  | CHist _ steps => forallb (fun '(o, ob) => spec_tree (s_tree ob) [] true 0 [] && spec_eq o ob) steps
                     && match steps with (_, ob) :: r => noeff_hist (s_tree ob) r | [] => true end
  | CForest _ steps =>
      (* the program keeps the invariant whatever is done to nodes that dropped out of it, and (round 3, after the merged
         child is emptied) so does every tree the user still holds: durations, positions and parents below the held node,
         its own recorded location; a cyclic structure is no tree at all *)
      forallb (fun '(o, ob) => negb (is_cut (s_out (fs_main ob)))
                               && spec_tree (s_tree (fs_main ob)) [] true 0 []
                               && forallb (fun t => match t with Some t' => spec_tree t' [] true 0 [] | None => true end)
                                          (fs_held ob)) steps
      && match steps with (_, ob) :: r => noeff_forest (s_tree (fs_main ob)) (fs_held ob) r | [] => true end
  | CCorrOnly _ _ => true
  | CCrash => false
  end.

(* ---- debugging aids (used by harness/props/c09_debug.py only) ------------------------------------------------------ *)
Fixpoint first_bad (s : state) (steps : list (op * sobs)) (i : nat) : option (nat * option okind * option otree * option bool) :=
  match steps with
  | [] => None
  | (o, ob) :: r =>
      let '(s', out) := step s o in
      let ok := match kind_of out, observe s' with
                | Some k, Some t => okind_eqb k (s_out ob) && otree_eqb t (s_tree ob)
                                    && opt_eqb Bool.eqb (model_eq s' o) (s_eq ob)
                | _, _ => false
                end in
      if ok then first_bad s' r (S i) else Some (i, kind_of out, observe s', model_eq s' o)
  end.
Definition debug_case (c : case) :=
  match c with CHist t steps => first_bad (init_state t) steps O | _ => None end.
Fixpoint ffirst_bad (fs : fstate) (steps : list (fop * fsobs)) (i : nat) :=
  match steps with
  | [] => None
  | (o, ob) :: r =>
      let '(fs', out) := fstep fs o in
      let ok := match kind_of out, observe (f_main fs'), observe_held fs' with
                | Some k, Some t, Some hs => okind_eqb k (s_out (fs_main ob)) && otree_eqb t (s_tree (fs_main ob))
                                             && opt_eqb Bool.eqb (fmodel_eq fs fs' o) (s_eq (fs_main ob))
                                             && list_eqb opt_otree_eqb hs (fs_held ob)
                | _, _, _ => false
                end in
      if ok then ffirst_bad fs' r (S i) else Some (i, kind_of out, observe (f_main fs'), observe_held fs', fmodel_eq fs fs' o)
  end.
Definition fdebug_case (c : case) :=
  match c with CForest t steps | CCorrOnly t steps => ffirst_bad (mkF (init_state t) []) steps O | _ => None end.
