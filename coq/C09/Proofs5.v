(* C09 — proofs, part 5: the local form of the invariant (subtree at a node), composition of a node from its children,
   replacement of the subtree at a live node (with and without change of its duration) *)
From Coq Require Import List ZArith QArith Bool Lia Arith.
Import ListNotations.
Require Import QV.common.Util QV.C09.Model QV.C09.Proofs QV.C09.Proofs2 QV.C09.Proofs3 QV.C09.Proofs4.
Local Opaque Qred.

(* ---- well-foundedness as a height bound ---------------------------------------------------------------------------------------- *)
Inductive hle (h : heap) : id -> nat -> Prop :=
| hle_node y n k : get h y = Some n -> (forall c, In c (children n) -> hle h c k) -> hle h y (S k).

Lemma hle_mono h y k : hle h y k -> forall k', (k <= k')%nat -> hle h y k'.
Proof.
  induction 1 as [y n k G _ IH]; intros k' L. destruct k' as [|k']; [lia|].
  apply (hle_node h y n k'); auto. intros c HIn. apply IH; auto. lia.
Qed.

Lemma hle_reach h x k : hle h x k -> forall y, reach h x y -> hle h y k.
Proof.
  intros H y R. induction R; auto.
  inversion IHR; subst. assert (n = np) by congruence. subst n.
  eapply hle_mono; [eauto|lia].
Qed.

Fixpoint hgt (fuel : nat) (h : heap) (y : id) : nat :=
  match fuel with
  | O => O
  | S f => match get h y with
           | None => O
           | Some n => S (fold_right (fun c m => Nat.max (hgt f h c) m) O (children n))
           end
  end.

Lemma fold_max_ge {A} (g : A -> nat) l a : In a l -> (g a <= fold_right (fun c m => Nat.max (g c) m) O l)%nat.
Proof. induction l as [|b l IH]; cbn; intros H; [contradiction|]. destruct H as [->|H]; [lia|]. specialize (IH H). lia. Qed.
Lemma fold_max_ext {A} (g g' : A -> nat) l : (forall a, In a l -> g a = g' a) ->
  fold_right (fun c m => Nat.max (g c) m) O l = fold_right (fun c m => Nat.max (g' c) m) O l.
Proof.
  induction l as [|b l IH]; cbn; intros E; [reflexivity|].
  rewrite (E b (or_introl eq_refl)). rewrite IH; [reflexivity|]. intros a0 H0; apply E; now right.
Qed.

Lemma hgt_stable h y k : hle h y k -> forall f, (k <= f)%nat -> hgt f h y = hgt k h y.
Proof.
  induction 1 as [y n k G _ IH]; intros f L. destruct f as [|f]; [lia|]. cbn. rewrite G.
  f_equal. apply fold_max_ext. intros c HIn. apply IH; auto. lia.
Qed.

Lemma hgt_edge h p np c k : hle h p k -> get h p = Some np -> In c (children np) -> (hgt k h c < hgt k h p)%nat.
Proof.
  intros H G HIn. inversion H as [y n k' G' Hc]; subst. assert (n = np) by congruence. subst n.
  assert (E : hgt (S k') h p = S (fold_right (fun c m => Nat.max (hgt k' h c) m) O (children np))) by (cbn; now rewrite G).
  rewrite E. rewrite (hgt_stable h c k' (Hc c HIn) (S k')) by lia.
  pose proof (fold_max_ge (hgt k' h) (children np) c HIn). lia.
Qed.

(* a rank function from a height bound, and back *)
Lemma hle_rank h r K : hle h r K ->
  forall p np c, reach h r p -> get h p = Some np -> In c (children np) -> (hgt K h c < hgt K h p)%nat.
Proof. intros H p np c R G HIn. eapply hgt_edge; eauto. eapply hle_reach; eauto. Qed.

Lemma rank_hle h r (rk : id -> nat) :
  (forall p np c, reach h r p -> get h p = Some np -> In c (children np) -> (rk c < rk p)%nat) ->
  (forall y, reach h r y -> exists n, get h y = Some n) ->
  forall y, reach h r y -> hle h y (S (rk y)).
Proof.
  intros Hrk Live y. remember (rk y) as k eqn:Ek. revert y Ek.
  induction k as [k IH] using lt_wf_ind. intros y Ek R.
  destruct (Live y R) as (n & G). apply (hle_node h y n k); auto.
  intros c HIn. assert (Rc : reach h r c) by (eapply reach_step; eauto).
  pose proof (Hrk y n c R G HIn) as Lt.
  eapply hle_mono; [apply (IH (rk c)); auto; lia|lia].
Qed.

(* ---- the invariant of the subtree at x (nothing is said about x's own parent link) ------------------------------------------------ *)
Record LI (h : heap) (x : id) (P : id -> Prop) : Prop := {
  li_links : forall p np i c, reach h x p -> get h p = Some np -> nth_error (children np) i = Some c ->
             exists nc, get h c = Some nc /\ parent nc = Some p /\ pidx nc = Some (Z.of_nat i);
  li_wf : exists K, hle h x K;
  li_cache : forall y, reach h x y -> ~ P y -> cvalid h y
}.

Lemma InvExc_LI h r P : InvExc h r P -> LI h r P.
Proof.
  intros I. split.
  - apply (inv_links _ _ _ I).
  - destruct (inv_rank _ _ _ I) as (rk & Hrk). exists (S (rk r)).
    apply (rank_hle h r rk Hrk); [intros; eapply live_get; eauto|constructor].
  - apply (inv_cache _ _ _ I).
Qed.

Lemma LI_InvExc h r P : LI h r P -> (exists nr, get h r = Some nr /\ parent nr = None) -> InvExc h r P.
Proof.
  intros [A [K B] C] Root. split; auto.
  exists (hgt K h). apply hle_rank; auto.
Qed.

Lemma LI_sub h x P y : LI h x P -> reach h x y -> LI h y P.
Proof.
  intros [A [K B] C] R. split.
  - intros p np i c Rp. apply A. eapply reach_trans; eauto.
  - exists K. eapply hle_reach; eauto.
  - intros z Rz. apply C. eapply reach_trans; eauto.
Qed.

Lemma LI_weaken h x (P Q : id -> Prop) : (forall y, reach h x y -> Q y -> P y) -> LI h x Q -> LI h x P.
Proof. intros W [A B C]; split; auto. Qed.

Lemma LI_live h x P y : LI h x P -> reach h x y -> exists n, get h y = Some n.
Proof.
  intros L R. destruct (li_wf _ _ _ L) as (K & H). pose proof (hle_reach _ _ _ H _ R) as Hy. inversion Hy; eauto.
Qed.

(* no node of a well-founded subtree lists an ancestor-or-self *)
Lemma hle_no_cycle h x K p np : hle h x K -> reach h x p -> get h p = Some np -> In x (children np) -> False.
Proof.
  intros H R G HIn.
  assert (Mono : forall y, reach h x y -> (hgt K h y <= hgt K h x)%nat).
  { intros y Ry. induction Ry; auto. pose proof (hle_rank h x K H _ _ _ Ry H0 H1). lia. }
  pose proof (hle_rank h x K H p np x R G HIn). pose proof (Mono p R). lia.
Qed.

(* a subtree that fresh allocation produced *)
Lemma Sub_LI h lo hi c : Sub h lo hi c -> LI h c (fun _ => False).
Proof.
  intros S. split.
  - apply (sub_links _ _ _ _ S).
  - exists (Datatypes.S c). apply (rank_hle h c (fun y => y)); [|intros y R|constructor].
    + intros p np c' R G HIn. eapply (sub_order _ _ _ _ S); eauto.
    + inversion R; subst; [apply (sub_get _ _ _ _ S)|].
      apply In_nth_error in H1 as (i & Hi). destruct (sub_links _ _ _ _ S _ _ _ _ H H0 Hi) as (nc & G & _); eauto.
  - intros y R _ n q G C. rewrite (sub_nocache _ _ _ _ S y n R G) in C. discriminate.
Qed.

(* ---- frame: a subtree whose nodes keep children / cache / count / waveform, and (except the root) their links ----------------------- *)
Definition keeps (n n' : node) : Prop :=
  children n' = children n /\ cache n' = cache n /\ rdf n' = rdf n /\ wform n' = wform n.
Definition keeps_all (n n' : node) : Prop := keeps n n' /\ parent n' = parent n /\ pidx n' = pidx n.

Lemma keeps_refl n : keeps n n. Proof. repeat split. Qed.

Section Frame.
  Variables (h h' : heap) (c : id) (P : id -> Prop).
  Hypothesis L : LI h c P.
  Hypothesis F : forall y n, reach h c y -> get h y = Some n ->
                 exists n', get h' y = Some n' /\ keeps n n' /\ (y <> c -> parent n' = parent n /\ pidx n' = pidx n).

  Lemma fr_reach y : reach h' c y -> reach h c y.
  Proof.
    intros R. induction R; [constructor|].
    destruct (LI_live _ _ _ _ L IHR) as (n & G). destruct (F p n IHR G) as (n' & G' & (Cn & _) & _).
    assert (n' = np) by congruence. subst. eapply reach_step; eauto. congruence.
  Qed.
  Lemma fr_reach' y : reach h c y -> reach h' c y.
  Proof.
    intros R. induction R; [constructor|].
    assert (Rp : reach h c p) by (clear IHR; auto).
    destruct (F p np Rp H) as (n' & G' & (Cn & _) & _). eapply reach_step; eauto. congruence.
  Qed.
  Lemma fr_hle y k : hle h y k -> reach h c y -> hle h' y k.
  Proof.
    induction 1 as [y n k G Hc IH]; intros R.
    destruct (F y n R G) as (n' & G' & (Cn & _) & _).
    apply (hle_node h' y n' k); auto. rewrite Cn. intros c' HIn. apply IH; auto. eapply reach_step; eauto.
  Qed.

  Lemma LI_frame : LI h' c P.
  Proof.
    pose proof L as [A [K B] C]. split.
    - intros p np i c' R G N. pose proof (fr_reach _ R) as R0.
      destruct (LI_live _ _ _ _ L R0) as (n & Gn). destruct (F p n R0 Gn) as (n' & G' & (Cn & _) & _).
      assert (n' = np) by congruence. subst n'. rewrite Cn in N.
      destruct (A p n i c' R0 Gn N) as (nc & Gc & Pc & Ic).
      assert (Rc : reach h c c') by (eapply reach_step; eauto; eapply nth_error_In; eauto).
      destruct (F c' nc Rc Gc) as (nc' & Gc' & _ & Lk).
      assert (Nc : c' <> c).
      { intros ->. eapply (hle_no_cycle h c K p n); eauto. eapply nth_error_In; eauto. }
      destruct (Lk Nc) as (E1 & E2). exists nc'; repeat split; congruence.
    - exists K. apply fr_hle; auto. constructor.
    - intros y R NP. pose proof (fr_reach _ R) as R0.
      intros n' q G' Cq. destruct (LI_live _ _ _ _ L R0) as (n & Gn).
      destruct (F y n R0 Gn) as (n2 & G2 & (Cn & Kn & _) & _). assert (n2 = n') by congruence. subst n2.
      destruct (C y R0 NP n q Gn) as (b & Tb & Eb); [congruence|].
      exists b; split; auto.
      eapply (proj1 (tbody_tsum_frame_shape h h')); eauto.
      intros z Rz. assert (Rz0 : reach h c z) by (eapply reach_trans; eauto).
      destruct (LI_live _ _ _ _ L Rz0) as (nz & Gz). destruct (F z nz Rz0 Gz) as (nz' & Gz' & (C1 & _ & C3 & C4) & _).
      rewrite Gz, Gz'. cbn. unfold shape. now rewrite C1, C3, C4.
  Qed.
End Frame.

(* ---- a node over children that each carry the local invariant ---------------------------------------------------------------------- *)
Lemma hle_list h l : (forall c, In c l -> exists K, hle h c K) -> exists K, forall c, In c l -> hle h c K.
Proof.
  induction l as [|a l IH]; intros H.
  - exists O. intros c [].
  - destruct IH as (K1 & H1); [intros; apply H; now right|].
    destruct (H a (or_introl eq_refl)) as (K2 & H2).
    exists (Nat.max K1 K2). intros c [<-|HIn]; [eapply hle_mono; eauto; lia|eapply hle_mono; [apply H1; auto|lia]].
Qed.

Lemma LI_node h x n :
  get h x = Some n ->
  (forall i c, nth_error (children n) i = Some c ->
     (exists nc, get h c = Some nc /\ parent nc = Some x /\ pidx nc = Some (Z.of_nat i)) /\ LI h c (fun _ => False)) ->
  LI h x (fun y => y = x).
Proof.
  intros G H.
  assert (HC : forall c, In c (children n) -> LI h c (fun _ => False)).
  { intros c HIn. apply In_nth_error in HIn as (i & Hi). apply (H i c Hi). }
  assert (RL : forall y, reach h x y -> y = x \/ exists c, In c (children n) /\ reach h c y).
  { intros y R. destruct (reach_left _ _ _ R) as [->|(n0 & c & G0 & HIn & Rc)]; auto.
    right. assert (n0 = n) by congruence. subst. eauto. }
  split.
  - intros p np i c R Gp N. destruct (RL p R) as [->|(c0 & HIn & Rc)].
    + assert (np = n) by congruence. subst. apply (H i c N).
    + eapply (li_links _ _ _ (HC c0 HIn)); eauto.
  - destruct (hle_list h (children n)) as (K & HK).
    { intros c HIn. apply (li_wf _ _ _ (HC c HIn)). }
    exists (S K). apply (hle_node h x n K); auto.
  - intros y R NP. destruct (RL y R) as [->|(c0 & HIn & Rc)]; [congruence|].
    apply (li_cache _ _ _ (HC c0 HIn)); auto.
Qed.

(* ---- replacing the subtree at a live node x ------------------------------------------------------------------------------------------ *)
Section Replace.
  Variables (h0 h2 : heap) (r x : id) (nx nx2 : node).
  Hypothesis I0 : Inv h0 r.
  Hypothesis Rx : reach h0 r x.
  Hypothesis Gx : get h0 x = Some nx.
  Hypothesis G2 : get h2 x = Some nx2.
  Hypothesis Pp : parent nx2 = parent nx.
  Hypothesis Pi : pidx nx2 = pidx nx.
  Hypothesis LX : LI h2 x (fun y => y = x).
  Hypothesis OUT : forall y, reach h0 r y -> ~ reach h0 x y -> get h2 y = get h0 y.

  Let outside y := reach h0 r y /\ ~ reach h0 x y.

  Lemma rp_x_not_own_child c : In c (children nx) -> c <> x.
  Proof. intros HIn ->. destruct (inv_rank _ _ _ I0) as (rk & Hrk). specialize (Hrk x nx x Rx Gx HIn). lia. Qed.

  (* a child of an outside node is x or outside *)
  Lemma rp_child p np c : outside p -> get h0 p = Some np -> In c (children np) -> c = x \/ outside c.
  Proof.
    intros (Rp & NRp) G HIn. destruct (Nat.eq_dec c x) as [|N]; auto. right.
    split; [eapply reach_step; eauto|]. intros Rc.
    destruct (lister_unique _ _ _ I0 _ _ _ Rp G HIn) as (nc & Gc & Pc).
    apply NRp. eapply (reach_up _ _ _ I0); eauto.
  Qed.

  Lemma rp_reach_to_x y b : reach h0 r y -> reach h0 y b -> reach h0 b x -> reach h2 y b.
  Proof.
    intros Ry R. induction R; intros Rbx; [constructor|].
    assert (Rp : reach h0 r p) by (eapply reach_trans; eauto).
    assert (Rpc : reach h0 p c) by (eapply reach_child; eauto).
    assert (Npx : p <> x).
    { intros ->. assert (x = c) by (eapply (acyclic _ _ _ I0); eauto). subst c.
      assert (np = nx) by congruence. subst np. exact (rp_x_not_own_child x H0 eq_refl). }
    assert (NR : ~ reach h0 x p).
    { intros Rxp. apply Npx. symmetry. eapply (acyclic _ _ _ I0); eauto. eapply reach_trans; eauto. }
    eapply reach_step; [apply IHR; eapply reach_trans; eauto| |exact H0]. rewrite OUT; auto.
  Qed.

  Lemma rp_reach_x : reach h2 r x.
  Proof. apply rp_reach_to_x; auto; constructor. Qed.

  Lemma rp_split y : reach h2 r y -> outside y \/ reach h2 x y.
  Proof.
    intros R. induction R.
    - destruct (Nat.eq_dec r x) as [->|N]; [right; constructor|left].
      split; [constructor|]. intros Rxr. apply N. symmetry. eapply (root_top _ _ _ I0); eauto.
    - destruct IHR as [O|Rxp]; [|right; eapply reach_step; eauto].
      pose proof O as (Rp & NRp). rewrite OUT in H by auto.
      destruct (rp_child p np c O H H0) as [->|Oc]; [right; constructor|left; auto].
  Qed.

  Lemma rp_hle_out y k K2 : hle h2 x K2 -> hle h0 y k -> outside y -> hle h2 y (k + K2).
  Proof.
    intros HX H. induction H as [y n k G Hc IH]; intros O. pose proof O as (Ry & NRy).
    apply (hle_node h2 y n (k + K2)); [rewrite OUT; auto|].
    intros c HIn. destruct (rp_child y n c O G HIn) as [->|Oc].
    - eapply hle_mono; eauto. lia.
    - apply IH; auto.
  Qed.

  Lemma replace_inv : InvExc h2 r (fun y => reach h2 y x).
  Proof.
    split.
    - destruct (inv_root _ _ _ I0) as (nr & G & Pn).
      destruct (Nat.eq_dec r x) as [->|N].
      + exists nx2; split; auto. assert (nr = nx) by congruence. subst. congruence.
      + exists nr; split; auto. rewrite OUT; auto; [constructor|].
        intros Rxr. apply N. symmetry. eapply (root_top _ _ _ I0); eauto.
    - intros p np i c R G N. destruct (rp_split _ R) as [O|Rxp].
      + pose proof O as (Rp & NRp). rewrite OUT in G by auto.
        destruct (inv_links _ _ _ I0 _ _ _ _ Rp G N) as (nc & Gc & Pc & Ic).
        destruct (rp_child p np c O G (nth_error_In _ _ N)) as [->|(Rc & NRc)].
        * exists nx2. assert (nc = nx) by congruence. subst. repeat split; congruence.
        * exists nc. rewrite OUT; auto.
      + eapply (li_links _ _ _ LX); eauto.
    - destruct (li_wf _ _ _ LX) as (K2 & HX).
      destruct (li_wf _ _ _ (InvExc_LI _ _ _ I0)) as (K0 & H0).
      assert (HR : hle h2 r (K0 + K2)).
      { destruct (Nat.eq_dec r x) as [->|N]; [eapply hle_mono; eauto; lia|].
        apply rp_hle_out; auto. split; [constructor|].
        intros Rxr. apply N. symmetry. eapply (root_top _ _ _ I0); eauto. }
      exists (hgt (K0 + K2) h2). apply hle_rank; auto.
    - intros y R NR. destruct (rp_split _ R) as [O|Rxy].
      + pose proof O as (Ry & NRy).
        intros n q G C. rewrite OUT in G by auto.
        destruct (inv_cache _ _ _ I0 y Ry (fun f => f) n q G C) as (b & Tb & Eb).
        exists b; split; auto. eapply tbody_frame; eauto.
        intros z Rz. apply OUT; [eapply reach_trans; eauto|].
        intros Rxz. destruct (chain_total _ _ _ I0 y x z Ry Rx Rz Rxz) as [Ryx|Rxy]; auto.
        apply NR. apply rp_reach_to_x; auto. constructor.
      + apply (li_cache _ _ _ LX); auto. intros ->. apply NR. constructor.
  Qed.

  (* when, in addition, x's own cache is valid and the duration of x is what it was, nothing has to be invalidated *)
  Hypothesis LX' : LI h2 x (fun _ => False).
  Hypothesis DUR : forall b, tbody h0 x b -> exists b', tbody h2 x b' /\ (b' * rep_of nx2 == b * rep_of nx)%Q.

  Lemma rp_tbody_out :
    (forall y b, tbody h0 y b -> outside y -> exists b', tbody h2 y b' /\ (b' == b)%Q) /\
    (forall l s, tsum h0 l s -> (forall c, In c l -> c = x \/ outside c) -> exists s', tsum h2 l s' /\ (s' == s)%Q).
  Proof.
    apply tbody_tsum_ind.
    - intros y n G C O. destruct O as (Ry & NRy). exists (leaf_dur n). split; [|reflexivity].
      apply (TB_leaf h2 y n); auto. rewrite OUT; auto.
    - intros y n s G C T IH O. pose proof O as (Ry & NRy).
      destruct IH as (s' & Ts & Es); [intros c HIn; eapply rp_child; eauto|].
      exists s'. split; auto. apply (TB_inner h2 y n); auto. rewrite OUT; auto.
    - intros _. exists 0%Q. split; [constructor|reflexivity].
    - intros c cs b nc s T IH G T2 IH2 HC.
      destruct IH2 as (s' & Ts & Es); [intros; apply HC; now right|].
      destruct (HC c (or_introl eq_refl)) as [->|O].
      + assert (nc = nx) by congruence. subst nc. destruct (DUR b T) as (b' & Tb' & Eb').
        exists (b' * rep_of nx2 + s')%Q. split; [constructor; auto|]. rewrite Eb', Es. reflexivity.
      + destruct (IH O) as (b' & Tb' & Eb'). destruct O as (Rc & NRc).
        exists (b' * rep_of nc + s')%Q. split; [constructor; auto; rewrite OUT; auto|]. rewrite Eb', Es. reflexivity.
  Qed.

  Lemma replace_same_duration : Inv h2 r.
  Proof.
    pose proof replace_inv as I2. pose proof rp_reach_x as Rx2.
    eapply InvExc_cache_only; [apply cache_only_refl|exact I2|].
    intros y Ry _. destruct (Nat.eq_dec y x) as [->|N].
    { apply (li_cache _ _ _ LX'); auto. constructor. }
    destruct (rp_split _ Ry) as [O|Rxy].
    - pose proof O as (Ry0 & NRy). intros n q G C. rewrite OUT in G by auto.
      destruct (inv_cache _ _ _ I0 y Ry0 (fun f => f) n q G C) as (b & Tb & Eb).
      destruct (proj1 rp_tbody_out y b Tb O) as (b' & Tb' & Eb'). exists b'; split; auto. rewrite Eb'. exact Eb.
    - apply (li_cache _ _ _ LX'); auto.
  Qed.
End Replace.
