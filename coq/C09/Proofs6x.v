(* C09 — proofs, part 6x: Node.__setitem__ with an extended slice (explicit step other than 1) *)
From Coq Require Import List ZArith QArith Bool Lia Arith.
Import ListNotations.
Require Import QV.common.Util QV.C09.Model QV.C09.Proofs QV.C09.Proofs2 QV.C09.Proofs3 QV.C09.Proofs4 QV.C09.Proofs5 QV.C09.Proofs6.
Local Open Scope Z_scope.

Definition pos (s st : Z) (j : nat) : nat := Z.to_nat (s + Z.of_nat j * st).

(* the indices that range( slice.indices(len) ) addresses are valid and pairwise distinct *)
Lemma slice_ext_valid a b st len s e st' : 0 <= len -> slice_indices a b (Some st) len = Some (s, e, st') ->
  st' = st /\ st <> 0 /\ forall j, 0 <= j < range_len s e st -> 0 <= s + j * st < len.
Proof.
  intros L H. unfold slice_indices in H. cbn in H. destruct (Z.eqb_spec st 0) as [|N]; [discriminate|].
  injection H as Es Ee Est. subst st'. split; auto. split; auto.
  set (lower := if st <? 0 then -1 else 0) in *. set (upper := if st <? 0 then len - 1 else len) in *.
  set (clip := fun v : Z => if v <? 0 then (let v' := v + len in if v' <? 0 then lower else v') else if len <=? v then upper else v) in *.
  assert (CL : forall v, lower <= clip v <= upper).
  { intros v. unfold clip, lower, upper. destruct (Z.ltb_spec st 0), (Z.ltb_spec v 0); cbn;
      try destruct (Z.ltb_spec (v + len) 0); try destruct (Z.leb_spec len v); lia. }
  assert (Bs : lower <= s <= upper).
  { rewrite <- Es. destruct a; [apply CL|]. unfold lower, upper. destruct (Z.ltb_spec st 0); lia. }
  assert (Be : lower <= e <= upper).
  { rewrite <- Ee. destruct b; [apply CL|]. unfold lower, upper. destruct (Z.ltb_spec st 0); lia. }
  clear Es Ee CL clip.
  intros j Hj. unfold range_len in Hj. unfold lower, upper in *.
  destruct (Z.ltb_spec 0 st) as [P|NP].
  - assert (st <? 0 = false) by (apply Z.ltb_ge; lia). rewrite H in *.
    destruct (Z.ltb_spec s e); [|lia].
    assert (st * ((e - s - 1) / st) <= e - s - 1) by (apply Z.mul_div_le; lia). nia.
  - assert (st <? 0 = true) by (apply Z.ltb_lt; lia). rewrite H in *.
    destruct (Z.ltb_spec e s); [|lia].
    assert ((- st) * ((s - e - 1) / (- st)) <= s - e - 1) by (apply Z.mul_div_le; lia). nia.
Qed.

Lemma pos_inj s st j j' : st <> 0 -> 0 <= s + Z.of_nat j * st -> 0 <= s + Z.of_nat j' * st -> pos s st j = pos s st j' -> j = j'.
Proof. unfold pos. intros N A B E. apply Z2Nat.inj in E; auto. nia. Qed.

Lemma nth_error_set_nth2 {A} (l : list A) j a k : (j < length l)%nat ->
  nth_error (set_nth l j a) k = if Nat.eqb k j then Some a else nth_error l k.
Proof. revert j k; induction l as [|b l IH]; intros [|j] [|k] L; cbn in *; try lia; auto. apply IH. lia. Qed.
Lemma set_nth_length {A} (l : list A) j a : length (set_nth l j a) = length l.
Proof. revert j; induction l; intros [|j]; cbn; auto. Qed.

Lemma assign_ext_spec {A} st : st <> 0 -> forall (vals l : list A) s,
  (forall j, (j < length vals)%nat -> 0 <= s + Z.of_nat j * st < Z.of_nat (length l)) ->
  length (assign_ext l s st vals) = length l /\
  (forall j v, nth_error vals j = Some v -> nth_error (assign_ext l s st vals) (pos s st j) = Some v) /\
  (forall i, (forall j, (j < length vals)%nat -> i <> pos s st j) -> nth_error (assign_ext l s st vals) i = nth_error l i).
Proof.
  intros N. induction vals as [|v vals IH]; intros l s V; cbn [assign_ext].
  - split; auto. split; [intros j v0 H; destruct j; discriminate|auto].
  - assert (V0 := V 0%nat ltac:(cbn; lia)). cbn in V0. rewrite Z.add_0_r in V0.
    set (l' := set_nth l (Z.to_nat s) v).
    assert (Ll : length l' = length l) by apply set_nth_length.
    destruct (IH l' (s + st)) as (Len & Pj & Oth).
    { intros j Lj. rewrite Ll. specialize (V (S j) ltac:(cbn; lia)). lia. }
    assert (SH : forall j, pos (s + st) st j = pos s st (S j)) by (intros j; unfold pos; f_equal; lia).
    split; [congruence|]. split.
    + intros j v0 Hj. destruct j as [|j]; cbn in Hj.
      * inversion Hj; subst v0. rewrite Oth.
        -- unfold l', pos. cbn. rewrite Z.add_0_r. rewrite nth_error_set_nth2 by lia. now rewrite Nat.eqb_refl.
        -- intros j Lj E. rewrite SH in E. apply pos_inj in E; auto; try lia.
           specialize (V (S j) ltac:(cbn; lia)). lia.
      * rewrite <- SH. apply Pj; auto.
    + intros i NI. rewrite Oth.
      * unfold l'. rewrite nth_error_set_nth2 by lia. destruct (Nat.eqb_spec i (Z.to_nat s)) as [E|]; auto.
        exfalso. apply (NI 0%nat); [cbn; lia|]. unfold pos. cbn. rewrite Z.add_0_r. auto.
      * intros j Lj. rewrite SH. apply NI. cbn; lia.
Qed.

Lemma pick_ext_In {A} st (l : list A) : forall cnt s c, In c (pick_ext l s st cnt) ->
  exists j, (j < cnt)%nat /\ nth_error l (pos s st j) = Some c.
Proof.
  induction cnt as [|cnt IH]; intros s c H; cbn in H; [contradiction|].
  assert (SH : forall j, pos (s + st) st j = pos s st (S j)) by (intros j; unfold pos; f_equal; lia).
  destruct (nth_error l (Z.to_nat s)) as [a0|] eqn:N0.
  - destruct H as [<-|H].
    + exists 0%nat. split; [lia|]. unfold pos. cbn. now rewrite Z.add_0_r.
    + destruct (IH _ _ H) as (j & Lj & Nj). exists (S j). split; [lia|]. now rewrite <- SH.
  - destruct (IH _ _ H) as (j & Lj & Nj). exists (S j). split; [lia|]. now rewrite <- SH.
Qed.

(* the renumbering loop over range(s, e, st) *)
Lemma renum_step_spec x n new st : children n = new -> NoDup new -> ~ In x new -> st <> 0 ->
  forall cnt s h, get h x = Some n -> (forall c, In c new -> exists nc, get h c = Some nc) ->
  (forall j, (j < cnt)%nat -> 0 <= s + Z.of_nat j * st < Z.of_nat (length new)) ->
  exists h', renum_step x s st cnt h = (h', R tt) /\ lheap x h h' /\
    (forall y, ~ In y new -> get h' y = get h y) /\
    (forall i c nc, nth_error new i = Some c -> get h c = Some nc ->
       ((exists j, (j < cnt)%nat /\ i = pos s st j) -> get h' c = Some (set_pidx (Some (Z.of_nat i)) nc)) /\
       ((forall j, (j < cnt)%nat -> i <> pos s st j) -> get h' c = Some nc)).
Proof.
  intros Cn ND NI N. induction cnt as [|cnt IH]; intros s h G Live V.
  - exists h. cbn [renum_step]. split; [reflexivity|]. split; [apply lheap_refl|]. split; [auto|].
    intros i c nc Ni Gc. split; [intros (j & Lj & _); lia|auto].
  - cbn [renum_step]. rewrite (bind_getn x n _ h G). rewrite Cn.
    assert (V0 := V 0%nat ltac:(lia)). cbn in V0. rewrite Z.add_0_r in V0.
    assert (PI : py_index (Z.of_nat (length new)) s = Some s).
    { unfold py_index. assert ((0 <=? s) = true) by (apply Z.leb_le; lia).
      assert ((s <? Z.of_nat (length new)) = true) by (apply Z.ltb_lt; lia). now rewrite H, H0. }
    rewrite PI.
    destruct (nth_error new (Z.to_nat s)) as [ch|] eqn:Na; [|apply nth_error_None in Na; lia].
    assert (HIn : In ch new) by (eapply nth_error_In; eauto).
    assert (Nch : ch <> x) by (intros ->; auto).
    rewrite bind_modn. set (h1 := upd h ch (set_pidx (Some s))).
    assert (SH : forall j, pos (s + st) st j = pos s st (S j)) by (intros j; unfold pos; f_equal; lia).
    destruct (IH (s + st) h1) as (h' & E & LH & Oth & Pos).
    { unfold h1. rewrite get_upd_other; auto. }
    { intros c Hc. unfold h1. rewrite get_upd. destruct (Live c Hc) as (nc & Gc). rewrite Gc. destruct (Nat.eqb ch c); cbn; eauto. }
    { intros j Lj. specialize (V (S j) ltac:(lia)). lia. }
    exists h'. rewrite E. split; auto. split.
    { eapply lheap_trans; [|exact LH]. apply lheap_upd; auto. intros; apply lnk_set_pidx. }
    split.
    + intros y NIy. rewrite Oth by auto. unfold h1. apply get_upd_other. intros ->; auto.
    + intros i c nc Ni Gc. destruct (Nat.eq_dec c ch) as [->|Nc].
      * assert (Ei : i = Z.to_nat s).
        { apply (proj1 (NoDup_nth_error new) ND); [apply nth_error_Some; congruence|congruence]. }
        assert (Gh1 : get h1 ch = Some (set_pidx (Some s) nc)) by (unfold h1; now apply get_upd_same).
        destruct (Pos i ch _ Ni Gh1) as (_ & P2). split.
        -- intros _. rewrite P2.
           ++ f_equal. destruct nc; cbn. f_equal. f_equal. lia.
           ++ intros j Lj E0. rewrite SH in E0. subst i. change (Z.to_nat s) with (Z.to_nat s) in E0.
              assert (pos s st 0 = pos s st (S j)) by (unfold pos at 1; cbn; rewrite Z.add_0_r; exact E0).
              apply pos_inj in H; auto; try lia. specialize (V (S j) ltac:(lia)). lia.
        -- intros NJ. exfalso. apply (NJ 0%nat); [lia|]. unfold pos. cbn. rewrite Z.add_0_r. auto.
      * assert (Gh1 : get h1 c = Some nc) by (unfold h1; rewrite get_upd_other; auto).
        destruct (Pos i c nc Ni Gh1) as (P1 & P2). split.
        -- intros (j & Lj & Ej). destruct j as [|j].
           ++ exfalso. apply Nc. unfold pos in Ej. cbn in Ej. rewrite Z.add_0_r in Ej. subst i. congruence.
           ++ apply P1. exists j. split; [lia|]. now rewrite SH.
        -- intros NJ. apply P2. intros j Lj. rewrite SH. apply NJ. lia.
Qed.

Lemma pos_dec s st k i : (exists j, (j < k)%nat /\ i = pos s st j) \/ (forall j, (j < k)%nat -> i <> pos s st j).
Proof.
  induction k as [|k IH]; [right; intros; lia|].
  destruct IH as [(j & Lj & E)|NJ]; [left; exists j; split; [lia|auto]|].
  destruct (Nat.eq_dec i (pos s st k)) as [E|N]; [left; exists k; split; [lia|auto]|].
  right. intros j Lj. destruct (Nat.eq_dec j k) as [->|]; auto. apply NJ. lia.
Qed.

Section ExtSlice.
  Variables (h : heap) (x : id) (nx : node) (a b : option Z) (st s e : Z) (vals : list id).
  Let cs := children nx.
  Hypothesis Gx : get h x = Some nx.
  Hypothesis NIc : ~ In x cs.
  Hypothesis NIv : ~ In x vals.
  Hypothesis NDc : NoDup cs.
  Hypothesis NDv : NoDup vals.
  Hypothesis Lc : forall i c, nth_error cs i = Some c ->
                  exists n, get h c = Some n /\ parent n = Some x /\ pidx n = Some (Z.of_nat i).
  Hypothesis Lv : forall c, In c vals -> exists n, get h c = Some n.
  Hypothesis DJ : forall v, In v vals -> ~ In v cs.
  Hypothesis SI : slice_indices a b (Some st) (Z.of_nat (length cs)) = Some (s, e, st).
  Hypothesis N1 : st <> 1.
  Hypothesis Ek : Z.of_nat (length vals) = range_len s e st.

  Lemma setitem_ext_eval : slice_eval_post h x nx a b (Some st) vals.
  Proof.
    unfold slice_eval_post. fold cs. set (k := length vals) in *.
    destruct (slice_ext_valid a b st (Z.of_nat (length cs)) s e st (Nat2Z.is_nonneg _) SI) as (_ & N0 & VALID).
    assert (V : forall j, (j < k)%nat -> 0 <= s + Z.of_nat j * st < Z.of_nat (length cs)) by (intros j Lj; apply VALID; lia).
    set (new := assign_ext cs s st vals).
    destruct (assign_ext_spec st N0 vals cs s V) as (Len & Pj & Oth). fold new in Len, Pj, Oth.
    assert (Lpos : forall j, (j < k)%nat -> (pos s st j < length cs)%nat) by (intros j Lj; specialize (V j Lj); unfold pos; lia).
    (* elements of the new list *)
    assert (ELT : forall i c, nth_error new i = Some c ->
              (exists j, (j < k)%nat /\ i = pos s st j /\ nth_error vals j = Some c) \/
              ((forall j, (j < k)%nat -> i <> pos s st j) /\ nth_error cs i = Some c)).
    { intros i c N. destruct (pos_dec s st k i) as [(j & Lj & E)|NJ].
      - left. exists j. split; auto. split; auto.
        destruct (nth_error vals j) as [v|] eqn:Nv; [|apply nth_error_None in Nv; unfold k in *; lia].
        rewrite E, (Pj j v Nv) in N. congruence.
      - right. split; auto. rewrite <- (Oth i NJ). exact N. }
    assert (MEM : forall c, In c new -> In c cs \/ In c vals).
    { intros c HIn. apply In_nth_error in HIn as (i & Hi). destruct (ELT i c Hi) as [(j & _ & _ & Nv)|(_ & Nc)];
        [right|left]; eapply nth_error_In; eauto. }
    assert (NDnew : NoDup new).
    { apply NoDup_nth_error. intros i i' Li E.
      destruct (nth_error new i) as [c|] eqn:Ni; [|apply nth_error_None in Ni; lia]. symmetry in E.
      destruct (ELT i c Ni) as [(j & Lj & Ei & Nv)|(NJ & Nc)], (ELT i' c E) as [(j' & Lj' & Ei' & Nv')|(NJ' & Nc')].
      - assert (j = j') by (apply (proj1 (NoDup_nth_error vals) NDv); [apply nth_error_Some; congruence|congruence]). congruence.
      - exfalso. apply (DJ c); eapply nth_error_In; eauto.
      - exfalso. apply (DJ c); eapply nth_error_In; eauto.
      - apply (proj1 (NoDup_nth_error cs) NDc); [apply nth_error_Some; congruence|congruence]. }
    assert (NInew : ~ In x new) by (intros HIn; destruct (MEM x HIn); auto).
    (* phase 1 *)
    destruct (miter_parent_spec x vals h NIv) as (h1 & E1 & LH1 & O1 & V1).
    assert (Gx1 : get h1 x = Some nx) by (destruct LH1 as (_ & Ex & _); congruence).
    unfold node_setitem_slice. rewrite (bind_getn x nx _ h Gx).
    fold cs. rewrite SI.
    assert (E1f : (st =? 1) = false) by (apply Z.eqb_neq; auto). rewrite E1f.
    assert (Ekb : (Z.of_nat (length vals) =? range_len s e st) = true) by (apply Z.eqb_eq; auto). rewrite Ekb. cbn [negb andb].
    cbv iota. rewrite (bind_R _ _ _ _ _ E1).
    rewrite <- Ek. rewrite Nat2Z.id. fold k. fold new.
    rewrite bind_modn. set (h2 := upd h1 x (set_children new)).
    assert (Gx2 : get h2 x = Some (set_children new nx)) by (unfold h2; now apply get_upd_same).
    assert (O2 : forall y, y <> x -> get h2 y = get h1 y) by (intros; unfold h2; apply get_upd_other; auto).
    assert (PRE : forall i c, nth_error new i = Some c ->
              exists n2, get h2 c = Some n2 /\ parent n2 = Some x /\
                         ((forall j, (j < k)%nat -> i <> pos s st j) -> pidx n2 = Some (Z.of_nat i))).
    { intros i c N. assert (Ncx : c <> x) by (intros ->; apply NInew; eapply nth_error_In; eauto).
      rewrite O2 by auto. destruct (ELT i c N) as [(j & Lj & Ei & Nv)|(NJ & Nc)].
      - assert (Hv : In c vals) by (eapply nth_error_In; eauto).
        destruct (Lv c Hv) as (n & G). destruct (V1 c n Hv G) as (n' & G' & P' & _).
        exists n'. split; auto. split; auto. intros NJ. exfalso. apply (NJ j Lj Ei).
      - destruct (Lc i c Nc) as (n & G & P & I).
        assert (HN : ~ In c vals) by (intros Hv; apply (DJ c Hv); eapply nth_error_In; eauto).
        exists n. rewrite O1; auto. }
    assert (Cn2 : children (set_children new nx) = new) by (destruct nx; reflexivity).
    assert (Live2 : forall c, In c new -> exists nc, get h2 c = Some nc).
    { intros c HIn. apply In_nth_error in HIn as (i & Hi). destruct (PRE i c Hi) as (n2 & G2 & _); eauto. }
    assert (P3 : exists h3,
       (if (0 <? Z.of_nat k) then renum_step x s st k else ret tt) h2 = (h3, R tt) /\
       lheap x h2 h3 /\ (forall y, ~ In y new -> get h3 y = get h2 y) /\
       (forall i c, nth_error new i = Some c -> exists n3, get h3 c = Some n3 /\ parent n3 = Some x /\ pidx n3 = Some (Z.of_nat i))).
    { destruct (Z.ltb_spec 0 (Z.of_nat k)) as [Pk|Zk].
      - destruct (renum_step_spec x _ new st Cn2 NDnew NInew N0 k s h2 Gx2 Live2) as (h3 & E3 & LH3 & O3 & Pos3).
        { intros j Lj. rewrite Len. apply V; auto. }
        exists h3. split; auto. split; auto. split; auto.
        intros i c N. destruct (PRE i c N) as (n2 & G2 & P2 & I2). destruct (Pos3 i c n2 N G2) as (A1 & A2).
        destruct (pos_dec s st k i) as [T|NJ].
        + rewrite (A1 T). eexists; split; [reflexivity|]. destruct n2; cbn in *; auto.
        + rewrite (A2 NJ). exists n2; auto.
      - exists h2. split; [reflexivity|]. split; [apply lheap_refl|]. split; auto.
        intros i c N. destruct (PRE i c N) as (n2 & G2 & P2 & I2). exists n2; repeat split; auto. apply I2. intros; lia. }
    destruct P3 as (h3 & E3 & LH3 & O3 & Pos3). rewrite (bind_R _ _ _ _ _ E3).
    (* phase 4 *)
    set (Rm := pick_ext cs s st k).
    assert (InR : forall c, In c Rm -> exists j, (j < k)%nat /\ nth_error cs (pos s st j) = Some c) by (intros c H; apply pick_ext_In; auto).
    assert (NIR : ~ In x Rm) by (intros H; destruct (InR x H) as (j & _ & Nj); apply NIc; eapply nth_error_In; eauto).
    destruct (detach_spec x vals Rm h3 NIR) as (h4 & E4 & LH4 & O4 & U4).
    { intros c HIn. destruct (InR c HIn) as (j & Lj & Nj). destruct (Lc _ c Nj) as (n & G & _).
      assert (c <> x) by (intros ->; apply NIc; eapply nth_error_In; eauto).
      destruct (lheap_get _ _ _ _ _ LH1 G) as (n1 & G1 & _). rewrite <- O2 in G1 by auto.
      destruct (lheap_get _ _ _ _ _ LH3 G1) as (n3 & G3 & _). eauto. }
    exists h4, new. rewrite E4. split; auto. split.
    { destruct LH4 as (L4 & _). destruct LH3 as (L3 & _). destruct LH1 as (L1' & _). rewrite L4, L3. unfold h2. rewrite upd_length. auto. }
    split.
    { destruct LH4 as (_ & X4 & _). destruct LH3 as (_ & X3 & _). congruence. }
    split.
    { intros y n N G. destruct (lheap_get _ _ _ _ _ LH1 G) as (n1 & G1 & K1). rewrite <- O2 in G1 by auto.
      destruct (lheap_get _ _ _ _ _ LH3 G1) as (n3 & G3 & K3). destruct (lheap_get _ _ _ _ _ LH4 G3) as (n4 & G4 & K4).
      exists n4; split; auto. eapply lnk_trans; eauto. eapply lnk_trans; eauto. }
    split.
    { intros y N NV NC. rewrite O4.
      - rewrite O3; [rewrite O2 by auto; apply O1; auto|]. intros HIn. destruct (MEM y HIn); auto.
      - left. intros H. destruct (InR y H) as (j & _ & Nj). apply NC. eapply nth_error_In; eauto. }
    split.
    { intros i c N. destruct (Pos3 i c N) as (n3 & G3 & P3' & I3). exists n3. split; auto.
      rewrite O4; auto. destruct (ELT i c N) as [(j & Lj & Ei & Nv)|(NJ & Nc)]; [right; eapply nth_error_In; eauto|left].
      intros HR. destruct (InR c HR) as (j & Lj & Nj).
      assert (i = pos s st j) by (apply (proj1 (NoDup_nth_error cs) NDc); [apply nth_error_Some; congruence|congruence]).
      apply (NJ j Lj); auto. }
    split; auto. split.
    { intros v Hv. apply In_nth_error in Hv as (j & Hj). eapply nth_error_In. apply (Pj j v Hj). }
    split; auto. split; auto. split.
    { intros (_ & _ & [F|F]); [discriminate|inversion F; congruence]. }
    intros y n N NIy G P.
    assert (NVy : ~ In y vals) by (intros Hv; apply NIy; apply In_nth_error in Hv as (j & Hj); eapply nth_error_In; apply (Pj j y Hj)).
    assert (G3 : get h3 y = get h y) by (rewrite O3 by auto; rewrite O2 by auto; apply O1; auto).
    rewrite (U4 y n); congruence.
  Qed.
End ExtSlice.
