(* C09 — heap model of the concrete object state of qupulse `Loop`/`Node` (qupulse/program/loop.py,
   qupulse/utils/tree.py) and of every public editing operation as a heap transformer.
   Definitions only (no proofs), executable, total; Python exceptions and fuel exhaustion are explicit results.

   A heap is a list of node records, a node's id is its index (allocation appends, nothing is ever freed: Python
   objects that drop out of the tree stay around with whatever fields they had).
   Waveform internals are C08's business: a waveform is an abstract value with a duration, a kind and a reversal flag. *)
From Coq Require Import List ZArith QArith Bool.
Import ListNotations.
Require Import QV.common.Util.
Open Scope Z_scope.

Definition id := nat.

(* ---- abstract waveforms -------------------------------------------------------------------------------------- *)
Inductive wf :=
| WConst (d : Q) (v : Z)                  (* ConstantWaveform(duration, amplitude v, channel 'A') *)
| WRamp (d : Q) (k : Z) (rev : bool).     (* a non-constant table waveform 0 -> k, possibly wrapped in ReversedWaveform *)

Definition wf_dur (w : wf) : Q := match w with WConst d _ => d | WRamp d _ _ => d end.
Definition wf_reversed (w : wf) : wf :=
  match w with WConst d v => WConst d v | WRamp d k r => WRamp d k (negb r) end.
Definition wf_eqb (a b : wf) : bool :=
  match a, b with
  | WConst d v, WConst d' v' => Qeq_bool d d' && (v =? v')
  | WRamp d k r, WRamp d' k' r' => Qeq_bool d d' && (k =? k') && Bool.eqb r r'
  | _, _ => false
  end.

(* measurement window (name, begin, length) *)
Definition mw := (Z * Q * Q)%type.
Definition mw_eqb (a b : mw) : bool :=
  let '(n, b1, l1) := a in let '(n', b2, l2) := b in (n =? n') && Qeq_bool b1 b2 && Qeq_bool l1 l2.

(* repetition definition: int, or VolatileRepetitionCount (value k of the volatile parameter, identity tag of
   (scope, parameter), accumulated integer multiplier of the expression `n*m`) *)
Inductive rdef := RInt (z : Z) | RVol (k tag m : Z).
Definition rep_count (r : rdef) : Z := match r with RInt z => z | RVol k _ m => Z.max 0 (k * m) end.
Definition is_vol (r : rdef) : bool := match r with RInt _ => false | RVol _ _ _ => true end.
Definition rdef_eqb (a b : rdef) : bool :=
  match a, b with
  | RInt x, RInt y => x =? y
  | RVol _ t m, RVol _ t' m' => (t =? t') && (m =? m')
  | _, _ => false
  end.
Definition rdef_mul (r : rdef) (z : Z) : rdef :=
  match r with RInt x => RInt (x * z) | RVol k t m => RVol k t (m * z) end.

(* ---- the heap ------------------------------------------------------------------------------------------------ *)
Record node := mkNode {
  children : list id;            (* Node.__children *)
  parent : option id;            (* Node.__parent (weak reference; objects are kept alive by the harness) *)
  pidx : option Z;               (* Node.__parent_index *)
  cache : option Q;              (* Loop._cached_body_duration *)
  rdf : rdef;                    (* Loop._repetition_definition *)
  wform : option wf;             (* Loop._waveform *)
  meas : option (list mw)        (* Loop._measurements *)
}.

Definition set_children cs (n : node) := mkNode cs (parent n) (pidx n) (cache n) (rdf n) (wform n) (meas n).
Definition set_parent p (n : node) := mkNode (children n) p (pidx n) (cache n) (rdf n) (wform n) (meas n).
Definition set_pidx i (n : node) := mkNode (children n) (parent n) i (cache n) (rdf n) (wform n) (meas n).
Definition set_cache c (n : node) := mkNode (children n) (parent n) (pidx n) c (rdf n) (wform n) (meas n).
Definition set_rdf r (n : node) := mkNode (children n) (parent n) (pidx n) (cache n) r (wform n) (meas n).
Definition set_wform w (n : node) := mkNode (children n) (parent n) (pidx n) (cache n) (rdf n) w (meas n).
Definition set_meas m (n : node) := mkNode (children n) (parent n) (pidx n) (cache n) (rdf n) (wform n) m.

Definition heap := list node.
Definition get (h : heap) (x : id) : option node := nth_error h x.
Fixpoint upd_list {A} (l : list A) (i : nat) (f : A -> A) : list A :=
  match l, i with
  | [], _ => []
  | a :: r, O => f a :: r
  | a :: r, S i' => a :: upd_list r i' f
  end.
Definition upd (h : heap) (x : id) (f : node -> node) : heap := upd_list h x f.

(* ---- state + exception monad --------------------------------------------------------------------------------- *)
Inductive exn := ExIndex | ExType | ExValue | ExRuntime | ExAttr | ExAssert | ExFuel | ExDangling.
Definition exn_eqb (a b : exn) : bool :=
  match a, b with
  | ExIndex, ExIndex | ExType, ExType | ExValue, ExValue | ExRuntime, ExRuntime | ExAttr, ExAttr
  | ExAssert, ExAssert | ExFuel, ExFuel | ExDangling, ExDangling => true
  | _, _ => false
  end.
Inductive result (A : Type) := R (a : A) | E (e : exn).
Arguments R {A} a.
Arguments E {A} e.
Definition M (A : Type) := heap -> heap * result A.
Definition ret {A} (a : A) : M A := fun h => (h, R a).
Definition raise {A} (e : exn) : M A := fun h => (h, E e).
Definition bind {A B} (m : M A) (f : A -> M B) : M B :=
  fun h => match m h with (h', R a) => f a h' | (h', E e) => (h', E e) end.
Notation "x <- m ;; k" := (bind m (fun x => k)) (at level 61, m at next level, right associativity).
Notation "m ;;; k" := (bind m (fun _ => k)) (at level 61, right associativity).

Definition getn (x : id) : M node :=
  fun h => match get h x with Some n => (h, R n) | None => (h, E ExDangling) end.
Definition modn (x : id) (f : node -> node) : M unit := fun h => (upd h x f, R tt).
Definition alloc (n : node) : M id := fun h => (h ++ [n], R (length h)).
Definition heap_size : M nat := fun h => (h, R (length h)).

Fixpoint miter {A} (f : A -> M unit) (l : list A) : M unit :=
  match l with [] => ret tt | a :: r => f a ;;; miter f r end.
Fixpoint mmap {A B} (f : A -> M B) (l : list A) : M (list B) :=
  match l with [] => ret [] | a :: r => b <- f a ;; bs <- mmap f r ;; ret (b :: bs) end.

(* `if self.parent:` — a Node is falsy when it has no children (Node.__len__) *)
Definition truthy (n : node) : bool := match children n with [] => false | _ => true end.
Definition is_leaf (n : node) : bool := match children n with [] => true | _ => false end.
Definition nonempty_meas (m : option (list mw)) : bool := match m with Some (_ :: _) => true | _ => false end.

(* ---- durations (Loop.body_duration / Loop.duration: memoising) ------------------------------------------------- *)
Fixpoint msum (g : id -> M Q) (l : list id) (acc : Q) : M Q :=
  match l with [] => ret acc | c :: r => d <- g c ;; msum g r (Qred (acc + d)) end.

Fixpoint body_duration (fuel : nat) (x : id) : M Q :=
  match fuel with
  | O => raise ExFuel
  | S f =>
      n <- getn x ;;
      match cache n with
      | Some q => ret q
      | None =>
          match children n with
          | [] => let q := match wform n with Some w => Qred (wf_dur w) | None => 0%Q end in
                  modn x (set_cache (Some q)) ;;; ret q
          | cs => s <- msum (fun c => b <- body_duration f c ;; nc <- getn c ;;
                                      ret (Qred (b * inject_Z (rep_count (rdf nc))))) cs 0%Q ;;
                  modn x (set_cache (Some s)) ;;; ret s
          end
      end
  end.
Definition duration (fuel : nat) (x : id) : M Q :=
  b <- body_duration fuel x ;; n <- getn x ;; ret (Qred (b * inject_Z (rep_count (rdf n)))).

(* what `x.body_duration` / `x.duration` would report, without memoising (pure) *)
Fixpoint osum (g : id -> option Q) (l : list id) (acc : Q) : option Q :=
  match l with [] => Some acc | c :: r => match g c with Some d => osum g r (Qred (acc + d)) | None => None end end.
Fixpoint peek_body (fuel : nat) (h : heap) (x : id) : option Q :=
  match fuel with
  | O => None
  | S f =>
      match get h x with
      | None => None
      | Some n =>
          match cache n with
          | Some q => Some q
          | None =>
              match children n with
              | [] => Some (match wform n with Some w => Qred (wf_dur w) | None => 0%Q end)
              | cs => osum (fun c => match peek_body f h c, get h c with
                                     | Some b, Some nc => Some (Qred (b * inject_Z (rep_count (rdf nc))))
                                     | _, _ => None end) cs 0%Q
              end
          end
      end
  end.
Definition peek_dur (fuel : nat) (h : heap) (x : id) : option Q :=
  match peek_body fuel h x, get h x with
  | Some b, Some n => Some (Qred (b * inject_Z (rep_count (rdf n))))
  | _, _ => None
  end.

(* the duration recomputed from leaves and repetition counts, ignoring every cache *)
Fixpoint true_body (fuel : nat) (h : heap) (x : id) : option Q :=
  match fuel with
  | O => None
  | S f =>
      match get h x with
      | None => None
      | Some n =>
          match children n with
          | [] => Some (match wform n with Some w => Qred (wf_dur w) | None => 0%Q end)
          | cs => osum (fun c => match true_body f h c, get h c with
                                 | Some b, Some nc => Some (Qred (b * inject_Z (rep_count (rdf nc))))
                                 | _, _ => None end) cs 0%Q
          end
      end
  end.
Definition true_dur (fuel : nat) (h : heap) (x : id) : option Q :=
  match true_body fuel h x, get h x with
  | Some b, Some n => Some (Qred (b * inject_Z (rep_count (rdf n))))
  | _, _ => None
  end.

(* Loop._invalidate_duration: incremental patch (Some inc) or reset (None), then up the recorded parent chain *)
Fixpoint invalidate (fuel : nat) (x : id) (inc : option Q) : M unit :=
  match fuel with
  | O => raise ExFuel
  | S f =>
      n <- getn x ;;
      match cache n, inc with
      | Some q, Some d => modn x (set_cache (Some (Qred (q + d))))
      | Some q, None => modn x (set_cache None)
      | None, _ => ret tt
      end ;;;
      match parent n with
      | None => ret tt
      | Some p =>
          np <- getn p ;;
          if truthy np
          then invalidate f p (match inc with Some d => Some (Qred (d * inject_Z (rep_count (rdf n)))) | None => None end)
          else ret tt
      end
  end.
Definition fueled {A} (k : nat -> M A) : M A := fun h => k (S (S (length h))) h.
Definition invalidate_all (x : id) : M unit := fueled (fun fuel => invalidate fuel x None).
(* the two repetition setters (after the fix): the cached body duration of self stays valid, the parent chain is reset *)
Definition invalidate_parent (x : id) : M unit :=
  n <- getn x ;;
  match parent n with
  | None => ret tt
  | Some p => np <- getn p ;; if truthy np then invalidate_all p else ret tt
  end.
Definition set_repetition_definition (x : id) (r : rdef) : M unit :=
  modn x (set_rdf r) ;;; invalidate_parent x.
Definition set_repetition_count (x : id) (z : Z) : M unit := set_repetition_definition x (RInt z).
Definition set_waveform (x : id) (w : option wf) : M unit := modn x (set_wform w) ;;; invalidate_all x.
(* round 4: `x.repetition_count = val` with a float val (exact rational value q): new = int(val) (truncation toward zero);
   `abs(new - val) > 1e-10` raises ValueError BEFORE anything is stored (the float subtraction is exact: Sterbenz) *)
Definition Qtrunc (q : Q) : Z := Z.quot (Qnum q) (Zpos (Qden q)).
Definition rep_eps : Q := 7737125245533627 # 77371252455336267181195264.      (* the double 1e-10 *)
Definition Qabsb (q : Q) : Q := if Qle_bool 0 q then q else Qopp q.
Definition set_repetition_count_q (x : id) (q : Q) : M unit :=
  let z := Qtrunc q in
  if Qle_bool (Qabsb (inject_Z z - q)) rep_eps then set_repetition_count x z else raise ExValue.

(* ---- Python indexing and slices -------------------------------------------------------------------------------- *)
Definition py_index (len i : Z) : option Z :=
  if (0 <=? i) && (i <? len) then Some i
  else if (- len <=? i) && (i <? 0) then Some (i + len) else None.

(* slice.indices(len): None = ValueError (step 0) *)
Definition slice_indices (start stop step : option Z) (len : Z) : option (Z * Z * Z) :=
  let st := match step with Some s => s | None => 1 end in
  if st =? 0 then None else
  let lower := if st <? 0 then -1 else 0 in
  let upper := if st <? 0 then len - 1 else len in
  let clip v := if v <? 0 then (let v' := v + len in if v' <? 0 then lower else v')
                else if len <=? v then upper else v in
  let s := match start with Some v => clip v | None => if st <? 0 then upper else lower end in
  let e := match stop with Some v => clip v | None => if st <? 0 then lower else upper end in
  Some (s, e, st).
Definition range_len (s e st : Z) : Z :=
  if 0 <? st then (if s <? e then (e - s - 1) / st + 1 else 0)
  else (if e <? s then (s - e - 1) / (- st) + 1 else 0).

Fixpoint set_nth {A} (l : list A) (i : nat) (a : A) : list A :=
  match l, i with
  | [], _ => []
  | _ :: r, O => a :: r
  | b :: r, S i' => b :: set_nth r i' a
  end.
(* extended slice assignment: positions s, s+st, ... receive the values (all positions are valid indices) *)
Fixpoint assign_ext {A} (l : list A) (s st : Z) (vals : list A) : list A :=
  match vals with
  | [] => l
  | v :: r => assign_ext (set_nth l (Z.to_nat s) v) (s + st) st r
  end.

(* for index in range(a, a+cnt): self.__children[index].__parent_index = index *)
Fixpoint renum (x : id) (a : Z) (cnt : nat) : M unit :=
  match cnt with
  | O => ret tt
  | S c =>
      n <- getn x ;;
      match py_index (Z.of_nat (length (children n))) a with
      | None => raise ExIndex
      | Some i =>
          match nth_error (children n) (Z.to_nat i) with
          | None => raise ExIndex
          | Some ch => modn ch (set_pidx (Some a)) ;;; renum x (a + 1) c
          end
      end
  end.
(* for index in range(s, e, st) given as (first, step, count) *)
Fixpoint renum_step (x : id) (a st : Z) (cnt : nat) : M unit :=
  match cnt with
  | O => ret tt
  | S c =>
      n <- getn x ;;
      match py_index (Z.of_nat (length (children n))) a with
      | None => raise ExIndex
      | Some i =>
          match nth_error (children n) (Z.to_nat i) with
          | None => raise ExIndex
          | Some ch => modn ch (set_pidx (Some a)) ;;; renum_step x (a + st) st c
          end
      end
  end.

(* Node._detach_removed (repair of the round-2 finding): a replaced child that is not among the new values and still
   records this node as its parent forgets it (empty weak reference, parent_index None) *)
Definition detach_removed (x : id) (removed vals : list id) : M unit :=
  miter (fun c => if existsb (Nat.eqb c) vals then ret tt
                  else nc <- getn c ;;
                       match parent nc with
                       | Some p => if Nat.eqb p x then modn c (fun n => set_pidx None (set_parent None n)) else ret tt
                       | None => ret tt
                       end) removed.
(* the elements an extended slice s, s+st, ... (cnt of them) addresses: list.__getitem__(slice) *)
Fixpoint pick_ext {A} (l : list A) (s st : Z) (cnt : nat) : list A :=
  match cnt with
  | O => []
  | S c => match nth_error l (Z.to_nat s) with Some a => a :: pick_ext l (s + st) st c | None => pick_ext l (s + st) st c end
  end.

(* Node.__setitem__, slice branch; `vals` are ids of existing nodes (parse_child only re-parents them).
   Round 4 repair: every check that can reject the assignment (step 0, size mismatch of an extended slice) comes BEFORE the
   first value is re-parented: a rejected assignment has no effect. *)
Definition node_setitem_slice (x : id) (start stop step : option Z) (vals : list id) : M unit :=
  n <- getn x ;;
  let cs := children n in
  let len := Z.of_nat (length cs) in
  match slice_indices start stop step len with
  | None => raise ExValue
  | Some (s, e, st) =>
      let rl := range_len s e st in
      let k := Z.of_nat (length vals) in
      if negb (st =? 1) && negb (k =? rl) then raise ExValue else
      miter (fun c => modn c (set_parent (Some x))) vals ;;;
      let removed := if st =? 1 then firstn (Z.to_nat (Z.max s e) - Z.to_nat s) (skipn (Z.to_nat s) cs)
                     else pick_ext cs s st (Z.to_nat rl) in
      (if st =? 1
       then modn x (set_children (firstn (Z.to_nat s) cs ++ vals ++ skipn (Z.to_nat (Z.max s e)) cs))
       else if k =? rl then modn x (set_children (assign_ext cs s st vals))
            else raise ExValue (* list.__setitem__ would raise here; unreachable after the check above *)) ;;;
      (if negb (k =? rl)
       then (let first := if 0 <? st then s else e in
             n' <- getn x ;;
             renum x first (Z.to_nat (Z.of_nat (length (children n')) - first)))
       else if 0 <? k then renum_step x s st (Z.to_nat rl)
       else ret tt) ;;;
      detach_removed x removed vals
  end.
(* Node.__setitem__, integer branch (round 4 repair: the index is validated and normalised first) *)
Definition node_setitem_int (x : id) (idx : Z) (v : id) : M unit :=
  n <- getn x ;;
  let len := Z.of_nat (length (children n)) in
  match py_index len idx with
  | None => raise ExIndex
  | Some i => modn v (set_parent (Some x)) ;;;
              modn v (set_pidx (Some i)) ;;;
              modn x (set_children (set_nth (children n) (Z.to_nat i) v)) ;;;
              detach_removed x (match nth_error (children n) (Z.to_nat i) with Some o => [o] | None => [] end) [v]
  end.
(* Loop.__setitem__ *)
Definition loop_setitem_slice (x : id) (start stop step : option Z) (vals : list id) : M unit :=
  node_setitem_slice x start stop step vals ;;; invalidate_all x.
Definition loop_setitem_int (x : id) (idx : Z) (v : id) : M unit :=
  node_setitem_int x idx v ;;; invalidate_all x.

(* ---- construction ------------------------------------------------------------------------------------------------ *)
Inductive tspec := TS (r : rdef) (w : option wf) (m : option (list mw)) (cs : list tspec).

(* Node.__init__ with a list of existing children: re-parent, number *)
Fixpoint adopt (x : id) (i : Z) (cs : list id) : M unit :=
  match cs with
  | [] => ret tt
  | c :: r => modn c (fun n => set_pidx (Some i) (set_parent (Some x) n)) ;;; adopt x (i + 1) r
  end.
Definition new_loop (par : option id) (cs : list id) (r : rdef) (w : option wf) (m : option (list mw)) : M id :=
  x <- alloc (mkNode cs par None None r w m) ;; adopt x 0 cs ;;; ret x.

Fixpoint build (t : tspec) : M id :=
  match t with
  | TS r w m cs =>
      bind ((fix go (l : list tspec) : M (list id) :=
               match l with [] => ret [] | c :: l' => i <- build c ;; is <- go l' ;; ret (i :: is) end) cs)
           (fun ids => new_loop None ids r w m)
  end.

(* Loop.copy_tree_structure(new_parent) — `par` is the parent recorded in the copy *)
Fixpoint copy_tree (fuel : nat) (x : id) (par : option id) : M id :=
  match fuel with
  | O => raise ExFuel
  | S f =>
      n <- getn x ;;
      ids <- mmap (fun c => copy_tree f c None) (children n) ;;      (* child.copy_tree_structure(): no parent recorded (round 3 repair) *)
      new_loop par ids (rdf n) (wform n) (meas n)
  end.
Inductive newpar := NPFalse | NPNone | NPNode (p : id).
Definition copy_tree_structure (x : id) (np : newpar) : M id :=
  n <- getn x ;;
  fueled (fun fuel => copy_tree fuel x (match np with NPFalse => None | NPNone => None | NPNode p => Some p end)).

(* ---- editing operations of Loop ------------------------------------------------------------------------------------ *)
Definition last_child (n : node) : option id := nth_error (children n) (pred (length (children n))).

(* Loop.append_child: Node.__setitem__(slice(len, len)) directly (no reset), then the incremental patch *)
Definition append_child (x c : id) : M unit :=
  n <- getn x ;;
  let len := Z.of_nat (length (children n)) in
  node_setitem_slice x (Some len) (Some len) None [c] ;;;
  n' <- getn x ;;
  match last_child n' with
  | None => raise ExIndex
  | Some l =>
      match children n', wform n' with
      | [_], Some _ => invalidate_all x      (* self was a leaf with a waveform: reset *)
      | _, _ => d <- fueled (fun fuel => duration fuel l) ;; fueled (fun fuel => invalidate fuel x (Some d))
      end
  end.

(* copies of all children, `cnt` times, in order; new_parent as given per child *)
Definition copies_of (cs : list id) (cnt : Z) (np : id -> M newpar) : M (list id) :=
  Z.iter cnt (fun (acc : M (list id)) =>
                l <- acc ;; r <- mmap (fun c => p <- np c ;; copy_tree_structure c p) cs ;; ret (l ++ r))
         (ret []).

Definition unroll (x : id) : M unit :=
  n <- getn x ;;
  if is_leaf n then raise ExRuntime else
  match parent n, pidx n with
  | Some p, Some i =>
      vals <- copies_of (children n) (rep_count (rdf n)) (fun _ => ret (NPNode p)) ;;
      loop_setitem_slice p (Some i) (Some (i + 1)) None vals
  | _, _ => raise ExType
  end.

Definition unroll_children (x : id) : M unit :=
  n <- getn x ;;
  if is_leaf n then raise ExRuntime else
  vals <- copies_of (children n) (rep_count (rdf n)) (fun _ => ret NPFalse) ;;
  loop_setitem_slice x None None None vals ;;;
  set_repetition_count x 1.

Definition encapsulate (x : id) : M unit :=
  n <- getn x ;;
  c <- new_loop None (children n) (rdf n) (wform n) (meas n) ;;
  loop_setitem_slice x None None None [c] ;;;
  set_repetition_count x 1 ;;;
  modn x (fun n => set_meas None (set_wform None n)).

Definition child_at (x : id) (i : Z) : M id :=
  n <- getn x ;;
  match py_index (Z.of_nat (length (children n))) i with
  | None => raise ExIndex
  | Some j => match nth_error (children n) (Z.to_nat j) with Some c => ret c | None => raise ExIndex end
  end.

(* the child picked by split_one_child(None): the last non-volatile child with count > 1, else the last volatile one *)
Fixpoint pick_split (h : heap) (rcs : list id) (ridx : Z) (fallback : option Z) : option Z :=
  match rcs with
  | [] => fallback
  | c :: r =>
      match get h c with
      | None => fallback
      | Some nc =>
          if 1 <? rep_count (rdf nc)
          then if negb (is_vol (rdf nc)) then Some ridx
               else pick_split h r (ridx - 1) (match fallback with None => Some ridx | f => f end)
          else pick_split h r (ridx - 1) fallback
      end
  end.

Definition split_one_child (x : id) (ci : option Z) : M unit :=
  n <- getn x ;;
  idx <- match ci with
         | Some i0 =>
             (* a negative index is normalised first: range(len(self))[child_index] *)
             i <- (if i0 <? 0 then match py_index (Z.of_nat (length (children n))) i0 with
                                   | Some j => ret j | None => raise ExIndex end
                   else ret i0) ;;
             c <- child_at x i ;; nc <- getn c ;;
             if rep_count (rdf nc) <? 2 then raise ExValue else ret i
         | None => fun h => match pick_split h (rev (children n)) (Z.of_nat (length (children n)) - 1) None with
                            | Some i => (h, R i) | None => (h, E ExRuntime) end
         end ;;
  c <- child_at x idx ;;
  new <- copy_tree_structure c NPFalse ;;
  set_repetition_count new 1 ;;;
  nc <- getn c ;;
  set_repetition_count c (rep_count (rdf nc) - 1) ;;;
  loop_setitem_slice x (Some (idx + 1)) (Some (idx + 1)) None [new].

Definition has_single_mergeable (x : id) : M bool :=
  n <- getn x ;;
  match children n with
  | [c] => nc <- getn c ;;
           ret (negb (nonempty_meas (meas n)) || ((rep_count (rdf nc) =? 1) && negb (is_vol (rdf nc))))
  | _ => ret false
  end.

(* `vctr` supplies identity tags for the fresh VolatileRepetitionCount made from two volatile counts *)
Definition merge_single_child (vctr : Z) (x : id) : M unit :=
  n <- getn x ;;
  match children n with
  | [c] =>
      nc <- getn c ;;
      let mergable := (rep_count (rdf nc) =? 1) && negb (is_vol (rdf nc)) in
      if nonempty_meas (meas n) && negb mergable then raise ExAssert else
      match wform n with Some _ => raise ExAssert | None =>
      let ms := if nonempty_meas (meas n)
                then (if nonempty_meas (meas nc)
                      then Some (match meas nc, meas n with Some a, Some b => a ++ b | _, _ => [] end)
                      else meas n)
                else meas nc in
      let r := match rdf n, rdf nc with
               | RInt a, RInt b => RInt (a * b)
               | RInt _, (RVol _ _ _ as v) => rdef_mul v (rep_count (rdf n))
               | (RVol _ _ _ as v), RInt _ => rdef_mul v (rep_count (rdf nc))
               | RVol k1 _ m1, RVol k2 _ m2 => RVol (k1 * m1 * (k2 * m2)) vctr 1
               end in
      loop_setitem_slice x None None None (children nc) ;;;
      (* round 3 repair: child[:] = () - the merged child no longer lists the moved children and drops its cached duration *)
      loop_setitem_slice c None None None [] ;;;
      modn x (fun n => set_meas ms (set_rdf r (set_wform (wform nc) n))) ;;;
      invalidate_all x
      end
  | _ => raise ExAssert
  end.
Definition try_merge (vctr : Z) (x : id) : M unit :=
  b <- has_single_mergeable x ;; if b then merge_single_child vctr x else ret tt.

Fixpoint cleanup (fuel : nat) (vctr : Z) (rm mg : bool) (x : id) : M unit :=
  match fuel with
  | O => raise ExFuel
  | S f =>
      n <- getn x ;;
      (if rm
       then kept <- mmap (fun c =>
                     nc <- getn c ;;
                     if is_leaf nc
                     then ret (match wform nc with None => [] | Some _ => [c] end)
                     else cleanup f (vctr + Z.of_nat fuel) rm mg c ;;;
                          nc' <- getn c ;;
                          ret (match wform nc' with
                               | Some _ => [c]
                               | None => if is_leaf nc' then [] else [c] end)) (children n) ;;
            let new := concat kept in
            if Nat.eqb (length new) (length (children n)) then ret tt
            else loop_setitem_slice x None None None new
       else miter (fun c => cleanup f (vctr + Z.of_nat fuel) rm mg c) (children n)) ;;;
      if mg then try_merge vctr x else ret tt
  end.

Fixpoint reverse_inplace (fuel : nat) (x : id) : M unit :=
  match fuel with
  | O => raise ExFuel
  | S f =>
      n <- getn x ;;
      (if is_leaf n
       then match wform n with
            | None => raise ExAttr
            | Some w => modn x (set_wform (Some (wf_reversed w)))
            end
       else (* Node._reverse_children (after the fix: renumbers) *)
            let rcs := rev (children n) in
            modn x (set_children rcs) ;;;
            (fix number (l : list id) (i : Z) : M unit :=
               match l with [] => ret tt | c :: r => modn c (set_pidx (Some i)) ;;; number r (i + 1) end) rcs 0 ;;;
            miter (reverse_inplace f) rcs) ;;;
      n' <- getn x ;;
      if nonempty_meas (meas n')
      then d <- fueled (fun fuel => body_duration fuel x) ;;
           modn x (fun n => set_meas (option_map (map (fun m : mw =>
                               let '(name, b, l) := m in (name, Qred (d - (b + l)), l))) (meas n)) n)
      else ret tt
  end.

(* smallest divisor of n that is >= mf (numeric.smallest_factor_ge; n >= mf >= 1) *)
Fixpoint smallest_factor_from (cnt : nat) (n f : Z) : Z :=
  match cnt with
  | O => n
  | S c => if (n mod f =? 0) then f else smallest_factor_from c n (f + 1)
  end.
Definition smallest_factor_ge (n mf : Z) : Z := smallest_factor_from (Z.to_nat (n - mf)) n mf.

(* roll_constant_waveforms(program, minimal_waveform_quanta, waveform_quantum, sample_rate): private-field writes *)
Fixpoint roll (fuel : nat) (mq q : Z) (sr : Q) (x : id) : M unit :=
  match fuel with
  | O => raise ExFuel
  | S f =>
      n <- getn x ;;
      (if nonempty_meas (meas n) then modn x (set_meas None) else ret tt) ;;;
      match (if is_leaf n then wform n else None) with
      | None => miter (roll f mq q sr) (children n)      (* no waveform, or not a leaf: only the children are rolled *)
      | Some w =>
          let qq := Qred (wf_dur w * sr / inject_Z q) in
          if negb (Pos.eqb (Qden qq) 1) then ret tt else
          let quanta := Qnum qq in
          if quanta <? mq * 2 then ret tt else
          match w with
          | WRamp _ _ _ => ret tt
          | WConst _ v =>
              let nq := smallest_factor_ge quanta mq in
              if nq =? quanta then ret tt else
              let add := quanta / nq in
              modn x (fun n => set_cache None (set_wform (Some (WConst (Qred (inject_Z (q * nq) / sr)) v))
                                 (set_rdf (rdef_mul (rdf n) add) n)))
          end
      end
  end.

(* Loop.__eq__ : repetition definition, waveform, measurements (empty = None), number of children, children *)
Definition meas_eqb (a b : option (list mw)) : bool :=
  match a, b with
  | None, None | None, Some [] | Some [], None => true
  | Some x, Some y => list_eqb mw_eqb x y
  | _, _ => false
  end.
Fixpoint loop_eqb (fuel : nat) (h : heap) (a b : id) : bool :=
  match fuel with
  | O => false
  | S f =>
      match get h a, get h b with
      | Some na, Some nb =>
          rdef_eqb (rdf na) (rdf nb) && opt_eqb wf_eqb (wform na) (wform nb) && meas_eqb (meas na) (meas nb)
          && Nat.eqb (length (children na)) (length (children nb))
          && list_eqb (loop_eqb f h) (children na) (children nb)
      | _, _ => false
      end
  end.

(* ---- Node.get_location / Node.locate ------------------------------------------------------------------------------- *)
Fixpoint get_location (fuel : nat) (h : heap) (x : id) : option (list (option Z)) :=
  match fuel with
  | O => None
  | S f =>
      match get h x with
      | None => None
      | Some n =>
          match parent n with
          | None => Some []
          | Some p =>
              match get h p with
              | None => None
              | Some np => if truthy np
                           then match get_location f h p with Some l => Some (l ++ [pidx n]) | None => None end
                           else Some []
              end
          end
      end
  end.
Inductive located := LNode (x : id) | LError.
Fixpoint locate (h : heap) (x : id) (loc : list (option Z)) : located :=
  match loc with
  | [] => LNode x
  | None :: _ => LError
  | Some i :: r =>
      match get h x with
      | None => LError
      | Some n =>
          match py_index (Z.of_nat (length (children n))) i with
          | None => LError
          | Some j => match nth_error (children n) (Z.to_nat j) with Some c => locate h c r | None => LError end
          end
      end
  end.

(* ---- histories -------------------------------------------------------------------------------------------------------- *)
Definition path := list nat.
Fixpoint resolve (h : heap) (x : id) (p : path) : option id :=
  match p with
  | [] => Some x
  | i :: r => match get h x with
              | Some n => match nth_error (children n) i with Some c => resolve h c r | None => None end
              | None => None
              end
  end.

(* Loop.add_measurements: windows are offset by the current body duration (reads body_duration: memoises) *)
Definition add_measurements (x : id) (ms : list mw) : M unit :=
  d <- fueled (fun fuel => body_duration fuel x) ;;
  let ms' := if Qeq_bool d 0 then ms else map (fun m : mw => let '(nm, b, l) := m in (nm, Qred (b + d), l)) ms in
  modn x (fun n => set_meas (Some (match meas n with Some l => l ++ ms' | None => ms' end)) n).

Inductive op :=
| ONop
| OAppend (p : path) (t : tspec)                                  (* x.append_child(loop=<fresh t>) or with keyword arguments *)
| OSetInt (p : path) (idx : Z) (t : tspec)                        (* x[idx] = <fresh t> *)
| OSetSlice (p : path) (start stop step : option Z) (ts : list tspec)   (* x[start:stop:step] = [<fresh>...] *)
| OSetWf (p : path) (w : option wf)                               (* x.waveform = w *)
| OSetRepCount (p : path) (z : Z)                                 (* x.repetition_count = z *)
| OSetRepDef (p : path) (r : rdef)                                (* x.repetition_definition = r *)
| OUnroll (p : path)
| OUnrollChildren (p : path)
| OSplit (p : path) (ci : option Z)
| OEncapsulate (p : path)
| OMerge (p : path)                                               (* if x._has_single_child_that_can_be_merged(): x._merge_single_child() *)
| OCleanup (p : path) (rm mg : bool)
| OReverse (p : path)
| ORoll (p : path) (mq q : Z) (sr : Q)
| OCopyAppend (src dst : path) (np : nat)                         (* dst.append_child(src.copy_tree_structure(new_parent)); np: 0 False, 1 None, 2 dst *)
| OQueryDur (p : path)                                            (* x.duration *)
| OQueryBody (p : path)                                           (* x.body_duration *)
| OEq (a b : path)                                                (* a == b (no effect) *)
| OEqCopy (p : path) (k : nat)                                    (* c = x.copy_tree_structure(None); perturb c in way k; x == c *)
(* round 4: calls the caller survives inside try/except *)
| OSetRepCountQ (p : path) (q : Q)                                (* x.repetition_count = <float with exact value q> *)
| OReject (p : path) (e : exn)                                    (* a call on x whose arguments are rejected (wrong type, both loop= and
                                                                     keywords, NaN count, ...): raises e, nothing else happens *)
(* round 6: add_measurements is part of the history alphabet *)
| OAddMeas (p : path) (ms : list mw).                              (* x.add_measurements(ms) *)

(* the copy of OEqCopy is changed in exactly one respect (k = 0, 5: in none that == may see) *)
Fixpoint first_leaf (fuel : nat) (h : heap) (x : id) : id :=
  match fuel with
  | O => x
  | S f => match get h x with
           | Some n => match children n with c :: _ => first_leaf f h c | [] => x end
           | None => x
           end
  end.
Definition perturb (k : nat) (c : id) : M unit :=
  n <- getn c ;;
  match k with
  | 0%nat => ret tt
  | 1%nat => modn c (set_meas (Some (match meas n with Some l => l | None => [] end ++ [(9, 0%Q, 1%Q)])))
  | 2%nat => set_repetition_definition c (RInt (rep_count (rdf n) + 1))
  | 3%nat => set_waveform c (Some (WConst 7 3))
  | 4%nat => fun h => let d := first_leaf (S (length h)) h c in
                      (nd <- getn d ;; set_repetition_definition d (RInt (rep_count (rdf nd) + 1))) h
  | _ => modn c (set_meas (match meas n with None => Some [] | m => m end))
  end.

Record state := mkState { st_heap : heap; st_root : id; st_vctr : Z }.

Inductive outcome := Done | Raised (e : exn) | BadPath.

Definition run_at (s : state) (p : path) (k : id -> M unit) : state * outcome :=
  match resolve (st_heap s) (st_root s) p with
  | None => (s, BadPath)
  | Some x =>
      match k x (st_heap s) with
      | (h', R _) => (mkState h' (st_root s) (st_vctr s + 1000), Done)
      | (h', E e) => (mkState h' (st_root s) (st_vctr s + 1000), Raised e)
      end
  end.

Definition step (s : state) (o : op) : state * outcome :=
  match o with
  | ONop => (s, Done)
  | OAppend p t => run_at s p (fun x => c <- build t ;; append_child x c)
  | OSetInt p i t => run_at s p (fun x => c <- build t ;; loop_setitem_int x i c)
  | OSetSlice p a b c ts => run_at s p (fun x => cs <- mmap build ts ;; loop_setitem_slice x a b c cs)
  | OSetWf p w => run_at s p (fun x => set_waveform x w)
  | OSetRepCount p z => run_at s p (fun x => set_repetition_count x z)
  | OSetRepDef p r => run_at s p (fun x => set_repetition_definition x r)
  | OUnroll p => run_at s p unroll
  | OUnrollChildren p => run_at s p unroll_children
  | OSplit p ci => run_at s p (fun x => split_one_child x ci)
  | OEncapsulate p => run_at s p encapsulate
  | OMerge p => run_at s p (try_merge (st_vctr s))
  | OCleanup p rm mg => run_at s p (fun x => fueled (fun fuel => cleanup fuel (st_vctr s) rm mg x))
  | OReverse p => run_at s p (fun x => fueled (fun fuel => reverse_inplace fuel x))
  | ORoll p mq q sr => run_at s p (fun x => fueled (fun fuel => roll fuel mq q sr x))
  | OCopyAppend src dst np =>
      match resolve (st_heap s) (st_root s) dst with
      | None => (s, BadPath)
      | Some d => run_at s src (fun x =>
                    c <- copy_tree_structure x (match np with O => NPFalse | S O => NPNone | _ => NPNode d end) ;;
                    append_child d c)
      end
  | OQueryDur p => run_at s p (fun x => fueled (fun fuel => duration fuel x) ;;; ret tt)
  | OQueryBody p => run_at s p (fun x => fueled (fun fuel => body_duration fuel x) ;;; ret tt)
  | OEq _ _ => (s, Done)
  | OEqCopy p k => run_at s p (fun x => c <- copy_tree_structure x NPNone ;; perturb k c)
  | OSetRepCountQ p q => run_at s p (fun x => set_repetition_count_q x q)
  | OReject p e => run_at s p (fun _ => raise e)
  | OAddMeas p ms => run_at s p (fun x => add_measurements x ms)
  end.

Definition init_state (t : tspec) : state :=
  match build t [] with
  | (h, R x) => mkState h x 1000000
  | (h, E _) => mkState h 0%nat 1000000
  end.

Definition run (s : state) (ops : list op) : state := fold_left (fun s o => fst (step s o)) ops s.

(* ---- round 2: references the user holds into the tree; editing a node after it dropped out of the tree ------------------ *)
Fixpoint nodes (fuel : nat) (h : heap) (x : id) : list id :=
  match fuel with
  | O => []
  | S f => match get h x with None => [] | Some n => x :: flat_map (nodes f h) (children n) end
  end.
Definition in_tree (h : heap) (r y : id) : bool := existsb (Nat.eqb y) (nodes (S (S (length h))) h r).

(* ---- round 3: further public editing operations (add_measurements: defined before the operation alphabet, round 6) ------ *)
(* Node.depth / Node.is_balanced *)
Fixpoint ndepth (fuel : nat) (h : heap) (x : id) : Z :=
  match fuel with
  | O => 0
  | S f => match get h x with
           | None => 0
           | Some n => match children n with
                       | [] => 0
                       | cs => 1 + fold_left Z.max (map (ndepth f h) cs) 0
                       end
           end
  end.
Fixpoint balanced (fuel : nat) (h : heap) (x : id) : bool :=
  match fuel with
  | O => true
  | S f => match get h x with
           | None => true
           | Some n => match children n with
                       | [] => true
                       | c0 :: _ => forallb (fun e => (ndepth fuel h e =? ndepth fuel h c0) && balanced f h e) (children n)
                       end
           end
  end.
(* Loop.flatten_and_balance(depth): the while loop over the children of x (position i), one branch per iteration *)
Fixpoint flatten (fuel : nat) (vctr : Z) (depth : Z) (x : id) (i : nat) : M unit :=
  match fuel with
  | O => raise ExFuel
  | S f =>
      n <- getn x ;;
      match nth_error (children n) i with
      | None => ret tt
      | Some sub =>
          fun h =>
          let big := S (S (length h)) in
          let d := ndepth big h sub in
          (if d <? depth - 1 then encapsulate sub ;;; flatten f vctr depth x i
           else if negb (balanced big h sub) then flatten f vctr (depth - 1) sub O ;;; flatten f vctr depth x i
           else if d =? depth - 1 then flatten f vctr depth x (S i)
           else b <- has_single_mergeable sub ;;
                if b then merge_single_child (vctr + Z.of_nat fuel) sub ;;; flatten f vctr depth x i
                else ns <- getn sub ;;
                     if negb (is_leaf ns) then unroll sub ;;; flatten f vctr depth x i
                     else flatten f vctr depth x (S i)) h
      end
  end.
Definition flatten_and_balance (vctr : Z) (depth : Z) (x : id) : M unit := flatten 1500 vctr depth x O.

(* ---- round 2/3: references the user holds; editing nodes that dropped out of the program; inserting held nodes THEMSELVES ---- *)
Inductive ins := IAppend | IInt (i : Z) | ISlice (a b st : option Z).

Record fstate := mkF { f_main : state; f_held : list id }.
Inductive fop :=
| FMain (o : op)                 (* an operation on the program, addressed by path from its root *)
| FHold (p : path)               (* ref = the node at path p (the user keeps the reference) *)
| FAt (k : nat) (o : op)         (* an operation addressed by path from the k-th held node, when that node is no longer in the program *)
(* round 3.  base b: None = the program root, Some j = the j-th held node (wherever it is) *)
| FHoldCopy (b : option nat) (p : path) (np : nat) (q : path)
    (* ref = node(b,p).copy_tree_structure(new_parent); np: 0 default, 1 None, 2 the program node at path q *)
| FInsert (ks : list nat) (b : option nat) (dst : path) (how : ins)
    (* the held nodes ks THEMSELVES (no copies) are given to node(b,dst): append_child(loop=) / [i] = / [a:b:st] = [...] *)
| FAddMeas (b : option nat) (p : path) (ms : list mw)
| FFlatten (b : option nat) (p : path) (depth : Z)
(* round 6 (seed C09-10's class): w = Loop(children=[held ks], repetition_count=r), wrapped `depth` times (the outermost
   wrapper carries r, the inner ones count 1); w is then given to node(b,dst) like FInsert and the user keeps holding w.
   One step: between the construction (which takes the children over) and the assignment the program is not a tree. *)
| FWrapInsert (ks : list nat) (depth : nat) (r : rdef) (b : option nat) (dst : path) (how : ins).

Definition base_of (fs : fstate) (b : option nat) : option id :=
  match b with None => Some (st_root (f_main fs)) | Some j => nth_error (f_held fs) j end.
Fixpoint held_ids (held : list id) (ks : list nat) : option (list id) :=
  match ks with
  | [] => Some []
  | k :: r => match nth_error held k, held_ids held r with Some x, Some xs => Some (x :: xs) | _, _ => None end
  end.
Definition frun_at (fs : fstate) (b : option nat) (p : path) (k : id -> M unit) : fstate * outcome :=
  let s := f_main fs in
  match base_of fs b with
  | None => (fs, BadPath)
  | Some m => let '(s', out) := run_at (mkState (st_heap s) m (st_vctr s)) p k in
              (mkF (mkState (st_heap s') (st_root s) (st_vctr s')) (f_held fs), out)
  end.

Fixpoint wrap_n (depth : nat) (r : rdef) (cs : list id) : M id :=
  match depth with
  | O => new_loop None cs r None None
  | S d => match d with
           | O => new_loop None cs r None None
           | S _ => w <- new_loop None cs (RInt 1) None None ;; wrap_n d r [w]
           end
  end.

Definition fstep (fs : fstate) (o : fop) : fstate * outcome :=
  match o with
  | FMain o' => let '(s', out) := step (f_main fs) o' in (mkF s' (f_held fs), out)
  | FHold p => match resolve (st_heap (f_main fs)) (st_root (f_main fs)) p with
               | Some x => (mkF (f_main fs) (f_held fs ++ [x]), Done)
               | None => (fs, BadPath)
               end
  | FAt k o' =>
      let s := f_main fs in
      match nth_error (f_held fs) k with
      | None => (fs, BadPath)
      | Some m => if in_tree (st_heap s) (st_root s) m then (fs, BadPath)
                  else let '(s', out) := step (mkState (st_heap s) m (st_vctr s)) o' in
                       (mkF (mkState (st_heap s') (st_root s) (st_vctr s')) (f_held fs), out)
      end
  | FHoldCopy b p np q =>
      let s := f_main fs in
      match base_of fs b, resolve (st_heap s) (st_root s) q with
      | Some m, Some d =>
          match resolve (st_heap s) m p with
          | None => (fs, BadPath)
          | Some x =>
              match copy_tree_structure x (match np with O => NPFalse | S O => NPNone | _ => NPNode d end) (st_heap s) with
              | (h', R c) => (mkF (mkState h' (st_root s) (st_vctr s)) (f_held fs ++ [c]), Done)
              | (h', E e) => (mkF (mkState h' (st_root s) (st_vctr s)) (f_held fs), Raised e)
              end
          end
      | _, _ => (fs, BadPath)
      end
  | FInsert ks b dst how =>
      match held_ids (f_held fs) ks with
      | None => (fs, BadPath)
      | Some vals =>
          frun_at fs b dst (fun x =>
            match how, vals with
            | IAppend, v :: _ => append_child x v
            | IInt i, v :: _ => loop_setitem_int x i v
            | ISlice a b' st, _ => loop_setitem_slice x a b' st vals
            | _, [] => ret tt
            end)
      end
  | FWrapInsert ks depth r b dst how =>
      let s := f_main fs in
      match held_ids (f_held fs) ks with
      | None => (fs, BadPath)
      | Some vals =>
          match wrap_n depth r vals (st_heap s) with
          | (h1, R w) =>
              frun_at (mkF (mkState h1 (st_root s) (st_vctr s)) (f_held fs ++ [w])) b dst (fun x =>
                match how with
                | IAppend => append_child x w
                | IInt i => loop_setitem_int x i w
                | ISlice a b' st => loop_setitem_slice x a b' st [w]
                end)
          | (h1, E e) => (mkF (mkState h1 (st_root s) (st_vctr s)) (f_held fs), Raised e)
          end
      end
  | FAddMeas b p ms => frun_at fs b p (fun x => add_measurements x ms)
  | FFlatten b p depth => frun_at fs b p (fun x => flatten_and_balance (st_vctr (f_main fs)) depth x)
  end.
Definition frun (fs : fstate) (ops : list fop) : fstate := fold_left (fun s o => fst (fstep s o)) ops fs.
