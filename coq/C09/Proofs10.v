(* C09 — proofs, part 10 (round 3): add_measurements; the forest statement as written in round 2 is false once copies with
   an explicit new_parent can be held *)
From Coq Require Import List ZArith QArith Bool Lia Arith.
Import ListNotations.
Require Import QV.common.Util QV.C09.Model QV.C09.Proofs QV.C09.Proofs7 QV.C09.ProofsR.
Local Opaque Qred.

(* Loop.add_measurements: reads body_duration (memoises), then writes the measurement list only *)
Lemma add_measurements_inv h r x ms h' res :
  Inv h r -> reach h r x -> add_measurements x ms h = (h', res) -> Inv h' r.
Proof.
  intros I Rx H. unfold add_measurements in H. unfold bind at 1 in H. rewrite fueled_eq in H.
  destruct (body_duration (S (S (length h))) x h) as (h1, r1) eqn:B.
  assert (I1 : Inv h1 r) by (eapply body_duration_inv; eauto).
  destruct r1 as [d|e]; [|inversion H; subst; exact I1].
  unfold modn in H. inversion H; subst.
  set (ms' := if Qeq_bool d 0 then ms else _).
  apply (modn_meas_inv h1 r x (fun n => Some (match meas n with Some l => l ++ ms' | None => ms' end))). exact I1.
Qed.

(* the round-2 forest statement ("every tree the user holds keeps Inv", Inv including "the root records no parent") is
   FALSE for the alphabet of round 3: a held copy made with an explicit new_parent records a parent that does not list it *)
Definition forest_statement_r2 : Prop := forall ops fs,
  sInv (f_main fs) -> f_held fs = [] -> let fs' := frun fs ops in
  sInv (f_main fs') /\ forall m, In m (f_held fs') -> in_tree (st_heap (f_main fs')) (st_root (f_main fs')) m = false ->
                                 Inv (st_heap (f_main fs')) m.
Definition forest_witness : list fop := [FHoldCopy None [] 2 []].
Lemma forest_refuted : ~ forest_statement_r2.
Proof.
  intros H.
  specialize (H forest_witness (mkF (leaf_state (WConst 1 1)) []) (leaf_state_inv _) eq_refl).
  cbv zeta in H. destruct H as (_ & H).
  specialize (H 1%nat). 
  assert (E : frun (mkF (leaf_state (WConst 1 1)) []) forest_witness =
              mkF (mkState [mkNode [] None None None (RInt 2) (Some (WConst 1 1)) None;
                            mkNode [] (Some 0%nat) None None (RInt 2) (Some (WConst 1 1)) None] 0%nat 0) [1%nat])
    by (vm_compute; reflexivity).
  rewrite E in H. cbn [f_held f_main st_heap st_root] in H.
  assert (I : Inv [mkNode [] None None None (RInt 2) (Some (WConst 1 1)) None;
                   mkNode [] (Some 0%nat) None None (RInt 2) (Some (WConst 1 1)) None] 1%nat).
  { apply H; [now left|vm_compute; reflexivity]. }
  destruct (inv_root _ _ _ I) as (nr & G & P). cbn in G. inversion G; subst. cbn in P. discriminate.
Qed.

(* the guard: no held copy with an explicit parent, no held node handed back while it is still listed (FInsert), i.e. the
   alphabet of round 2 plus FAddMeas / FFlatten *)
Definition guard_C09_forest (o : fop) : bool :=
  match o with
  | FMain _ | FHold _ | FAt _ _ | FAddMeas _ _ _ | FFlatten _ _ _ => true
  | FHoldCopy _ _ np _ => Nat.ltb np 2
  | FInsert _ _ _ _ | FWrapInsert _ _ _ _ _ _ => false
  end.
Example forest_guard_nonvacuous : forallb guard_C09_forest [FHold [0%nat]; FMain (OMerge []); FAt 0 (OReverse []); FHoldCopy None [] 0 []] = true.
Proof. reflexivity. Qed.
