(* C09 — proofs, part 7x: x[a:b:c] = <fresh values> for ANY step (extended slices, step 0, length mismatch) *)
From Coq Require Import List ZArith QArith Bool Lia Arith.
Import ListNotations.
Require Import QV.common.Util QV.C09.Model QV.C09.Proofs QV.C09.Proofs2 QV.C09.Proofs3 QV.C09.Proofs4 QV.C09.Proofs5 QV.C09.Proofs6
               QV.C09.Proofs6x QV.C09.Proofs7.

Lemma setslice_fresh_any (mk : M (list id)) h0 r x a b stp h' res :
  FL mk -> Inv h0 r -> reach h0 r x -> (vals <- mk ;; loop_setitem_slice x a b stp vals) h0 = (h', res) -> ok_result res -> Inv h' r.
Proof.
  intros FM I0 Rx H OK.
  assert (SIMPLE : stp = None \/ stp = Some 1%Z -> Inv h' r).
  { intros ST. destruct (setslice_fresh_inv mk h0 r x a b stp h' res FM ST I0 Rx H OK) as (I' & _). exact I'. }
  destruct stp as [st|]; [|apply SIMPLE; now left].
  destruct (Z.eq_dec st 1) as [->|N1]; [apply SIMPLE; now right|]. clear SIMPLE.
  unfold bind at 1 in H.
  destruct (mk h0) as (h1, [vals|e]) eqn:B; pose proof (FM _ _ _ B) as P.
  2:{ inversion H; subst. destruct OK, P; congruence. }
  destruct P as (L1 & Pre & SS).
  assert (I1 : Inv h1 r) by (eapply Inv_ext; eauto).
  assert (Same : forall y, reach h0 r y -> get h1 y = get h0 y) by (intros; apply Pre; eapply live_lt; eauto).
  assert (Rx1 : reach h1 r x) by (eapply reach_frame; eauto).
  destruct (live_get _ _ _ I1 x Rx1) as (nx & Gx).
  assert (Lo : forall y, reach h1 r y -> (y < length h0)%nat).
  { intros y R. eapply live_lt; eauto. eapply reach_frame'; eauto. }
  destruct (fresh_vals_ok h1 r x nx _ _ vals I1 Lo SS Rx1 Gx) as (V1 & V2 & V3 & V4 & V5).
  assert (NIv : ~ In x vals) by (intros HIn; destruct (V3 x x HIn (reach_refl _ _)) as (N & _); congruence).
  assert (TV : forall y, reach h1 r y -> ~ In y vals).
  { intros y Ry Hv. specialize (Lo y Ry). destruct (Subs_In _ _ _ _ _ SS Hv) as (lo' & hi' & A1 & A2 & S). pose proof (Sub_le _ _ _ _ S). lia. }
  (* the value error paths (round 4: the slice is validated before anything is re-parented): nothing happened *)
  assert (ERR : node_setitem_slice x a b (Some st) vals h1 = (h1, E ExValue) -> Inv h' r).
  { intros EE. unfold loop_setitem_slice in H. rewrite (bind_E _ _ _ _ _ EE) in H. inversion H; subst. exact I1. }
  destruct (slice_indices a b (Some st) (Z.of_nat (length (children nx)))) as [[[s e] st']|] eqn:SI.
  2:{ apply ERR. unfold node_setitem_slice. rewrite (bind_getn x nx _ h1 Gx). rewrite SI. reflexivity. }
  destruct (slice_ext_valid a b st _ s e st' (Nat2Z.is_nonneg _) SI) as (-> & N0 & _).
  assert (E1f : (st =? 1)%Z = false) by (apply Z.eqb_neq; auto).
  destruct (Z.eqb_spec (Z.of_nat (length vals)) (range_len s e st)) as [Ek|Nk].
  2:{ apply ERR. unfold node_setitem_slice. rewrite (bind_getn x nx _ h1 Gx). rewrite SI, E1f.
      assert ((Z.of_nat (length vals) =? range_len s e st)%Z = false) by (apply Z.eqb_neq; auto). rewrite H0. reflexivity. }
  assert (NIc : ~ In x (children nx)) by (intros HIn; eapply (rp_x_not_own_child h1 r x nx I1 Rx1 Gx); eauto).
  assert (NDc : NoDup (children nx)) by (eapply (children_NoDup _ _ _ I1); eauto).
  assert (EV : slice_eval_post h1 x nx a b (Some st) vals).
  { apply (setitem_ext_eval h1 x nx a b st s e vals); auto.
    - intros i c Nc. eapply (inv_links _ _ _ I1); eauto.
    - intros c HIn. eapply LI_live; [apply (V2 c HIn)|constructor].
    - intros v Hv Hc. apply (V5 v v Hc (reach_refl _ _) Hv). }
  destruct (setslice_inv_gen h1 r x nx a b (Some st) vals I1 Rx1 Gx EV V2 V3 V4 (or_intror V5) h' res H OK) as (I' & _). exact I'.
Qed.

Lemma setslice_build_any h0 r x a b stp ts h' res :
  Inv h0 r -> reach h0 r x -> (cs <- mmap build ts ;; loop_setitem_slice x a b stp cs) h0 = (h', res) -> ok_result res -> Inv h' r.
Proof.
  intros I Rx H OK. eapply (setslice_fresh_any (mmap build ts)); eauto.
  apply mmap_FL. intros t h h1 res0. apply build_one.
Qed.
