(* C09 — proofs, part E: Loop.__eq__ is true exactly when the two subtrees have the same structure with pairwise equal
   repetition definitions, waveforms and measurements *)
From Coq Require Import List ZArith QArith Bool Lia Arith.
Import ListNotations.
Require Import QV.common.Util QV.C09.Model QV.C09.Proofs QV.C09.Proofs2 QV.C09.Proofs3 QV.C09.Proofs4 QV.C09.Proofs5.

(* the specification: same shape, node by node equal counts (rdef_eqb), waveforms (wf_eqb), measurements (meas_eqb: an
   empty list equals None) *)
Inductive seq (h : heap) : id -> id -> Prop :=
| seq_node a b na nb : get h a = Some na -> get h b = Some nb ->
    rdef_eqb (rdf na) (rdf nb) = true -> opt_eqb wf_eqb (wform na) (wform nb) = true -> meas_eqb (meas na) (meas nb) = true ->
    Forall2 (seq h) (children na) (children nb) -> seq h a b.

Lemma list_eqb_Forall2 {A} (e : A -> A -> bool) (R : A -> A -> Prop) :
  forall l1 l2, (forall x y, In x l1 -> e x y = true -> R x y) -> list_eqb e l1 l2 = true -> Forall2 R l1 l2.
Proof.
  induction l1 as [|x l1 IH]; intros [|y l2] He H; cbn in H; try discriminate; [constructor|].
  apply andb_prop in H as (H1 & H2). constructor; [apply He; auto; now left|apply IH; auto]. intros; apply He; auto; now right.
Qed.

Lemma Forall2_list_eqb {A} (e : A -> A -> bool) (R : A -> A -> Prop) :
  forall l1 l2, (forall x y, In x l1 -> R x y -> e x y = true) -> Forall2 R l1 l2 -> list_eqb e l1 l2 = true.
Proof.
  intros l1 l2 He F. induction F as [|x y l1 l2 Rxy F IH]; cbn; auto.
  rewrite (He x y (or_introl eq_refl) Rxy). cbn. apply IH. intros; apply He; auto; now right.
Qed.

Lemma Forall2_length' {A B} (R : A -> B -> Prop) l1 l2 : Forall2 R l1 l2 -> length l1 = length l2.
Proof. induction 1; cbn; auto. Qed.

(* soundness, any fuel: a true answer is a proof of structural equality *)
Lemma loop_eqb_sound h : forall fuel a b, loop_eqb fuel h a b = true -> seq h a b.
Proof.
  induction fuel as [|f IH]; intros a b H; cbn in H; [discriminate|].
  destruct (get h a) as [na|] eqn:Ga; [|discriminate]. destruct (get h b) as [nb|] eqn:Gb; [|discriminate].
  apply andb_prop in H as (H & H5). apply andb_prop in H as (H & H4). apply andb_prop in H as (H & H3).
  apply andb_prop in H as (H1 & H2).
  apply (seq_node h a b na nb); auto. apply (list_eqb_Forall2 (loop_eqb f h)); auto.
Qed.

(* completeness with enough fuel: more than the height of the left subtree *)
Lemma loop_eqb_complete h : forall k a, hle h a k -> forall b fuel, (k <= fuel)%nat -> seq h a b -> loop_eqb fuel h a b = true.
Proof.
  induction 1 as [a na k Ga Hc IH]; intros b fuel L S.
  destruct fuel as [|f]; [lia|]. inversion S as [? ? na' nb Ga' Gb E1 E2 E3 F]; subst.
  assert (na' = na) by congruence. subst na'.
  cbn. rewrite Ga, Gb, E1, E2, E3. cbn.
  rewrite (Forall2_length' _ _ _ F), Nat.eqb_refl. cbn.
  apply (Forall2_list_eqb (loop_eqb f h) (seq h)); auto.
  intros x y HIn Sxy. apply (IH x HIn); auto. lia.
Qed.

(* on a state that satisfies the invariant, for a live left operand: __eq__ answers true iff structurally equal,
   provided the fuel exceeds the height of the subtree (the fuel S (S (length h)) the model uses always does when
   depth < heap size: part of the open fuel-sufficiency obligation) *)
Lemma loop_eqb_decides h r P a : InvExc h r P -> reach h r a ->
  exists k, forall fuel b, (k <= fuel)%nat -> (loop_eqb fuel h a b = true <-> seq h a b).
Proof.
  intros I Ra. destruct (li_wf _ _ _ (LI_sub _ _ _ _ (InvExc_LI _ _ _ I) Ra)) as (k & Hk).
  exists k. intros fuel b L. split; [apply loop_eqb_sound|apply (loop_eqb_complete h k a Hk); auto].
Qed.

(* the relation is reflexive on live well-founded subtrees (a program equals itself / its structural copy) *)
Lemma rdef_eqb_refl r : rdef_eqb r r = true.
Proof. destruct r; cbn; [apply Z.eqb_refl|]. now rewrite !Z.eqb_refl. Qed.
Lemma wf_eqb_refl w : wf_eqb w w = true.
Proof.
  destruct w; cbn.
  - rewrite Z.eqb_refl, andb_true_r. apply Qeq_bool_iff. reflexivity.
  - rewrite Z.eqb_refl, eqb_reflx, !andb_true_r. apply Qeq_bool_iff. reflexivity.
Qed.
Lemma mw_eqb_refl m : mw_eqb m m = true.
Proof.
  destruct m as ((n0, b), l). cbn. rewrite Z.eqb_refl. cbn.
  apply andb_true_iff; split; apply Qeq_bool_iff; reflexivity.
Qed.
Lemma meas_eqb_refl m : meas_eqb m m = true.
Proof.
  destruct m as [l|]; cbn; auto. destruct l as [|x l]; auto.
  assert (forall l0, list_eqb mw_eqb l0 l0 = true) by (induction l0; cbn; auto; now rewrite mw_eqb_refl).
  apply H.
Qed.
Lemma seq_refl h k a : hle h a k -> seq h a a.
Proof.
  induction 1 as [a na k Ga Hc IH].
  apply (seq_node h a a na na); auto using rdef_eqb_refl, meas_eqb_refl.
  - destruct (wform na); cbn; auto using wf_eqb_refl.
  - clear Hc Ga. induction (children na) as [|c cs IHc]; constructor; [apply IH; now left|apply IHc; intros; apply IH; now right].
Qed.
