(* C09 — proofs, part 8: _merge_single_child, encapsulate, split_one_child, __setitem__ with an integer index *)
From Coq Require Import List ZArith QArith Bool Lia Arith.
Import ListNotations.
Require Import QV.common.Util QV.C09.Model QV.C09.Proofs QV.C09.Proofs2 QV.C09.Proofs3 QV.C09.Proofs4 QV.C09.Proofs5 QV.C09.Proofs6 QV.C09.Proofs7.
Local Opaque Qred.

Lemma Fr_refl r h x : Inv h r -> Fr r h h x.
Proof. intros I y Ry _. destruct (live_get _ _ _ I y Ry) as (n & G). exists n, n. repeat split; auto. destruct n; reflexivity. Qed.

(* ---- Loop._merge_single_child --------------------------------------------------------------------------------------------------------------------- *)
Lemma merge_inv vctr h r x h' res :
  Inv h r -> reach h r x -> merge_single_child vctr x h = (h', res) -> ok_result res -> Inv h' r /\ Fr r h h' x.
Proof.
  intros I Rx H OK. unfold merge_single_child in H.
  destruct (live_get _ _ _ I x Rx) as (n & G). rewrite (bind_getn x n _ h G) in H.
  destruct (children n) as [|c [|c2 l]] eqn:Cn; try (inversion H; subst; split; [auto|apply Fr_refl; auto]).
  assert (HIn : In c (children n)) by (rewrite Cn; now left).
  assert (Rc : reach h r c) by (eapply reach_step; eauto).
  destruct (live_get _ _ _ I c Rc) as (nc & Gc). rewrite (bind_getn c nc _ h Gc) in H.
  destruct (nonempty_meas (meas n) && negb ((rep_count (rdf nc) =? 1)%Z && negb (is_vol (rdf nc))));
    [inversion H; subst; split; [auto|apply Fr_refl; auto]|].
  destruct (wform n); [inversion H; subst; split; [auto|apply Fr_refl; auto]|].
  set (ms := if nonempty_meas (meas n) then _ else _) in H. set (rd := match rdf n with RInt _ => _ | RVol _ _ _ => _ end) in H.
  destruct (loop_setitem_slice x None None None (children nc) h) as (h1, r1) eqn:E1.
  assert (OK1 : ok_result r1).
  { destruct r1; cbn; auto. rewrite (bind_E _ _ _ _ _ E1) in H. inversion H; subst. exact OK. }
  assert (Rxc : reach h x c) by (eapply reach_child; eauto).
  destruct (setslice_inv h r x n None None None (children nc) I Rx G (or_introl eq_refl)) with (h' := h1) (res := r1)
    as (I1 & -> & Rx1 & _ & new & c' & Gx1 & _ & _ & F1 & K1 & OUTc); auto.
  - eapply (children_NoDup _ _ _ I); eauto.
  - intros g Hg. apply (LI_sub h r _ g (InvExc_LI _ _ _ I)). eapply reach_step; eauto.
  - intros g y Hg Rg.
    assert (Rcy : reach h c y) by (eapply reach_trans; [eapply reach_child; eauto|auto]).
    destruct (child_subtree_sep h r x n c y I Rx G HIn Rcy) as (Nyx & _).
    destruct (child_subtree_sep h r c nc g y I Rc Gc Hg Rg) as (Nyc & Sep).
    split; auto. intros Nyg. split; [auto|]. rewrite Cn. intros [E|[]]. congruence.
  - intros g Hg _. eapply reach_trans; [exact Rxc|eapply reach_child; eauto].
  - rewrite (bind_R _ _ _ _ _ E1) in H.
    (* round 3: the merged child is emptied (Node.__setitem__(child, slice(None), ())): only the unreachable husk changes *)
    assert (Ncx : c <> x) by (intros ->; eapply (rp_x_not_own_child h r x n I Rx G); eauto).
    destruct (K1 c nc Ncx Gc) as (nc1 & Gc1 & _ & _ & _ & Cc1).
    assert (Enew : new = children nc) by (apply F1; split; reflexivity).
    assert (EV : slice_eval_post h1 c nc1 None None None []).
    { apply setitem_simple_eval; auto.
      - rewrite Cc1. intros HI. eapply (rp_x_not_own_child h r c nc I Rc Gc); eauto.
      - rewrite Cc1. eapply (children_NoDup _ _ _ I); eauto.
      - constructor.
      - intros i g N. rewrite Cc1 in N. assert (Hg : In g (children nc)) by (eapply nth_error_In; eauto).
        assert (Rg : reach h r g) by (eapply reach_step; eauto).
        destruct (live_get _ _ _ I g Rg) as (ng & Gg).
        assert (Ngx : g <> x).
        { destruct (child_subtree_sep h r x n c g I Rx G HIn) as (Ngx0 & _); auto. eapply reach_child; eauto. }
        destruct (K1 g ng Ngx Gg) as (ng1 & Gg1 & _). exists ng1. split; auto.
      - intros ? []. }
    destruct EV as (h1' & new' & E1' & Len1' & G1' & LK' & SAME' & POS' & MEM' & VIN' & NDn' & NIn' & FULL' & UNT').
    assert (new' = []) by (apply FULL'; auto). subst new'.
    unfold loop_setitem_slice in H. unfold bind at 1 in H. unfold bind at 1 in H. rewrite E1' in H.
    destruct (invalidate_all c h1') as (h1'', ri) eqn:EI.
    unfold invalidate_all in EI. rewrite fueled_eq in EI.
    destruct (invalidate_none_cache_only _ _ _ _ _ EI) as (CO1 & SN1).
    destruct ri as [[]|ei].
    2:{ inversion H; subst. destruct OK as (N1 & N2). destruct (invalidate_none_err _ _ _ _ _ EI); congruence. }
    assert (KEY : children nc <> [] -> ~ reach h1 r c).
    { intros NE Rc1. destruct (children nc) as [|g gs] eqn:Cg; [congruence|].
      assert (Hx : nth_error (children (set_cache c' (set_children new n))) 0 = Some g) by (rewrite Enew; destruct n; reflexivity).
      destruct (inv_links _ _ _ I1 _ _ _ _ Rx1 Gx1 Hx) as (ng & Gg & Pg & _).
      assert (Hc : nth_error (children nc1) 0 = Some g) by (rewrite Cc1; reflexivity).
      destruct (inv_links _ _ _ I1 _ _ _ _ Rc1 Gc1 Hc) as (ng' & Gg' & Pg' & _).
      congruence. }
    assert (FRAME : forall y, reach h1 r y -> get h1' y = get h1 y).
    { intros y Ry. destruct (Nat.eq_dec y c) as [->|Nyc].
      - destruct (children nc) as [|g gs] eqn:Cg.
        + rewrite G1', Gc1. f_equal. destruct nc1; cbn in *; subst; reflexivity.
        + exfalso. apply KEY; [discriminate|auto].
      - destruct (live_get _ _ _ I1 y Ry) as (ny & Gy).
        apply (UNT' y ny); auto.
        intros Py. inversion Ry; subst.
        + destruct (inv_root _ _ _ I1) as (nr & Gr & Pr). congruence.
        + destruct (lister_unique _ _ _ I1 y p np H0 H1 H2) as (ny' & Gy' & Py').
          assert (p = c) by congruence. subst p.
          rewrite Gc1 in H1; inversion H1; subst np. rewrite Cc1 in H2.
          apply KEY; auto. intros Em; rewrite Em in H2; destruct H2. }
    assert (I1' : Inv h1' r) by (eapply Inv_frame; [|exact I1]; exact FRAME).
    assert (Rx1' : reach h1' r x) by (eapply reach_frame; [exact FRAME|exact Rx1]).
    assert (I1'' : Inv h1'' r).
    { eapply InvExc_cache_only; [exact CO1|exact I1'|]. intros y Ry _.
      eapply cvalid_cache_only_same; [exact CO1|apply (inv_cache _ _ _ I1' y Ry (fun F => F))|apply SN1]. }
    assert (Rx1'' : reach h1'' r x) by (eapply reach_shape; [apply cache_only_shape; exact CO1|exact Rx1']).
    set (f := fun n2 : node => set_meas ms (set_rdf rd (set_wform (wform nc) n2))) in *.
    assert (LSF : forall n0, lshape (f n0) = lshape n0) by (intros []; reflexivity).
    destruct (modn_fields_inv h1'' r x f h' res LSF I1'' Rx1'' H OK) as (I' & _ & CO).
    split; auto. intros y Ry NR. destruct (OUTc y Ry NR) as (n0 & n1 & G0 & G1 & E).
    assert (Nyx : y <> x) by (intros ->; apply NR; constructor).
    assert (G1y : get h1' y = Some n1).
    { rewrite <- G1. apply (UNT' y n1); auto.
      - intros ->. apply NR. exact Rxc.
      - intros Pn1. assert (Pn0 : parent n0 = Some c) by (rewrite E in Pn1; destruct n0; exact Pn1).
        inversion Ry; subst.
        + destruct (inv_root _ _ _ I) as (nr & Gr & Pr). congruence.
        + destruct (lister_unique _ _ _ I y p np H0 H1 H2) as (ny' & Gy' & Py'). assert (p = c) by congruence. subst p.
          apply NR. eapply reach_trans; [exact Rxc|eapply reach_child; eauto]. }
    destruct (cache_only_get _ _ _ _ CO1 G1y) as (n1b & G1b & E1b).
    assert (G1'' : get (upd h1'' x f) y = Some n1b) by (rewrite get_upd_other; auto).
    destruct (cache_only_get _ _ _ _ CO G1'') as (n2 & G2 & E2). exists n0, n2. repeat split; auto.
    rewrite E2, E1b, E. destruct n0; reflexivity.
Qed.

Lemma try_merge_inv vctr h r x h' res :
  Inv h r -> reach h r x -> try_merge vctr x h = (h', res) -> ok_result res -> Inv h' r /\ Fr r h h' x.
Proof.
  intros I Rx H OK. unfold try_merge, has_single_mergeable in H.
  destruct (live_get _ _ _ I x Rx) as (n & G). unfold bind at 1 in H. rewrite (bind_getn x n _ h G) in H.
  destruct (children n) as [|c [|c2 l]] eqn:Cn; try (inversion H; subst; split; [auto|apply Fr_refl; auto]).
  assert (Rc : reach h r c) by (eapply reach_step; eauto; rewrite Cn; now left).
  destruct (live_get _ _ _ I c Rc) as (nc & Gc). rewrite (bind_getn c nc _ h Gc) in H. unfold ret at 1 in H.
  destruct (negb (nonempty_meas (meas n)) || _); [eapply merge_inv; eauto|inversion H; subst; split; [auto|apply Fr_refl; auto]].
Qed.

(* ---- Loop.__setitem__(int, v) for a value v that is a tree outside the program --------------------------------------------------------------------- *)
Lemma nth_error_set_nth' {A} (l : list A) j a k : (j < length l)%nat ->
  nth_error (set_nth l j a) k = if Nat.eqb k j then Some a else nth_error l k.
Proof. revert j k; induction l as [|b l IH]; intros [|j] [|k] L; cbn in *; try lia; auto. apply IH. lia. Qed.

Lemma setitem_int_inv h r x idx v h' res :
  Inv h r -> reach h r x -> LI h v (fun _ => False) -> (forall y, reach h v y -> ~ reach h r y) ->
  loop_setitem_int x idx v h = (h', res) -> ok_result res -> Inv h' r.
Proof.
  intros I Rx LV FV H OK.
  destruct (live_get _ _ _ I x Rx) as (nx & Gx).
  destruct (LI_live _ _ _ _ LV (reach_refl _ _)) as (nv & Gv).
  assert (Nvx : v <> x) by (intros ->; apply (FV x); [constructor|auto]).
  assert (TREE : forall y, reach h r y -> y <> v) by (intros y Ry ->; apply (FV v); [constructor|auto]).
  unfold loop_setitem_int, node_setitem_int in H.
  unfold bind at 1 in H. rewrite (bind_getn x nx _ h Gx) in H.
  set (len := Z.of_nat (length (children nx))) in *.
  destruct (py_index len idx) as [i|] eqn:PI.
  2:{ unfold raise in H. inversion H; subst. exact I. }
  rewrite bind_modn in H. set (h1 := upd h v (set_parent (Some x))) in *.
  rewrite bind_modn in H.
  pose (pv := i).
  set (h2 := upd h1 v (set_pidx (Some i))) in *.
  assert (G2v : get h2 v = Some (set_pidx (Some pv) (set_parent (Some x) nv))).
  { unfold h2. apply get_upd_same. unfold h1. now apply get_upd_same. }
  assert (O2 : forall y, y <> v -> get h2 y = get h y) by (intros; unfold h2, h1; rewrite !get_upd_other; auto).
  assert (Ij : (0 <= i < len)%Z /\ pv = i).
  { split; [|reflexivity]. unfold py_index in PI.
    destruct ((0 <=? idx)%Z && (idx <? len)%Z) eqn:E1.
    - inversion PI; subst. apply andb_prop in E1 as (A1 & A2). apply Z.leb_le in A1. apply Z.ltb_lt in A2. lia.
    - destruct ((- len <=? idx)%Z && (idx <? 0)%Z) eqn:E2; [|discriminate].
      inversion PI; subst. apply andb_prop in E2 as (A1 & A2). apply Z.leb_le in A1. apply Z.ltb_lt in A2. lia. }
  destruct Ij as (Ri & Epv). clearbody pv. set (j := Z.to_nat i) in *.
  assert (Lj : (j < length (children nx))%nat) by (unfold j, len in *; lia).
  destruct (nth_error (children nx) j) as [o|] eqn:No; [|apply nth_error_None in No; lia].
  set (new := set_nth (children nx) j v) in *.
  rewrite bind_modn in H. set (h3 := upd h2 x (set_children new)) in *.
  assert (Ro : reach h r o) by (eapply reach_step; eauto; eapply nth_error_In; eauto).
  assert (Nox : o <> x) by (intros ->; eapply (rp_x_not_own_child h r x nx I Rx Gx); eauto; eapply nth_error_In; eauto).
  destruct (detach_spec x [v] [o] h3) as (h4 & E4 & LH4 & O4 & _).
  { intros [E|[]]; congruence. }
  { intros c [<-|[]]. destruct (live_get _ _ _ I o Ro) as (no & Go). exists no. unfold h3. rewrite get_upd_other by auto. rewrite O2; auto. }
  rewrite E4 in H.
  assert (G4x : get h4 x = Some (set_children new nx)).
  { destruct LH4 as (_ & X & _). rewrite X. unfold h3. apply get_upd_same. rewrite O2; auto. }
  assert (SAME : forall y, y <> x -> y <> v -> y <> o -> get h4 y = get h y).
  { intros y N1 N2 N3. rewrite O4 by (left; intros [E|[]]; congruence). unfold h3. rewrite get_upd_other by auto. apply O2; auto. }
  assert (G4v : get h4 v = Some (set_pidx (Some pv) (set_parent (Some x) nv))).
  { rewrite O4 by (right; now left). unfold h3. rewrite get_upd_other; auto. }
  assert (NDc := children_NoDup _ _ _ I x nx Rx Gx).
  assert (LX : LI h4 x (fun y => y = x)).
  { apply (LI_node h4 x _ G4x). replace (children (set_children new nx)) with new by (destruct nx; reflexivity).
    intros k c N. unfold new in N. rewrite nth_error_set_nth' in N by auto.
    destruct (Nat.eqb_spec k j) as [->|Nk].
    - inversion N; subst c. split.
      + eexists; split; [exact G4v|]. destruct nv; cbn. split; auto. rewrite Epv. unfold j. f_equal. lia.
      + apply (LI_frame h h4 v _ LV). intros y n Ry Gy.
        assert (Nyx : y <> x) by (intros ->; apply (FV x); auto).
        assert (Nyo : y <> o) by (intros ->; apply (FV o); auto).
        destruct (Nat.eq_dec y v) as [->|Nyv].
        * assert (n = nv) by congruence. subst. eexists; split; [exact G4v|]. split; [destruct nv; repeat split|congruence].
        * exists n. rewrite SAME; auto. repeat split; auto.
    - assert (Hc : In c (children nx)) by (eapply nth_error_In; eauto).
      assert (Rc : reach h r c) by (exact (reach_step h r x nx c Rx Gx Hc)).
      assert (Nco : c <> o).
      { intros ->. apply Nk. apply (proj1 (NoDup_nth_error _) NDc); [apply nth_error_Some; congruence|congruence]. }
      assert (Ncx : c <> x) by (intros ->; eapply (rp_x_not_own_child h r x nx I Rx Gx); eauto).
      split.
      + destruct (inv_links _ _ _ I _ _ _ _ Rx Gx N) as (nc & Gc & Pc & Ic). exists nc. rewrite SAME; auto.
      + apply (LI_frame h h4 c _ (LI_sub _ _ _ _ (InvExc_LI _ _ _ I) Rc)). intros y n Ry Gy.
        destruct (child_subtree_sep h r x nx c y I Rx Gx Hc Ry) as (Nyx & Sep).
        assert (Nyo : y <> o).
        { intros ->. destruct (Nat.eq_dec o c); [congruence|]. apply (Sep n0). eapply nth_error_In; eauto. }
        exists n. rewrite SAME; auto; [repeat split; auto|]. apply TREE. eapply reach_trans; eauto. }
  assert (OUT : forall y, reach h r y -> ~ reach h x y -> get h4 y = get h y).
  { intros y Ry NR. apply SAME; auto.
    - intros ->. apply NR. constructor.
    - intros ->. apply NR. eapply reach_child; eauto. eapply nth_error_In; eauto. }
  assert (PP : parent (set_children new nx) = parent nx /\ pidx (set_children new nx) = pidx nx) by (destruct nx; split; reflexivity).
  destruct PP as (PP1 & PP2).
  pose proof (replace_inv h h4 r x nx _ I Rx Gx G4x PP1 PP2 LX OUT) as IE.
  pose proof (rp_reach_x h h4 r x nx I Rx Gx OUT) as Rx4.
  unfold invalidate_all in H. rewrite fueled_eq in H.
  destruct (invalidate _ x None h4) as (h5, [[]|e]) eqn:W; inversion H; subst.
  2:{ destruct OK as (N1 & N2). destruct (invalidate_none_err _ _ _ _ _ W); congruence. }
  eapply invalidate_none_spec; eauto.
Qed.

Lemma fresh_foreign h0 h1 r c hi : Inv h0 r -> (forall y, (y < length h0)%nat -> get h1 y = get h0 y) ->
  Sub h1 (length h0) hi c -> Inv h1 r /\ LI h1 c (fun _ => False) /\ (forall y, reach h1 c y -> ~ reach h1 r y) /\
  (forall y, reach h0 r y -> reach h1 r y).
Proof.
  intros I Pre S. pose proof (Inv_ext _ _ _ Pre I) as I1.
  assert (Same : forall y, reach h0 r y -> get h1 y = get h0 y) by (intros; apply Pre; eapply live_lt; eauto).
  split; auto. split; [eapply Sub_LI; eauto|]. split; [|apply reach_frame; auto].
  intros y Rc Rr. pose proof (sub_range _ _ _ _ S _ Rc). apply (reach_frame' _ _ _ Same) in Rr.
  pose proof (live_lt _ _ _ I Rr). lia.
Qed.

Lemma setitem_int_fresh_inv (mk : M id) h0 r x idx h' res :
  fresh_maker mk h0 ->
  Inv h0 r -> reach h0 r x -> (c <- mk ;; loop_setitem_int x idx c) h0 = (h', res) -> ok_result res -> Inv h' r.
Proof.
  intros FM I0 Rx H OK.
  unfold bind at 1 in H. destruct (mk h0) as (h1, [c|e]) eqn:B; pose proof (FM _ _ B) as FMB.
  2:{ inversion H; subst. destruct OK, FMB; congruence. }
  destruct FMB as (Lc0 & Pre & hi & SC).
  destruct (fresh_foreign h0 h1 r c hi I0 Pre SC) as (I1 & LV & FV & RR).
  eapply setitem_int_inv; eauto.
Qed.

(* ---- Loop.encapsulate ---------------------------------------------------------------------------------------------------------------------------------- *)
Lemma set_repdef_children x rd h h' res : set_repetition_definition x rd h = (h', res) -> csame h h'.
Proof.
  intros H. unfold set_repetition_definition in H. rewrite bind_modn in H.
  set (h1 := upd h x (set_rdf rd)) in *.
  assert (C1 : csame h h1) by (apply csame_upd; intros []; reflexivity).
  eapply csame_trans; [exact C1|]. clear C1.
  unfold invalidate_parent, bind, getn in H.
  destruct (get h1 x) as [n|]; [|inversion H; subst; apply csame_refl].
  destruct (parent n) as [p|]; [|inversion H; subst; apply csame_refl].
  destruct (get h1 p) as [np|]; [|inversion H; subst; apply csame_refl].
  destruct (truthy np); [|inversion H; subst; apply csame_refl].
  unfold invalidate_all in H. rewrite fueled_eq in H.
  destruct (invalidate_none_cache_only _ _ _ _ _ H) as (CO & _).
  intros y. specialize (CO y). destruct (get h1 y) as [a|], (get h' y) as [b|]; try contradiction; auto.
  cbn. rewrite CO. destruct a; reflexivity.
Qed.

Lemma encapsulate_inv h r x h' res : Inv h r -> reach h r x -> encapsulate x h = (h', res) -> ok_result res -> Inv h' r.
Proof.
  intros I Rx H OK. unfold encapsulate in H.
  destruct (live_get _ _ _ I x Rx) as (nx & Gx). rewrite (bind_getn x nx _ h Gx) in H.
  set (cs := children nx) in *. set (c := length h).
  set (ncn := mkNode cs None None None (rdf nx) (wform nx) (meas nx)).
  set (ha := h ++ [ncn]).
  destruct (adopt_spec cs c 0%Z ha) as (hb & Ea & Lenb & Othb & Fldb & Adpb).
  assert (NL : new_loop None cs (rdf nx) (wform nx) (meas nx) h = (hb, R c)).
  { unfold new_loop, bind, alloc. fold ncn. fold ha. fold c. rewrite Ea. reflexivity. }
  rewrite (bind_R _ _ _ _ _ NL) in H.
  assert (NDc : NoDup cs) by (eapply (children_NoDup _ _ _ I); eauto).
  assert (Lx : (x < c)%nat) by (eapply get_lt; eauto).
  assert (LT : forall y, reach h r y -> (y < c)%nat) by (intros; eapply live_lt; eauto).
  assert (Oa : forall y, (y < c)%nat -> get ha y = get h y) by (intros; apply get_app_l; auto).
  assert (Gca : get ha c = Some ncn) by apply get_app_new.
  assert (NIc : ~ In c cs).
  { intros HIn. assert (reach h r c) by (eapply reach_step; eauto). specialize (LT c H0). lia. }
  assert (NIx : ~ In x cs) by (intros HIn; eapply (rp_x_not_own_child h r x nx I Rx Gx); eauto).
  assert (Gxb : get hb x = Some nx) by (rewrite Othb by auto; rewrite Oa; auto).
  assert (Gcb : get hb c = Some ncn) by (rewrite Othb; auto).
  (* the slice assignment x[:] = [c] *)
  destruct (loop_setitem_slice x None None None [c] hb) as (hd, r1) eqn:E1.
  pose proof E1 as E1'. unfold loop_setitem_slice in E1.
  destruct (setitem_simple_eval hb x nx None None None [c] (or_introl eq_refl) Gxb) as
    (hc & new & Ec & Lenc & Gxc & LK & SAME & POS & MEM & VIN & NDn & NIn & FULL & UNT); auto.
  { intros [E|[]]. lia. }
  { constructor; [intros []|constructor]. }
  { intros i ch N. assert (Hch : In ch cs) by (eapply nth_error_In; eauto).
    destruct (inv_links _ _ _ I _ _ _ _ Rx Gx N) as (n & G & _).
    destruct (Adpb NDc i ch n N) as (n' & G' & _); [rewrite Oa; auto; eapply get_lt; eauto|]. eauto. }
  { intros ch [<-|[]]. eauto. }
  rewrite (bind_R _ _ _ _ _ Ec) in E1.
  assert (En : new = [c]) by (apply FULL; auto). subst new.
  (* nodes of the old tree other than x and its children are what they were *)
  assert (OLD : forall y, (y < c)%nat -> y <> x -> ~ In y cs -> get hc y = get h y).
  { intros y Ly N1 N2. rewrite SAME; auto; [rewrite Othb by auto; apply Oa; auto|intros [E|[]]; lia]. }
  (* the former children of x are now the children of c *)
  assert (KID : forall k ch, nth_error cs k = Some ch ->
            exists n n', get h ch = Some n /\ get hc ch = Some n' /\ parent n' = Some c /\ pidx n' = Some (Z.of_nat k) /\ keeps n n').
  { intros k ch N. assert (Hch : In ch cs) by (eapply nth_error_In; eauto).
    destruct (inv_links _ _ _ I _ _ _ _ Rx Gx N) as (n & G & _).
    destruct (Adpb NDc k ch n N) as (n' & G' & P' & I'); [rewrite Oa; auto; eapply get_lt; eauto|].
    destruct (Fldb ch n' G') as (n0 & G0 & F1 & F2 & F3 & F4 & F5). rewrite Oa in G0 by (eapply get_lt; eauto).
    assert (n0 = n) by congruence. subst n0.
    exists n, n'. split; auto. split.
    - rewrite (UNT ch n'); auto; [intros ->; auto|intros [E|[]]; subst; auto|rewrite P'; intros E; inversion E; lia].
    - repeat split; auto. }
  assert (LC : LI hc c (fun _ => False)).
  { assert (Gcc : exists ncc, get hc c = Some ncc /\ children ncc = cs /\ cache ncc = None).
    { destruct (LK c ncn) as (n' & G' & K'); [lia|auto|]. exists n'. split; auto. unfold lnk in K'. rewrite K'. split; reflexivity. }
    destruct Gcc as (ncc & Gcc & Ccc & Kcc).
    assert (L1 : LI hc c (fun y => y = c)).
    { apply (LI_node hc c ncc Gcc). rewrite Ccc. intros k ch N.
      destruct (KID k ch N) as (n & n' & G & G' & P' & I' & K'). split; [eauto|].
      assert (Hch : In ch cs) by (eapply nth_error_In; eauto).
      assert (Rch : reach h r ch) by (eapply reach_step; eauto).
      apply (LI_frame h hc ch _ (LI_sub _ _ _ _ (InvExc_LI _ _ _ I) Rch)). intros y ny Ry Gy.
      destruct (child_subtree_sep h r x nx ch y I Rx Gx Hch Ry) as (Nyx & Sep).
      destruct (Nat.eq_dec y ch) as [->|Nych].
      - assert (ny = n) by congruence. subst. exists n'. split; auto. split; auto. congruence.
      - exists ny. rewrite OLD; auto; [repeat split; auto|]. apply LT. eapply reach_trans; eauto. }
    split; [apply (li_links _ _ _ L1)|apply (li_wf _ _ _ L1)|].
    intros y R _. destruct (Nat.eq_dec y c) as [->|N]; [|apply (li_cache _ _ _ L1); auto].
    intros n q G Cq. assert (n = ncc) by congruence. subst. congruence. }
  assert (LX : LI hc x (fun y => y = x)).
  { apply (LI_node hc x _ Gxc). replace (children (set_children [c] nx)) with [c] by (destruct nx; reflexivity).
    intros k ch N. split; [apply (POS k ch N)|].
    destruct k; cbn in N; [inversion N; subst; auto|destruct k; discriminate]. }
  assert (OUT : forall y, reach h r y -> ~ reach h x y -> get hc y = get h y).
  { intros y Ry NR. apply OLD; auto.
    - intros ->. apply NR. constructor.
    - intros Hc. apply NR. eapply reach_child; eauto. }
  assert (PP : parent (set_children [c] nx) = parent nx /\ pidx (set_children [c] nx) = pidx nx) by (destruct nx; split; reflexivity).
  destruct PP as (PP1 & PP2).
  pose proof (replace_inv h hc r x nx _ I Rx Gx Gxc PP1 PP2 LX OUT) as IE.
  pose proof (rp_reach_x h hc r x nx I Rx Gx OUT) as Rxc.
  unfold invalidate_all in E1. rewrite fueled_eq in E1.
  destruct (invalidate_none_cache_only _ _ _ _ _ E1) as (CO & _).
  destruct r1 as [[]|e].
  2:{ rewrite (bind_E _ _ _ _ _ E1') in H. inversion H; subst. destruct OK as (N1 & N2).
      destruct (invalidate_none_err _ _ _ _ _ E1); congruence. }
  rewrite (bind_R _ _ _ _ _ E1') in H.
  assert (Id : Inv hd r) by (eapply invalidate_none_spec; eauto).
  assert (Rxd : reach hd r x) by (eapply reach_shape; [apply cache_only_shape; exact CO|exact Rxc]).
  unfold set_repetition_count in H.
  destruct (set_repetition_definition x (RInt 1) hd) as (he, r2) eqn:E2.
  assert (OK2 : ok_result r2).
  { destruct r2; cbn; auto. rewrite (bind_E _ _ _ _ _ E2) in H. inversion H; subst. exact OK. }
  pose proof (set_repetition_definition_inv _ _ _ _ _ _ Id Rxd E2 OK2) as Ie.
  destruct r2 as [[]|e]; [|rewrite (bind_E _ _ _ _ _ E2) in H; inversion H; subst; auto].
  rewrite (bind_R _ _ _ _ _ E2) in H. unfold modn in H. inversion H; subst.
  destruct (cache_only_get _ _ _ _ CO Gxc) as (nxd & Gxd & Exd).
  pose proof (set_repdef_children _ _ _ _ _ E2 x) as CS. rewrite Gxd in CS.
  destruct (get he x) as [nxe|] eqn:Gxe; cbn in CS; [|discriminate].
  eapply modn_wform_nonleaf_inv; eauto.
  assert (E : children nxe = children nxd) by congruence. rewrite E, Exd. destruct nx; cbn; discriminate.
Qed.

(* ---- Loop.split_one_child ------------------------------------------------------------------------------------------------------------------------------ *)
Definition clr (a b : heap) : Prop :=
  cache_only a b /\ forall y n n', get a y = Some n -> get b y = Some n' -> cache n' = cache n \/ cache n' = None.
Lemma clr_refl a : clr a a.
Proof. split; [apply cache_only_refl|]. intros; left; congruence. Qed.

Lemma set_repdef_effect x rd h h' res : set_repetition_definition x rd h = (h', res) -> clr (upd h x (set_rdf rd)) h'.
Proof.
  intros H. unfold set_repetition_definition in H. rewrite bind_modn in H.
  set (h1 := upd h x (set_rdf rd)) in *.
  unfold invalidate_parent, bind, getn in H.
  destruct (get h1 x) as [n|]; [|inversion H; subst; apply clr_refl].
  destruct (parent n) as [p|]; [|inversion H; subst; apply clr_refl].
  destruct (get h1 p) as [np|]; [|inversion H; subst; apply clr_refl].
  destruct (truthy np); [|inversion H; subst; apply clr_refl].
  unfold invalidate_all in H. rewrite fueled_eq in H. apply (invalidate_none_cache_only _ _ _ _ _ H).
Qed.

Lemma clr_lsame a b : clr a b -> lsame a b.
Proof.
  intros (C & _) y. specialize (C y). destruct (get a y) as [n|], (get b y) as [n'|]; try contradiction; auto.
  cbn. rewrite C. destruct n; reflexivity.
Qed.

Lemma Sub_clr a b lo hi c : clr a b -> Sub a lo hi c -> Sub b lo hi c.
Proof.
  intros (C & K) S. pose proof (clr_lsame a b (conj C K)) as LS. pose proof (lsame_sym _ _ LS) as LS'.
  pose proof S as [A B C' D E].
  assert (RR : forall y, reach b c y -> reach a c y) by (intros; eapply reach_lsame; eauto).
  split.
  - destruct A as (n & G). destruct (cache_only_get _ _ _ _ C G) as (n' & G' & _); eauto.
  - intros y R. auto.
  - intros p np i c0 R G N. destruct (lsame_get _ _ _ _ LS' G) as (n & Gn & Cn & _). rewrite <- Cn in N.
    destruct (C' p n i c0 (RR _ R) Gn N) as (nc & Gc & Pc & Ic).
    destruct (lsame_get _ _ _ _ LS Gc) as (nc' & Gc' & _ & P' & I'). exists nc'; repeat split; congruence.
  - intros p np c0 R G HIn. destruct (lsame_get _ _ _ _ LS' G) as (n & Gn & Cn & _). rewrite <- Cn in HIn. eauto.
  - intros y n R G. destruct (cache_only_get' _ _ _ _ C G) as (n0 & G0 & _).
    destruct (K y n0 n G0 G) as [Eq|Eq]; auto. rewrite Eq. eauto.
Qed.

Definition pureM {A} (m : M A) : Prop := forall h h' res, m h = (h', res) -> h' = h.
Lemma pure_ret {A} (a : A) : pureM (ret a). Proof. intros h h' res H; inversion H; auto. Qed.
Lemma pure_raise {A} e : pureM (@raise A e). Proof. intros h h' res H; inversion H; auto. Qed.
Lemma pure_getn x : pureM (getn x).
Proof. intros h h' res H. unfold getn in H. destruct (get h x); inversion H; auto. Qed.
Lemma pure_bind {A B} (m : M A) (k : A -> M B) : pureM m -> (forall a, pureM (k a)) -> pureM (bind m k).
Proof.
  intros Pm Pk h h' res H. unfold bind in H. destruct (m h) as (h1, [a|e]) eqn:E; pose proof (Pm _ _ _ E); subst.
  - eapply Pk; eauto.
  - inversion H; auto.
Qed.
Lemma pure_child_at x i : pureM (child_at x i).
Proof.
  unfold child_at. apply pure_bind; [apply pure_getn|]. intros n.
  destruct (py_index _ i); [|apply pure_raise]. destruct (nth_error _ _); [apply pure_ret|apply pure_raise].
Qed.
Lemma child_at_In x i h h' c : child_at x i h = (h', R c) -> exists n, get h x = Some n /\ In c (children n).
Proof.
  unfold child_at, bind, getn. destruct (get h x) as [n|]; [|discriminate].
  destruct (py_index _ i); [|discriminate]. destruct (nth_error _ _) eqn:N; [|discriminate].
  intros H; inversion H; subst. exists n; split; auto. eapply nth_error_In; eauto.
Qed.

Lemma split_inv h r x ci h' res : Inv h r -> reach h r x -> split_one_child x ci h = (h', res) -> ok_result res -> Inv h' r.
Proof.
  intros I Rx H OK. unfold split_one_child in H.
  destruct (live_get _ _ _ I x Rx) as (nx & Gx). rewrite (bind_getn x nx _ h Gx) in H.
  set (PH := match ci with Some i0 => _ | None => _ end) in H.
  assert (PP : pureM PH).
  { unfold PH. destruct ci as [i0|].
    - apply pure_bind.
      + destruct (i0 <? 0)%Z; [destruct (py_index _ i0); [apply pure_ret|apply pure_raise]|apply pure_ret].
      + intros i. apply pure_bind; [apply pure_child_at|]. intros c. apply pure_bind; [apply pure_getn|].
        intros nc. destruct (_ <? 2)%Z; [apply pure_raise|apply pure_ret].
    - intros h0 h0' res0 H0. destruct (pick_split _ _ _ _); inversion H0; auto. }
  unfold bind at 1 in H. destruct (PH h) as (h0, [idx|e]) eqn:E0; pose proof (PP _ _ _ E0); subst h0; [|inversion H; subst; auto].
  unfold bind at 1 in H. destruct (child_at x idx h) as (h0, [c|e]) eqn:E1; pose proof (pure_child_at _ _ _ _ _ E1); subst h0;
    [|inversion H; subst; auto].
  destruct (child_at_In _ _ _ _ _ E1) as (nx' & Gx' & Hc). assert (nx' = nx) by congruence. subst nx'.
  assert (Rc : reach h r c) by (eapply reach_step; eauto).
  (* the copy *)
  unfold bind at 1 in H. destruct (copy_tree_structure c NPFalse h) as (h1, [new|e]) eqn:E2; pose proof (copy_one _ _ _ _ _ E2) as P2.
  2:{ inversion H; subst. destruct OK, P2; congruence. }
  destruct P2 as (Pre & SN). set (lo := length h) in *. set (hi := length h1) in *.
  destruct (fresh_foreign h h1 r new hi I Pre SN) as (I1 & _ & _ & RR1).
  assert (T1 : forall y, reach h1 r y -> (y < lo)%nat).
  { intros y R. eapply live_lt; eauto. eapply reach_frame'; [|exact R]. intros; apply Pre; eapply live_lt; eauto. }
  pose proof (Sub_le _ _ _ _ SN) as Ln.
  (* new.repetition_count = 1 *)
  unfold bind at 1 in H. unfold set_repetition_count at 1 in H.
  destruct (set_repetition_definition new (RInt 1) h1) as (h2, r2) eqn:E3.
  pose proof (set_repdef_effect _ _ _ _ _ E3) as C3. set (ha := upd h1 new (set_rdf (RInt 1))) in *.
  assert (Sa : forall y, reach h1 r y -> get ha y = get h1 y).
  { intros y R. unfold ha. apply get_upd_other. specialize (T1 y R). lia. }
  assert (Ia : Inv ha r) by (eapply Inv_frame; eauto).
  assert (SNa : Sub ha lo hi new).
  { eapply Sub_frame_root; [| |exact SN].
    - intros y Ry N. unfold ha. apply get_upd_other. auto.
    - intros n G. unfold ha. erewrite get_upd_same by eauto. eexists; split; [reflexivity|]. destruct n; auto. }
  assert (I2 : Inv h2 r).
  { destruct C3 as (CO & K). eapply InvExc_cache_only; [exact CO|exact Ia|].
    intros z Rz _. eapply cvalid_cache_only_same; eauto. apply (inv_cache _ _ _ Ia); auto. }
  pose proof (Sub_clr _ _ _ _ _ C3 SNa) as SN2.
  assert (T2 : forall y, reach h2 r y -> (y < lo)%nat).
  { intros y R. apply T1. eapply reach_frame'; [exact Sa|]. eapply reach_lsame; [apply lsame_sym; apply clr_lsame; exact C3|exact R]. }
  assert (R2 : forall y, reach h r y -> reach h2 r y).
  { intros y R. eapply reach_lsame; [apply clr_lsame; exact C3|]. eapply reach_frame; [exact Sa|]. auto. }
  destruct r2 as [[]|e]; [|inversion H; subst; auto].
  (* c.repetition_count -= 1 *)
  destruct (live_get _ _ _ I2 c (R2 c Rc)) as (nc & Gc). rewrite (bind_getn c nc _ h2 Gc) in H.
  unfold bind at 1 in H. unfold set_repetition_count at 1 in H.
  destruct (set_repetition_definition c (RInt (rep_count (rdf nc) - 1)) h2) as (h3, r3) eqn:E4.
  assert (OK3 : ok_result r3) by (destruct r3; cbn; auto; inversion H; subst; exact OK).
  pose proof (set_repetition_definition_inv _ _ _ _ _ _ I2 (R2 c Rc) E4 OK3) as I3.
  pose proof (set_repdef_effect _ _ _ _ _ E4) as C4. set (hb := upd h2 c (set_rdf (RInt (rep_count (rdf nc) - 1)))) in *.
  assert (LSb : lsame h2 hb) by (apply lsame_upd; intros []; reflexivity).
  assert (SNb : Sub hb lo hi new).
  { eapply Sub_frame; [|exact SN2]. intros y Ry. unfold hb. apply get_upd_other. specialize (T2 c (R2 c Rc)). lia. }
  pose proof (Sub_clr _ _ _ _ _ C4 SNb) as SN3.
  assert (LS23 : lsame h2 h3) by (intros y; rewrite (LSb y); apply (clr_lsame _ _ C4)).
  assert (T3 : forall y, reach h3 r y -> (y < lo)%nat).
  { intros y R. apply T2. eapply reach_lsame; [apply lsame_sym; exact LS23|exact R]. }
  assert (Rx3 : reach h3 r x) by (eapply reach_lsame; [exact LS23|apply R2; auto]).
  destruct r3 as [[]|e]; [|inversion H; subst; auto].
  (* x[idx+1:idx+1] = [new] *)
  destruct (live_get _ _ _ I3 x Rx3) as (nx3 & Gx3).
  assert (SS : Subs h3 lo hi [new]) by (econstructor; [exact SN3|constructor]).
  destruct (fresh_vals_ok h3 r x nx3 lo hi [new] I3 T3 SS Rx3 Gx3) as (V1 & V2 & V3 & V4 & V5).
  destruct (setslice_inv h3 r x nx3 (Some (idx + 1)%Z) (Some (idx + 1)%Z) None [new] I3 Rx3 Gx3 (or_introl eq_refl) V1 V2 V3 V4 (or_intror V5) h' res H OK)
    as (I' & _). exact I'.
Qed.
