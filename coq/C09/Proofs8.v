(* C09 — proofs, part 8: _merge_single_child, encapsulate, split_one_child, __setitem__ with an integer index *)
From Coq Require Import List ZArith QArith Bool Lia Arith.
Import ListNotations.
Require Import QV.common.Util QV.C09.Model QV.C09.Proofs QV.C09.Proofs2 QV.C09.Proofs3 QV.C09.Proofs4 QV.C09.Proofs5 QV.C09.Proofs6 QV.C09.Proofs7.
Local Opaque Qred.

Lemma Fr_refl r h x : Inv h r -> Fr r h h x.
Proof. intros I y Ry _. destruct (live_get _ _ _ I y Ry) as (n & G). exists n, n. repeat split; auto. destruct n; reflexivity. Qed.

(* ---- Loop._merge_single_child --------------------------------------------------------------------------------------------------------------------- *)
Lemma merge_inv vctr h r x h' res :
  Inv h r -> reach h r x -> merge_single_child vctr x h = (h', res) -> ok_result res -> Inv h' r /\ Fr r h h' x.
Proof.
  intros I Rx H OK. unfold merge_single_child in H.
  destruct (live_get _ _ _ I x Rx) as (n & G). rewrite (bind_getn x n _ h G) in H.
  destruct (children n) as [|c [|c2 l]] eqn:Cn; try (inversion H; subst; split; [auto|apply Fr_refl; auto]).
  assert (HIn : In c (children n)) by (rewrite Cn; now left).
  assert (Rc : reach h r c) by (eapply reach_step; eauto).
  destruct (live_get _ _ _ I c Rc) as (nc & Gc). rewrite (bind_getn c nc _ h Gc) in H.
  destruct (nonempty_meas (meas n) && negb ((rep_count (rdf nc) =? 1)%Z && negb (is_vol (rdf nc))));
    [inversion H; subst; split; [auto|apply Fr_refl; auto]|].
  destruct (wform n); [inversion H; subst; split; [auto|apply Fr_refl; auto]|].
  set (ms := if nonempty_meas (meas n) then _ else _) in H. set (rd := match rdf n with RInt _ => _ | RVol _ _ _ => _ end) in H.
  destruct (loop_setitem_slice x None None None (children nc) h) as (h1, r1) eqn:E1.
  assert (OK1 : ok_result r1).
  { destruct r1; cbn; auto. rewrite (bind_E _ _ _ _ _ E1) in H. inversion H; subst. exact OK. }
  assert (Rxc : reach h x c) by (eapply reach_child; eauto).
  destruct (setslice_inv h r x n None None None (children nc) I Rx G (or_introl eq_refl)) with (h' := h1) (res := r1)
    as (I1 & -> & Rx1 & _ & new & c' & Gx1 & _ & _ & _ & _ & OUTc); auto.
  - eapply (children_NoDup _ _ _ I); eauto.
  - intros g Hg. apply (LI_sub h r _ g (InvExc_LI _ _ _ I)). eapply reach_step; eauto.
  - intros g y Hg Rg.
    assert (Rcy : reach h c y) by (eapply reach_trans; [eapply reach_child; eauto|auto]).
    destruct (child_subtree_sep h r x n c y I Rx G HIn Rcy) as (Nyx & _).
    destruct (child_subtree_sep h r c nc g y I Rc Gc Hg Rg) as (Nyc & Sep).
    split; auto. intros Nyg. split; [auto|]. rewrite Cn. intros [E|[]]. congruence.
  - intros g Hg _. eapply reach_trans; [exact Rxc|eapply reach_child; eauto].
  - rewrite (bind_R _ _ _ _ _ E1) in H.
    set (f := fun n2 : node => set_meas ms (set_rdf rd (set_wform (wform nc) n2))) in *.
    assert (LSF : forall n0, lshape (f n0) = lshape n0) by (intros []; reflexivity).
    destruct (modn_fields_inv h1 r x f h' res LSF I1 Rx1 H OK) as (I' & _ & CO).
    split; auto. intros y Ry NR. destruct (OUTc y Ry NR) as (n0 & n1 & G0 & G1 & E).
    assert (Nyx : y <> x) by (intros ->; apply NR; constructor).
    assert (G1' : get (upd h1 x f) y = Some n1) by (rewrite get_upd_other; auto).
    destruct (cache_only_get _ _ _ _ CO G1') as (n2 & G2 & E2). exists n0, n2. repeat split; auto.
    rewrite E2, E. destruct n0; reflexivity.
Qed.

Lemma try_merge_inv vctr h r x h' res :
  Inv h r -> reach h r x -> try_merge vctr x h = (h', res) -> ok_result res -> Inv h' r /\ Fr r h h' x.
Proof.
  intros I Rx H OK. unfold try_merge, has_single_mergeable in H.
  destruct (live_get _ _ _ I x Rx) as (n & G). unfold bind at 1 in H. rewrite (bind_getn x n _ h G) in H.
  destruct (children n) as [|c [|c2 l]] eqn:Cn; try (inversion H; subst; split; [auto|apply Fr_refl; auto]).
  assert (Rc : reach h r c) by (eapply reach_step; eauto; rewrite Cn; now left).
  destruct (live_get _ _ _ I c Rc) as (nc & Gc). rewrite (bind_getn c nc _ h Gc) in H. unfold ret at 1 in H.
  destruct (negb (nonempty_meas (meas n)) || _); [eapply merge_inv; eauto|inversion H; subst; split; [auto|apply Fr_refl; auto]].
Qed.
