(* C09 — proofs, part R: the recursive operations roll_constant_waveforms, reverse_inplace, cleanup *)
From Coq Require Import List ZArith QArith Bool Lia Arith.
Import ListNotations.
Require Import QV.common.Util QV.C09.Model QV.C09.Proofs QV.C09.Proofs2 QV.C09.Proofs3 QV.C09.Proofs4 QV.C09.Proofs5 QV.C09.Proofs6
               QV.C09.Proofs7 QV.C09.Proofs8.

(* links, shape and caches unchanged: the invariant does not notice *)
Lemma Inv_same h h' r : lsame h h' -> same_shape h h' ->
  (forall y n', get h' y = Some n' -> exists n, get h y = Some n /\ cache n = cache n') -> Inv h r -> Inv h' r.
Proof.
  intros LS SH CA I. eapply InvExc_lsame; [exact LS|exact I|].
  intros y Ry _. eapply cvalid_shape_same; eauto. apply (inv_cache _ _ _ I); auto.
Qed.

Lemma modn_meas_inv h r x (g : node -> option (list mw)) : Inv h r -> Inv (upd h x (fun n => set_meas (g n) n)) r.
Proof.
  intros I. eapply Inv_same; [| | |exact I].
  - apply lsame_upd. intros []; reflexivity.
  - intros y. rewrite get_upd. destruct (Nat.eqb x y); auto. destruct (get h y) as [[]|]; reflexivity.
  - intros y n' G. rewrite get_upd in G. destruct (Nat.eqb x y); eauto.
    destruct (get h y) as [n|]; cbn in G; [|discriminate]. inversion G; subst. exists n; split; auto.
Qed.
Lemma modn_meas_lsame h x (g : node -> option (list mw)) : lsame h (upd h x (fun n => set_meas (g n) n)).
Proof. apply lsame_upd. intros []; reflexivity. Qed.

Lemma lsame_trans a b c : lsame a b -> lsame b c -> lsame a c.
Proof. intros A B y. now rewrite A. Qed.
Lemma lsame_refl a : lsame a a. Proof. intros y; reflexivity. Qed.

(* ---- numeric.smallest_factor_ge ------------------------------------------------------------------------------------------------------------------- *)
Lemma smallest_factor_from_spec : forall cnt n f, (1 <= f)%Z ->
  let d := smallest_factor_from cnt n f in d = n \/ ((1 <= d)%Z /\ (n mod d = 0)%Z).
Proof.
  induction cnt as [|c IH]; intros n f L; cbn; auto.
  destruct (Z.eqb_spec (n mod f) 0); [right; auto|]. apply IH. lia.
Qed.

Lemma rep_count_mul r a : (0 <= a)%Z -> rep_count (rdef_mul r a) = (rep_count r * a)%Z.
Proof. intros L. destruct r as [z|k t m]; cbn; auto. nia. Qed.

(* ---- roll_constant_waveforms ----------------------------------------------------------------------------------------------------------------------- *)
Local Opaque Qred.

Lemma roll_leaf_duration d sr q mq v (rd : rdef) :
  (1 <= mq)%Z ->
  let qq := Qred (d * sr / inject_Z q) in
  Pos.eqb (Qden qq) 1 = true -> (Qnum qq <? mq * 2)%Z = false ->
  let nq := smallest_factor_ge (Qnum qq) mq in (nq =? Qnum qq)%Z = false ->
  let add := (Qnum qq / nq)%Z in
  (Qred (wf_dur (WConst (Qred (inject_Z (q * nq) / sr)) v)) * inject_Z (rep_count (rdef_mul rd add)) ==
   Qred d * inject_Z (rep_count rd))%Q.
Proof.
  intros Lmq qq Den Big nq Neq add. cbn [wf_dur].
  apply Pos.eqb_eq in Den. apply Z.ltb_ge in Big. apply Z.eqb_neq in Neq.
  destruct (smallest_factor_from_spec (Z.to_nat (Qnum qq - mq)) (Qnum qq) mq Lmq) as [E|(L1 & Dv)]; [contradiction|].
  fold (smallest_factor_ge (Qnum qq) mq) in L1, Dv. fold nq in L1, Dv.
  assert (Eq : Qnum qq = (nq * add)%Z) by (unfold add; apply Z_div_exact_2; lia).
  assert (Ladd : (0 <= add)%Z) by (unfold add; apply Z.div_pos; lia).
  rewrite rep_count_mul by auto. rewrite !Qred_correct.
  assert (QQ : (d * sr / inject_Z q == inject_Z (Qnum qq))%Q).
  { rewrite <- (Qred_correct (d * sr / inject_Z q)). fold qq. destruct qq as [nn dd]; cbn in *. subst dd. reflexivity. }
  assert (Nq : ~ (inject_Z q == 0)%Q).
  { intros Z0. rewrite Z0 in QQ. unfold Qdiv in QQ. cbn in QQ. rewrite Qmult_0_r in QQ.
    assert (Qnum qq = 0%Z). { unfold Qeq in QQ. cbn in QQ. lia. } lia. }
  assert (Ns : ~ (sr == 0)%Q).
  { intros Z0. rewrite Z0 in QQ. rewrite Qmult_0_r in QQ. unfold Qdiv in QQ. rewrite Qmult_0_l in QQ.
    assert (Qnum qq = 0%Z). { unfold Qeq in QQ. cbn in QQ. lia. } lia. }
  assert (Ed : (d == inject_Z (Qnum qq) * inject_Z q / sr)%Q).
  { rewrite <- QQ. field. split; auto. }
  rewrite Ed, Eq. rewrite !inject_Z_mult. field. auto.
Qed.

Lemma leaf_reach h x n : get h x = Some n -> children n = [] -> forall y, reach h x y -> y = x.
Proof.
  intros G C y R. induction R; auto. subst p. assert (np = n) by congruence. subst. rewrite C in H0. contradiction.
Qed.
Lemma LI_leaf_nocache h x n : get h x = Some n -> children n = [] -> cache n = None -> LI h x (fun _ => False).
Proof.
  intros G C K. split.
  - intros p np i c R Gp N. rewrite (leaf_reach h x n G C p R) in Gp. assert (np = n) by congruence. subst.
    rewrite C in N. destruct i; discriminate.
  - exists 1%nat. apply (hle_node h x n 0); auto. rewrite C. intros c [].
  - intros y R _ m q Gm Cq. rewrite (leaf_reach h x n G C y R) in Gm. assert (m = n) by congruence. subst. congruence.
Qed.

Definition roll_spec (r : id) (fuel : nat) : Prop := forall mq q sr x h h' res,
  (1 <= mq)%Z -> Inv h r -> reach h r x -> roll fuel mq q sr x h = (h', res) -> ok_result res -> Inv h' r /\ lsame h h'.

Lemma roll_inv r : forall fuel, roll_spec r fuel.
Proof.
  induction fuel as [|f IH]; intros mq q sr x h h' res Lmq I Rx H OK; cbn [roll] in H.
  { inversion H; subst. destruct OK; congruence. }
  destruct (live_get _ _ _ I x Rx) as (n & G). rewrite (bind_getn x n _ h G) in H.
  (* measurements are dropped *)
  set (h1 := if nonempty_meas (meas n) then upd h x (fun n0 => set_meas ((fun _ => None) n0) n0) else h).
  assert (E1 : (if nonempty_meas (meas n) then modn x (set_meas None) else ret tt) h = (h1, R tt)).
  { unfold h1. destruct (nonempty_meas (meas n)); reflexivity. }
  assert (I1 : Inv h1 r) by (unfold h1; destruct (nonempty_meas (meas n)); [apply modn_meas_inv|]; auto).
  assert (LS1 : lsame h h1) by (unfold h1; destruct (nonempty_meas (meas n)); [apply modn_meas_lsame|apply lsame_refl]).
  assert (G1 : exists n1, get h1 x = Some n1 /\ children n1 = children n /\ rdf n1 = rdf n /\ wform n1 = wform n /\
                          cache n1 = cache n /\ parent n1 = parent n /\ pidx n1 = pidx n).
  { unfold h1. destruct (nonempty_meas (meas n)).
    - erewrite get_upd_same by eauto. eexists; split; [reflexivity|]. destruct n; cbn; repeat split.
    - exists n; repeat split; auto. }
  destruct G1 as (n1 & G1 & C1 & Rd1 & W1 & K1 & Pa1 & Pi1).
  assert (Rx1 : reach h1 r x) by (eapply reach_lsame; eauto).
  rewrite (bind_R _ _ _ _ _ E1) in H.
  destruct (if is_leaf n then wform n else None) as [w|] eqn:LW.
  2:{ (* the children are rolled *)
      assert (LOOP : forall l hk, Inv hk r -> lsame h hk -> (forall c, In c l -> reach h r c) ->
                miter (roll f mq q sr) l hk = (h', res) -> Inv h' r /\ lsame h h').
      { induction l as [|c l IHl]; intros hk Ik LSk Rl Hm; cbn in Hm.
        - inversion Hm; subst; auto.
        - unfold bind at 1 in Hm. destruct (roll f mq q sr c hk) as (hk', rk) eqn:Ec.
          assert (OKk : ok_result rk) by (destruct rk; cbn; auto; inversion Hm; subst; exact OK).
          destruct (IH mq q sr c hk hk' rk Lmq Ik) as (Ik' & LSk'); auto.
          { eapply reach_lsame; eauto. apply Rl; now left. }
          destruct rk as [[]|e]; [|inversion Hm; subst; split; auto; eapply lsame_trans; eauto].
          eapply IHl; eauto; [eapply lsame_trans; eauto|intros; apply Rl; now right]. }
      eapply (LOOP (children n) h1); eauto. intros c Hc. eapply reach_step; eauto. }
  destruct (is_leaf n) eqn:Lf; [|discriminate].
  assert (Cn : children n = []) by (unfold is_leaf in Lf; destruct (children n); [auto|discriminate]).
  set (qq := Qred (wf_dur w * sr / inject_Z q)) in *.
  destruct (negb (Pos.eqb (Qden qq) 1)) eqn:Den; [inversion H; subst; auto|].
  destruct (Qnum qq <? mq * 2)%Z eqn:Big; [inversion H; subst; auto|].
  destruct w as [d v|d k rv]; [|inversion H; subst; auto].
  set (nq := smallest_factor_ge (Qnum qq) mq) in *.
  destruct (nq =? Qnum qq)%Z eqn:Neq; [inversion H; subst; auto|].
  unfold modn in H. inversion H; subst h' res. clear H.
  set (add := (Qnum qq / nq)%Z) in *.
  set (fx := fun n0 : node => set_cache None (set_wform (Some (WConst (Qred (inject_Z (q * nq) / sr)) v)) (set_rdf (rdef_mul (rdf n0) add) n0))).
  set (h2 := upd h1 x fx).
  assert (G2 : get h2 x = Some (fx n1)) by (unfold h2; now apply get_upd_same).
  assert (LS2 : lsame h1 h2) by (apply lsame_upd; intros []; reflexivity).
  split; [|eapply lsame_trans; eauto].
  apply negb_false_iff in Den.
  eapply (replace_same_duration h1 h2 r x n1 (fx n1) I1 Rx1 G1 G2).
  - destruct n1; reflexivity.
  - destruct n1; reflexivity.
  - eapply LI_weaken; [|apply (LI_leaf_nocache h2 x (fx n1) G2); destruct n1; cbn in *; congruence]. intros; contradiction.
  - intros y Ry NR. unfold h2. apply get_upd_other. intros ->. apply NR. constructor.
  - apply (LI_leaf_nocache h2 x (fx n1) G2); destruct n1; cbn in *; congruence.
  - intros b Tb. inversion Tb as [? m Gm Cm|? m s Gm Cm Ts]; subst; assert (m = n1) by congruence; subst m; [|congruence].
    exists (leaf_dur (fx n1)). split.
    + apply (TB_leaf h2 x (fx n1)); auto; destruct n1; cbn in *; congruence.
    + unfold leaf_dur, rep_of. replace (wform (fx n1)) with (Some (WConst (Qred (inject_Z (q * nq) / sr)) v)) by (destruct n1; reflexivity).
      replace (rdf (fx n1)) with (rdef_mul (rdf n1) add) by (destruct n1; reflexivity).
      rewrite W1. rewrite LW.
      rewrite Rd1. apply roll_leaf_duration; auto.
Qed.

(* ---- Loop.reverse_inplace ------------------------------------------------------------------------------------------------------------------------------ *)
Fixpoint number (l : list id) (i : Z) : M unit :=
  match l with [] => ret tt | c :: r => modn c (set_pidx (Some i)) ;;; number r (i + 1) end.

Lemma reverse_S f x : reverse_inplace (S f) x =
  (n <- getn x ;;
   (if is_leaf n
    then match wform n with None => raise ExAttr | Some w => modn x (set_wform (Some (wf_reversed w))) end
    else let rcs := rev (children n) in
         modn x (set_children rcs) ;;; number rcs 0 ;;; miter (reverse_inplace f) rcs) ;;;
   n' <- getn x ;;
   if nonempty_meas (meas n')
   then d <- fueled (fun fuel => body_duration fuel x) ;;
        modn x (fun n => set_meas (option_map (map (fun m : mw => let '(name, b, l) := m in (name, Qred (d - (b + l)), l))) (meas n)) n)
   else ret tt).
Proof. reflexivity. Qed.

Lemma number_spec : forall l i h, NoDup l ->
  exists h', number l i h = (h', R tt) /\ (forall y, ~ In y l -> get h' y = get h y) /\
    (forall k c, nth_error l k = Some c -> get h' c = option_map (set_pidx (Some (i + Z.of_nat k)%Z)) (get h c)).
Proof.
  induction l as [|c l IH]; intros i h ND.
  - exists h. cbn. split; auto. split; auto. intros k c N. destruct k; discriminate.
  - inversion ND as [|? ? NI ND']; subst. cbn [number]. rewrite bind_modn.
    destruct (IH (i + 1)%Z (upd h c (set_pidx (Some i))) ND') as (h' & E & O & P).
    exists h'. split; auto. split.
    + intros y NIy. rewrite O by (intros HIn; apply NIy; now right). apply get_upd_other. intros ->; apply NIy; now left.
    + intros k c0 N. destruct k as [|k]; cbn in N.
      * inversion N; subst c0. rewrite O by auto. rewrite get_upd, Nat.eqb_refl. replace (i + Z.of_nat 0)%Z with i by lia. reflexivity.
      * rewrite (P k c0 N). rewrite get_upd_other by (intros ->; apply NI; eapply nth_error_In; eauto).
        replace (i + 1 + Z.of_nat k)%Z with (i + Z.of_nat (S k))%Z by lia. reflexivity.
Qed.

Definition cset (h h' : heap) : Prop :=
  forall y, match get h y, get h' y with
            | Some n, Some n' => forall c, In c (children n') <-> In c (children n)
            | None, None => True
            | _, _ => False
            end.
Lemma cset_refl h : cset h h. Proof. intros y. destruct (get h y); auto. intros; tauto. Qed.
Lemma cset_trans a b c : cset a b -> cset b c -> cset a c.
Proof.
  intros A B y. specialize (A y); specialize (B y).
  destruct (get a y), (get b y), (get c y); try contradiction; auto. intros c0. rewrite B. apply A.
Qed.
Lemma cset_sym a b : cset a b -> cset b a.
Proof. intros A y. specialize (A y). destruct (get a y), (get b y); try contradiction; auto. intros c. symmetry. apply A. Qed.
Lemma cset_csame a b : csame a b -> cset a b.
Proof.
  intros C y. specialize (C y). destruct (get a y), (get b y); cbn in C; try discriminate; auto.
  inversion C. intros; rewrite H0; tauto.
Qed.
Lemma cset_lsame a b : lsame a b -> cset a b.
Proof.
  intros C y. specialize (C y). destruct (get a y), (get b y); cbn in C; try discriminate; auto.
  unfold lshape in C. inversion C. intros; rewrite H0; tauto.
Qed.
Lemma reach_cset a b x y : cset a b -> reach a x y -> reach b x y.
Proof.
  intros C R. induction R; [constructor|]. specialize (C p). rewrite H in C.
  destruct (get b p) as [np'|] eqn:G; [|contradiction]. eapply reach_step; eauto. apply C; auto.
Qed.

Lemma tsum_rev h l s : tsum h l s -> exists s', tsum h (rev l) s' /\ (s' == s)%Q.
Proof.
  induction 1 as [|c cs b nc s Tb G Ts IH]; cbn.
  - exists 0%Q; split; [constructor|reflexivity].
  - destruct IH as (s1 & T1 & E1).
    assert (T2 : tsum h [c] (b * rep_of nc + 0)%Q) by (constructor; auto; constructor).
    destruct (tsum_app _ _ _ _ _ T1 T2) as (s' & Ts' & Es'). exists s'; split; auto. rewrite Es', E1. ring.
Qed.

Lemma LI_fill h x : LI h x (fun y => y = x) -> cvalid h x -> LI h x (fun _ => False).
Proof.
  intros [A B C] V. split; auto. intros y R _. destruct (Nat.eq_dec y x) as [->|N]; auto.
Qed.

(* a leaf's waveform is replaced by one of the same duration *)
Lemma wform_samedur_inv h r x nx w w' :
  Inv h r -> get h x = Some nx -> wform nx = Some w -> wf_dur w' = wf_dur w -> Inv (upd h x (set_wform (Some w'))) r.
Proof.
  intros I Gx Wx ED. set (h' := upd h x (set_wform (Some w'))).
  assert (GG : forall y n, get h y = Some n -> exists n', get h' y = Some n' /\ children n' = children n /\ rdf n' = rdf n /\
                                                   leaf_dur n' = leaf_dur n /\ cache n' = cache n).
  { intros y n G. unfold h'. rewrite get_upd. destruct (Nat.eqb_spec x y) as [->|N].
    - rewrite G. cbn. eexists; split; [reflexivity|]. assert (n = nx) by congruence. subst n.
      destruct nx; cbn in *. repeat split; auto. unfold leaf_dur; cbn. subst wform. now rewrite ED.
    - exists n; repeat split; auto. }
  assert (TT : (forall y b, tbody h y b -> tbody h' y b) /\ (forall l s, tsum h l s -> tsum h' l s)).
  { apply tbody_tsum_ind.
    - intros y n G C. destruct (GG y n G) as (n' & G' & C' & R' & L' & _). rewrite <- L'. apply (TB_leaf h' y n'); congruence.
    - intros y n s G C T IH. destruct (GG y n G) as (n' & G' & C' & R' & _). apply (TB_inner h' y n'); auto; congruence.
    - constructor.
    - intros c cs b nc s T IH G T2 IH2. destruct (GG c nc G) as (n' & G' & C' & R' & _).
      replace (rep_of nc) with (rep_of n') by (unfold rep_of; now rewrite R'). constructor; auto. }
  eapply InvExc_lsame; [apply lsame_upd; intros []; reflexivity|exact I|].
  intros y Ry _. eapply cvalid_keep.
  - apply (inv_cache _ _ _ I); auto.
  - intros n' G'. fold h' in G'. unfold h' in G'. rewrite get_upd in G'. destruct (Nat.eqb x y); eauto.
    destruct (get h y) as [n|]; cbn in G'; [|discriminate]. inversion G'; subst. exists n; split; auto.
  - apply (proj1 TT).
Qed.

(* Node._reverse_children *)
Lemma reverse_children_inv h r x n :
  Inv h r -> reach h r x -> get h x = Some n ->
  exists hA, (modn x (set_children (rev (children n))) ;;; number (rev (children n)) 0) h = (hA, R tt) /\
    Inv hA r /\ cset h hA /\ get hA x = Some (set_children (rev (children n)) n) /\
    (forall y, ~ reach h x y -> get hA y = get h y).
Proof.
  intros I Rx G. set (cs := children n). set (rcs := rev cs).
  assert (NDc : NoDup cs) by (eapply (children_NoDup _ _ _ I); eauto).
  assert (NDr : NoDup rcs) by (apply NoDup_rev; auto).
  rewrite bind_modn. set (h1 := upd h x (set_children rcs)).
  destruct (number_spec rcs 0 h1 NDr) as (hA & E & O & P). exists hA. split; auto.
  assert (NIx : ~ In x rcs) by (intros HIn; apply in_rev in HIn; eapply (rp_x_not_own_child h r x n I Rx G); eauto).
  assert (GxA : get hA x = Some (set_children rcs n)) by (rewrite O by auto; unfold h1; now apply get_upd_same).
  assert (OTH : forall y, y <> x -> ~ In y cs -> get hA y = get h y).
  { intros y N NI. rewrite O by (intros HIn; apply NI; apply in_rev; auto). unfold h1. apply get_upd_other; auto. }
  assert (KID : forall k c, nth_error rcs k = Some c ->
            exists nc, get h c = Some nc /\ get hA c = Some (set_pidx (Some (Z.of_nat k)) nc) /\ parent nc = Some x).
  { intros k c N. assert (Hc : In c cs) by (apply in_rev; eapply nth_error_In; eauto).
    destruct (In_nth_error _ _ Hc) as (j & Hj). destruct (inv_links _ _ _ I _ _ _ _ Rx G Hj) as (nc & Gc & Pc & _).
    exists nc. split; auto. split; auto. rewrite (P k c N). unfold h1. rewrite get_upd_other by (intros ->; apply NIx; eapply nth_error_In; eauto).
    rewrite Gc. reflexivity. }
  assert (CS : cset h hA).
  { intros y. destruct (Nat.eq_dec y x) as [->|N].
    - rewrite G, GxA. intros c. replace (children (set_children rcs n)) with rcs by (destruct n; reflexivity). unfold rcs. rewrite <- in_rev. tauto.
    - destruct (in_dec Nat.eq_dec y cs) as [HI|HN].
      + apply in_rev in HI. fold rcs in HI. destruct (In_nth_error _ _ HI) as (k & Hk). destruct (KID k y Hk) as (nc & Gc & GA & _).
        rewrite Gc, GA. intros c. destruct nc; cbn; tauto.
      + rewrite OTH by auto. destruct (get h y); auto. intros; tauto. }
  split; [|split; [exact CS|split; [exact GxA|]]].
  2:{ intros y NR. apply OTH; [intros ->; apply NR; constructor|intros Hc; apply NR; eapply reach_child; eauto]. }
  (* the invariant: the subtree at x is replaced, its duration is the same up to == *)
  assert (LXx : LI hA x (fun y => y = x)).
  { apply (LI_node hA x _ GxA). replace (children (set_children rcs n)) with rcs by (destruct n; reflexivity).
    intros k c N. destruct (KID k c N) as (nc & Gc & GA & Pc).
    split; [eexists; split; [exact GA|]; destruct nc; cbn in *; auto|].
    assert (Hc : In c cs) by (apply in_rev; eapply nth_error_In; eauto).
    assert (Rc : reach h r c) by (exact (reach_step h r x n c Rx G Hc)).
    apply (LI_frame h hA c _ (LI_sub _ _ _ _ (InvExc_LI _ _ _ I) Rc)). intros y ny Ry Gy.
    destruct (child_subtree_sep h r x n c y I Rx G Hc Ry) as (Nyx & Sep).
    destruct (Nat.eq_dec y c) as [->|Nyc].
    - assert (ny = nc) by congruence. subst. eexists; split; [exact GA|]. split; [destruct nc; repeat split|congruence].
    - exists ny. rewrite OTH; auto. repeat split; auto. }
  assert (TX : forall b, tbody h x b -> exists b', tbody hA x b' /\ (b' == b)%Q).
  { intros b Tb. inversion Tb as [? m Gm Cm|? m s Gm Cm Ts]; subst; assert (m = n) by congruence; subst m.
    - exists (leaf_dur (set_children rcs n)). split; [|destruct n; cbn in *; reflexivity].
      apply (TB_leaf hA x _ GxA). destruct n; cbn in *. unfold rcs, cs. cbn. now rewrite Cm.
    - destruct (tsum_rev _ _ _ Ts) as (s' & Ts' & Es'). exists s'. split; auto.
      apply (TB_inner hA x (set_children rcs n) s' GxA).
      + destruct n; cbn in *. unfold rcs, cs; cbn. intros E0. apply Cm. apply (f_equal (@rev id)) in E0. rewrite rev_involutive in E0. exact E0.
      + replace (children (set_children rcs n)) with rcs by (destruct n; reflexivity).
        eapply (proj2 (tbody_tsum_frame_shape h hA)); eauto.
        intros c z Hc Rz. apply in_rev in Hc. fold cs in Hc.
        destruct (child_subtree_sep h r x n c z I Rx G Hc Rz) as (Nzx & Sep).
        destruct (in_dec Nat.eq_dec z cs) as [HI|HN].
        * apply in_rev in HI. fold rcs in HI. destruct (In_nth_error _ _ HI) as (k & Hk). destruct (KID k z Hk) as (nz & Gz & GA & _).
          rewrite Gz, GA. destruct nz; reflexivity.
        * rewrite OTH; auto. }
  assert (PP : parent (set_children rcs n) = parent n /\ pidx (set_children rcs n) = pidx n) by (destruct n; split; reflexivity).
  destruct PP as (PP1 & PP2).
  assert (OUT : forall y, reach h r y -> ~ reach h x y -> get hA y = get h y).
  { intros y _ NR. apply OTH; [intros ->; apply NR; constructor|intros Hc; apply NR; eapply reach_child; eauto]. }
  eapply (replace_same_duration h hA r x n _ I Rx G GxA PP1 PP2 LXx OUT).
  - apply LI_fill; auto. intros m q Gm Cq. rewrite GxA in Gm. inversion Gm; subst m.
    destruct (inv_cache _ _ _ I x Rx (fun f => f) n q G) as (b & Tb & Eb); [destruct n; exact Cq|].
    destruct (TX b Tb) as (b' & Tb' & Eb'). exists b'; split; auto. rewrite Eb'. exact Eb.
  - intros b Tb. destruct (TX b Tb) as (b' & Tb' & Eb'). exists b'; split; auto.
    replace (rep_of (set_children rcs n)) with (rep_of n) by (destruct n; reflexivity). rewrite Eb'. reflexivity.
Qed.

Definition rev_spec (r : id) (fuel : nat) : Prop := forall x h h' res,
  Inv h r -> reach h r x -> reverse_inplace fuel x h = (h', res) -> ok_result res ->
  Inv h' r /\ cset h h' /\ (forall y, ~ reach h x y -> get h' y = get h y).

Lemma reverse_inv r : forall fuel, rev_spec r fuel.
Proof.
  induction fuel as [|f IH]; intros x h h' res I Rx H OK.
  { cbn in H. inversion H; subst. destruct OK; congruence. }
  rewrite reverse_S in H.
  destruct (live_get _ _ _ I x Rx) as (n & G). rewrite (bind_getn x n _ h G) in H.
  (* part 1: the leaf / the children *)
  set (P1 := if is_leaf n then _ else _) in H.
  assert (S1 : forall h1 r1, P1 h = (h1, r1) -> ok_result r1 ->
            Inv h1 r /\ cset h h1 /\ (forall y, ~ reach h x y -> get h1 y = get h y)).
  { intros h1 r1 E1 OK1. unfold P1 in E1. destruct (is_leaf n) eqn:Lf.
    - destruct (wform n) as [w|] eqn:Wn; [|inversion E1; subst; split; [auto|split; [apply cset_refl|auto]]].
      unfold modn in E1. inversion E1; subst. split; [|split].
      + eapply wform_samedur_inv; eauto. destruct w; reflexivity.
      + apply cset_lsame. apply lsame_upd. intros []; reflexivity.
      + intros y NR. apply get_upd_other. intros ->. apply NR. constructor.
    - cbv zeta in E1.
      destruct (reverse_children_inv h r x n I Rx G) as (hA & EA & IA & CSA & GxA & FA).
      assert (E1' : miter (reverse_inplace f) (rev (children n)) hA = (h1, r1)).
      { revert E1. unfold bind at 1. unfold bind at 1 in EA. destruct (modn x (set_children (rev (children n))) h) as (h0, [[]|e]); [|discriminate].
        unfold bind at 1. rewrite EA. auto. }
      clear E1.
      assert (RxA : reach hA r x) by (eapply reach_cset; eauto).
      assert (LOOP : forall l hk, (forall c, In c l -> In c (rev (children n))) ->
                Inv hk r -> cset hA hk -> (forall y, ~ reach hA x y -> get hk y = get hA y) -> get hk x = get hA x ->
                miter (reverse_inplace f) l hk = (h1, r1) ->
                Inv h1 r /\ cset hA h1 /\ (forall y, ~ reach hA x y -> get h1 y = get hA y)).
      { induction l as [|c l IHl]; intros hk Sub Ik CSk Fk Xk Hm; cbn in Hm.
        - inversion Hm; subst; auto.
        - unfold bind at 1 in Hm. destruct (reverse_inplace f c hk) as (hk', rk) eqn:Ec.
          assert (OKk : ok_result rk) by (destruct rk; cbn; auto; inversion Hm; subst; exact OK1).
          assert (HcA : In c (children (set_children (rev (children n)) n))) by (destruct n; cbn; apply Sub; now left).
          assert (RcA : reach hA r c) by (exact (reach_step hA r x _ c RxA GxA HcA)).
          destruct (IH c hk hk' rk Ik) as (Ik' & CSk' & Fk'); auto.
          { eapply reach_cset; eauto. }
          assert (NRk : forall y, ~ reach hA c y -> ~ reach hk c y).
          { intros y NR R. apply NR. eapply reach_cset; [apply cset_sym; exact CSk|exact R]. }
          assert (CS' : cset hA hk') by (eapply cset_trans; eauto).
          assert (F' : forall y, ~ reach hA x y -> get hk' y = get hA y).
          { intros y NR. rewrite Fk'; auto. apply NRk. intros R. apply NR. eapply reach_trans; [eapply reach_child; eauto|auto]. }
          assert (X' : get hk' x = get hA x).
          { rewrite Fk'; auto. apply NRk. intros R. destruct (child_subtree_sep hA r x _ c x IA RxA GxA HcA R) as (N & _). congruence. }
          destruct rk as [[]|e]; [|inversion Hm; subst; auto].
          eapply IHl; eauto. intros; apply Sub; now right. }
      destruct (LOOP (rev (children n)) hA) as (I1 & CS1 & F1); auto using cset_refl.
      split; auto. split; [eapply cset_trans; eauto|].
      intros y NR. rewrite F1; auto. intros R. apply NR. eapply reach_cset; [apply cset_sym; exact CSA|exact R]. }
  unfold bind at 1 in H. destruct (P1 h) as (h1, r1) eqn:E1.
  assert (OK1 : ok_result r1) by (destruct r1; cbn; auto; inversion H; subst; exact OK).
  destruct (S1 h1 r1 eq_refl OK1) as (I1 & CS1 & F1).
  destruct r1 as [[]|e]; [|inversion H; subst; auto].
  (* part 2: the measurement windows are mirrored *)
  assert (Rx1 : reach h1 r x) by (eapply reach_cset; eauto).
  destruct (live_get _ _ _ I1 x Rx1) as (n1 & G1). rewrite (bind_getn x n1 _ h1 G1) in H.
  destruct (nonempty_meas (meas n1)); [|inversion H; subst; auto].
  unfold bind at 1 in H. rewrite fueled_eq in H.
  destruct (body_duration _ x h1) as (h2, [d|e]) eqn:BD.
  2:{ inversion H; subst. destruct (body_duration_spec _ _ _ _ _ BD) as (_ & ME); [eapply reach_live_cvalid; eauto|].
      destruct OK, ME; congruence. }
  pose proof (body_duration_inv _ _ _ _ _ _ I1 Rx1 BD) as I2.
  destruct (body_duration_spec_shape _ _ _ _ _ BD) as (CS2 & _).
  unfold modn in H. inversion H; subst.
  split; [apply modn_meas_inv; auto|]. split.
  - eapply cset_trans; [exact CS1|]. eapply cset_trans; [apply cset_csame; exact CS2|]. apply cset_lsame. apply modn_meas_lsame.
  - intros y NR. rewrite get_upd_other by (intros ->; apply NR; constructor).
    rewrite (body_duration_frame _ _ _ _ _ BD); auto.
    intros R. apply NR. eapply reach_cset; [apply cset_sym; exact CS1|exact R].
Qed.

(* ---- Loop.cleanup ----------------------------------------------------------------------------------------------------------------------------------------- *)
Definition cachevar (h h' : heap) (y : id) : Prop :=
  exists n n', get h y = Some n /\ get h' y = Some n' /\ n' = set_cache (cache n') n.

Lemma cachevar_trans a b c y : cachevar a b y -> cachevar b c y -> cachevar a c y.
Proof.
  intros (n & n1 & G & G1 & E1) (n1' & n2 & G1' & G2 & E2). assert (n1' = n1) by congruence. subst.
  exists n, n2. repeat split; auto. rewrite E2, E1. destruct n; reflexivity.
Qed.
Lemma cachevar_children a b y n n' : cachevar a b y -> get a y = Some n -> get b y = Some n' ->
  children n' = children n /\ parent n' = parent n /\ pidx n' = pidx n.
Proof.
  intros (m & m' & G & G' & E) Ga Gb. assert (m = n) by congruence. assert (m' = n') by congruence. subst.
  rewrite E. destruct n; repeat split.
Qed.

(* a path survives when its nodes only change their caches *)
Lemma reach_cv h h' a b : (forall z, reach h a z -> reach h z b -> cachevar h h' z) -> reach h a b -> reach h' a b.
Proof.
  intros CV R. induction R; [constructor|].
  assert (Rpc : reach h p c) by (eapply reach_child; eauto).
  assert (IH : reach h' a p) by (apply IHR; intros z R1 R2; apply CV; auto; eapply reach_trans; eauto).
  destruct (CV p R Rpc) as (n & n' & G & G' & E). assert (n = np) by congruence. subst n.
  eapply reach_step; [exact IH|exact G'|]. rewrite E. destruct np; exact H0.
Qed.

(* ... nothing outside the old subtree of x is below x afterwards *)
Lemma no_new_outside h h' r x : Inv h r -> Inv h' r -> reach h' r x -> Fr r h h' x ->
  forall y, reach h' x y -> reach h r y -> ~ reach h x y -> False.
Proof.
  intros I I' Rx' F y R. induction R as [|p' np' y Rp IHp Gp HIn]; intros Ry NR; [apply NR; constructor|].
  destruct (F y Ry NR) as (n & n' & G & G' & E).
  assert (Rp' : reach h' r p') by (eapply reach_trans; eauto).
  destruct (lister_unique _ _ _ I' y p' np' Rp' Gp HIn) as (ny' & Gy' & Py'). assert (ny' = n') by congruence. subst ny'.
  assert (Pn : parent n = Some p') by (rewrite E in Py'; destruct n; exact Py').
  destruct (live_parent _ _ _ I y n Ry G) as [(-> & Pnone)|(p & np & Pp & Rp0 & Gp0 & HIn0)]; [congruence|].
  assert (p = p') by congruence. subst p.
  apply IHp; auto. intros Rxp. apply NR. eapply reach_trans; [exact Rxp|eapply reach_child; eauto].
Qed.

Lemma Fr_reach h h' r x y : Fr r h h' x -> reach h r y -> ~ reach h x y -> reach h' r y.
Proof.
  intros F Ry NR. apply (reach_cv h h' r y); auto. intros z R1 R2. destruct (F z R1) as (n & n' & G); [|exists n, n'; auto].
  intros Rxz. apply NR. eapply reach_trans; eauto.
Qed.

Lemma Fr_trans h h1 h2 r x : Inv h r -> Inv h1 r -> reach h1 r x -> Fr r h h1 x -> Fr r h1 h2 x -> Fr r h h2 x.
Proof.
  intros I I1 Rx1 F1 F2 y Ry NR.
  assert (C1 : cachevar h h1 y) by (apply F1; auto).
  assert (C2 : cachevar h1 h2 y).
  { apply F2; [eapply Fr_reach; eauto|]. intros R. eapply (no_new_outside h h1 r x); eauto. }
  exact (cachevar_trans _ _ _ _ C1 C2).
Qed.

Lemma nodup_concat_sub (cs : list id) kept : NoDup cs -> Forall2 (fun c k => k = [] \/ k = [c]) cs kept ->
  NoDup (concat kept) /\ (forall v, In v (concat kept) -> In v cs).
Proof.
  intros ND F. induction F as [|c k cs kept Hk F IH]; cbn.
  - split; [constructor|intros v []].
  - inversion ND as [|? ? NI ND']; subst. destruct (IH ND') as (N1 & S1).
    destruct Hk as [->| ->]; cbn; [split; auto|]. split.
    + constructor; auto.
    + intros v [<-|H]; auto.
Qed.

Definition clean_spec (r : id) (fuel : nat) : Prop := forall vctr rm mg x h h' res,
  Inv h r -> reach h r x -> cleanup fuel vctr rm mg x h = (h', res) -> ok_result res -> Inv h' r /\ Fr r h h' x.

Section CleanLoop.
  Variables (r x : id) (h : heap) (n : node).
  Hypothesis I : Inv h r.
  Hypothesis Rx : reach h r x.
  Hypothesis G : get h x = Some n.

  Definition LoopInv (hk : heap) : Prop := Inv hk r /\ reach hk r x /\ cachevar h hk x /\ Fr r h hk x.

  Lemma LoopInv_start : LoopInv h.
  Proof.
    split; auto. split; auto. split; [exists n, n; repeat split; auto; destruct n; reflexivity|apply Fr_refl; auto].
  Qed.

  Lemma loop_x_node hk : LoopInv hk -> exists nk, get hk x = Some nk /\ children nk = children n.
  Proof.
    intros (_ & _ & (m & m' & Gm & Gm' & E) & _). assert (m = n) by congruence. subst. exists m'. split; auto.
    rewrite E. destruct n; reflexivity.
  Qed.

  Lemma child_step hk hk' c : LoopInv hk -> In c (children n) -> Inv hk' r -> Fr r hk hk' c -> LoopInv hk'.
  Proof.
    intros (Ik & Rxk & Cx & Fk) Hc Ik' Fc.
    destruct (loop_x_node hk (conj Ik (conj Rxk (conj Cx Fk)))) as (nk & Gk & Ck).
    assert (Hck : In c (children nk)) by (rewrite Ck; auto).
    assert (NRx : ~ reach hk c x).
    { intros R. destruct (child_subtree_sep hk r x nk c x Ik Rxk Gk Hck R) as (N & _). congruence. }
    assert (Rx' : reach hk' r x) by (eapply Fr_reach; eauto).
    split; auto. split; auto. split.
    - eapply cachevar_trans; [exact Cx|]. apply Fc; auto.
    - intros y Ry NR. eapply cachevar_trans; [apply Fk; auto|]. apply Fc.
      + eapply Fr_reach; eauto.
      + intros Rcy. eapply (no_new_outside h hk r x); eauto. eapply reach_trans; [eapply reach_child; eauto|exact Rcy].
  Qed.

  Lemma loop_child_reach hk c : LoopInv hk -> In c (children n) -> reach hk r c.
  Proof.
    intros L Hc. destruct (loop_x_node hk L) as (nk & Gk & Ck). destruct L as (_ & Rxk & _).
    eapply reach_step; eauto. rewrite Ck; auto.
  Qed.
End CleanLoop.

Lemma cleanup_S fuel vctr rm mg x : cleanup (S fuel) vctr rm mg x =
  (n <- getn x ;;
   (if rm
    then kept <- mmap (fun c =>
                  nc <- getn c ;;
                  if is_leaf nc
                  then ret (match wform nc with None => [] | Some _ => [c] end)
                  else cleanup fuel (vctr + Z.of_nat (S fuel)) rm mg c ;;;
                       nc' <- getn c ;;
                       ret (match wform nc' with
                            | Some _ => [c]
                            | None => if is_leaf nc' then [] else [c] end)) (children n) ;;
         let new := concat kept in
         if Nat.eqb (length new) (length (children n)) then ret tt
         else loop_setitem_slice x None None None new
    else miter (fun c => cleanup fuel (vctr + Z.of_nat (S fuel)) rm mg c) (children n)) ;;;
   if mg then try_merge vctr x else ret tt).
Proof. reflexivity. Qed.

Lemma cleanup_inv r : forall fuel, clean_spec r fuel.
Proof.
  induction fuel as [|f IH]; intros vctr rm mg x h h' res I Rx H OK.
  { cbn in H. inversion H; subst. destruct OK; congruence. }
  rewrite cleanup_S in H.
  destruct (live_get _ _ _ I x Rx) as (n & G). rewrite (bind_getn x n _ h G) in H.
  set (P1 := if rm then _ else _) in H.
  (* part 1 keeps the loop invariant *)
  assert (S1 : forall h1 r1, P1 h = (h1, r1) -> ok_result r1 -> Inv h1 r /\ Fr r h h1 x /\ (r1 = R tt -> reach h1 r x)).
  { intros h1 r1 E1 OK1. unfold P1 in E1. destruct rm.
    - set (A := fun c : id => _) in E1.
      assert (MM : forall l hk hk' rk, (forall c, In c l -> In c (children n)) -> LoopInv r x h hk -> mmap A l hk = (hk', rk) -> ok_result rk ->
                 LoopInv r x h hk' /\ match rk with R ks => Forall2 (fun c k => k = [] \/ k = [c]) l ks | E _ => True end).
      { induction l as [|c l IHl]; intros hk hk' rk Sub L Hm OKm; cbn in Hm.
        - inversion Hm; subst. split; auto.
        - unfold bind at 1 in Hm. destruct (A c hk) as (ha, ra) eqn:Ea.
          assert (Hc : In c (children n)) by (apply Sub; now left).
          assert (STEP : ok_result ra -> LoopInv r x h ha /\ match ra with R k => k = [] \/ k = [c] | E _ => True end).
          { intros OKa. unfold A in Ea. pose proof (loop_child_reach r x h n G hk c L Hc) as Rc.
            destruct L as (Ik & L'). destruct (live_get _ _ _ Ik c Rc) as (nc & Gc). rewrite (bind_getn c nc _ hk Gc) in Ea.
            destruct (is_leaf nc).
            - inversion Ea; subst. split; [split; auto|]. destruct (wform nc); auto.
            - unfold bind at 1 in Ea. destruct (cleanup f _ true mg c hk) as (hb, rb) eqn:Eb.
              assert (OKb : ok_result rb) by (destruct rb; cbn; auto; inversion Ea; subst; exact OKa).
              destruct (IH _ _ _ _ _ _ _ Ik Rc Eb OKb) as (Ib & Fb).
              pose proof (child_step r x h n I G hk hb c (conj Ik L') Hc Ib Fb) as Lb.
              destruct rb as [[]|e]; [|inversion Ea; subst; split; auto].
              unfold bind, getn in Ea. destruct (get hb c) as [nc'|]; inversion Ea; subst; split; auto.
              destruct (wform nc'); auto. destruct (is_leaf nc'); auto. }
          destruct ra as [k|e]; [|inversion Hm; subst; apply STEP; exact OKm].
          destruct STEP as (La & Qa); [exact Logic.I|].
          unfold bind at 1 in Hm. destruct (mmap A l ha) as (hb, rb) eqn:Eb.
          assert (OKb : ok_result rb) by (destruct rb; cbn; auto; inversion Hm; subst; exact OKm).
          destruct (IHl ha hb rb) as (Lb & Qb); auto; [intros; apply Sub; now right|].
          destruct rb as [ks|e]; inversion Hm; subst; split; auto. }
      unfold bind at 1 in E1. destruct (mmap A (children n) h) as (hL, rL) eqn:EL.
      assert (OKL : ok_result rL) by (destruct rL; cbn; auto; inversion E1; subst; exact OK1).
      destruct (MM (children n) h hL rL) as (LL & QL); eauto using LoopInv_start.
      destruct rL as [kept|e]; [|inversion E1; subst; destruct LL as (IL & RL & _ & FL); split; auto; split; auto; discriminate].
      pose proof LL as (IL & RxL & CxL & FL). cbv zeta in E1.
      destruct (Nat.eqb _ _); [inversion E1; subst; auto|].
      destruct (loop_x_node r x h n G hL LL) as (nL & GL & CL).
      assert (NDc : NoDup (children n)) by (eapply (children_NoDup _ _ _ I); eauto).
      destruct (nodup_concat_sub (children n) kept NDc QL) as (NDn & SUBn).
      destruct (setslice_inv hL r x nL None None None (concat kept) IL RxL GL (or_introl eq_refl) NDn) with (h' := h1) (res := r1)
        as (I1 & -> & Rx1 & _ & new & c' & _ & _ & _ & _ & _ & OUTc); auto.
      + intros v Hv. apply (LI_sub hL r _ v (InvExc_LI _ _ _ IL)). eapply reach_step; eauto. rewrite CL; auto.
      + intros v y Hv Ry. assert (HvL : In v (children nL)) by (rewrite CL; auto).
        destruct (child_subtree_sep hL r x nL v y IL RxL GL HvL Ry) as (N & Sep). split; auto.
        intros Nyv. split; [intros Hy; apply (Sep Nyv); rewrite CL; auto|apply Sep; auto].
      + intros v Hv _. eapply reach_child; eauto. rewrite CL; auto.
      + split; auto. split; auto. eapply (Fr_trans h hL h1 r x); eauto.
    - (* recursive calls only *)
      assert (MI : forall l hk, (forall c, In c l -> In c (children n)) -> LoopInv r x h hk ->
                 miter (fun c => cleanup f (vctr + Z.of_nat (S f)) false mg c) l hk = (h1, r1) -> LoopInv r x h h1).
      { induction l as [|c l IHl]; intros hk Sub L Hm; cbn in Hm.
        - inversion Hm; subst; auto.
        - unfold bind at 1 in Hm. destruct (cleanup f _ false mg c hk) as (hb, rb) eqn:Eb.
          assert (Hc : In c (children n)) by (apply Sub; now left).
          pose proof (loop_child_reach r x h n G hk c L Hc) as Rc. pose proof L as (Ik & L').
          assert (OKb : ok_result rb) by (destruct rb; cbn; auto; inversion Hm; subst; exact OK1).
          destruct (IH _ _ _ _ _ _ _ Ik Rc Eb OKb) as (Ib & Fb).
          pose proof (child_step r x h n I G hk hb c L Hc Ib Fb) as Lb.
          destruct rb as [[]|e]; [|inversion Hm; subst; auto].
          eapply IHl; eauto. intros; apply Sub; now right. }
      destruct (MI (children n) h) as (I1 & R1 & _ & F1); eauto using LoopInv_start. }
  unfold bind at 1 in H. destruct (P1 h) as (h1, r1) eqn:E1.
  assert (OK1 : ok_result r1) by (destruct r1; cbn; auto; inversion H; subst; exact OK).
  destruct (S1 h1 r1 eq_refl OK1) as (I1 & F1 & R1).
  destruct r1 as [[]|e]; [|inversion H; subst; auto].
  destruct mg; [|inversion H; subst; auto].
  destruct (try_merge_inv vctr h1 r x h' res I1 (R1 eq_refl) H OK) as (I' & F').
  split; auto. eapply (Fr_trans h h1 h' r x); eauto.
Qed.

(* ---- edits of a tree outside the program (the copy of OEqCopy) -------------------------------------------------------------------------------------------- *)
Lemma clr_inv a b r : clr a b -> Inv a r -> Inv b r.
Proof.
  intros (CO & K) I. eapply InvExc_cache_only; [exact CO|exact I|].
  intros z Rz _. eapply cvalid_cache_only_same; eauto. apply (inv_cache _ _ _ I); auto.
Qed.

Lemma upd_foreign_inv h r y f : Inv h r -> ~ reach h r y -> Inv (upd h y f) r.
Proof. intros I NR. eapply Inv_frame; [|exact I]. intros z Rz. apply get_upd_other. intros ->. auto. Qed.

Lemma foreign_setrep_inv h r y rd h' res : Inv h r -> ~ reach h r y -> set_repetition_definition y rd h = (h', res) -> Inv h' r.
Proof. intros I NR H. eapply clr_inv; [eapply set_repdef_effect; eauto|]. apply upd_foreign_inv; auto. Qed.

Lemma foreign_setwf_inv h r y w h' res : Inv h r -> ~ reach h r y -> set_waveform y w h = (h', res) -> Inv h' r.
Proof.
  intros I NR H. unfold set_waveform in H. rewrite bind_modn in H. unfold invalidate_all in H. rewrite fueled_eq in H.
  eapply invalidate_none_any; [exact H|]. apply upd_foreign_inv; auto.
Qed.

Lemma first_leaf_reach h : forall fuel c, reach h c (first_leaf fuel h c).
Proof.
  induction fuel as [|f IH]; intros c; cbn; [constructor|].
  destruct (get h c) as [n|] eqn:G; [|constructor]. destruct (children n) as [|c0 l] eqn:C; [constructor|].
  eapply reach_trans; [eapply reach_child; eauto; rewrite C; now left|apply IH].
Qed.

Lemma eqcopy_inv h r x k h' res : Inv h r -> (c <- copy_tree_structure x NPNone ;; perturb k c) h = (h', res) -> ok_result res -> Inv h' r.
Proof.
  intros I H OK. unfold bind at 1 in H.
  destruct (copy_tree_structure x NPNone h) as (h1, [c|e]) eqn:E1; pose proof (copy_one _ _ _ _ _ E1) as P1.
  2:{ inversion H; subst. destruct OK, P1; congruence. }
  destruct P1 as (Pre & SC). destruct (fresh_foreign h h1 r c _ I Pre SC) as (I1 & LC & FC & _).
  assert (NRc : ~ reach h1 r c) by (apply FC; constructor).
  unfold perturb in H. destruct (LI_live _ _ _ _ LC (reach_refl _ _)) as (nc & Gc). rewrite (bind_getn c nc _ h1 Gc) in H.
  destruct k as [|[|[|[|[|k]]]]].
  - inversion H; subst; auto.
  - unfold modn in H. inversion H; subst. apply upd_foreign_inv; auto.
  - eapply foreign_setrep_inv; eauto.
  - eapply foreign_setwf_inv; eauto.
  - set (d := first_leaf (S (length h1)) h1 c) in H.
    assert (NRd : ~ reach h1 r d) by (apply FC; apply first_leaf_reach).
    unfold bind, getn in H. destruct (get h1 d) as [nd|]; [|inversion H; subst; auto].
    eapply foreign_setrep_inv; eauto.
  - unfold modn in H. inversion H; subst. apply upd_foreign_inv; auto.
Qed.
