"""C09 — program-tree bookkeeping (cached durations, recorded positions, parent pointers) stays coherent under every
sequence of edits; Loop.__eq__ is decided by structure / counts / waveforms / measurements only."""
import fractions
import gc
import itertools
import warnings

import vlib
from vlib import gZ, gQ, gbool, gopt, glist

F = fractions.Fraction
PID = 'C09'
COQ_DIRS = ['common', 'C09']
TARGETS = ['C09/Props.vo', 'C09/Corr.vo']
MODEL_TARGETS = ['C09/Corr.vo']
PROPS_FILE = 'C09/Props.v'
PROPS_MODULE = 'QV.C09.Props'
CORR_IMPORTS = ['QV.C09.Model', 'QV.C09.Corr']
CHECK_CORR = 'check_corr'
CHECK_SPEC = 'check_spec'
SHARD = 60
RULE = ('a case = an initial Loop tree (depth <= 3, <= 3 children per node, counts 0..3 incl. volatile counts, constant and '
        'non-constant leaf waveforms with dyadic durations, optional measurements) + a history of editing/query '
        'operations (quick: <= 12, thorough: <= 30) whose target nodes are chosen by selectors resolved on the real tree; '
        'arguments include boundary values (negative / out-of-range indices, empty / extended / negative-step slices, '
        'count 0, unroll of the root, merge with measurements).  Plus exhaustive histories over a fixed 19-operation '
        'alphabet on seed trees (quick: length 2 on 2 trees, thorough: length <= 2 on 3 trees, length 3 on one); roll-centred histories; == against a structural copy that is left unchanged or changed in exactly one respect.  After EVERY operation '
        'every reachable node is observed (reported duration, parent_index, parent identity, locate(get_location())).  '
        'Round 2: forest histories - the harness keeps references to nodes (hold), removes them from the program in '
        'every way the API offers (slice / int assignment, unroll, merge, cleanup, reversed slice) and then edits the '
        'held node; the program and every held subtree outside it are observed after every step.  '
        'Round 3: deterministic families for input classes the older generators could not produce - a child replaced by '
        'a distinct but structurally EQUAL tree (8 ways) and then edited; the merged / cleaned / unrolled-away child edited '
        '(12 edits); held nodes THEMSELVES handed back (permutations, moves, one object at two places, a node below itself: '
        'cyclic structures cut the history); held copies with every new_parent form edited and inserted; encapsulate on '
        'nodes with count 0/2/3/volatile after duration reads; flatten_and_balance depth 0..4 and add_measurements - plus '
        'a random stream over the whole forest alphabet.  check_spec also evaluates the invariant on every held tree.  '
        'Round 4: the husk of every removing operation for removed nodes with count 1 / 0 / n / volatile; calls the caller '
        'survives inside try/except - non-integral float counts, wrong index / value / slice-part types, a non-Loop element '
        'after a Loop, both loop= and keywords, NaN / str / None / numpy counts, rejected assignments of nodes the caller holds - '
        'followed by observations of the whole forest and further edits; check_spec S4: a call that raised left the forest '
        'exactly as observed before (except the recursive reverse / cleanup / flatten).  '
        'Round 5: alias2 - a held child assigned to ANOTHER position of its own parent, the replaced sibling observed and '
        'edited; every forest case that can fall under a known finding is generated twice, the twin (CCorrOnly) is exempt '
        'from check_spec and judged by check_corr alone, so behaviour inside the known-finding classes is still compared.  '
        'Round 6: add_measurements is an operation of the history alphabet (random and exhaustive histories; 19-operation '
        'alphabet); wrap / wrap2 / wrapheld - a new loop built AROUND held children (1 or 2 levels; a leaf, an inner node, a '
        'child of an inner node, a child of a held tree outside the program, two neighbours together) is assigned to their own '
        'position by int / negative int / slice / extended slice in ONE step, durations read before, the wrapped node edited '
        'afterwards, then the wrapper unrolled / split / edited.  '
        'Non-trivial = history with >= 2 effective (non-query, non-raising) edits and >= 1 duration query before an edit; '
        'distinct = distinct canonical JSON of the case.')
TRUSTED = [
    'Coq 8.16.1 kernel + vm_compute (no native_compute)',
    'hand-written heap model coq/C09/Model.v, tied to /repo by the correspondence check only (no translator)',
    'waveforms are abstract (duration, constant value / ramp id, reversal flag): ConstantWaveform, TableWaveform and '
    'ReversedWaveform are used as opaque leaves; their own behaviour is C08',
    'weak parent references never die (the harness keeps every Loop object alive); operations address nodes by their '
    'position below the root or below a node the harness holds a reference to',
    'harness: generators, observation code (reads Loop.duration with a generic save/restore of all slots so that '
    'observing does not populate caches), exact rational conversion, Gallina printers',
]
ASSUMPTIONS = [
    'theorems: values inserted into a tree are freshly built Loop objects, fresh copies or kept old children of the same '
    'node; the correspondence also hands held nodes back (aliasing / cycles are generated, the model follows the code '
    'there, the property fails: known findings aliased-insert - attributed only from the step at which the CALLER created '
    'the aliasing -, floating-copy-explicit-parent; failed assignments have no effect since the repair of round 4)',
    'invalid-argument calls (OReject): the expected exception kind is a table in the harness read off the source; the '
    'model says "raises, no effect"',
    'Node.debug is off',
    'repetition counts stay small (<= a few thousand after merges)',
]

KINDS = {'IndexError': 'KIndex', 'TypeError': 'KType', 'ValueError': 'KValue', 'RuntimeError': 'KRuntime',
         'AttributeError': 'KAttr', 'AssertionError': 'KAssert'}
QUERY_OPS = {'qdur', 'qbody', 'eq', 'eqcopy', 'nop', 'hold', 'holdcopy'}

# ---------------------------------------------------------------------------------------------------------------------
# generation

DURS_C = ['1/2', '1', '3/2', '2', '3', '4', '6', '8', '9', '12', '16', '35/2', '35']
DURS_T = ['1/2', '1', '3/2', '2', '3', '5/4']


def rnd_wf(rng):
    r = rng.random()
    if r < 0.5:
        return ['c', rng.choice(DURS_C), rng.randint(-2, 2)]
    return ['t', rng.choice(DURS_T), rng.choice([1, 2, -1]), False]


def rnd_rdef(rng):
    r = rng.random()
    if r < 0.12:
        return ['v', rng.randint(0, 3), rng.randint(0, 2)]
    if r < 0.2:
        return 0
    return rng.choice([1, 1, 1, 2, 2, 3, 4])


def rnd_meas(rng):
    if rng.random() < 0.75:
        return None
    return [[rng.randint(0, 1), rng.choice(['0', '1/2', '1', '2']), rng.choice(['1/2', '1', '1/4'])]
            for _ in range(rng.randint(0, 2))]


def rnd_spec(rng, depth, leaf_p=0.35, maxc=3):
    if depth <= 0 or rng.random() < leaf_p:
        w = rnd_wf(rng) if rng.random() < 0.93 else None
        return {'r': rnd_rdef(rng), 'w': w, 'm': rnd_meas(rng), 'c': []}
    cs = [rnd_spec(rng, depth - 1, leaf_p + 0.15, maxc) for _ in range(rng.randint(1, maxc))]
    w = rnd_wf(rng) if rng.random() < 0.04 else None     # a waveform on an inner node is legal and ignored
    return {'r': rnd_rdef(rng), 'w': w, 'm': rnd_meas(rng), 'c': cs}


def rnd_sel(rng):
    return [rng.randint(0, 5) for _ in range(rng.choice([0, 0, 1, 1, 1, 2, 2, 3]))]


def rnd_optz(rng, lo=-4, hi=5):
    return None if rng.random() < 0.35 else rng.randint(lo, hi)


OPW = [('append', 10), ('setint', 6), ('setslice', 9), ('setwf', 5), ('setrep', 8), ('setrdef', 4), ('unroll', 6),
       ('unrollc', 5), ('split', 6), ('encaps', 5), ('merge', 5), ('cleanup', 4), ('reverse', 6), ('copyappend', 5),
       ('qdur', 14), ('qbody', 6), ('eq', 3), ('eqcopy', 5), ('setrepf', 3), ('bad', 4), ('addmeas', 5)]


def rnd_op(rng, allow_roll):
    names, weights = zip(*(OPW + ([('roll', 6)] if allow_roll else [])))
    k = rng.choices(names, weights)[0]
    op = {'op': k, 'sel': rnd_sel(rng)}
    if k == 'append':
        op.update(t=rnd_spec(rng, rng.choice([0, 0, 1, 2])), kw=rng.random() < 0.4)
    elif k == 'setint':
        op.update(idx=rng.choice([0, 0, 1, 2, -1, -1, -2, 3, -4]), t=rnd_spec(rng, rng.choice([0, 0, 1])))
    elif k == 'setslice':
        step = rng.choice([None, None, None, 1, 2, -1, -1, 2, 3, -2, 0])
        op.update(start=rnd_optz(rng), stop=rnd_optz(rng), step=step,
                  ts=[rnd_spec(rng, rng.choice([0, 0, 1])) for _ in range(rng.choice([0, 1, 1, 2, 2, 3]))])
    elif k == 'setwf':
        op.update(w=rnd_wf(rng) if rng.random() < 0.9 else None)
    elif k == 'setrep':
        op.update(z=rng.choice([0, 1, 1, 2, 3, 5, -1]))
    elif k == 'setrdef':
        op.update(r=rnd_rdef(rng))
    elif k == 'split':
        op.update(ci=rng.choice([None, None, None, 0, 1, -1, 2, 5]))
    elif k == 'cleanup':
        op.update(rm=rng.random() < 0.7, mg=rng.random() < 0.7)
    elif k == 'roll':
        op.update(mq=rng.choice([1, 2, 2, 3]), q=rng.choice([1, 2, 4, 8]), sr=rng.choice(['1', '1', '2', '1/2']))
    elif k == 'copyappend':
        op.update(dst=rnd_sel(rng), np=rng.randint(0, 2))
    elif k == 'eq':
        op.update(sel2=rnd_sel(rng))
    elif k == 'eqcopy':
        op.update(k=rng.choice([0, 0, 1, 1, 2, 3, 4, 5]))
    elif k == 'setrepf':
        op.update(zf=rng.choice(FLOAT_COUNTS))
    elif k == 'bad':
        op.update(which=rng.choice(sorted(BAD)))
    elif k == 'addmeas':      # round 6: add_measurements is an operation of the history alphabet (OAddMeas)
        op.update(ms=rnd_meas(rng) or [[0, '0', '1']])
    return op


# round 4: calls the caller survives inside try/except.  Float counts: accepted iff integral within 1e-10 (5.0, 3.00000000001),
# rejected otherwise (ValueError) - 2.99999999999 truncates to 2 and is rejected
FLOAT_COUNTS = ['7.5', '1.25', '2.999', '-0.5', '2.99999999999', '0.3', '1e-11', '5.0', '3.00000000001', '0.0', '2.0', '1.0']
# invalid-argument calls -> the exception the code documents / raises BEFORE it touches anything (read off the source)
BAD = {
    'setrep_str': 'KAssert', 'setrep_none': 'KAssert', 'setrep_nan': 'KValue', 'setrep_npint': 'KAssert',
    'setint_stridx': 'KType', 'setint_floatidx': 'KType', 'setint_noneidx': 'KType', 'setint_intval': None, 'setint_noneval': None,
    'setslice_loopval': 'KType', 'setslice_badelem': 'KType', 'setslice_noniter': 'KType', 'setslice_strpart': 'KType',
    'append_both': 'KValue', 'append_badkw': 'KType', 'append_badrep': 'KAssert', 'append_intval': 'KType',
    'split_float': 'KType', 'split_str': 'KType', 'copy_badparent': 'KType',
}


def do_bad(env, x, which, vals=None):
    """performs the invalid call `which` on node x (values: `vals` = Loop objects the caller holds, default fresh ones);
    returns the expected outcome kind"""
    fresh = lambda: env.build(L(['c', '3', 1]))
    v = (vals or [fresh()])[0]
    exp = BAD[which]
    if which == 'setrep_str':
        x.repetition_count = '3'
    elif which == 'setrep_none':
        x.repetition_count = None
    elif which == 'setrep_nan':
        x.repetition_count = float('nan')
    elif which == 'setrep_npint':
        import numpy
        x.repetition_count = numpy.int64(3)
    elif which == 'setint_stridx':
        x['a'] = v
    elif which == 'setint_floatidx':
        x[1.0] = v
    elif which == 'setint_noneidx':
        x[None] = v
    elif which in ('setint_intval', 'setint_noneval'):
        exp = 'KIndex' if len(x) == 0 else 'KType'       # the index is looked at first (as list.__setitem__ would)
        x[0] = 5 if which == 'setint_intval' else None
    elif which == 'setslice_loopval':
        x[0:1] = v
    elif which == 'setslice_badelem':
        x[0:1] = list(vals or [fresh()]) + [5]
    elif which == 'setslice_noniter':
        x[0:1] = 5
    elif which == 'setslice_strpart':
        x['a':] = list(vals or [fresh()])
    elif which == 'append_both':
        x.append_child(loop=v, waveform=None)
    elif which == 'append_badkw':
        x.append_child(foo=1)
    elif which == 'append_badrep':
        x.append_child(repetition_count=1.5, waveform=env.wf(['c', '3', 1]))
    elif which == 'append_intval':
        x.append_child(loop=5)
    elif which == 'split_float':
        x.split_one_child(0.5)
    elif which == 'split_str':
        x.split_one_child('a')
    elif which == 'copy_badparent':
        x.copy_tree_structure(new_parent=5)
    else:
        raise KeyError(which)
    return exp


def L(w, r=1, m=None):
    return {'r': r, 'w': w, 'm': m, 'c': []}


def N(cs, r=1, m=None):
    return {'r': r, 'w': None, 'm': m, 'c': cs}


SEEDS = [
    N([L(['t', '1', 1, False]), N([L(['c', '2', 1], 2), L(['t', '3/2', 2, False])], 2)]),
    N([N([L(['c', '8', 1], 3)], 2, [[0, '0', '1']]), L(['t', '1/2', 1, False], 2)], 2),
    N([L(['c', '4', 0]), L(['t', '1', 1, False], 3), N([L(['t', '2', 2, False])], 1)], 1, [[1, '1/2', '1/2']]),
]
ALPHABET = [
    {'op': 'qdur', 'sel': []},
    {'op': 'qdur', 'sel': [1]},
    {'op': 'append', 'sel': [1], 't': L(['c', '3', 1], 2), 'kw': False},
    {'op': 'append', 'sel': [], 't': N([L(['t', '1', 1, False])], 2), 'kw': True},
    {'op': 'setint', 'sel': [], 'idx': -1, 't': L(['c', '1', 1])},
    {'op': 'setslice', 'sel': [], 'start': None, 'stop': None, 'step': -1, 'ts': [L(['c', '1', 1]), L(['c', '2', 1])]},
    {'op': 'setslice', 'sel': [], 'start': 1, 'stop': None, 'step': None, 'ts': [L(['c', '5', 1])]},
    {'op': 'setwf', 'sel': [0], 'w': ['c', '6', 2]},
    {'op': 'setrep', 'sel': [1], 'z': 3},
    {'op': 'setrep', 'sel': [0, 0], 'z': 2},
    {'op': 'unroll', 'sel': [1]},
    {'op': 'unrollc', 'sel': []},
    {'op': 'split', 'sel': [], 'ci': None},
    {'op': 'encaps', 'sel': [0]},
    {'op': 'cleanup', 'sel': [], 'rm': True, 'mg': True},
    {'op': 'reverse', 'sel': []},
    {'op': 'roll', 'sel': [], 'mq': 2, 'q': 1, 'sr': '1'},
    {'op': 'setwf', 'sel': [0, 0], 'w': ['c', '12', 2]},
    {'op': 'addmeas', 'sel': [1], 'ms': [[0, '0', '1'], [1, '1/2', '1/2']]},
]


def gen_cases(rng, tier, ctx):
    cases = []
    quick = tier == 'quick'
    # exhaustive small histories
    seeds = SEEDS[:2] if quick else SEEDS
    for k, seed in enumerate(seeds):
        # round 5: the thorough tier was trimmed (36k cases, several GB of observations: killed under memory pressure):
        # length 3 on the first seed tree only, random streams halved
        for n in ([2] if quick else [1, 2, 3] if k == 0 else [1, 2]):
            for combo in itertools.product(range(len(ALPHABET)), repeat=n):
                cases.append({'kind': 'hist', 'src': 'exh%d' % n, 'init': seed,
                              'ops': [ALPHABET[i] for i in combo] + [{'op': 'qdur', 'sel': [0]}]})
    # random histories
    n_rand = 330 if quick else 3000
    maxlen = 12 if quick else 30
    for i in range(n_rand):
        allow_roll = rng.random() < 0.25
        init = rnd_spec(rng, rng.choice([1, 2, 2, 3]), leaf_p=0.15)
        n = rng.randint(2, maxlen)
        cases.append({'kind': 'hist', 'src': 'rand', 'init': init, 'ops': [rnd_op(rng, allow_roll) for _ in range(n)]})
    # roll-centred histories: constant leaves that really get rolled, queries before, edits of the rolled leaves after
    for i in range(60 if quick else 800):
        def cl():
            return L(['c', rng.choice(['4', '6', '8', '9', '12', '16']), rng.randint(0, 2)], rng.choice([1, 2, 3]))
        init = N([cl(), N([cl(), cl()], rng.choice([1, 2])), cl()][:rng.randint(1, 3)], rng.choice([1, 2]))
        ops = []
        for _ in range(rng.randint(3, 8 if quick else 14)):
            r = rng.random()
            if r < 0.3:
                ops.append({'op': rng.choice(['qdur', 'qbody']), 'sel': rnd_sel(rng)})
            elif r < 0.55:
                ops.append({'op': 'roll', 'sel': rng.choice([[], [], [1]]), 'mq': rng.choice([1, 2, 2, 3]),
                            'q': rng.choice([1, 1, 2]), 'sr': rng.choice(['1', '1', '2', '1/2'])})
            elif r < 0.7:
                ops.append({'op': 'setwf', 'sel': rnd_sel(rng), 'w': ['c', rng.choice(['4', '8', '12', '3']), 1]})
            elif r < 0.8:
                ops.append({'op': 'setrep', 'sel': rnd_sel(rng), 'z': rng.choice([1, 2, 3])})
            elif r < 0.9:
                ops.append({'op': 'append', 'sel': rnd_sel(rng), 't': cl(), 'kw': rng.random() < 0.5})
            else:
                ops.append(rnd_op(rng, True))
        cases.append({'kind': 'hist', 'src': 'rollmix', 'init': init, 'ops': ops})
    # round 3, deterministic (seed C09-1's class): caches populated, constants rolled (the rolled leaf's cache is reset while
    # its ancestors' stay), then the ROLLED leaf is edited before anything re-queries it, then ancestors are queried
    cl2 = lambda d, r=1: L(['c', d, 1], r)
    for init in (N([cl2('8'), N([cl2('12', 2), cl2('4')], 2)], 2), N([N([N([cl2('16')], 3)], 2)])):
        leaves = [[0], [1, 0]] if len(init['c']) == 2 else [[0, 0, 0]]
        for pre in ([], [0], leaves[-1]):
            for lp in leaves:
                for ed in ({'op': 'setwf', 'sel': lp, 'w': ['c', '3', 1]}, {'op': 'setwf', 'sel': lp, 'w': None},
                           {'op': 'append', 'sel': lp, 't': cl2('5'), 'kw': False}, {'op': 'append', 'sel': lp, 't': cl2('5'), 'kw': True},
                           {'op': 'setslice', 'sel': lp, 'start': None, 'stop': None, 'step': None, 'ts': [cl2('7')]},
                           {'op': 'setrep', 'sel': lp, 'z': 5}, {'op': 'encaps', 'sel': lp}, {'op': 'reverse', 'sel': lp}):
                    cases.append({'kind': 'hist', 'src': 'rolledit', 'init': init, 'ops': [
                        {'op': 'qdur', 'sel': pre}, {'op': 'roll', 'sel': [], 'mq': 2, 'q': 1, 'sr': '1'}, ed,
                        {'op': 'qdur', 'sel': lp[:-1]}, {'op': 'qdur', 'sel': []}]})
    cases.extend(gen_forest(rng, quick))
    cases.extend(gen_forest3(rng, quick))
    cases.extend(gen_round4(rng, quick))
    cases.extend(gen_round5(rng, quick))
    cases.extend(gen_round6(rng, quick))
    # round 5: twins.  The check drops a model-vs-implementation disagreement of a case whose specification fails under a known
    # finding, so a change of behaviour INSIDE a known-finding class was invisible.  Every forest case that can reach one (the
    # caller hands held nodes back, or holds a copy with an explicit parent) is generated a second time; when the run falls
    # under a known finding the twin is judged by the correspondence alone (CCorrOnly), otherwise it is an empty case.
    cases.extend(dict(c, twin=True, src=c.get('src', '?') + '+twin') for c in list(cases) if _can_be_known(c))
    return cases


# round 5 (audit of the known-finding classes, hand mutation "x[i] = v skips the detaching of the replaced child when v is
# already a child of x"): inside the aliased class no family held the node that the aliased insert REPLACES - a held child of
# x is assigned to ANOTHER position of the same x (int / negative int / one-element slice / one-element extended slice), the
# replaced sibling (held as well) is observed and edited, then the doubly listed node is edited through the program
def gen_round5(rng, quick):
    cases = []
    lf = lambda d, r=1, v=1: L(['c', d, v], r)
    M = lambda o: {'f': 'main', 'op': o}
    Q = lambda sel=(): M({'op': 'qdur', 'sel': list(sel)})
    AT = lambda k, o: {'f': 'at', 'k': k, 'op': o}
    H = lambda sel: {'f': 'hold', 'sel': list(sel)}
    T3 = N([N([lf('1'), lf('2', 2)], 2), lf('4', 3), N([lf('8')], 1)], 2)
    edits = [{'op': 'append', 'sel': [], 't': lf('7'), 'kw': False}, {'op': 'setrep', 'sel': [], 'z': 4},
             {'op': 'setwf', 'sel': [], 'w': ['c', '5', 1]}]
    for par, n in (([], 3), ([0], 2)):
        for i in range(n):
            for j in range(n):
                if i == j:
                    continue
                for how in (['int', j], ['int', j - n], ['slice', j, j + 1, None], ['slice', j, None, n]):
                    for e, ed in enumerate(edits):
                        if quick and (i + j + e) % 3 and not (how == ['int', j] and e == 0):
                            continue
                        cases.append({'kind': 'forest', 'src': 'alias2', 'init': T3, 'ops': (
                            [Q()] + [H(par + [k]) for k in range(n)] +
                            [{'f': 'ins', 'ks': [i], 'b': None, 'dst': par, 'how': how}, Q(), AT(j, ed), Q(),
                             AT(j, {'op': 'qdur', 'sel': []}), M({'op': 'append', 'sel': par + [j], 't': lf('3'), 'kw': True}), Q()])})
    return cases


# round 6 (seed C09-10's class: the replaced child is already owned by the new value).  A held child (leaf, inner node,
# child of an inner node, child of a detached held tree) is wrapped into a new loop - 1 or 2 levels, count 3 or 1 - which is
# assigned to the child's own position by int / negative int / one-element slice / one-element extended slice; two
# neighbours wrapped together by a two-element slice (what encapsulate does one level up).  Durations are read before, the
# wrapped node is edited through the program afterwards (waveform / count / append / slice assignment), durations read
# again, then the wrapper is unrolled / split / replaced so that the wrapped node's recorded position is used.
def gen_round6(rng, quick):
    cases = []
    lf = lambda d, r=1, v=1: L(['c', d, v], r)
    M = lambda o: {'f': 'main', 'op': o}
    Q = lambda sel=(): M({'op': 'qdur', 'sel': list(sel)})
    AT = lambda k, o: {'f': 'at', 'k': k, 'op': o}
    H = lambda sel: {'f': 'hold', 'sel': list(sel)}
    T3 = N([N([lf('1'), lf('2', 2)], 2), lf('4', 3), N([lf('8')], 1)], 2)

    def edits(sel):
        return [{'op': 'setwf', 'sel': sel, 'w': ['c', '5', 1]}, {'op': 'setrep', 'sel': sel, 'z': 4},
                {'op': 'append', 'sel': sel, 't': lf('7'), 'kw': False},
                {'op': 'setslice', 'sel': sel, 'start': None, 'stop': None, 'step': None, 'ts': [lf('7'), lf('3')]}]

    def after(wsel):
        return [{'op': 'unroll', 'sel': wsel}, {'op': 'split', 'sel': wsel, 'ci': None}, {'op': 'unrollc', 'sel': wsel},
                {'op': 'setint', 'sel': wsel, 'idx': 0, 't': lf('6', 2)}]
    n_case = 0
    for par, n in (([], 3), ([0], 2), ([2], 1)):
        for i in range(n):
            for hi, how in enumerate((['int', i], ['int', i - n], ['slice', i, i + 1, None], ['slice', i, None, n])):
                for depth in (1, 2):
                    for r in (3, 1):
                        wsel = par + [i]
                        csel = wsel + [0] * depth
                        eds, afs = edits(csel), after(wsel)
                        for e in range(len(eds)):
                            n_case += 1
                            if quick and (n_case % 4) and not (hi == 0 and e == 0):
                                continue
                            cases.append({'kind': 'forest', 'src': 'wrap', 'init': T3, 'ops': (
                                [Q(), H(wsel), {'f': 'wrap', 'ks': [0], 'depth': depth, 'r': r, 'b': None, 'dst': par, 'how': how},
                                 Q(), M(eds[e]), Q(), M(afs[(e + hi + depth) % len(afs)]), Q()])})
    # two neighbours wrapped together (slice of two positions); the second one edited afterwards
    for i in (0, 1):
        for depth in (1, 2):
            for e, ed in enumerate(edits([i] + [0] * (depth - 1) + [1])):
                cases.append({'kind': 'forest', 'src': 'wrap2', 'init': T3, 'ops': (
                    [Q(), H([i]), H([i + 1]),
                     {'f': 'wrap', 'ks': [0, 1], 'depth': depth, 'r': 2, 'b': None, 'dst': [], 'how': ['slice', i, i + 2, None]},
                     Q(), M(ed), Q(), M({'op': 'unroll', 'sel': [i]}), Q()])})
    # below a held tree that dropped out of the program: its child is wrapped in place, edited through the held tree
    for how in (['int', 1], ['int', -1], ['slice', 1, 2, None]):
        for depth in (1, 2):
            for e, ed in enumerate(edits([1] + [0] * depth)):
                if quick and (e + depth) % 2:
                    continue
                cases.append({'kind': 'forest', 'src': 'wrapheld', 'init': T3, 'ops': (
                    [Q(), H([0]), H([0, 1]), M({'op': 'setint', 'sel': [], 'idx': 0, 't': lf('6')}),
                     AT(0, {'op': 'qdur', 'sel': []}),
                     {'f': 'wrap', 'ks': [1], 'depth': depth, 'r': 3, 'b': 0, 'dst': [], 'how': how},
                     AT(0, {'op': 'qdur', 'sel': []}), AT(0, ed), AT(0, {'op': 'qdur', 'sel': []}), Q()])})
    return cases


def _can_be_known(case):
    return case.get('kind') == 'forest' and any(
        o.get('f') == 'ins' or (o.get('f') == 'holdcopy' and o.get('np') == 2) for o in case['ops'])


# round 2: the user keeps references to nodes; a node that dropped out of the program is edited afterwards
REMOVERS = ['setslice', 'setslice', 'setint', 'unroll', 'merge', 'cleanup', 'unrollc', 'encaps', 'split']
EDITS = ['append', 'append', 'setwf', 'setrep', 'setslice', 'setint', 'copyappend', 'unrollc', 'reverse', 'qdur', 'encaps', 'split',
         'cleanup', 'setrepf', 'bad']


def rnd_op_of(rng, kinds):
    while True:
        op = rnd_op(rng, False)
        if op['op'] in kinds:
            return op


def gen_forest(rng, quick):
    cases = []
    leaf = lambda d: L(['c', d, 1], 1)
    # directed: query, hold child i, remove it from its parent in different ways, edit it, query
    removers = [
        lambda i: {'op': 'setslice', 'sel': [], 'start': i, 'stop': i + 1, 'step': None, 'ts': [leaf('3')]},
        lambda i: {'op': 'setint', 'sel': [], 'idx': i, 't': leaf('3')},
        lambda i: {'op': 'setslice', 'sel': [], 'start': None, 'stop': None, 'step': None, 'ts': []},
        lambda i: {'op': 'unroll', 'sel': [i]},
        lambda i: {'op': 'setslice', 'sel': [], 'start': None, 'stop': None, 'step': -1, 'ts': None},
        lambda i: {'op': 'cleanup', 'sel': [], 'rm': True, 'mg': True},
        lambda i: {'op': 'merge', 'sel': []},
    ]
    edits = [
        {'op': 'append', 'sel': [], 't': leaf('7'), 'kw': False},
        {'op': 'setwf', 'sel': [0], 'w': ['c', '5', 1]},
        {'op': 'setrep', 'sel': [0], 'z': 4},
        {'op': 'append', 'sel': [0], 't': leaf('2'), 'kw': True},
    ]
    inits = [N([N([leaf('1')], 2)]), N([N([leaf('1'), leaf('2')], 2), leaf('4')], 2), N([N([N([leaf('1')], 3)], 1)], 2)]
    for init in inits:
        nch = len(init['c'])
        for i in range(nch):
            for rm in removers:
                for ed in edits:
                    r = rm(i)
                    if r.get('ts', 0) is None:
                        r['ts'] = [leaf('1') for _ in range(nch)]
                    cases.append({'kind': 'forest', 'src': 'fdir', 'init': init, 'ops': [
                        {'f': 'main', 'op': {'op': 'qdur', 'sel': []}}, {'f': 'hold', 'sel': [i]}, {'f': 'main', 'op': r},
                        {'f': 'main', 'op': {'op': 'qdur', 'sel': []}},      # the former parent chain caches again
                        {'f': 'at', 'k': 0, 'op': ed}, {'f': 'main', 'op': {'op': 'qdur', 'sel': []}},
                        {'f': 'at', 'k': 0, 'op': {'op': 'qdur', 'sel': []}}]})
    if quick:
        cases = cases[::2]
    for _ in range(120 if quick else 1500):
        init = rnd_spec(rng, rng.choice([2, 2, 3]), leaf_p=0.1)
        ops = []
        for _ in range(rng.randint(4, 10 if quick else 22)):
            r = rng.random()
            if r < 0.2:
                ops.append({'f': 'hold', 'sel': [rng.randint(0, 3) for _ in range(rng.choice([1, 1, 2]))]})
            elif r < 0.45:
                ops.append({'f': 'at', 'k': rng.randint(0, 2), 'op': rnd_op_of(rng, EDITS)})
            elif r < 0.6:
                ops.append({'f': 'main', 'op': {'op': 'qdur', 'sel': rnd_sel(rng)}})
            elif r < 0.85:
                ops.append({'f': 'main', 'op': rnd_op_of(rng, REMOVERS)})
            else:
                ops.append({'f': 'main', 'op': rnd_op(rng, False)})
        cases.append({'kind': 'forest', 'src': 'frand', 'init': init, 'ops': ops})
    return cases


# round 3: input classes the generators above cannot produce (all deterministic families + a random stream)
def gen_forest3(rng, quick):
    cases = []
    lf = lambda d, r=1, v=1: L(['c', d, v], r)
    M = lambda o: {'f': 'main', 'op': o}
    Q = lambda sel=(): M({'op': 'qdur', 'sel': list(sel)})
    AT = lambda k, o: {'f': 'at', 'k': k, 'op': o}
    QH = lambda k: AT(k, {'op': 'qdur', 'sel': []})
    held_edits = [
        {'op': 'append', 'sel': [], 't': lf('7'), 'kw': False},
        {'op': 'append', 'sel': [0], 't': lf('2'), 'kw': True},
        {'op': 'setwf', 'sel': [0], 'w': ['c', '5', 1]},
        {'op': 'setrep', 'sel': [], 'z': 4},
        {'op': 'reverse', 'sel': []},
        {'op': 'encaps', 'sel': []},
        {'op': 'setslice', 'sel': [], 'start': 0, 'stop': 1, 'step': None, 'ts': []},
        {'op': 'setslice', 'sel': [], 'start': None, 'stop': None, 'step': -1, 'ts': [lf('1'), lf('2')]},
        {'op': 'split', 'sel': [], 'ci': None},
        {'op': 'unrollc', 'sel': []},
        {'op': 'cleanup', 'sel': [], 'rm': True, 'mg': True},
        {'op': 'setint', 'sel': [], 'idx': -1, 't': lf('3')},
    ]

    def add(src, init, ops):
        cases.append({'kind': 'forest', 'src': src, 'init': init, 'ops': ops})

    # (a) a child is replaced by a DISTINCT BUT STRUCTURALLY EQUAL node (Loop.__eq__ is structural: `in` / `==` based
    #     bookkeeping confuses the two), in every way the API offers; then the replaced node is edited
    A = N([lf('1'), lf('2', 2)], 2)
    B = lf('4', 3)
    for init, specs in ((N([A, B], 2), [A, B]), (N([A, A, B]), [A, A, B]), (N([N([B, B], 2), A]), [N([B, B], 2), A])):
        n = len(specs)
        for i in range(n):
            repl = [
                M({'op': 'setint', 'sel': [], 'idx': i, 't': specs[i]}),
                M({'op': 'setint', 'sel': [], 'idx': i - n, 't': specs[i]}),
                M({'op': 'setslice', 'sel': [], 'start': i, 'stop': i + 1, 'step': None, 'ts': [specs[i]]}),
                M({'op': 'setslice', 'sel': [], 'start': None, 'stop': None, 'step': None, 'ts': list(specs)}),
                M({'op': 'setslice', 'sel': [], 'start': None, 'stop': None, 'step': -1, 'ts': list(reversed(specs))}),
                M({'op': 'setslice', 'sel': [], 'start': i, 'stop': None, 'step': n, 'ts': [specs[i]]}),
                M({'op': 'setslice', 'sel': [], 'start': i, 'stop': i + 1, 'step': None, 'ts': [specs[i], specs[i]]}),
                M({'op': 'unrollc', 'sel': []}),
            ]
            for r in repl:
                for ed in held_edits[:6]:
                    add('eqrepl', init, [Q(), {'f': 'hold', 'sel': [i]}, r, Q(), AT(0, ed), Q(), QH(0),
                                         M({'op': 'eq', 'sel': [i], 'sel2': [(i + 1) % n]})])
    # (b) the merged-away / cleaned-away / unrolled child is edited through a held reference (the husk)
    for init in (N([N([N([lf('1'), lf('2', 2)], 2)], 1), lf('4')]), N([N([N([lf('1', 3)], 2, [[0, '0', '1']])], 3)], 2),
                 N([N([N([lf('1'), N([lf('2')], 2)], 2)], 2, [[1, '0', '1/2']]), lf('4')], 1)):
        for rm in ({'op': 'merge', 'sel': [0]}, {'op': 'cleanup', 'sel': [0], 'rm': True, 'mg': True},
                   {'op': 'cleanup', 'sel': [], 'rm': False, 'mg': True}, {'op': 'unroll', 'sel': [0, 0]},
                   {'op': 'unrollc', 'sel': [0]}, {'op': 'encaps', 'sel': [0]}):
            for ed in held_edits:
                add('husk', init, [Q(), {'f': 'hold', 'sel': [0, 0]}, M(rm), Q(), AT(0, ed), Q(), QH(0), Q([0, 0])])
            add('husk', init, [Q(), {'f': 'hold', 'sel': [0, 0]}, M(rm), Q(),
                               {'f': 'flatten', 'b': 0, 'sel': [], 'depth': 1}, Q(), QH(0)])
    # (c) held nodes THEMSELVES are handed back: reordering / moving (legal: every node ends up listed once) and
    #     aliasing (one object at two places, a node below itself: known finding aliased-insert)
    T3 = N([N([lf('1'), lf('2', 2)], 2), lf('4', 3), N([lf('8')], 1)], 2)
    H = lambda sel: {'f': 'hold', 'sel': list(sel)}
    INS = lambda ks, dst, how, b=None: {'f': 'ins', 'ks': list(ks), 'b': b, 'dst': list(dst), 'how': how}
    whole = ['slice', None, None, None]
    for perm in ([1, 0, 2], [2, 1, 0], [1, 2, 0], [0, 2], [2], [0, 1, 2], [0, 0, 1], [1, 1], [0, 1, 2, 0]):
        for how in (whole, ['slice', 0, 3, None], ['slice', None, None, -1] if len(perm) == 3 else ['slice', 0, 2, None]):
            add('reorder', T3, [Q(), H([0]), H([1]), H([2]), INS(perm, [], how), Q(),
                                AT(0, held_edits[0]), M({'op': 'append', 'sel': [0], 't': lf('3'), 'kw': False}), Q(), QH(0)])
    for src_sel, dst, how in (([0], [2], ['app']), ([0], [2], ['int', 0]), ([0], [], ['app']), ([0], [], ['int', -1]),
                              ([0, 1], [], ['app']), ([0, 1], [2], ['slice', 0, 0, None]), ([2], [0], ['slice', 1, None, None])):
        for detach_first in (False, True):
            ops = [Q(), H(src_sel)]
            if detach_first:     # a legal move: the node is removed from its place first
                ops += [M({'op': 'setslice', 'sel': src_sel[:-1], 'start': src_sel[-1], 'stop': src_sel[-1] + 1, 'step': None,
                           'ts': []}), Q()]
            ops += [INS([0], dst, how), Q(), {'f': 'ins', 'ks': [0], 'b': 0, 'dst': [], 'how': ['app']} if False else
                    AT(0, held_edits[0]), M({'op': 'append', 'sel': dst + [0], 't': lf('5'), 'kw': True}), Q(),
                    M({'op': 'setwf', 'sel': dst + [0, 0], 'w': ['c', '6', 1]}), Q()]
            add('move' if detach_first else 'alias', T3, ops)
    # a node assigned into its own descendant / into itself
    for sel, dst, how in (([0], [0], ['app']), ([0], [], ['int', 0]), ([0], [1], ['app']), ([], [0], ['app']), ([], [0, 1], ['app']),
                          ([], [], ['app']), ([0], [], ['slice', None, None, None]), ([], [2], ['slice', 0, 1, None])):
        for pre in ([], [Q()]):
            add('cycle', T3, pre + [H(sel), INS([0], dst, how, b=0 if sel else None), Q()])
    # (d) copies: default / None / explicit new_parent; the copy is edited (waveform objects are shared with the
    #     original), the original is edited, the copy is inserted
    for np_ in (0, 1, 2):
        for sel in ([0], [0, 1], [2], []):
            for ed in held_edits[:5] + [{'op': 'roll', 'sel': [], 'mq': 2, 'q': 1, 'sr': '1'}]:
                add('copy', T3, [Q(), {'f': 'holdcopy', 'b': None, 'sel': sel, 'np': np_, 'q': [2]}, AT(0, ed), Q(), QH(0),
                                 M({'op': 'roll', 'sel': [], 'mq': 2, 'q': 1, 'sr': '1'}), Q(), QH(0),
                                 M({'op': 'eq', 'sel': sel, 'sel2': sel}),
                                 INS([0], [2], ['app']), Q(), M({'op': 'setwf', 'sel': [2, 1], 'w': ['c', '3', 1]}), Q()])
    # (e) encapsulate on nodes with count != 1 after a duration read; add_measurements; flatten_and_balance
    for r in (0, 2, 3, ['v', 2, 0], ['v', 0, 1]):
        init = N([N([lf('1'), lf('2', 2)], r, [[0, '0', '1']]), L(['t', '3/2', 1, False], r)], 2)
        for sel in ([0], [1], [], [0, 1]):
            for q in (Q(), Q(sel), M({'op': 'qbody', 'sel': sel}), M({'op': 'nop', 'sel': []})):
                add('encaps', init, [q, M({'op': 'encaps', 'sel': sel}), Q(), M({'op': 'append', 'sel': sel + [0], 't': lf('5'), 'kw': False}),
                                     Q(), M({'op': 'setrep', 'sel': sel + [0], 'z': 3}), Q(), M({'op': 'encaps', 'sel': sel + [0]}), Q()])
    for depth in (0, 1, 2, 3, 4):
        for init in (T3, SEEDS[0], SEEDS[1], SEEDS[2], N([lf('1'), N([N([lf('2', 2)], 0), lf('3')], 2)], 3)):
            for sel in ([], [0]):
                add('flatten', init, [Q(), {'f': 'flatten', 'b': None, 'sel': sel, 'depth': depth}, Q(),
                                      M({'op': 'append', 'sel': [0], 't': lf('5'), 'kw': False}), Q(),
                                      {'f': 'addmeas', 'b': None, 'sel': sel, 'ms': [[0, '0', '1'], [1, '1/2', '1/2']]}, Q(),
                                      {'f': 'flatten', 'b': None, 'sel': [], 'depth': depth - 1}, Q()])
    if quick:
        keep_all = ('cycle', 'alias', 'move')
        off = rng.randint(0, 2)
        cases = [c for i, c in enumerate(cases) if c['src'] in keep_all or i % 3 == off]
    # random stream over the whole forest alphabet
    for _ in range(110 if quick else 1500):
        init = rnd_spec(rng, rng.choice([2, 2, 3]), leaf_p=0.1)
        ops = []
        for _ in range(rng.randint(4, 10 if quick else 22)):
            r = rng.random()
            b = rng.choice([None, None, 0, 1, 2])
            if r < 0.14:
                ops.append({'f': 'hold', 'sel': [rng.randint(0, 3) for _ in range(rng.choice([1, 1, 2]))]})
            elif r < 0.22:
                ops.append({'f': 'holdcopy', 'b': b, 'sel': rnd_sel(rng), 'np': rng.choice([0, 0, 1, 2]), 'q': rnd_sel(rng)})
            elif r < 0.36:
                how = rng.choice([['app'], ['app'], ['int', rng.choice([0, -1, 1, 3])],
                                  ['slice', rnd_optz(rng), rnd_optz(rng), rng.choice([None, None, 1, -1, 2])]])
                ops.append({'f': 'ins', 'ks': [rng.randint(0, 3) for _ in range(rng.choice([1, 1, 1, 2, 3]))], 'b': b,
                            'dst': rnd_sel(rng), 'how': how})
            elif r < 0.42:
                ops.append({'f': 'addmeas', 'b': b, 'sel': rnd_sel(rng), 'ms': rnd_meas(rng) or [[0, '0', '1']]})
            elif r < 0.48:
                ops.append({'f': 'flatten', 'b': b, 'sel': rnd_sel(rng), 'depth': rng.randint(0, 4)})
            elif r < 0.62:
                ops.append({'f': 'at', 'k': rng.randint(0, 2), 'op': rnd_op_of(rng, EDITS)})
            elif r < 0.76:
                ops.append({'f': 'main', 'op': {'op': 'qdur', 'sel': rnd_sel(rng)}})
            elif r < 0.9:
                ops.append({'f': 'main', 'op': rnd_op_of(rng, REMOVERS)})
            else:
                ops.append({'f': 'main', 'op': rnd_op(rng, False)})
        cases.append({'kind': 'forest', 'src': 'frand3', 'init': init, 'ops': ops})
    return cases


# round 4: (a) the husk of EVERY operation that removes a node from the tree, for every kind of repetition count of the removed
# node (exactly 1 - "nothing is repeated, just move the children" -, 0, n, volatile 1, volatile n), edited afterwards / the
# moved-up nodes edited and the husk observed; (b) calls with invalid arguments inside try/except (the caller survives),
# then the whole forest is observed and used further
def gen_round4(rng, quick):
    cases = []
    lf = lambda d, r=1, v=1: L(['c', d, v], r)
    M = lambda o: {'f': 'main', 'op': o}
    Q = lambda sel=(): M({'op': 'qdur', 'sel': list(sel)})
    AT = lambda k, o: {'f': 'at', 'k': k, 'op': o}
    QH = lambda k: AT(k, {'op': 'qdur', 'sel': []})
    H = lambda sel: {'f': 'hold', 'sel': list(sel)}
    INS = lambda ks, dst, how, b=None: {'f': 'ins', 'ks': list(ks), 'b': b, 'dst': list(dst), 'how': how}

    def add(src, init, ops):
        cases.append({'kind': 'forest', 'src': src, 'init': init, 'ops': ops})

    husk_edits = [
        {'op': 'reverse', 'sel': []},
        {'op': 'encaps', 'sel': []},
        {'op': 'append', 'sel': [], 't': lf('7'), 'kw': False},
        {'op': 'append', 'sel': [1], 't': lf('2'), 'kw': True},
        {'op': 'setwf', 'sel': [0], 'w': ['c', '5', 1]},
        {'op': 'setrep', 'sel': [1], 'z': 4},
        {'op': 'setrep', 'sel': [], 'z': 4},
        {'op': 'setslice', 'sel': [], 'start': 0, 'stop': 1, 'step': None, 'ts': []},
        {'op': 'setslice', 'sel': [], 'start': None, 'stop': None, 'step': -1, 'ts': [lf('1'), lf('2')]},
        {'op': 'setint', 'sel': [], 'idx': -1, 't': lf('3')},
        {'op': 'split', 'sel': [], 'ci': None},
        {'op': 'unrollc', 'sel': []},
        {'op': 'cleanup', 'sel': [], 'rm': True, 'mg': True},
        {'op': 'setrepf', 'sel': [1], 'zf': '7.5'},
    ]
    counts = [1, 0, 2, ['v', 1, 0], ['v', 2, 0]]
    for c in counts:
        X = N([lf('1'), N([lf('2')], 2)], c)
        tree_a = N([X, lf('4', 3)], 2)                                   # X = [0] has a sibling
        tree_m = N([N([X], 2, [[0, '0', '1']] if c == 1 else None), lf('4')], 3)     # X = [0, 0] is a single child
        removers = [
            ('unroll', tree_a, [0], {'op': 'unroll', 'sel': [0]}, [[0], [1]]),
            ('unrollc', tree_a, [0], {'op': 'unrollc', 'sel': []}, [[0, 0], [0, 1]]),
            ('setslice', tree_a, [0], {'op': 'setslice', 'sel': [], 'start': 0, 'stop': 1, 'step': None, 'ts': [lf('3')]}, [[0], [1]]),
            ('setint', tree_a, [0], {'op': 'setint', 'sel': [], 'idx': 0, 't': lf('3')}, [[0], [1]]),
            ('revslice', tree_a, [0], {'op': 'setslice', 'sel': [], 'start': None, 'stop': None, 'step': -1, 'ts': [lf('3'), lf('5')]}, [[0], [1]]),
            ('merge', tree_m, [0, 0], {'op': 'merge', 'sel': [0]}, [[0, 0], [0, 1]]),
            ('cleanup', tree_m, [0, 0], {'op': 'cleanup', 'sel': [], 'rm': True, 'mg': True}, [[0, 0], [0, 1]]),
            ('unroll2', tree_m, [0, 0], {'op': 'unroll', 'sel': [0, 0]}, [[0, 0], [0, 1]]),
        ]
        for name, init, hsel, rm, moved in removers:
            src = 'husk1' if name in ('unroll', 'unroll2') and c in (1, ['v', 1, 0]) else 'husk2'
            for ed in husk_edits:       # the husk is edited
                add(src, init, [Q(), H(hsel), M(rm), Q(), AT(0, ed), Q(), QH(0), Q(moved[0]), Q(moved[1])])
            for ed in ({'op': 'setwf', 'sel': moved[0], 'w': ['c', '7', 1]}, {'op': 'setrep', 'sel': moved[1], 'z': 5},
                       {'op': 'append', 'sel': moved[1], 't': lf('6'), 'kw': False}):
                # the nodes that (may) have moved up are edited, the husk is observed (it cached its duration before)
                add(src, init, [Q(), H(hsel), M(rm), QH(0), M(ed), Q(), QH(0), AT(0, husk_edits[0]), Q()])
    # flatten_and_balance unrolls count-1 nodes that are too deep
    for c in counts:
        init = N([N([lf('1'), N([lf('2'), lf('3')], c)], 2), lf('4')], 2)
        for depth in (0, 1):
            for ed in husk_edits[:6]:
                add('husk1' if c == 1 else 'husk2', init,
                    [Q(), H([0, 1]), {'f': 'flatten', 'b': None, 'sel': [], 'depth': depth}, Q(), AT(0, ed), Q(), QH(0)])

    # (b) rejected calls
    T3 = N([N([lf('1'), lf('2', 2)], 2), lf('4', 3), N([lf('8')], ['v', 2, 0])], 2)
    failing = [{'op': 'setrepf', 'zf': z} for z in FLOAT_COUNTS] + [{'op': 'bad', 'which': w} for w in sorted(BAD)] + [
        {'op': 'setint', 'idx': 7, 't': lf('3')}, {'op': 'setint', 'idx': -9, 't': lf('3')},
        {'op': 'setslice', 'start': None, 'stop': None, 'step': 0, 'ts': [lf('3')]},
        {'op': 'setslice', 'start': 0, 'stop': None, 'step': 2, 'ts': [lf('3'), lf('5'), lf('6')]},
        {'op': 'setslice', 'start': None, 'stop': None, 'step': -1, 'ts': [lf('3')]},
        {'op': 'split', 'ci': 5}, {'op': 'split', 'ci': 0}, {'op': 'split', 'ci': None},
        {'op': 'unroll'}, {'op': 'unrollc'}, {'op': 'reverse'},
    ]
    for f in failing:
        for sel in ([], [0], [0, 1], [2]):
            g = dict(f, sel=sel)
            # in the program: caches populated before, the forest observed after, then a valid edit and another query
            add('failcall', T3, [Q(), H([0]), M(g), Q(), M({'op': 'setrep', 'sel': sel, 'z': 3}), Q(), M(g), Q(sel)])
        for sel in ([], [1]):
            g = dict(f, sel=sel)
            # on a node that dropped out of the program
            add('failcall', T3, [Q(), H([0]), M({'op': 'setslice', 'sel': [], 'start': 0, 'stop': 1, 'step': None, 'ts': [lf('3')]}),
                                 QH(0), AT(0, g), Q(), QH(0), AT(0, {'op': 'append', 'sel': sel, 't': lf('5'), 'kw': False}), Q(), QH(0)])
    # rejected assignments of nodes the caller HOLDS (still listed / detached before): the values must stay as they are
    bad_hows = [['int', 7], ['int', -9], ['slice', None, None, 0], ['slice', 0, None, 2], ['slice', None, None, -1],
                ['bad', 'setint_stridx'], ['bad', 'setint_floatidx'], ['bad', 'setslice_badelem'], ['bad', 'setslice_strpart'],
                ['bad', 'setslice_loopval'], ['bad', 'append_both']]
    for how in bad_hows:
        for dst in ([], [2], [1]):
            for detach in (False, True):
                ops = [Q(), H([0]), H([0, 1])]
                if detach:
                    ops += [M({'op': 'setslice', 'sel': [], 'start': 0, 'stop': 1, 'step': None, 'ts': [lf('3')]}), Q()]
                ks = [0, 1] if how == ['slice', 0, None, 2] and dst == [] and not detach else [0]
                ops += [INS(ks, dst, how), Q(), M({'op': 'append', 'sel': [0] if not detach else [], 't': lf('5'), 'kw': False}), Q(),
                        AT(0, {'op': 'append', 'sel': [], 't': lf('6'), 'kw': False}), Q(), QH(0)]
                add('failins', T3, ops)
    # (c) lines the coverage audit found unreached: split_one_child(None) with TWO volatile children of count > 1 (the first
    # one found from the right stays the fallback), merge with measurements on parent AND child, cleanup dropping an inner node
    # that has measurements and becomes empty, roll on a long non-constant leaf
    V2 = N([L(['c', '1', 1], ['v', 2, 0]), L(['c', '2', 1], ['v', 3, 1]), lf('4')], 2)
    add('cov4', V2, [Q(), M({'op': 'split', 'sel': [], 'ci': None}), Q(), M({'op': 'split', 'sel': [], 'ci': None}), Q(),
                     M({'op': 'split', 'sel': [], 'ci': None}), Q(), M({'op': 'setwf', 'sel': [1], 'w': ['c', '3', 1]}), Q()])
    MM = N([N([N([lf('1'), lf('2')], 1, [[1, '0', '1/2']])], 2, [[0, '0', '1']]), lf('4')], 3)
    for rm in ({'op': 'merge', 'sel': [0]}, {'op': 'cleanup', 'sel': [], 'rm': True, 'mg': True}):
        # the merged child is NOT held here: merge extends the child's measurement LIST OBJECT in place and hands it to the
        # parent (the husk would show the parent's windows too; shared list objects are not modelled, C02's business)
        add('cov4', MM, [Q(), M(rm), Q(), M({'op': 'append', 'sel': [0], 't': lf('7'), 'kw': False}), Q(),
                         M({'op': 'reverse', 'sel': []}), Q()])
    DM = N([N([L(None), N([L(None)], 2)], 2, [[0, '0', '1']]), lf('4')], 2)
    for rmf, mgf in ((True, True), (True, False)):
        add('cov4', DM, [Q(), H([0]), M({'op': 'cleanup', 'sel': [], 'rm': rmf, 'mg': mgf}), Q(), AT(0, husk_edits[2]), Q(), QH(0)])
    RT = N([L(['t', '3', 1, False], 2), lf('8')], 2)
    add('cov4', RT, [Q(), M({'op': 'roll', 'sel': [], 'mq': 1, 'q': 1, 'sr': '1'}), Q(), M({'op': 'setrep', 'sel': [0], 'z': 3}), Q()])
    if quick:
        off = rng.randint(0, 4)
        keep_all = ('husk1', 'cov4')
        rejected_floats = FLOAT_COUNTS[:5]

        def always(c):      # a rejected float count on a node whose ancestors have cached durations
            o = c['ops'][2].get('op', {})
            return c['src'] == 'failcall' and o.get('op') == 'setrepf' and o['zf'] in rejected_floats and o['sel'] in ([0], [0, 1])
        cases = [c for i, c in enumerate(cases) if c['src'] in keep_all or (i % 5 == off and c['src'] != 'husk2') or always(c)
                 or (c['src'] == 'husk2' and i % 10 == off)
                 or (c['src'] == 'failins' and i % 2 == off % 2)]
    return cases


# ---------------------------------------------------------------------------------------------------------------------
# running the real code

def _imports():
    from qupulse.program.loop import Loop, roll_constant_waveforms
    from qupulse.program.waveforms import ConstantWaveform, TableWaveform, TableWaveformEntry
    from qupulse.program.volatile import VolatileRepetitionCount
    from qupulse.pulses.interpolation import HoldInterpolationStrategy, LinearInterpolationStrategy
    from qupulse.utils.types import TimeType, FrozenDict
    from qupulse.parameter_scope import DictScope
    from qupulse.expressions import ExpressionScalar
    return locals()


class Env:
    def __init__(self):
        self.q = _imports()
        self.vol = {}

    def tt(self, s):
        f = F(s)
        return self.q['TimeType'].from_fraction(f.numerator, f.denominator)

    def wf(self, w):
        if w is None:
            return None
        if w[0] == 'c':
            return self.q['ConstantWaveform'](self.tt(w[1]), w[2], 'A')
        E = self.q['TableWaveformEntry']
        t = self.q['TableWaveform'].from_table('A', [E(0, 0, self.q['HoldInterpolationStrategy']()),
                                                       E(float(F(w[1])), w[2], self.q['LinearInterpolationStrategy']())])
        return t.reversed() if w[3] else t

    def rdef(self, r):
        if isinstance(r, int):
            return r
        _, k, tag = r
        if tag not in self.vol:
            name = 'n%d' % tag
            self.vol[tag] = (self.q['ExpressionScalar'](name),
                             self.q['DictScope'](self.q['FrozenDict']({name: k}), frozenset({name})), k)
        e, sc, _ = self.vol[tag]
        return self.q['VolatileRepetitionCount'](e, sc)

    def meas(self, m):
        if m is None:
            return None
        return [('m%d' % n, float(F(b)), float(F(l))) for n, b, l in m]

    def kwargs(self, t):
        return dict(children=[self.build(c) for c in t['c']], waveform=self.wf(t['w']), measurements=self.meas(t['m']),
                    repetition_count=self.rdef(t['r']))

    def build(self, t):
        return self.q['Loop'](**self.kwargs(t))


def norm_spec(t, env_vol):
    """volatile counts: one tag has one value (the first one seen in the case)"""
    r = t['r']
    if not isinstance(r, int):
        k = env_vol.setdefault(r[2], r[1])
        r = ['v', k, r[2]]
    return {'r': r, 'w': t['w'], 'm': t['m'], 'c': [norm_spec(c, env_vol) for c in t['c']]}


def resolve(root, sel):
    node, path = root, []
    for s in sel:
        n = len(node)
        if n == 0:
            break
        i = s % n
        node = node[i]
        path.append(i)
    return node, path


def _slots(node):
    out = []
    for cls in type(node).__mro__:
        for s in getattr(cls, '__slots__', ()):
            if s == '__weakref__':
                continue
            name = s
            if s.startswith('__') and not s.endswith('__'):
                name = '_%s%s' % (cls.__name__.lstrip('_'), s)
            out.append(name)
    return out


def _live(root):
    out, stack = [], [(root, [])]
    while stack:
        n, p = stack.pop()
        out.append((n, p))
        for i, c in reversed(list(enumerate(n.children))):
            stack.append((c, p + [i]))
    return out


def _wf_obs(w):
    if w is None:
        return None
    cv = w.constant_value_dict()
    if cv is not None:
        return ['c', vlib.frac_json(w.duration), int(cv['A'])]
    rev = type(w).__name__ == 'ReversedWaveform'
    inner = w._inner if rev else w
    return ['t', vlib.frac_json(w.duration), int(inner._table[-1].v), rev]


def _top(m):
    t, seen = m, set()
    while t.parent is not None and len(t.parent) > 0:
        seen.add(id(t))
        t = t.parent
        if id(t) in seen:       # the recorded parents form a cycle (left behind by a failed assignment): as the model
            return m
    return t


def _cyclic(node, stack=()):
    if any(node is a for a in stack):
        return True
    return any(_cyclic(c, stack + (node,)) for c in node.children)


def _aliased(roots):
    """some node is listed at two positions (of one or of two listers) in the trees below `roots`"""
    seen, done, stack = {}, set(), list(roots)
    while stack:
        n = stack.pop()
        if id(n) in done:
            continue
        done.add(id(n))
        for i, c in enumerate(n.children):
            if id(c) in seen:
                return True
            seen[id(c)] = (id(n), i)
            stack.append(c)
    return False


class TooLarge(Exception):
    pass


def observe(root, top=None):
    top = root if top is None else top
    live = _live(root)
    if len(live) > 400:
        # one operation (flatten_and_balance / unroll with large counts) blew the tree up: the history is cut BEFORE this step
        # (round 5: used to surface as a crash, i.e. a false VIOLATION, in the thorough tier's random forest stream)
        raise TooLarge('tree too large')
    paths = {}
    for n, p in live:
        paths.setdefault(id(n), p)      # a node listed twice: the first position in preorder (as the model's lookup)
    slots = _slots(root)
    saved = [(n, [(s, getattr(n, s)) for s in slots if hasattr(n, s)]) for n, _ in live]

    def restore():
        for n, vals in saved:
            for s, v in vals:
                setattr(n, s, v)
    info = {}
    for n, p in live:
        try:
            d = vlib.frac_json(n.duration)
        finally:
            restore()
        par = n.parent
        if par is None:
            pr = None
        elif id(par) in paths:
            pr = ['p', paths[id(par)]]
        else:
            pr = 'out'
        try:
            loc = 'self' if top.locate(n.get_location()) is n else 'other'
        except (TypeError, IndexError, RecursionError):
            loc = 'err'
        m = n._measurements
        info[id(n)] = {'rep': int(n.repetition_count), 'vol': bool(n.volatile_repetition), 'wf': _wf_obs(n.waveform),
                       'meas': None if m is None else [[int(a[1:]), vlib.frac_json(b), vlib.frac_json(l)] for a, b, l in m],
                       'dur': d, 'pidx': None if n.parent_index is None else int(n.parent_index), 'par': pr, 'loc': loc}

    def tree(n):
        t = dict(info[id(n)])
        t['c'] = [tree(c) for c in n.children]
        return t
    return tree(root)


def apply_op(env, root, op):
    """returns (resolved op, eq result)"""
    q = env.q
    k = op['op']
    x, path = resolve(root, op['sel'])
    rop = dict(op)
    rop['path'] = path
    rop.pop('sel', None)
    eq = None

    def do():
        nonlocal eq
        if k == 'nop':
            pass
        elif k == 'append':
            if op['kw']:
                x.append_child(**env.kwargs(op['t']))
            else:
                x.append_child(loop=env.build(op['t']))
        elif k == 'setint':
            x[op['idx']] = env.build(op['t'])
        elif k == 'setslice':
            x[slice(op['start'], op['stop'], op['step'])] = [env.build(t) for t in op['ts']]
        elif k == 'setwf':
            x.waveform = env.wf(op['w'])
        elif k == 'setrep':
            x.repetition_count = op['z']
        elif k == 'setrdef':
            x.repetition_definition = env.rdef(op['r'])
        elif k == 'setrepf':
            rop['zq'] = vlib.frac_json(F(float(op['zf'])))      # the exact value of the double
            x.repetition_count = float(op['zf'])
        elif k == 'bad':
            rop['exp'] = BAD[op['which']] or ('KIndex' if len(x) == 0 else 'KType')
            do_bad(env, x, op['which'])
        elif k == 'addmeas':
            # _merge_single_child hands the child's list OBJECT to the parent: a list shared by two Loop objects is not
            # modelled (C02's business) - the call is skipped then (recorded as a nop)
            lst = x._measurements
            if lst is not None and sum(1 for o in gc.get_referrers(lst) if isinstance(o, q['Loop'])) > 1:
                rop.clear()
                rop.update(op='nop', path=[])
            else:
                x.add_measurements(env.meas(op['ms']))
        elif k == 'unroll':
            x.unroll()
        elif k == 'unrollc':
            x.unroll_children()
        elif k == 'split':
            x.split_one_child(op['ci'])
        elif k == 'encaps':
            x.encapsulate()
        elif k == 'merge':
            if x._has_single_child_that_can_be_merged():
                x._merge_single_child()
        elif k == 'cleanup':
            x.cleanup(tuple(a for a, f in (('remove_empty_loops', op['rm']), ('merge_single_child', op['mg'])) if f))
        elif k == 'reverse':
            x.reverse_inplace()
        elif k == 'roll':
            q['roll_constant_waveforms'](x, op['mq'], op['q'], env.tt(op['sr']))
        elif k == 'copyappend':
            d, dpath = resolve(root, op['dst'])
            rop['dpath'] = dpath
            rop.pop('dst', None)
            c = x.copy_tree_structure(new_parent=[False, None, d][op['np']])
            d.append_child(loop=c)
        elif k == 'qdur':
            x.duration
        elif k == 'qbody':
            x.body_duration
        elif k == 'eqcopy':
            c = x.copy_tree_structure(new_parent=None)
            pk = op['k']
            if pk == 1:
                c._measurements = list(c._measurements or []) + [('m9', 0.0, 1.0)]
            elif pk == 2:
                c.repetition_definition = int(c.repetition_count) + 1
            elif pk == 3:
                c.waveform = env.wf(['c', '7', 3])
            elif pk == 4:
                d = c
                while len(d):
                    d = d[0]
                d.repetition_definition = int(d.repetition_count) + 1
            elif pk == 5:
                if c._measurements is None:
                    c._measurements = []
            eq = bool(x == c)
        elif k == 'eq':
            y, p2 = resolve(root, op['sel2'])
            rop['path2'] = p2
            rop.pop('sel2', None)
            eq = bool(x == y)
        else:
            raise KeyError(k)
    try:
        do()
        out = 'KDone'
    except RecursionError:
        # only on structures whose recorded parents form a cycle (left behind by a failed assignment of a held ancestor):
        # the walk of _invalidate_duration never ends; the model runs out of fuel there
        out = 'KRecursion'
    except (IndexError, TypeError, ValueError, RuntimeError, AttributeError, AssertionError) as e:
        out = KINDS.get(type(e).__name__)
        if out is None:
            raise
        if k == 'copyappend' and 'dpath' not in rop:
            raise
    return rop, out, eq


def _norm_op(op, volvals):
    op = dict(op)
    if 't' in op:
        op['t'] = norm_spec(op['t'], volvals)
    if 'ts' in op:
        op['ts'] = [norm_spec(t, volvals) for t in op['ts']]
    if op['op'] == 'setrdef' and not isinstance(op['r'], int):
        op['r'] = ['v', volvals.setdefault(op['r'][2], op['r'][1]), op['r'][2]]
    return op


def _unshare(root, held, snap):
    """a node outside the program whose measurement list OBJECT is also the list of a program node (left behind by
    _merge_single_child) gets a private list with the contents it had before the step"""
    owners = {id(n._measurements) for n, _ in _live(root) if n._measurements is not None}
    main = {id(n) for n, _ in _live(root)}
    for m in held:
        for n, _ in _live(m):
            if id(n) not in main and n._measurements is not None and id(n._measurements) in owners:
                old = snap.get(id(n), list(n._measurements))
                n._measurements = None if old is None else list(old)


def run_forest(case):
    try:
        with vlib.time_limit(20), warnings.catch_warnings():
            warnings.simplefilter('ignore')
            env = Env()
            volvals = {}
            init = norm_spec(case['init'], volvals)
            root = env.build(init)
            keep, held = [root], []
            nop = {'op': 'nop', 'path': []}

            def sub_obs(m):
                t = observe(m, _top(m))
                if t['par'] is None:
                    t['pidx'] = None      # the recorded position of a node without parent says nothing
                return t

            def held_obs():
                main = {id(n) for n, _ in _live(root)}
                return [None if id(m) in main else sub_obs(m) for m in held]
            steps = [{'f': {'f': 'main', 'op': nop}, 'out': 'KDone', 'eq': None, 'tree': observe(root), 'held': []}]
            caller_aliased = False
            floating = set()        # ids of held copies made with an explicit new_parent that were not inserted anywhere yet
            dummy = {'rep': 1, 'vol': False, 'wf': None, 'meas': None, 'dur': '0', 'pidx': None, 'par': None, 'loc': 'self', 'c': []}
            for fo in case['ops']:
                live = _live(root)
                main = {id(n) for n, _ in live}
                size = len(live) + sum(len(_live(m)) for m in held if id(m) not in main)
                if size > 120:
                    break
                keep.extend(n for n, _ in live)
                for m in held:
                    keep.extend(n for n, _ in _live(m))
                # round 6: _merge_single_child extends the child's measurement LIST OBJECT in place and hands it to the parent;
                # the emptied child (which the caller may hold) keeps referencing it.  Shared list objects are not modelled
                # (C02's business): a held node outside the program that ends up sharing its list with a program node gets
                # its own copy back (contents as before the step) - see _unshare
                snap = {id(n): (None if n._measurements is None else list(n._measurements))
                        for t in [root] + held for n, _ in _live(t)}
                out, eq, flags = 'KDone', None, {}
                kind = fo['f']
                base = None
                if kind in ('holdcopy', 'ins', 'addmeas', 'flatten', 'wrap'):
                    b = fo.get('b')
                    if (b is not None and not held) or (kind in ('ins', 'wrap') and not held):
                        kind = 'skip'
                    else:
                        b = None if b is None else b % len(held)
                        base = root if b is None else held[b]
                if kind == 'skip':
                    rf = {'f': 'main', 'op': nop}
                elif kind == 'hold':
                    node, path = resolve(root, fo['sel'])
                    held.append(node)
                    rf = {'f': 'hold', 'path': path}
                elif kind == 'main':
                    rop, out, eq = apply_op(env, root, _norm_op(fo['op'], volvals))
                    rf = {'f': 'main', 'op': rop}
                elif kind == 'at':
                    k = fo['k'] % len(held) if held else 0
                    if not held or id(held[k]) in main:
                        rf, out = {'f': 'at', 'k': k, 'op': nop}, 'KBadPath'
                    else:
                        if id(held[k]) in floating:
                            flags['floating_edit'] = True
                        rop, out, eq = apply_op(env, held[k], _norm_op(fo['op'], volvals))
                        rf = {'f': 'at', 'k': k, 'op': rop}
                elif kind == 'holdcopy':
                    x, path = resolve(base, fo['sel'])
                    d, qpath = resolve(root, fo['q'])
                    c = x.copy_tree_structure(**([{}, {'new_parent': None}, {'new_parent': d}][fo['np']]))
                    held.append(c)
                    keep.append(c)
                    if fo['np'] == 2:
                        floating.add(id(c))
                    rf = {'f': 'holdcopy', 'b': b, 'path': path, 'np': fo['np'], 'q': qpath}
                elif kind == 'ins':
                    ks = [k % len(held) for k in fo['ks']]
                    vals = [held[k] for k in ks]
                    x, path = resolve(base, fo['dst'])
                    how = fo['how']
                    rf = {'f': 'ins', 'ks': ks, 'b': b, 'path': path, 'how': how}
                    if any(id(v) in floating for v in vals) or id(base) in floating:
                        flags['floating_edit'] = True
                    try:
                        if how[0] == 'bad':       # an invalid call handing the held nodes themselves: rejected, no effect
                            rf = {'f': 'main', 'op': {'op': 'bad', 'path': [], 'which': how[1],
                                                      'exp': BAD[how[1]] or ('KIndex' if len(x) == 0 else 'KType')}}
                            do_bad(env, x, how[1], vals)
                        elif how[0] == 'slice':
                            x[slice(how[1], how[2], how[3])] = vals
                        elif not vals:
                            pass
                        elif how[0] == 'app':
                            x.append_child(loop=vals[0])
                        else:
                            x[how[1]] = vals[0]
                    except RecursionError:
                        out = 'KRecursion'
                    except (IndexError, TypeError, ValueError, RuntimeError, AttributeError, AssertionError) as e:
                        out = KINDS[type(e).__name__]
                elif kind == 'wrap':
                    # round 6 (seed C09-10's class): a new loop is built AROUND held nodes (Node.__init__ takes them over)
                    # and then takes their place: one step, observed after the assignment
                    ks = [k % len(held) for k in fo['ks']]
                    vals = [held[k] for k in ks]
                    x, path = resolve(base, fo['dst'])
                    how = fo['how']
                    rf = {'f': 'wrap', 'ks': ks, 'depth': fo['depth'], 'r': fo['r'], 'b': b, 'path': path, 'how': how}
                    if any(id(v) in floating for v in vals) or id(base) in floating:
                        flags['floating_edit'] = True
                    w = env.q['Loop'](children=vals, repetition_count=fo['r'] if fo['depth'] <= 1 else 1)
                    for lvl in range(2, fo['depth'] + 1):
                        w = env.q['Loop'](children=[w], repetition_count=fo['r'] if lvl == fo['depth'] else 1)
                    held.append(w)
                    keep.append(w)
                    try:
                        if how[0] == 'slice':
                            x[slice(how[1], how[2], how[3])] = [w]
                        elif how[0] == 'app':
                            x.append_child(loop=w)
                        else:
                            x[how[1]] = w
                    except RecursionError:
                        out = 'KRecursion'
                    except (IndexError, TypeError, ValueError, RuntimeError, AttributeError, AssertionError) as e:
                        out = KINDS[type(e).__name__]
                elif kind == 'addmeas':
                    x, path = resolve(base, fo['sel'])
                    lst = x._measurements
                    shared = lst is not None and any(o is not x and getattr(o, '_measurements', None) is lst for o in keep)
                    if shared:     # _merge_single_child hands the child's list object to the parent: not modelled (C02's business)
                        rf = {'f': 'main', 'op': nop}
                    else:
                        if id(base) in floating:
                            flags['floating_edit'] = True
                        x.add_measurements(env.meas(fo['ms']))
                        rf = {'f': 'addmeas', 'b': b, 'path': path, 'ms': fo['ms']}
                elif kind == 'flatten':
                    x, path = resolve(base, fo['sel'])
                    rf = {'f': 'flatten', 'b': b, 'path': path, 'depth': fo['depth']}
                    if id(base) in floating:
                        flags['floating_edit'] = True
                    try:
                        x.flatten_and_balance(fo['depth'])
                    except RecursionError:
                        out = 'KRecursion'
                    except (IndexError, TypeError, ValueError, RuntimeError, AttributeError, AssertionError) as e:
                        out = KINDS[type(e).__name__]
                else:
                    raise KeyError(kind)
                if kind == 'ins' and out == 'KDone':
                    floating.difference_update(id(v) for v in vals)
                if floating:
                    flags['floating'] = [k for k, m in enumerate(held) if id(m) in floating]
                # round 4: aliasing / cycles are the CALLER's doing (known finding aliased-insert) only when they appear at a
                # step where the caller handed held nodes back; an operation of the library that leaves one node listed by
                # two nodes (a moved child still listed by the husk) is a violation and must not be masked
                if _cyclic(root) or any(_cyclic(m) for m in held):
                    cut = {'KDone': 'KCycle', 'KRecursion': 'KRecCycle'}.get(out)
                    if cut is None or not (kind == 'ins' or caller_aliased):
                        raise RuntimeError('cyclic structure after %s of %s' % (out, kind))
                    steps.append({'f': rf, 'out': cut, 'eq': None, 'tree': dummy, 'held': [], 'flags': dict(flags, aliased=True)})
                    break
                if kind == 'ins' and (_aliased([root] + held) or (root.parent is not None and len(root.parent) > 0)):
                    # one object at two places, or the program root itself handed to another tree (the program is then a
                    # subtree of the caller's new tree: recorded positions are relative to that tree's top)
                    caller_aliased = True
                if caller_aliased:
                    flags['aliased'] = True
                # round 6: a RecursionError of an insert inside the known-finding classes (recorded parents form a cycle although
                # the children lists do not): _invalidate_duration went round the cycle until the interpreter's recursion limit,
                # the model until its fuel - the caches patched on the way are not comparable; the history ends before the step
                if out == 'KRecursion' and kind == 'ins' and (flags.get('aliased') or flags.get('floating_edit')):
                    break
                _unshare(root, held, snap)
                try:
                    st = {'f': rf, 'out': out, 'eq': eq, 'tree': observe(root), 'held': held_obs(), 'flags': flags}
                except TooLarge:
                    break
                steps.append(st)
            return {'init': init, 'steps': steps, 'forest': True}
    except vlib.Timeout:
        return {'hang': True}
    except Exception as e:
        return {'crash': '%s: %s' % (type(e).__name__, str(e)[:200])}


def run_impl(case):
    if case.get('kind') == 'forest':
        return run_forest(case)
    try:
        with vlib.time_limit(20), warnings.catch_warnings():
            warnings.simplefilter('ignore')
            env = Env()
            volvals = {}
            init = norm_spec(case['init'], volvals)
            root = env.build(init)
            keep = [root]
            steps = [{'op': {'op': 'nop', 'path': []}, 'out': 'KDone', 'eq': None, 'tree': observe(root)}]
            for op in case['ops']:
                op = dict(op)
                for key in ('t',):
                    if key in op:
                        op[key] = norm_spec(op[key], volvals)
                if 'ts' in op:
                    op['ts'] = [norm_spec(t, volvals) for t in op['ts']]
                if op['op'] == 'setrdef' and not isinstance(op['r'], int):
                    op['r'] = ['v', volvals.setdefault(op['r'][2], op['r'][1]), op['r'][2]]
                live = _live(root)
                if len(live) > 120:      # histories that blow the tree up (copying the root into itself) are cut here
                    break
                keep.extend(n for n, _ in live)
                rop, out, eq = apply_op(env, root, op)
                try:
                    steps.append({'op': rop, 'out': out, 'eq': eq, 'tree': observe(root)})
                except TooLarge:
                    break
            return {'init': init, 'steps': steps}
    except vlib.Timeout:
        return {'hang': True}
    except Exception as e:
        return {'crash': '%s: %s' % (type(e).__name__, str(e)[:200])}


# ---------------------------------------------------------------------------------------------------------------------
# Gallina printing

def g_wf(w):
    if w[0] == 'c':
        return '(WConst %s %s)' % (gQ(F(w[1])), gZ(w[2]))
    return '(WRamp %s %s %s)' % (gQ(F(w[1])), gZ(w[2]), gbool(w[3]))


def g_mw(m):
    return '(%s, %s, %s)' % (gZ(m[0]), gQ(F(m[1])), gQ(F(m[2])))


def g_meas(m):
    return gopt(lambda x: glist(g_mw, x), m)


def g_rdef(r):
    if isinstance(r, int):
        return '(RInt %s)' % gZ(r)
    return '(RVol %s %s 1)' % (gZ(r[1]), gZ(r[2]))


def g_spec(t):
    return '(TS %s %s %s %s)' % (g_rdef(t['r']), gopt(g_wf, t['w']), g_meas(t['m']), glist(g_spec, t['c']))


def g_path(p):
    return glist(lambda i: '%d%%nat' % i, p)


def g_op(o):
    k, p = o['op'], g_path(o['path'])
    oz = lambda v: gopt(gZ, v)
    if k == 'nop':
        return 'ONop'
    if k == 'append':
        return '(OAppend %s %s)' % (p, g_spec(o['t']))
    if k == 'setint':
        return '(OSetInt %s %s %s)' % (p, gZ(o['idx']), g_spec(o['t']))
    if k == 'setslice':
        return '(OSetSlice %s %s %s %s %s)' % (p, oz(o['start']), oz(o['stop']), oz(o['step']), glist(g_spec, o['ts']))
    if k == 'setwf':
        return '(OSetWf %s %s)' % (p, gopt(g_wf, o['w']))
    if k == 'setrep':
        return '(OSetRepCount %s %s)' % (p, gZ(o['z']))
    if k == 'setrdef':
        return '(OSetRepDef %s %s)' % (p, g_rdef(o['r']))
    if k == 'setrepf':
        return '(OSetRepCountQ %s %s)' % (p, gQ(F(o['zq'])))
    if k == 'bad':
        return '(OReject %s %s)' % (p, 'Ex' + o['exp'][1:])
    if k == 'addmeas':
        return '(OAddMeas %s %s)' % (p, glist(g_mw, o['ms']))
    if k == 'unroll':
        return '(OUnroll %s)' % p
    if k == 'unrollc':
        return '(OUnrollChildren %s)' % p
    if k == 'split':
        return '(OSplit %s %s)' % (p, oz(o['ci']))
    if k == 'encaps':
        return '(OEncapsulate %s)' % p
    if k == 'merge':
        return '(OMerge %s)' % p
    if k == 'cleanup':
        return '(OCleanup %s %s %s)' % (p, gbool(o['rm']), gbool(o['mg']))
    if k == 'reverse':
        return '(OReverse %s)' % p
    if k == 'roll':
        return '(ORoll %s %s %s %s)' % (p, gZ(o['mq']), gZ(o['q']), gQ(F(o['sr'])))
    if k == 'copyappend':
        return '(OCopyAppend %s %s %d%%nat)' % (p, g_path(o['dpath']), o['np'])
    if k == 'qdur':
        return '(OQueryDur %s)' % p
    if k == 'qbody':
        return '(OQueryBody %s)' % p
    if k == 'eq':
        return '(OEq %s %s)' % (p, g_path(o['path2']))
    if k == 'eqcopy':
        return '(OEqCopy %s %d%%nat)' % (p, o['k'])
    raise KeyError(k)


def g_otree(t):
    par = t['par']
    pr = 'PNone' if par is None else 'POutside' if par == 'out' else '(PPath %s)' % g_path(par[1])
    loc = {'self': 'LSelf', 'other': 'LOther', 'err': 'LErr'}[t['loc']]
    return '(ON (mkO %s %s %s %s %s %s %s %s) %s)' % (
        gZ(t['rep']), gbool(t['vol']), gopt(g_wf, t['wf']), g_meas(t['meas']), gQ(F(t['dur'])), gopt(gZ, t['pidx']), pr,
        loc, glist(g_otree, t['c']))


def g_base(b):
    return 'None' if b is None else '(Some %d%%nat)' % b


def g_fop(f):
    oz = lambda v: gopt(gZ, v)
    if f['f'] == 'hold':
        return '(FHold %s)' % g_path(f['path'])
    if f['f'] == 'main':
        return '(FMain %s)' % g_op(f['op'])
    if f['f'] == 'holdcopy':
        return '(FHoldCopy %s %s %d%%nat %s)' % (g_base(f['b']), g_path(f['path']), f['np'], g_path(f['q']))
    if f['f'] == 'ins':
        h = f['how']
        how = 'IAppend' if h[0] == 'app' else '(IInt %s)' % gZ(h[1]) if h[0] == 'int' else \
            '(ISlice %s %s %s)' % (oz(h[1]), oz(h[2]), oz(h[3]))
        return '(FInsert %s %s %s %s)' % (glist(lambda k: '%d%%nat' % k, f['ks']), g_base(f['b']), g_path(f['path']), how)
    if f['f'] == 'wrap':
        h = f['how']
        how = 'IAppend' if h[0] == 'app' else '(IInt %s)' % gZ(h[1]) if h[0] == 'int' else \
            '(ISlice %s %s %s)' % (oz(h[1]), oz(h[2]), oz(h[3]))
        return '(FWrapInsert %s %d%%nat %s %s %s %s)' % (glist(lambda k: '%d%%nat' % k, f['ks']), f['depth'], g_rdef(f['r']),
                                                        g_base(f['b']), g_path(f['path']), how)
    if f['f'] == 'addmeas':
        return '(FAddMeas %s %s %s)' % (g_base(f['b']), g_path(f['path']), glist(g_mw, f['ms']))
    if f['f'] == 'flatten':
        return '(FFlatten %s %s %s)' % (g_base(f['b']), g_path(f['path']), gZ(f['depth']))
    return '(FAt %d%%nat %s)' % (f['k'], g_op(f['op']))


def to_coq(case, obs):
    if 'crash' in obs or 'hang' in obs:
        return 'CCrash'
    if case.get('twin') and classify(case, obs) is None:
        return '(CForest %s [])' % g_spec(obs['init'])
    if obs.get('forest'):
        steps = ['(%s, mkFS (mkS %s %s %s) %s)' % (g_fop(s['f']), s['out'], gopt(gbool, s['eq']), g_otree(s['tree']),
                                                   glist(lambda t: gopt(g_otree, t), s['held'])) for s in obs['steps']]
        return '(%s %s [%s])' % ('CCorrOnly' if case.get('twin') else 'CForest', g_spec(obs['init']), ';\n   '.join(steps))
    steps = ['(%s, mkS %s %s %s)' % (g_op(s['op']), s['out'], gopt(gbool, s['eq']), g_otree(s['tree']))
             for s in obs['steps']]
    return '(CHist %s [%s])' % (g_spec(obs['init']), ';\n   '.join(steps))


# ---------------------------------------------------------------------------------------------------------------------
# Python mirror of the invariant (only for classification / shrinking / the evidence histogram; the decision is Coq's)

def _tdur(t):
    if t['c']:
        body = sum((_tdur(c) for c in t['c']), F(0))
    else:
        body = F(t['wf'][1]) if t['wf'] is not None else F(0)
    return body * t['rep']


def inv_tree(t, here=(), root=True, idx=0, par=()):
    if F(t['dur']) != _tdur(t):
        return 'I1 cached duration: node %s reports %s, recomputed %s' % (list(here), t['dur'], _tdur(t))
    if not root:
        if t['pidx'] != idx:
            return 'I2 position: node %s records parent_index %r' % (list(here), t['pidx'])
        if t['par'] != ['p', list(par)]:
            return 'I3 parent: node %s has parent %r' % (list(here), t['par'])
    if t['loc'] != 'self':
        return 'I2 locate(get_location()) of node %s: %s' % (list(here), t['loc'])
    for i, c in enumerate(t['c']):
        r = inv_tree(c, tuple(here) + (i,), False, i, here)
        if r:
            return r
    return None


REJECTING = ('KIndex', 'KType', 'KValue', 'KRuntime', 'KAssert')
PARTIAL_OPS = ('reverse', 'cleanup', 'flatten')      # recursive operations: a failure deep down leaves the work done so far


def first_failure(obs):
    r = first_failure_at(obs)
    return None if r is None else r[:2]


def first_failure_at(obs):
    """(step, why, where); where = 'cycle' | 's4' | 'main' | ('held', k)"""
    steps = obs.get('steps', [])
    for i, s in enumerate(steps):
        if s['out'] in ('KCycle', 'KRecCycle'):
            return i, 'the structure is cyclic (a node became its own descendant)', 'cycle'
        if i and s['out'] in REJECTING and _opname(s).split(':')[-1] not in PARTIAL_OPS:
            if s['tree'] != steps[i - 1]['tree'] or s.get('held', []) != steps[i - 1].get('held', []):
                return i, 'S4 the call raised %s but changed the forest (state left behind by a rejected call)' % s['out'], 's4'
        r = inv_tree(s['tree'])
        if r:
            return i, r, 'main'
        for k, t in enumerate(s.get('held', [])):
            if t is not None:
                r = inv_tree(t)
                if r:
                    return i, 'held tree %d: %s' % (k, r), ('held', k)
    return None


def _opname(s):
    if 'op' in s:
        return s['op']['op']
    f = s['f']
    if f['f'] in ('hold', 'holdcopy', 'ins', 'addmeas', 'flatten', 'wrap'):
        return f['f']
    return ('at:' if f['f'] == 'at' else '') + f['op']['op']


def classify(case, obs):
    """known findings (documented domain restrictions of the property, see notes/C09.md):
    aliased-insert: the CALLER hands a Loop object that is still listed somewhere to another position (one object at two
    places, or below itself) - attributed only from the step at which the caller did so (round 4: the flag used to be read
    off the object state, which masked seed C09-5, where the library itself leaves a node listed twice);
    floating-copy-explicit-parent: a copy made with an explicit new_parent records a parent that does not list it.
    (failed-assignment-reparents was repaired in round 4: no classification any more.)"""
    ff = first_failure_at(obs)
    if ff is None:
        return None
    i, why, where = ff
    # round 5: narrowed.  A rejected call that leaves state behind (S4) is explained by neither finding: never filed.
    if where == 's4':
        return None
    upto = obs['steps'][:i + 1]
    if any(s.get('flags', {}).get('aliased') for s in upto):
        return 'aliased-insert'
    # a floating copy that was not touched yet explains exactly one thing: the held copy itself records a parent that does
    # not list it (its own location fails).  Only after the copy was edited / inserted / its base used (floating_edit) can the
    # damage be anywhere (cached durations along the recorded parent's chain).
    if any(s.get('flags', {}).get('floating_edit') for s in upto):
        return 'floating-copy-explicit-parent'
    fl = obs['steps'][i].get('flags', {}).get('floating')
    if fl and isinstance(where, tuple) and (fl is True or where[1] in fl):
        return 'floating-copy-explicit-parent'
    return None


def _has_inner_wf(t):
    return (bool(t['c']) and t['wf'] is not None and t['wf'][0] == 'c') or any(_has_inner_wf(c) for c in t['c'])


def py_spec(case, obs):
    if case.get('twin'):         # judged by check_corr alone (see gen_cases)
        return None
    ff = first_failure(obs)
    if ff is not None:
        return 'after step %d (%s): %s' % (ff[0], _opname(obs['steps'][ff[0]]), ff[1])
    return None


def nontrivial(case, obs):
    if 'steps' not in obs or case.get('twin'):
        return False
    edits, queried, q_before_edit = 0, False, False
    for s in obs['steps'][1:]:
        k = _opname(s).split(':')[-1]
        if k in ('qdur', 'qbody'):
            queried = True
        elif k not in QUERY_OPS and s['out'] == 'KDone':
            edits += 1
            q_before_edit = q_before_edit or queried
    return edits >= 2 and q_before_edit


def histogram_keys(case, obs):
    keys = ['src:' + case.get('src', '?'), 'len:%d' % (len(case['ops']) // 5 * 5)]
    if 'steps' not in obs:
        return keys + ['obs:crash']
    for s in obs['steps'][1:]:
        keys.append('op:%s' % _opname(s))
        if s['out'] != 'KDone':
            keys.append('raise:%s:%s' % (_opname(s), s['out']))
        if any(t is not None for t in s.get('held', [])):
            keys.append('held:detached-tree-observed')
    n = len(_flat(obs['steps'][-1]['tree']))
    keys.append('final_nodes:%s' % ('<=3' if n <= 3 else '<=8' if n <= 8 else '<=20' if n <= 20 else '>20'))
    return keys


def _flat(t):
    out = [t]
    for c in t['c']:
        out.extend(_flat(c))
    return out


def shrink(case, obs, ctx):
    """drop operations from the end / the front while the first failure stays"""
    ff = first_failure(obs)
    if ff is None:
        return case, obs
    cur = dict(case)
    cur['ops'] = case['ops'][:ff[0]]
    o = run_impl(cur)
    if first_failure(o) is None:
        return case, obs
    best, bo = cur, o
    i = 0
    while i < len(best['ops']):
        t = dict(best)
        t['ops'] = best['ops'][:i] + best['ops'][i + 1:]
        o = run_impl(t)
        if first_failure(o) is not None and classify(t, o) == classify(best, bo):
            best, bo = t, o
        else:
            i += 1
    return best, bo


def search_failing(ctx, broken):
    import random
    rng = random.Random(12345)
    cases = gen_cases(rng, 'quick', ctx)
    near = ctx.get('near')
    if near:
        def _k(o):
            return o['op'] if isinstance(o.get('op'), str) else (o['f'] if 'op' not in o else o['op']['op'])
        kinds = {_k(o) for o in near['ops']}
        cases.sort(key=lambda c: -len(kinds & {_k(o) for o in c['ops']}))
    for c in cases:
        o = run_impl(c)
        if 'steps' not in o:
            return c, o, 'implementation crashed or hung'
        ff = first_failure(o)
        if ff is not None and classify(c, o) is None:
            c2, o2 = shrink(c, o, ctx)
            return c2, o2, py_spec(c2, o2)
    return None


MANIFEST = {
    'level_text': 'Proof: heap model of the concrete Loop/Node object state with every public editing operation as a heap '
                  'transformer.  Proved for all heaps, nodes and arguments (unbounded, by induction; no axioms): every '
                  'constructed tree satisfies the invariant Inv (cached duration = recomputed, recorded position = position, '
                  'parent = lister); one step and hence every finite history over the 23-operation alphabet preserves it '
                  '(C09_step / C09_history): append_child, __setitem__ with an int and with every slice form, setters '
                  '(incl. float counts), memoising queries, add_measurements (round 6), unroll, unroll_children, split_one_child, encapsulate, merge, '
                  'cleanup, reverse_inplace, roll_constant_waveforms, copies, ==, rejected calls - UNDER TWO HYPOTHESES: '
                  'guard_C09_args (argument domain minimal_waveform_quanta >= 1) and run_ok (no step of the model run ends '
                  'in the model artefacts "out of fuel" / "dangling id"; proved removable only for histories over setters, '
                  'queries and add_measurements, C09_history_basic_total / C09_step_add_measurements; otherwise tested on every generated case).  Inserted values are fresh '
                  'trees or copies.  Round 5: C09_property states the three bookkeeping clauses end to end (after any such '
                  'history every live node reports the recomputed duration, get_location/locate find the node itself along '
                  'the path from the root - C09_location_roundtrip -, every listed child records lister and index); '
                  'non-trivial non-vacuity witnesses (19-operation history, each failing-call kind).  Round 6: '
                  'C09_flatten_preserves - flatten_and_balance(depth) on any live node, any depth, keeps Inv and the node live '
                  '(per operation, under ok_result; not part of the history alphabet); C09_failed_unroll_no_effect - a '
                  'rejected unroll / unroll_children leaves the heap unchanged and raises only the documented exceptions.  '
                  'C09_failed_call_no_effect: a failing x[idx] = v / x[a:b:st] = vals (ValueError) / float count '
                  'changes nothing, also for held values; refuted for the recursive reverse_inplace.  Loop.__eq__ reads '
                  'structure/counts/waveforms/measurements only and answers true exactly for structurally equal subtrees '
                  '(volatile counts: identity tag and multiplier).  The round-2 forest statement is proved FALSE for held '
                  'copies with an explicit parent.  NOT proved (tested only, by check_corr against the model and by '
                  'check_spec on the real objects): run_ok for structural operations (C09_history_total_statement), '
                  'flatten_and_balance INSIDE histories (proved per operation only), every operation on nodes that dropped out '
                  'of the program or are handed back by the caller, incl. a new loop built around program nodes taking their '
                  'place (FWrapInsert, round 6) (C09_forest_statement; its guard excludes ALL re-insertions of held nodes, more '
                  'than the two known findings), the composition Inv -> check_spec through the observation function (clause by clause only: '
                  'C09_reported_is_recomputed, C09_location_roundtrip, Inv links).  Not covered at all: make_compatible.',
    'level_note': 'Trusted: Coq kernel + vm_compute; the hand-written model (tied to /repo by correspondence only, no '
                  'translator); abstract waveforms; parent weak references as plain ids (objects kept alive); theorems '
                  'assume inserted values are fresh (aliased / floating insertions are known findings, the model follows the '
                  'code there and - round 5 - twin cases keep the correspondence switched on inside both classes); the table '
                  'of expected exceptions for invalid-argument calls (the model of a rejected call is "raises, no effect" by '
                  'definition); check_spec shares only data helpers with the model (wf_dur, wf_eqb, mw_eqb, meas_eqb: "no '
                  'measurements" = "empty list"); for minimal_waveform_quanta <= 0 the model does not follow the code '
                  '(ZeroDivisionError / negative counts; not generated); shared measurement-list objects not modelled; '
                  'harness observation and classification code.',
    'technique': 'Coq proof over a heap model + step-by-step correspondence check on operation histories and forests',
    'design_ref': 'DESIGN.md §5 C09, §4.5; notes/C09.md',
}
