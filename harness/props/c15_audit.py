"""C15 audit tool (round 5; not used by ./check).  Usage:
    cd /tmp && VERIF_REPO=<tree> PYTHONPATH=<tree> PYTHONHASHSEED=0 /venv/bin/python /verif/harness/props/c15_audit.py
Runs corpus + quick cases on the implementation, evaluates check_corr / check_spec / py_spec, and prints per known-finding
id how many spec-failing cases are filed under it and on how many of those the model ALSO disagrees with the
implementation (such a disagreement would be invisible to the check; must be 0), plus the unfiled failures (id None)."""

import sys, os, random, collections, json
repo = os.environ.get('VERIF_REPO', '/repo')
sys.path[:0] = [repo, '/verif/harness', '/verif/harness/props']
import vlib, c15
seed = int(os.environ.get('VERIF_SEED', '0'))
rng = random.Random(seed)
cases = c15.gen_cases(rng, 'quick', {})
import glob
corpus = [json.load(open(f)) for f in sorted(glob.glob('/verif/corpus/C15/*.json'))]
corpus = [c.get('case', c) for c in corpus]
cases = corpus + cases
obs = [c15.run_impl(c) for c in cases]
wd = '/verif/build/c15_audit_wd_%d' % os.getpid()
res = vlib.run_coq_cases(wd, c15.CORR_IMPORTS, [c15.CHECK_CORR, c15.CHECK_SPEC], [c15.to_coq(c, o) for c, o in zip(cases, obs)],
                         case_type='case', shard=c15.SHARD, prelude='')
corr, spec = set(res[c15.CHECK_CORR]), set(res[c15.CHECK_SPEC])
spec |= {i for i, (c, o) in enumerate(zip(cases, obs)) if c15.py_spec(c, o)}
cnt = collections.Counter(); hid = collections.Counter()
for i in sorted(spec):
    fid = c15.classify(cases[i], obs[i])
    cnt[fid] += 1
    if i in corr:
        hid[fid] += 1
        if fid is not None and hid[fid] <= 2:
            print('HIDDEN', fid, json.dumps(cases[i])[:300])
print('cases', len(cases), 'spec_fail', len(spec), 'corr_fail', len(corr), 'corr_only', len(corr - spec))
for k in cnt:
    print('  %-40s spec-failing %4d   model also disagrees %4d' % (k, cnt[k], hid[k]))
vlib.rmtree(wd)
