"""C01 round 5 — family `tdep`: TIME DEPENDENT transformation values (ParallelChannelPT value / ArithmeticPT scalar operand
that contains `t`; qupulse allows them on atomic templates only).  `t` is the time since the start of the atomic pulse
the node decorates, wherever that pulse sits in the program (later pass of a repetition / loop, later sequence member,
inside a time reversal).

The Coq model has no time dependent transformation step.  A case of this family carries TWO trees:
  pt_real : what the harness builds and runs (node kinds 'tpar' / 'tarith', only here)
            {'k':'tpar','body':atom,'ow':[[ch, a, b | None], ..]}          ParallelChannelPT(atom, {ch: '(a) + (b)*t'})
            {'k':'tarith','body':atom,'op':'+-*','lhs':bool,'scalar':[a,b] | {'map':[[ch,a,b],..]}}   atom op (a + b*t)
  pt      : the tree of modelled node kinds with the SAME MEANING, which goes to Coq (model and denotation):
            atom || ch = a + b*t          ==  AtomicMultiChannelPT(atom', FunctionPT('a + b*t', duration(atom), ch))
            atom +- (a + b*t)             ==  ArithmeticAtomicPT(atom, +-, FunctionPT(a + b*t, duration(atom), ch) per channel)
            (a + b*t) - atom              ==  ArithmeticAtomicPT(FunctionPT(..), -, atom)
            ConstantPT(d, {ch: v}) * (a + b*t)  ==  FunctionPT(v*a + v*b*t, d, ch)
The translation is part of the harness (trusted, stated in the notes): for these cases the check compares the code with
the denotation of the equivalent tree; the model does not mirror TransformingWaveform's time dependent path."""
from fractions import Fraction as F

from props import c01_gen as G
from props import c01_gen3 as G3

C, V = G.C, G.V


def mul(a, b):
    if a[0] == 'c' and F(a[1]) == 1:
        return b
    if b[0] == 'c' and F(b[1]) == 1:
        return a
    return ['*', a, b]


# ---------------------------------------------------------------------------------------------------------------------
# atoms with a known duration expression
def _end(v0, slope, d):
    # end value v0 + slope * d as an expression: the slope of the ramp is a dyadic number for EVERY duration (exact in binary64)
    return ['+', C(v0), mul(C(slope), d)]


def a_ramp(ch, d, v0=0, slope=1, interp='linear'):
    return {'k': 'table', 'chs': [[ch, [[C(0), C(v0), 'hold'], [d, _end(v0, slope, d), interp]]]]}, d


def a_const(chs, d, vs):
    return {'k': 'const', 'd': d, 'amps': [[ch, v] for ch, v in zip(chs, vs)]}, d


def a_func(ch, d, a, b):
    return {'k': 'func', 'd': d, 'ch': ch, 'a': a, 'b': b}, d


def a_point(ch, d, v0, v1):
    return {'k': 'point', 'entries': [[C(0), [C(v0)], 'hold'], [d, [_end(v0, v1, d)], 'linear']], 'chs': [ch]}, d


def a_two(d, v=(0, 1, 2, -1)):
    return {'k': 'multi', 'subs': [a_ramp('A', d, v[0], v[1])[0], a_ramp('B', d, v[2], v[3])[0]]}, d


def func(d, ch, a, b):
    return {'k': 'func', 'd': d, 'ch': ch, 'a': a, 'b': b}


def drop_chan(atom, ch):
    """the atom without channel ch (None if nothing is left); only for the atom shapes built above"""
    k = atom['k']
    if k == 'const':
        amps = [x for x in atom['amps'] if x[0] != ch]
        return dict(atom, amps=amps) if amps else None
    if k == 'table':
        chs = [x for x in atom['chs'] if x[0] != ch]
        return dict(atom, chs=chs) if chs else None
    if k == 'multi':
        subs = [y for y in (drop_chan(x, ch) for x in atom['subs']) if y is not None]
        return None if not subs else subs[0] if len(subs) == 1 else dict(atom, subs=subs)
    if k in ('func',):
        return None if atom['ch'] == ch else atom
    if k == 'point':
        return None if atom['chs'] == [ch] else atom
    raise ValueError(k)


def tpar(atom_d, ow):
    """-> (real node, equivalent atom).  ow: [[ch, a, b | None]]; a channel of the atom that is overwritten is removed from
    the equivalent atom (ParallelChannelTransformation replaces it)"""
    atom, d = atom_d
    real = {'k': 'tpar', 'body': atom, 'ow': ow}
    rest = atom
    for ch, _, _ in ow:
        rest = drop_chan(rest, ch) if rest is not None else None
    subs = [] if rest is None else [rest]
    for ch, a, b in ow:
        subs.append(func(d, ch, a, b) if b is not None else {'k': 'const', 'd': d, 'amps': [[ch, a]]})
    eq = subs[0] if len(subs) == 1 else {'k': 'multi', 'subs': subs}
    return real, eq


def tarith(atom_d, op, lhs, scalar, chans):
    """-> (real node, equivalent atom).  scalar: [a, b] (all channels) or {'map': [[ch, a, b], ..]}"""
    atom, d = atom_d
    real = {'k': 'tarith', 'body': atom, 'op': op, 'lhs': lhs, 'scalar': scalar}
    per = [[ch, scalar[0], scalar[1]] for ch in chans] if isinstance(scalar, list) else scalar['map']
    fs = [func(d, ch, a, b) for ch, a, b in per]
    f = fs[0] if len(fs) == 1 else {'k': 'multi', 'subs': fs}
    if op == '*':
        assert atom['k'] == 'const' and len(per) == len(atom['amps'])
        vs = dict((ch, v) for ch, v in atom['amps'])
        fs = [func(d, ch, mul(vs[ch], a), mul(vs[ch], b)) for ch, a, b in per]
        eq = fs[0] if len(fs) == 1 else {'k': 'multi', 'subs': fs}
    elif lhs or op == '+':
        eq = {'k': 'aarith', 'l': atom, 'op': op, 'r': f}
    else:
        assert len(per) == len(chans)      # scalar - pulse negates every channel: only with a scalar for every channel
        eq = {'k': 'aarith', 'l': f, 'op': '-', 'r': atom}
    return real, eq


# ---------------------------------------------------------------------------------------------------------------------
def both(f, *pairs):
    """apply the same composite constructor to the real and the equivalent tree"""
    return f(*[p[0] for p in pairs]), f(*[p[1] for p in pairs])


def same(n):
    return n, n


SHAPES = ['alone', 'rep', 'seq-second', 'seq-both', 'rep-seq', 'seq-rep', 'rev-seq', 'rep-rev', 'map-rep', 'rep-rep', 'for']


def shape(name, x, lead, n=3):
    seq = lambda *s: {'k': 'seq', 'subs': list(s)}
    rep = lambda b, k=n: {'k': 'rep', 'n': C(k), 'body': b}
    rev = lambda b: {'k': 'rev', 'body': b}
    if name == 'alone':
        return x
    if name == 'rep':
        return both(rep, x)
    if name == 'seq-second':
        return both(seq, same(lead), x)
    if name == 'seq-both':
        return both(seq, x, same(lead), x)
    if name == 'rep-seq':
        return both(lambda a, b: rep(seq(a, b), 2), same(lead), x)
    if name == 'seq-rep':
        return both(lambda a, b: seq(a, rep(b)), same(lead), x)
    if name == 'rev-seq':
        return both(lambda a, b: rev(seq(a, b)), same(lead), x)
    if name == 'rep-rev':
        return both(lambda b: rep(rev(b), 2), x)
    if name == 'map-rep':
        return both(lambda b: {'k': 'map', 'pm': [], 'chm': [], 'body': rep(b)}, x)
    if name == 'rep-rep':
        return both(lambda b: rep(rep(b, 2), 2), x)
    raise ValueError(name)


def _case(real, eq, params, cm, tag, dec=None, rng=None):
    c = {'pt': eq, 'pt_real': real, 'params': {k: str(F(v)) for k, v in params.items()}, 'cm': cm}
    if dec:
        c = G3.regrid(c, {'den': dec['den'], 'ptypes': dec.get('ptypes', {}), 'rates': dec.get('rates', []), 'dec_kind': 'tdep'})
    # the grid stays inside [0, duration): at t = duration (outside the property's interval) the constant short-cut of the
    # equivalent tree's waveform answers where the time dependent TransformingWaveform gives NaN
    if dec:
        c['grid'] = [t for t in c['grid'] if F(t) < G3.junctions(eq, {k: F(v) for k, v in params.items()})[0]]
    else:
        dur = G3.junctions(eq, {k: F(v) for k, v in params.items()})[0]
        pts = set()
        for k in range(int(dur * 4) + 1):
            pts.add(F(k, 4))
            if k % 3 == 0:
                pts.add(F(k, 4) + F(1, 16))
            if k % 5 == 1:
                pts.add(F(k, 4) + F(3, 16))
        c['grid'] = [str(t) for t in sorted(pts) if t < dur]
    c['family'] = 'tdep'
    c['tdep'], c['tdep_shape'] = tag.split('/', 1)
    return c


def decorations(rng, d, idx=None):
    """(tag, (real, equivalent), channels, lead) for one atom duration expression d"""
    A = rng.choice([F(1, 2), F(1), F(-1), F(2)])
    B = rng.choice([F(1, 2), F(1), F(-1), F(2), F(-1, 2)])
    a = C(A) if idx is None else ['+', C(A), V(idx)]
    b = C(B)
    lead1 = {'k': 'const', 'd': C(rng.choice([F(1, 2), F(3, 4), F(1)])), 'amps': [['A', C(F(1, 4))]]}
    lead2 = {'k': 'const', 'd': lead1['d'], 'amps': [['A', C(F(1, 4))], ['B', C(F(-1, 4))]]}
    out = []
    # a new channel that follows the time
    out.append(('par-new', tpar(a_ramp('A', d), [['B', a, b]]), lead2))
    out.append(('par-new-const-atom', tpar(a_const(['A'], d, [C(F(3, 2))]), [['B', a, b]]), lead2))
    out.append(('par-new-func-atom', tpar(a_func('A', d, C(1), C(F(-1, 2))), [['B', a, b]]), lead2))
    out.append(('par-new-point-atom', tpar(a_point('A', d, 1, -1), [['B', a, b]]), lead2))
    # an existing channel overwritten by a function of the time; next to a constant overwrite
    out.append(('par-overwrite', tpar(a_two(d), [['B', a, b]]), lead2))
    out.append(('par-mixed', tpar(a_ramp('A', d), [['B', a, b], ['C', C(F(3, 4)), None]]),
                {'k': 'const', 'd': lead1['d'], 'amps': [['A', C(0)], ['B', C(0)], ['C', C(1)]]}))
    # scalar arithmetic with the time
    for op, lhs in (('+', True), ('-', True), ('+', False), ('-', False)):
        out.append(('arith%s%s' % (op, 'l' if lhs else 'r'), tarith(a_ramp('A', d), op, lhs, [a, b], ['A']), lead1))
    out.append(('arith*const', tarith(a_const(['A'], d, [C(F(3, 2))]), '*', True, [a, b], ['A']), lead1))
    out.append(('arith*const-r', tarith(a_const(['A'], d, [C(F(-1, 2))]), '*', False, [a, b], ['A']), lead1))
    out.append(('arith+func', tarith(a_func('A', d, C(1), C(F(1, 2))), '+', True, [a, b], ['A']), lead1))
    out.append(('arith+map', tarith(a_two(d), '+', True, {'map': [['B', a, b]]}, ['A', 'B']), lead2))
    out.append(('arith-two', tarith(a_two(d), '-', False, [a, b], ['A', 'B']), lead2))
    return out


def gen_tdep_cases(rng, tier):
    """deterministic product decoration x shape (quick: every decoration in 3 shapes),
    dyadic (exact comparison) and decimal durations (tolerance comparison), loop-index dependent values / durations,
    channel renaming / dropping of the time dependent channel"""
    quick = tier == 'quick'
    out = []
    # dyadic
    for dform in ('lit', 'param'):
        dv = rng.choice([F(1), F(3, 2), F(2), F(5, 4)])
        d = C(dv) if dform == 'lit' else V('d')
        params = {} if dform == 'lit' else {'d': dv}
        decs = decorations(rng, d)
        for j, (tag, x, lead) in enumerate(decs):
            if quick and (j % 2 == 0) != (dform == 'lit'):
                continue
            shapes = SHAPES[:-1] if not quick else [SHAPES[(j + s) % (len(SHAPES) - 1)] for s in (1, 5)] + ['rep']
            for sh in sorted(set(shapes)):
                real, eq = shape(sh, x, lead, n=rng.choice([2, 3]))
                out.append(_case(real, eq, params, [], '%s/%s' % (tag, sh)))
    # loop index in the time dependent value (offset a + i) and in the duration
    pick8 = (lambda l: l) if not quick else (lambda l: rng.sample(l, 8))
    for tag, x, lead in pick8(decorations(rng, C(F(3, 2)), idx='i')):
        real, eq = both(lambda b: {'k': 'for', 'idx': 'i', 'range': [C(0), C(3), C(1)], 'body': b}, x)
        out.append(_case(real, eq, {}, [], tag + '/for-value'))
    for tag, x, lead in pick8(decorations(rng, ['*', C(F(1, 2)), V('i')])):
        real, eq = both(lambda b: {'k': 'for', 'idx': 'i', 'range': [C(1), C(4), C(1)], 'body': b}, x)
        out.append(_case(real, eq, {}, [], tag + '/for-duration'))
    # the time dependent channel renamed / dropped (top level and by a MappingPT), a scalar arithmetic node around it
    decs = decorations(rng, C(2))
    for tag, x, lead in decs[:6]:
        rp = both(lambda b: {'k': 'rep', 'n': C(2), 'body': b}, x)
        out.append(_case(rp[0], rp[1], {}, [['B', 'Z']], tag + '/renamed'))
        out.append(_case(rp[0], rp[1], {}, [['B', None]], tag + '/dropped'))
        if tag == 'par-overwrite':       # (a single-channel atom whose channel is dropped plays nothing at all)
            out.append(_case(rp[0], rp[1], {}, [['A', None]], tag + '/other-dropped'))
        m = both(lambda b: {'k': 'map', 'pm': [], 'chm': [['B', 'Y'], ['A', 'B']], 'body': b}, rp)
        out.append(_case(m[0], m[1], {}, [], tag + '/map-renamed'))
    for tag, x, lead in decs[6:]:
        for op, sc in ((('*', F(2)), ('+', F(-1)), ('-', F(1, 2))) if not quick else [rng.choice([('*', F(2)), ('+', F(-1)), ('-', F(1, 2))])]):
            lhs = rng.random() < 0.5
            o = both(lambda b: {'k': 'arith', 'lhs': lhs, 'op': op, 'scalar': C(sc), 'body': {'k': 'rep', 'n': C(2), 'body': b}}, x)
            out.append(_case(o[0], o[1], {}, [], tag + '/under-arith'))
    # decimal durations (tolerance constructor): the local time is t - float(start)
    for den, dq, form, rates in ((10, F(3, 10), 'float', [[10, 'int']]), (10, F(1, 10), 'dec_str', [[20, 'int']]),
                                 (5, F(3, 5), 'time', [[5, 'int']]), (3, F(2, 3), 'time', [[3, 'int']]),
                                 (20, F(7, 20), 'float', [[20, 'float']])):
        decs = decorations(rng, V('d1'))
        pick = decs if not quick else rng.sample(decs, 2)
        for tag, x, lead in pick:
            lead = dict(lead, d=V('d1'))
            for sh in (['rep', 'seq-second', 'rep-seq', 'rev-seq', 'rep-rev'] if not quick else rng.sample(['rep', 'seq-second', 'rep-seq', 'rev-seq'], 2)):
                real, eq = shape(sh, x, lead, n=rng.choice([3, 4, 7]))
                out.append(_case(real, eq, {'d1': dq}, [], '%s/%s/dec' % (tag, sh),
                                 dec={'den': den, 'ptypes': {'d1': form}, 'rates': rates}))
    return out
