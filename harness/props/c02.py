"""C02 — measurement windows of a program are the declared windows in absolute time."""
import fractions
import json
import os
import sys
import warnings

import vlib
from props import c02_ext as X
from props import c02_r3 as R
from props import c02_r4 as R4
from props import c02_r6 as R6

F = fractions.Fraction
PID = 'C02'
COQ_DIRS = ['common', 'C02']
TARGETS = ['C02/Props.vo', 'C02/Corr.vo']
MODEL_TARGETS = ['C02/Corr.vo']
PROPS_FILE = 'C02/Props.v'
PROPS_MODULE = 'QV.C02.Props'
CORR_IMPORTS = ['QV.C02.Spec', 'QV.C02.Model', 'QV.C02.Stack', 'QV.C02.Merge', 'QV.C02.Rewrite', 'QV.C02.Flatten',
                'QV.C02.Params', 'QV.C02.Vol', 'QV.C02.Render', 'QV.C02.Corr']
CHECK_CORR = 'check_corr'
CHECK_SPEC = 'check_spec'
SHARD = 120
RULE = ('prog cases: random template trees over atoms (Constant/Table/Point/Function PT), AtomicMultiChannelPT, '
        'ArithmeticAtomicPT, SequencePT, RepetitionPT, ForLoopPT, MappingPT (parameter + measurement renaming incl. '
        'dropping, parameter constraints that hold / depend on the assignment / fail), TimeReversalPT, '
        'to_single_waveform members, ParallelChannelPT / ArithmeticPT pass-through nodes; declarations on every node '
        'that accepts them; dyadic begins / lengths / durations, parameterised and loop-index dependent; counts 0/1/n, '
        'negative and non-integer counts, empty / negative-step / step-0 / non-integer ranges, zero-length windows, '
        'zero-duration atoms; top-level measurement mapping identity / renaming / merging / dropping / default.  '
        'Observation = exception class | None | duration + multiset of (name, begin, length) from '
        'Loop.get_measurement_windows(), again after cleanup(), plus plotting._render_loop and the public '
        'plotting.render(..., render_measurements=True)[2].  loop cases: hand-built Loop trees (windows on every node '
        'incl. repeated leaves) through get_measurement_windows, reverse_inplace, cleanup (judged by an additive '
        'reading written out in Corr.v: duration, windows, mirror image, cleanup = same duration + windows of the tree '
        'without its dead non-root nodes).  trace cases: the same '
        'templates built on an instrumented LoopBuilder: every call (measure / play / with_sequence enter+exit / '
        'with_repetition enter+exit / time_reversed / new_subprogram enter+exit) with the state of every frame of every '
        'active builder after it, compared step by step with the stack-machine model.  merge cases: '
        'MappingPT(MappingPT(body)) with random partial parameter / measurement mappings, inner constraints or '
        'identifier: merged or not, composed renaming, composed parameter values.  rw cases: unroll / unroll_children / '
        'encapsulate / split_one_child / _merge_single_child on hand-built loops, windows before and after (each run '
        'judged as two cases: model side, specification side).  flat cases: flatten_and_balance(depth) with the rewrites '
        'it performs logged: replayed by run_seq, compared with the Coq model of flatten_and_balance itself (same '
        'logged steps, same result), specification side; make_compatible: Python-side oracle only.  vol cases: '
        'volatile repetition counts updated after the build, incl. counts switched to / from 0 (three cases per run: '
        'model side, specification side, and the guarded positive statement: where the executable guard holds the '
        'windows must be the declared ones, no known finding applies; the guard is evaluated on the shape and counts of '
        'the implementation\'s own program before / after the update).  Round 3 families (ordinary prog cases, built '
        'or called differently): the same template OBJECT at several places of a tree (under one / different '
        'measurement mappings, in repetitions, for loops, reversals, as both operands of an ArithmeticAtomicPT), '
        'create_program called twice on the same object (second program observed, first must agree), a MappingPT '
        'rebinding the loop index (to an expression of itself / of a parameter) between a ForLoopPT and a measured '
        'RepetitionPT / atom / inner ForLoopPT, swap / cyclic / coinciding / dropped-and-reused measurement names in '
        'nested mappings and at the top level, a parameter called t, get_measurement_windows() queried twice, '
        'reverse_inplace twice; missing-parameter cases (parameters removed from the assignment: parameter_names '
        'compared with the model, ParameterNotProvidedException only if a declared parameter is missing).  '
        'Round 4 families: coinciding window triples (equal name after the mappings, equal begin, equal length) at every '
        'place where window lists are merged - one node, parallel parts, arithmetic operands, sequence guard, abutting '
        'children, repetition / iteration tiling, zero-duration leaves, renaming onto one name, symbolic coincidence - '
        'deterministic per merge point + the ordinary grammar over a low-entropy pool + low-entropy hand-built loops '
        '(also through rw / flat); the same object below two measurement mappings with the same keys / two parameter '
        'mappings, and create_program called before the observed call with other arguments (other mapping, parameters, '
        'channel mapping, without to_single_waveform, failing calls); TimeReversalPT / ParallelChannelPT / scalar '
        'ArithmeticPT (both operand slots) / identifiers around atomic parts INSIDE atomic composites; '
        'get_measurement_windows(drop=True) on every program / loop; loops extended by append_child after a query; inner '
        'nodes with windows and nothing to play; cleanup() of programs with volatile counts; negative split index; '
        'AtomicMultiChannelPT built through with_parallel_atomic.  '
        'Round 6 render cases: the program of a template handed to plotting.render(prog, sample_rate, '
        'render_measurements=True, time_slice) with the default slice and explicit slices chosen relative to the reported '
        'windows (the whole program, exactly one window, ending where a window begins, beginning where a window ends, '
        'a point, too short for two samples, reversed, negative start); answer = windows | ValueError(time_slice) | '
        'PlottingNotPossibleException, compared in Coq with Render.render_meas of the model program and with the '
        'specification (all denoted windows resp. those with begin < end and begin + length > start); deterministic '
        'family: zero-length windows at t = 0 / inside / t = duration and windows touching a slice boundary on an atom, '
        'first / last part of a sequence, repeated body, reversed part, for-loop body, collapsed repetition x 12 slices.  '
        'Thorough tier adds exhaustive small scopes (template shapes, loop trees, rewrites, aliasing contexts, '
        'rebinding expressions x ranges, renamings of two names x top-level mappings).  Non-trivial = '
        'at least two reported windows under at least two nested composite nodes / two nested loops, traces of >= 6 '
        'calls, merges with both mappings non-empty, rewrites that were applied to loops with >= 2 windows, volatile '
        'updates that changed the windows.')
TRUSTED = [
    'Coq 8.16.1 kernel + vm_compute (no native_compute)',
    'the atoms\' own waveform construction (duration, None for an empty atom) is taken as given: the model only '
    'uses "plays" and the duration of an atomic node',
    'sympy/numpy evaluation of the (polynomial, dyadic) begin/length/duration/constraint expressions is exact',
    'harness: generators, PT construction from the JSON tree, exact float->rational conversion, Gallina printers, '
    'the LoopBuilder instrumentation (wrappers around the unchanged methods that log the call and read the stack)',
    'Stack.events (the calls each template class performs) and Merge.mk_map are transcriptions of the '
    '_internal_create_program methods / MappingPT.__init__, tied to the code by the trace / merge cases',
]
ASSUMPTIONS = [
    'times are dyadic rationals so that float arithmetic in numpy is exact',
    'atoms never get a NEGATIVE duration under a generated assignment (there the atom classes differ: ConstantPT gives no '
    'program, TablePT / PointPT raise ValueError, FunctionPT plays; the specification allows any refusal, the model only '
    'knows "does not play")',
    'the top-level measurement mapping is total on the names visible at the root (a missing key is a KeyError)',
    'missing parameters: only the legitimacy of a ParameterNotProvidedException is judged (a declared parameter is '
    'missing); WHICH missing parameter the lazy evaluation hits first is not modelled (C03)',
    'volatile parameters occur only in repetition counts (the code refuses them anywhere else); volatile counts are '
    'non-negative integers before and after the update',
]

PARAMS = ['a', 'b', 'c', 'd', 'n0', 'n1', 't']     # time-like a..d, integer-like n0,n1; t only in the tparam family
NMEAS = 6


def par_id(name):
    if name in PARAMS:
        return PARAMS.index(name)
    assert name[0] == 'i', name
    return 20 + int(name[1:])


def meas_id(name):
    assert name[0] == 'm', name
    return int(name[1:])


# ---------------------------------------------------------------------------------------------------------------------
# expressions:  ["c", "3/2"] | ["v", name] | ["+", e, e] | ["-", e, e] | ["*", e, e]

def e_c(x):
    return ['c', str(F(x))]


def e_vars(e):
    if e[0] == 'c':
        return set()
    if e[0] == 'v':
        return {e[1]}
    return e_vars(e[1]) | e_vars(e[2])


def e_str(e):
    if e[0] == 'c':
        f = F(e[1])
        return repr(float(f)) if f.denominator != 1 else str(f.numerator)
    if e[0] == 'v':
        return e[1]
    return '(%s %s %s)' % (e_str(e[1]), e[0], e_str(e[2]))


def e_coq(e):
    if e[0] == 'c':
        f = F(e[1])
        return '(EC (q %s %d))' % (vlib.gZ(f.numerator), f.denominator)
    if e[0] == 'v':
        return '(EV %s)' % vlib.gN(par_id(e[1]))
    return '(%s %s %s)' % ({'+': 'EAdd', '-': 'ESub', '*': 'EMul'}[e[0]], e_coq(e[1]), e_coq(e[2]))


def e_eval(e, env):
    if e[0] == 'c':
        return F(e[1])
    if e[0] == 'v':
        return env[e[1]]
    x, y = e_eval(e[1], env), e_eval(e[2], env)
    return x + y if e[0] == '+' else x - y if e[0] == '-' else x * y


# ---------------------------------------------------------------------------------------------------------------------
# tree helpers (JSON trees)

def ms_vars(ms):
    s = set()
    for _, b, l in ms:
        s |= e_vars(b) | e_vars(l)
    return s


def free_params(t):
    k = t['k']
    if k == 'atom':
        return e_vars(t['dur']) | ms_vars(t['ms'])
    if k in ('multi', 'seq'):
        s = ms_vars(t['ms'])
        for c in t['subs']:
            s |= free_params(c)
        return s
    if k == 'arith':
        # ArithmeticAtomicPT.parameter_names does not list its own measurement parameters
        return free_params(t['l']) | free_params(t['r'])
    if k == 'rep':
        return ms_vars(t['ms']) | e_vars(t['count']) | free_params(t['body'])
    if k == 'for':
        return (ms_vars(t['ms']) | e_vars(t['start']) | e_vars(t['stop']) | e_vars(t['step'])
                | (free_params(t['body']) - {t['idx']}))
    if k == 'map':
        inner = free_params(t['body'])
        s = set(inner) - set(t['pm'])
        for key, e in t['pm'].items():
            s |= e_vars(e)
        for _, a, b in t.get('cs', []):
            s |= e_vars(a) | e_vars(b)
        return s
    return free_params(t['body'])


def meas_names(t):
    k = t['k']
    own = {m[0] for m in t.get('ms', [])}
    if k == 'atom':
        return own
    if k in ('multi', 'seq'):
        for c in t['subs']:
            own |= meas_names(c)
        return own
    if k == 'arith':
        return own | meas_names(t['l']) | meas_names(t['r'])
    if k == 'map':
        return {t['mm'].get(n, n) if n is not None else None for n in meas_names(t['body'])}
    return own | meas_names(t['body'])


def children(t):
    k = t['k']
    if k in ('multi', 'seq'):
        return list(t['subs'])
    if k == 'arith':
        return [t['l'], t['r']]
    if k == 'atom':
        return []
    return [t['body']]


def depth(t):
    return 1 + max([depth(c) for c in children(t)] + [0])


def kinds(t, acc=None):
    acc = acc if acc is not None else []
    acc.append(t['k'])
    for c in children(t):
        kinds(c, acc)
    return acc


def size(t):
    return 1 + sum(size(c) for c in children(t))


def _atoms(t):
    if t['k'] == 'atom':
        return [t]
    out = []
    for c in children(t):
        out.extend(_atoms(c))
    return out


def has_rev_over_rep(t, under_rev=False):
    if t['k'] == 'rev':
        under_rev = True
    if under_rev and t['k'] == 'rep':
        return True
    return any(has_rev_over_rep(c, under_rev) for c in children(t))


# ---------------------------------------------------------------------------------------------------------------------
# generators

TIMES = [F(0), F(1, 4), F(1, 2), F(1), F(3, 2), F(2), F(3)]
DURS = [F(1), F(2), F(1, 2), F(3, 2), F(3)]


class G:
    def __init__(self, rng, malformed=0.04, awrap=0.12):
        self.rng = rng
        self.malformed = malformed
        self.awrap = awrap

    def time_expr(self, idxs):
        r = self.rng.random()
        if r < 0.45:
            return e_c(self.rng.choice(TIMES))
        if r < 0.65:
            return ['v', self.rng.choice(PARAMS[:4])]
        if r < 0.85 and idxs:
            return ['+', e_c(self.rng.choice(TIMES)), ['*', e_c(self.rng.choice([F(1, 2), F(1), F(1, 4)])),
                                                       ['v', self.rng.choice(idxs)]]]
        if r < 0.92:
            return ['+', ['v', self.rng.choice(PARAMS[:4])], e_c(self.rng.choice(TIMES))]
        if r < 0.92 + self.malformed:
            return ['-', ['v', self.rng.choice(PARAMS[:4])], e_c(self.rng.choice([F(1, 2), F(2), F(4)]))]
        return ['*', ['v', self.rng.choice(PARAMS[:4])], e_c(self.rng.choice([F(1, 2), F(2)]))]

    def decls(self, idxs, p=0.6, kmax=2):
        out = []
        if self.rng.random() < p:
            for _ in range(self.rng.randint(1, kmax)):
                length = self.time_expr(idxs) if self.rng.random() < 0.85 else e_c(0)
                out.append(['m%d' % self.rng.randrange(NMEAS), self.time_expr(idxs), length])
        return out

    def dur_expr(self, idxs):
        r = self.rng.random()
        if r < 0.5:
            return e_c(self.rng.choice(DURS))
        if r < 0.6:
            return e_c(0)
        if r < 0.8:
            return ['v', self.rng.choice(PARAMS[:4])]
        if idxs:
            i = self.rng.choice(idxs)
            return self.rng.choice([['+', e_c(2), ['v', i]], ['*', ['v', i], ['v', i]],
                                    ['+', e_c(F(1, 2)), ['*', e_c(F(1, 2)), ['*', ['v', i], ['v', i]]]]])
        return ['+', ['v', self.rng.choice(PARAMS[:4])], e_c(self.rng.choice(DURS))]

    def atom(self, chs, idxs, dur=None, func_ok=True):
        dur = dur if dur is not None else self.dur_expr(idxs)
        classes = ['const', 'table', 'point'] + (['func'] if len(chs) == 1 and func_ok else [])
        return {'k': 'atom', 'cls': self.rng.choice(classes), 'dur': dur, 'ms': self.decls(idxs), 'chs': list(chs)}

    def atomic(self, chs, idxs, dur, d, may_zero=False, func_ok=True):
        """an atomic composite over exactly the channels chs.  All playing parts share the duration expression; a
        part may be empty (duration 0) only where the other parts still cover every channel (may_zero); FunctionPT
        (which plays even with duration 0) only where that cannot unbalance the channels (func_ok)."""
        if may_zero and self.rng.random() < 0.25:
            dur = e_c(0)
            func_ok = False
        if d > 0 and self.rng.random() < self.awrap:
            # round 4: a wrapper that answers _is_atomic() = True around an atomic part (inside an atomic composite its
            # get_measurement_windows / build_waveform are used instead of _internal_create_program)
            how = self.rng.choice(['rev', 'rev', 'pass', 'single'])
            inner = self.atomic(chs, idxs, dur, d - 1, may_zero and how != 'rev', func_ok)
            if how == 'rev' and dur != e_c(0) and any(a['dur'] == e_c(0) for a in _atoms(inner)):
                how = 'pass'     # a non-playing part below a reversed composite: AtomicMultiChannelPT.duration is its
                                 # FIRST part's (C04's business); the mirror axis would not be the waveform's duration
            if how == 'rev':
                return {'k': 'rev', 'body': inner}
            if how == 'pass':
                return {'k': 'pass', 'how': 'par' if 'A' in chs and self.rng.random() < 0.5 else self.rng.choice(['mul', 'rmul']),
                        'body': inner}
            return inner if inner['k'] == 'single' else {'k': 'single', 'body': inner}
        r = self.rng.random()
        if d <= 0 or r < 0.4:
            return self.atom(chs, idxs, dur, func_ok)
        if r < 0.65:
            chs = list(chs)
            if len(chs) > 1 and self.rng.random() < 0.8:
                parts = [chs[:1], chs[1:]]
            else:
                parts = [chs]
            t = {'k': 'multi', 'ms': self.decls(idxs),
                 'subs': [self.atomic(p, idxs, dur, d - 1, False, func_ok and len(parts) == 1) for p in parts]}
            if len(parts) > 1 and self.rng.random() < 0.35:
                t['via'] = 'wpa'            # built as first.with_parallel_atomic(rest) (round 4: the other construction path)
                if self.rng.random() < 0.5:
                    t['wrap1'] = True
            return t
        if r < 0.85:
            sub = list(chs) if self.rng.random() < 0.6 else list(chs)[:1]
            same = sorted(sub) == sorted(chs)
            return {'k': 'arith', 'ms': self.decls(idxs), 'op': self.rng.choice(['+', '-']),
                    'l': self.atomic(chs, idxs, dur, d - 1, same, func_ok and same),
                    'r': self.atomic(sub, idxs, dur, d - 1, True, func_ok and same)}
        return self.mapping(self.atomic(chs, idxs, dur, d - 1, may_zero, func_ok), idxs, keep=e_vars(dur))

    def mapping(self, body, idxs, keep=()):
        fp = sorted(p for p in free_params(body) if p in PARAMS[:4] and p not in keep)
        pm = {}
        for p in fp:
            if self.rng.random() < 0.5:
                pm[p] = self.rng.choice([['v', self.rng.choice(PARAMS[:4])],
                                         ['+', ['v', self.rng.choice(PARAMS[:4])], e_c(self.rng.choice(TIMES))],
                                         ['*', ['v', self.rng.choice(PARAMS[:4])], e_c(F(1, 2))],
                                         e_c(self.rng.choice(DURS))] +
                                        ([['+', e_c(1), ['v', self.rng.choice(idxs)]]] if idxs else []))
        mm = {}
        for n in sorted(x for x in meas_names(body) if x is not None):
            r = self.rng.random()
            if r < 0.45:
                mm[n] = 'm%d' % self.rng.randrange(NMEAS)
            elif r < 0.55:
                mm[n] = None
        cs = []
        if self.rng.random() < 0.3:
            for _ in range(self.rng.randint(1, 2)):
                a = ['v', self.rng.choice(PARAMS[:4])]
                r = self.rng.random()
                if r < 0.55:        # always true for the generated values (0 <= value <= 3)
                    cs.append([self.rng.random() < 0.5, a, e_c(self.rng.choice([4, 5, 100]))])
                elif r < 0.8:       # depends on the assignment; equality on purpose
                    cs.append([self.rng.random() < 0.5, a, self.rng.choice([['v', self.rng.choice(PARAMS[:4])],
                                                                            e_c(self.rng.choice(TIMES))])])
                else:
                    cs.append([self.rng.random() < 0.5, ['+', a, e_c(self.rng.choice(TIMES))],
                               ['*', e_c(2), ['v', self.rng.choice(PARAMS[:4])]]])
        return {'k': 'map', 'pm': pm, 'mm': mm, 'cs': cs, 'body': body}

    def count_expr(self):
        r = self.rng.random()
        if r < 0.55:
            return e_c(self.rng.choice([0, 1, 1, 2, 2, 3, 4]))
        if r < 0.85:
            return ['v', self.rng.choice(['n0', 'n1'])]
        if r < 0.93:
            return ['+', ['v', self.rng.choice(['n0', 'n1'])], e_c(self.rng.choice([1, -1, -3]))]
        if r < 0.93 + self.malformed:
            return e_c(F(3, 2))
        return ['-', ['v', self.rng.choice(['n0', 'n1'])], e_c(5)]      # negative count: max(0, .) = 0

    def range_exprs(self):
        r = self.rng.random()
        if r < 0.4:
            a, b, s = 0, self.rng.randint(0, 3), 1
        elif r < 0.6:
            a, b, s = self.rng.randint(-2, 2), self.rng.randint(-2, 4), self.rng.choice([1, 2, 3])
        elif r < 0.8:
            a, b, s = self.rng.randint(0, 4), self.rng.randint(-2, 2), self.rng.choice([-1, -2])
        elif r < 0.97:
            return [e_c(self.rng.randint(0, 1)), ['v', self.rng.choice(['n0', 'n1'])], e_c(1)]
        else:
            a, b, s = 0, 2, self.rng.choice([0, F(1, 2)]) if self.rng.random() < 10 * self.malformed else 1
        return [e_c(a), e_c(b), e_c(s)]

    def node(self, chs, idxs, d):
        r = self.rng.random()
        if d <= 0 or r < 0.18:
            return self.atomic(chs, idxs, self.dur_expr(idxs), min(d, 2) if self.rng.random() < 0.35 else 0)
        if r < 0.38:
            return {'k': 'seq', 'ms': self.decls(idxs), 'subs': [self.node(chs, idxs, d - 1)
                                                                 for _ in range(self.rng.randint(1, 3))]}
        if r < 0.54:
            return {'k': 'rep', 'ms': self.decls(idxs), 'count': self.count_expr(), 'body': self.node(chs, idxs, d - 1)}
        if r < 0.68:
            idx = 'i%d' % len(idxs)
            body = self.node(chs, idxs + [idx], d - 1)
            if idx not in free_params(body):
                body = self.force_index(body, idx, chs)
            a, b, s = self.range_exprs()
            return {'k': 'for', 'ms': self.decls(idxs), 'idx': idx, 'start': a, 'stop': b, 'step': s, 'body': body}
        if r < 0.78:
            return self.mapping(self.node(chs, idxs, d - 1), idxs)
        if r < 0.90:
            return {'k': 'rev', 'body': self.node(chs, idxs, d - 1)}
        if r < 0.96:
            body = self.node(chs, idxs, d - 1)
            if body['k'] == 'single':
                return body
            return {'k': 'single', 'body': body}
        return {'k': 'pass', 'how': self.rng.choice(['par', 'mul', 'rmul']), 'body': self.node(chs, idxs, d - 1)}

    def force_index(self, body, idx, chs):
        """ForLoopPT insists that the body uses the loop index: append an atom that does"""
        extra = {'k': 'atom', 'cls': 'const', 'dur': ['+', e_c(1), ['*', ['v', idx], ['v', idx]]],
                 'ms': [['m%d' % self.rng.randrange(NMEAS), ['*', e_c(F(1, 2)), ['*', ['v', idx], ['v', idx]]], e_c(F(1, 2))]],
                 'chs': list(chs)}
        return {'k': 'seq', 'ms': [], 'subs': [body, extra]}

    def env(self):
        env = {}
        for p in PARAMS[:4]:
            env[p] = str(self.rng.choice(TIMES + DURS))
        env['n0'] = str(self.rng.choice([0, 1, 2, 3]))
        env['n1'] = str(self.rng.choice([1, 2, 2, 3, -1]))
        return env

    def top_mm(self, tree):
        if self.rng.random() < 0.25:
            return None
        mm = {}
        for n in sorted(x for x in meas_names(tree) if x is not None):
            r = self.rng.random()
            mm[n] = n if r < 0.55 else ('m%d' % self.rng.randrange(NMEAS)) if r < 0.85 else None
        return mm

    def prog_case(self, d):
        chs = ['A', 'B'] if self.rng.random() < 0.5 else ['A']
        tree = self.node(chs, [], d)
        return {'kind': 'prog', 'pt': tree, 'env': self.env(), 'mm': self.top_mm(tree)}

    # ---- hand-built loops
    def loop(self, d, empties):
        nm = self.rng.choice([0, 0, 1, 1, 2])
        ms = [['m%d' % self.rng.randrange(3), str(self.rng.choice(TIMES)), str(self.rng.choice(TIMES))] for _ in range(nm)]
        rep = self.rng.choice([1, 1, 1, 2, 2, 3, 4])
        if d <= 0 or self.rng.random() < 0.3:
            wf = None if (empties and self.rng.random() < 0.3) else str(self.rng.choice(DURS))
            return {'rep': rep, 'wf': wf, 'ms': ms, 'ch': []}
        return {'rep': rep, 'wf': None, 'ms': ms, 'ch': [self.loop(d - 1, empties) for _ in range(self.rng.randint(1, 3))]}

    def loop_case(self, d):
        empties = self.rng.random() < 0.15
        return {'kind': 'loop', 'loop': self.loop(d, empties)}


def _enum_small():
    """exhaustive small scope: every composite shape of depth <= 2 over a window-carrying atom, counts/ranges 0..2"""
    A = lambda name, b: {'k': 'atom', 'cls': 'const', 'dur': e_c(2), 'ms': [[name, e_c(b), e_c(1)]], 'chs': ['A']}
    Z = {'k': 'atom', 'cls': 'const', 'dur': e_c(0), 'ms': [['m2', e_c(0), e_c(0)]], 'chs': ['A']}
    AI = {'k': 'atom', 'cls': 'const', 'dur': ['+', e_c(1), ['v', 'i0']],
          'ms': [['m0', ['*', e_c(F(1, 2)), ['v', 'i0']], e_c(F(1, 2))]], 'chs': ['A']}
    own = [[], [['m3', e_c(F(1, 2)), e_c(1)]]]

    def wraps(b, with_idx):
        out = []
        for ms in own:
            out.append({'k': 'seq', 'ms': ms, 'subs': [b]})
            out.append({'k': 'seq', 'ms': ms, 'subs': [Z, b]})
            out.append({'k': 'seq', 'ms': ms, 'subs': [b, A('m1', F(1, 2))]})
            for n in (0, 1, 2, 3):
                out.append({'k': 'rep', 'ms': ms, 'count': e_c(n), 'body': b})
            if with_idx:
                for rg in ((0, 0, 1), (0, 2, 1), (2, 0, -1), (0, 3, 2)):
                    out.append({'k': 'for', 'ms': ms, 'idx': 'i0', 'start': e_c(rg[0]), 'stop': e_c(rg[1]),
                                'step': e_c(rg[2]), 'body': b})
        out.append({'k': 'rev', 'body': b})
        if b['k'] != 'single':
            out.append({'k': 'single', 'body': b})
        out.append({'k': 'map', 'pm': {}, 'mm': {n: 'm5' for n in sorted(meas_names(b)) if n == 'm0'}, 'body': b})
        return out
    level1 = wraps(A('m0', 0), False) + wraps(AI, True)
    level2 = []
    for t in level1:
        level2.extend(wraps(t, 'i0' in free_params(t)))
    level3 = []
    for t in level2:
        if t['k'] in ('rev', 'single') or (t['k'] == 'rep' and t['count'] == e_c(2)):
            for w in wraps(t, 'i0' in free_params(t)):
                if w['k'] in ('rev', 'rep', 'single'):
                    level3.append(w)
    cases = []
    for t in level1 + level2 + level3:
        if 'i0' in free_params(t):
            continue
        cases.append({'kind': 'prog', 'pt': t, 'env': {p: '1' for p in PARAMS}, 'mm': None})
    return cases


def _enum_loops():
    """exhaustive small scope for hand-built loops: every ordered tree with <= 3 nodes, rep in {1,2,3}, one window or
    none on every node, two leaf durations"""
    import itertools
    shapes = [[], [[]], [[], []], [[[]]]]

    def nodes(sh):
        return 1 + sum(nodes(c) for c in sh)

    def build(sh, it):
        rep, w, d = next(it)
        ch = [build(c, it) for c in sh]
        return {'rep': rep, 'wf': None if ch else d, 'ms': [['m0', '1/2', '1']] if w else [], 'ch': ch}
    out = []
    for sh in shapes:
        n = nodes(sh)
        for combo in itertools.product(itertools.product([1, 2, 3], [0, 1], ['1', '3/2']), repeat=n):
            # the duration choice of inner nodes is irrelevant: keep one representative
            j = build(sh, iter(combo))
            out.append(j)
    seen, uniq = set(), []
    for j in out:
        key = json.dumps(j, sort_keys=True)
        if key not in seen:
            seen.add(key)
            uniq.append({'kind': 'loop', 'loop': j})
    return uniq


def gen_cases(rng, tier, ctx):
    g = G(rng)
    cases = []
    n_prog, n_loop = (580, 200) if tier == 'quick' else (3000, 1000)     # thorough trimmed in round 5 (<= ~25 min)
    for i in range(n_prog):
        cases.append(g.prog_case(rng.choice([1, 2, 2, 3, 3, 4] if tier == 'quick' else [1, 2, 2, 3, 3, 4, 4, 5])))
    for i in range(n_loop):
        cases.append(g.loop_case(rng.choice([1, 2, 3])))
    # round 2 kinds
    n_trace, n_merge, n_rw, n_flat, n_vol = (160, 120, 110, 60, 70) if tier == 'quick' else (600, 500, 500, 250, 350)
    for i in range(n_trace):
        c = g.prog_case(rng.choice([1, 2, 2, 3, 3] if tier == 'quick' else [1, 2, 3, 3, 4]))
        c['kind'] = 'trace'
        cases.append(c)
    for i in range(n_merge):
        cases.append(X.gen_merge(rng, PARAMS, NMEAS, e_c, TIMES))
    for i in range(n_rw):
        c = X.gen_rw(rng, g)
        cases.append(dict(c, side='corr'))
        cases.append(dict(c, side='spec'))
    for i in range(n_flat):
        c = X.gen_flat(rng, g)
        if c['op'][0] == 'flatten':
            cases.append(dict(c, side='corr'))
            cases.append(dict(c, side='spec'))
            cases.append(dict(c, side='model'))     # against the Coq model of flatten_and_balance itself
        else:
            cases.append(c)
    k = 0
    while k < n_vol:
        c = g.prog_case(rng.choice([2, 2, 3, 3, 4]))
        if 'rep' not in kinds(c['pt']) or not X.vol_ok_tree(c['pt'], children):
            continue
        c['kind'] = 'vol'
        if rng.random() < 0.5:
            # something with a window behind (and a declaration around) the volatile part: the interesting positions
            chs = sorted({ch for a in _atoms(c['pt']) for ch in a['chs']})
            tail = {'k': 'atom', 'cls': 'const', 'dur': e_c(rng.choice(DURS)), 'chs': chs,
                    'ms': [['m%d' % rng.randrange(NMEAS), e_c(rng.choice(TIMES)), e_c(rng.choice(TIMES))]]}
            c['pt'] = {'k': 'seq', 'ms': g.decls([]), 'subs': [c['pt'], tail]}
            if rng.random() < 0.3:
                c['pt'] = {'k': 'rev', 'body': c['pt']}
            if c['mm'] is not None:
                for n in meas_names(c['pt']):
                    if n is not None:
                        c['mm'].setdefault(n, n)
        c['vol'] = sorted({'n0', 'n1'} & free_params(c['pt']))
        if not c['vol']:
            continue
        zero_ok = rng.random() < 0.3
        c['env']['n0'] = str(rng.choice([1, 2, 3] + ([0] if zero_ok else [])))
        c['env']['n1'] = str(rng.choice([1, 2, 3] + ([0] if zero_ok else [])))
        c['env2'] = dict(c['env'], n0=str(rng.choice([1, 2, 3, 4] + ([0, 0] if zero_ok else []))),
                         n1=str(rng.choice([1, 2, 4, 6] + ([0, 0] if zero_ok else []))))
        # volatile counts at least 1 under both assignments, except in the zero family (round 3): a repetition that is
        # absent at build time (count 0) or is switched off later (negative counts never)
        counts = X.rep_counts(c['pt'], children)
        envs = [{p: F(v) for p, v in e.items()} for e in (c['env'], c['env2'])]
        vals = [e_eval(ce, en) for ce in counts if e_vars(ce) & set(c['vol']) for en in envs]
        if any(v < 0 or v.denominator != 1 for v in vals) or (not zero_ok and any(v < 1 for v in vals)):
            continue
        c['zero'] = any(v == 0 for v in vals)
        cases.append(dict(c, side='corr'))
        cases.append(dict(c, side='spec'))
        cases.append(dict(c, side='guard'))     # under the executable guard the windows MUST follow (no known finding)
        k += 1
    # round 3: aliasing / repeated calls / rebound loop index / coinciding and swapped names / a parameter called t
    C = sys.modules[__name__]
    n_share, n_rebind, n_rename, n_tparam = (80, 50, 50, 20) if tier == 'quick' else (400, 250, 250, 80)
    fam = ([R.gen_share(rng, g, C) for _ in range(n_share)] + [R.gen_rebind(rng, g, C) for _ in range(n_rebind)]
           + [R.gen_rename(rng, g, C) for _ in range(n_rename)] + [R.gen_tparam(rng, g, C) for _ in range(n_tparam)])
    cases.extend(fam)
    for c in fam[::6 if tier == 'quick' else 4]:       # the same, call by call on the instrumented builder
        cases.append(dict(c, kind='trace', twice=False))
    # round 4: coinciding window triples at every merge point; the same object under different contexts / after other calls
    gc = R4.make_gc(C, rng)
    n_coin, n_ctx, n_cloop, n_crw, n_cflat = (130, 80, 50, 30, 12) if tier == 'quick' else (600, 400, 250, 120, 50)
    fam4 = [R4.gen_coincide(rng, g, C, gc, k) for k in range(n_coin)] + [R4.gen_context(rng, g, C) for _ in range(n_ctx)]
    cases.extend(fam4)
    for c in fam4[::8 if tier == 'quick' else 4]:
        cases.append(dict(c, kind='trace', twice=False))
    for _ in range(n_cloop):
        cases.append(gc.loop_case(rng.choice([1, 2, 2, 3])))
    for _ in range(n_crw):
        c = X.gen_rw(rng, gc)
        cases.append(dict(c, side='corr'))
        cases.append(dict(c, side='spec'))
    for _ in range(n_cflat):
        c = X.gen_flat(rng, gc)
        if c['op'][0] == 'flatten':
            cases.append(dict(c, side='corr'))
            cases.append(dict(c, side='spec'))
            cases.append(dict(c, side='model'))
        else:
            cases.append(c)
    cases.extend(R4.gen_awrap(rng, g, C) for _ in range(60 if tier == 'quick' else 300))
    for _ in range(40 if tier == 'quick' else 250):
        cases.append(R4.gen_loop_edit(rng, g if rng.random() < 0.5 else gc))
    cases.extend(R4.enum_loop_empty())
    # round 6: plotting.render(...)[2] with the default and explicit time slices, judged in Coq
    cases.extend(R6.gen_render(rng, g if rng.random() < 0.7 else gc, C) for _ in range(200 if tier == 'quick' else 900))
    cases.extend(R6.enum_render(C))
    enum4 = R4.enum_coincide(C) + R4.enum_context(C) + R4.enum_loop_coincide() + R4.enum_awrap(C)
    if tier != 'thorough':
        rng.shuffle(enum4)
        enum4 = enum4[:110]
    cases.extend(enum4)
    progs = [c for c in cases if c['kind'] == 'prog' and 'pre' not in c]
    for _ in range(120 if tier == 'quick' else 600):
        c = dict(rng.choice(progs))
        declared = sorted(free_params(c['pt']) & set(c['env']))
        pool = declared if declared and rng.random() < 0.6 else sorted(c['env'])
        c['drop_params'] = sorted(set(rng.sample(pool, min(len(pool), rng.choice([1, 1, 2])))))
        c['family'] = 'missing'
        c['twice'] = False
        cases.append(c)
    enum3 = R.enum_alias(C) + R.enum_rebind(C) + R.enum_rename(C)
    if tier != 'thorough':
        rng.shuffle(enum3)
        enum3 = enum3[:140]
    cases.extend(enum3)
    rws = X.enum_rw()
    if tier != 'thorough':
        rng.shuffle(rws)
        rws = rws[:60]
    for c in rws:
        cases.append(dict(c, side='corr'))
        cases.append(dict(c, side='spec'))
    ems = X.enum_merge(e_c)
    if tier != 'thorough':
        rng.shuffle(ems)
        ems = ems[:40]
    cases.extend(ems)
    if tier == 'thorough':
        cases.extend(_enum_small())
        cases.extend(_enum_loops())
        for c in _enum_small():          # the same exhaustive shapes, call by call on the instrumented builder
            cases.append(dict(c, kind='trace'))
    else:
        small = _enum_small()
        rng.shuffle(small)
        cases.extend(small[:150])
        loops = _enum_loops()
        rng.shuffle(loops)
        cases.extend(loops[:100])
    return cases


# ---------------------------------------------------------------------------------------------------------------------
# running the implementation

def _num(s):
    f = F(s)
    return int(f) if f.denominator == 1 else float(f)


def build_pt(t, singles, share=False):
    """construct the qupulse pulse template of a JSON tree; identifiers of 'single' members are collected in singles.
    share=True: structurally equal subtrees become THE SAME template object (aliasing inside one tree)"""
    memo = {} if share else None
    from qupulse.pulses import (ConstantPT, TablePT, PointPT, FunctionPT, AtomicMultiChannelPT, SequencePT, RepetitionPT,
                                ForLoopPT, MappingPT, ParallelChannelPT)
    from qupulse.pulses.time_reversal_pulse_template import TimeReversalPulseTemplate
    from qupulse.pulses.arithmetic_pulse_template import ArithmeticAtomicPulseTemplate, ArithmeticPulseTemplate

    def ms_of(t):
        return [(n, e_str(b), e_str(l)) for n, b, l in t['ms']]

    def go(t, ident=None):
        if memo is None:
            return go1(t, ident)
        key = (json.dumps(t, sort_keys=True), ident)
        if key not in memo:
            memo[key] = go1(t, ident)
        return memo[key]

    def go1(t, ident=None):
        k = t['k']
        kw = {'identifier': ident} if ident else {}
        if k == 'atom':
            d = e_str(t['dur'])
            chs = t['chs']
            if t['cls'] == 'const':
                return ConstantPT(d, {c: 1.0 + i for i, c in enumerate(chs)}, measurements=ms_of(t), **kw)
            if t['cls'] == 'table':
                return TablePT({c: [(0, 1.0), (d, 2.0, 'linear' if i == 0 else 'hold')] for i, c in enumerate(chs)},
                               measurements=ms_of(t), **kw)
            if t['cls'] == 'point':
                return PointPT([(0, 1.0), (d, 2.0)], chs, measurements=ms_of(t), **kw)
            return FunctionPT('1 + t', d, chs[0], measurements=ms_of(t), **kw)
        if k == 'multi':
            subs = [go(c) for c in t['subs']]
            if t.get('via') == 'wpa' and len(subs) >= 2 and not kw:
                # the other construction path: first part (with the composite's declarations) .with_parallel_atomic(rest)
                first = AtomicMultiChannelPT(subs[0], measurements=ms_of(t)) if t['ms'] or t.get('wrap1') else subs[0]
                if hasattr(first, 'with_parallel_atomic'):      # AtomicPulseTemplate only (not MappingPT / wrappers)
                    return first.with_parallel_atomic(*subs[1:])
            return AtomicMultiChannelPT(*subs, measurements=ms_of(t), **kw)
        if k == 'arith':
            return ArithmeticAtomicPulseTemplate(go(t['l']), t['op'], go(t['r']), measurements=ms_of(t), **kw)
        if k == 'seq':
            return SequencePT(*[go(c) for c in t['subs']], measurements=ms_of(t), **kw)
        if k == 'rep':
            return RepetitionPT(go(t['body']), e_str(t['count']), measurements=ms_of(t), **kw)
        if k == 'for':
            return ForLoopPT(go(t['body']), t['idx'], (e_str(t['start']), e_str(t['stop']), e_str(t['step'])),
                             measurements=ms_of(t), **kw)
        if k == 'map':
            cs = ['%s %s %s' % (e_str(a), '<' if st else '<=', e_str(b)) for st, a, b in t.get('cs', [])]
            return MappingPT(go(t['body']), parameter_mapping={p: e_str(e) for p, e in t['pm'].items()},
                             measurement_mapping=dict(t['mm']), allow_partial_parameter_mapping=True,
                             parameter_constraints=cs or None, **kw)
        if k == 'rev':
            return TimeReversalPulseTemplate(go(t['body']), **kw)
        if k == 'single':
            ident = 'sw%d' % len(singles)
            singles.append(ident)
            return go1(t['body'], ident)
        if k == 'pass':
            inner = go(t['body'])
            if t['how'] == 'par':
                return ParallelChannelPT(inner, {'A': 0.5}, **kw)
            if t['how'] == 'rmul':      # scalar on the left: the other operand slot of ArithmeticPulseTemplate
                return ArithmeticPulseTemplate(2, '*', inner, **kw)
            return ArithmeticPulseTemplate(inner, '*', 2, **kw)
        raise ValueError(k)
    return go(t)


def _windows(prog, drop=False):
    out = []
    for name, (begins, lengths) in (prog.get_measurement_windows(drop=True) if drop else prog.get_measurement_windows()).items():
        for b, l in zip(begins, lengths):
            out.append([name, vlib.frac_json(vlib.to_fraction(b)), vlib.frac_json(vlib.to_fraction(l))])
    out.sort(key=lambda w: (str(w[0]), F(w[1]), F(w[2])))
    return out


def build_loop(j):
    from qupulse.program.loop import Loop
    from qupulse.program.waveforms import ConstantWaveform
    from qupulse.utils.types import TimeType
    wf = None
    if j['wf'] is not None:
        f = F(j['wf'])
        wf = ConstantWaveform.from_mapping(TimeType.from_fraction(f.numerator, f.denominator), {'A': 1.0})
    ms = [(n, _num(b), _num(l)) for n, b, l in j['ms']] or None
    return Loop(children=[build_loop(c) for c in j['ch']], waveform=wf, measurements=ms, repetition_count=j['rep'])


def _has_empty(j):
    return (not j['ch'] and j['wf'] is None) or any(_has_empty(c) for c in j['ch'])


def run_impl(case):
    from qupulse.pulses.repetition_pulse_template import ParameterNotIntegerException
    try:
        with warnings.catch_warnings():
            warnings.simplefilter('ignore')
            with vlib.time_limit(20):
                if case['kind'] == 'render':
                    return R6.run_render(case, sys.modules[__name__])
                if case['kind'] == 'trace':
                    return X.run_trace(case, build_pt, _num)
                if case['kind'] == 'merge':
                    return X.run_merge(case, e_str, _num)
                if case['kind'] == 'rw':
                    return X.run_rw(case, build_loop, _windows)
                if case['kind'] == 'flat':
                    return X.run_flat(case, build_loop, _windows)
                if case['kind'] == 'vol':
                    return X.run_vol(case, build_pt, _num, _windows)
                if case['kind'] == 'loop':
                    if 'base' in case:
                        # round 4: the loop is built as `base`, queried (durations get cached along the parent chain), then
                        # edited by append_child at inner nodes; case['loop'] is the tree after the edits
                        loop = build_loop(case['base'])
                        _windows(loop), loop.duration
                        for j, (path, child) in enumerate(case['edits']):
                            node = loop
                            for i in path:
                                node = node[i]
                            if j % 2:
                                node.append_child(loop=build_loop(child))
                            else:
                                c = build_loop(child)
                                node.append_child(waveform=c._waveform, measurements=c._measurements,
                                                  repetition_count=c.repetition_count, children=list(c))
                            _windows(loop), loop.duration
                    else:
                        loop = build_loop(case['loop'])
                    obs = {'dur': vlib.frac_json(loop.duration), 'ws': _windows(loop), 'wrev': None, 'wclean': None}
                    obs['ws_again'] = _windows(loop)        # the query must not change what it reports
                    if not _has_empty(case['loop']):
                        r = build_loop(case['loop'])
                        r.reverse_inplace()
                        obs['wrev'] = _windows(r)
                        r.reverse_inplace()                 # reversing twice gives the original windows back
                        obs['wrev2'] = _windows(r)
                    c = build_loop(case['loop'])
                    c.cleanup()
                    obs['wclean'] = _windows(c)
                    obs['durclean'] = vlib.frac_json(c.duration)
                    obs['wsd'] = _windows(loop, drop=True)      # drop=True reports the same windows and leaves none behind
                    obs['wsd_after'] = _windows(loop)
                    return obs
                singles = []
                pt = build_pt(case['pt'], singles, case.get('share', False))
                env = {k: _num(v) for k, v in case['env'].items()}
                for k in case.get('drop_params', []):       # missing-parameter cases
                    env.pop(k, None)
                mm = case['mm']
                if mm is not None:
                    mm = dict(mm)
                    if None in pt.measurement_names:
                        mm[None] = None
                pnames = sorted(str(x) for x in pt.parameter_names) if 'drop_params' in case else None
                first = None
                R4.pre_calls(pt, case, env, mm, singles, _num)     # earlier calls with other arguments (round 4)
                if case.get('twice'):
                    # create_program twice on the same template object: the SECOND program is the observation
                    try:
                        p1 = pt.create_program(parameters=dict(env), measurement_mapping=None if mm is None else dict(mm),
                                               to_single_waveform=set(singles))
                        first = ['none'] if p1 is None else [vlib.frac_json(p1.duration), _windows(p1)]
                    except vlib.Timeout:
                        raise
                    except Exception as e:
                        first = ['rejected', type(e).__name__]
                try:
                    prog = pt.create_program(parameters=env, measurement_mapping=mm, to_single_waveform=set(singles))
                except vlib.Timeout:
                    raise
                except Exception as e:      # any refusal; whether refusing is legitimate is decided by check_spec
                    return {'rejected': type(e).__name__, 'first': first, 'pnames': pnames}
                if prog is None:
                    return {'none': True, 'first': first, 'pnames': pnames}
                obs = {'dur': vlib.frac_json(prog.duration), 'ws': _windows(prog), 'first': first, 'pnames': pnames}
                obs['ws_again'] = _windows(prog)
                # second observation point of the property: plotting.render(..., render_measurements=True)[2]
                from qupulse.plotting import _render_loop
                try:
                    rendered = _render_loop(prog, render_measurements=True)[1]
                except ValueError as e:
                    # _render_loop first turns the program into ONE waveform; that fails for programs whose leaves
                    # define different channel sets (generated atomic composites over a channel subset).  Waveform
                    # construction is not this property's business: this observation path is skipped for the case.
                    rendered = None
                    obs['wsr_skipped'] = str(e)[:80]
                if rendered is not None:
                    rm = [[n, vlib.frac_json(vlib.to_fraction(b)), vlib.frac_json(vlib.to_fraction(l))]
                          for n, b, l in rendered]
                    obs['wsr'] = sorted(rm, key=lambda w: (str(w[0]), F(w[1]), F(w[2])))
                # ... and through the public entry point (needs a sample rate the duration is a multiple of)
                from qupulse.plotting import render
                if prog.duration > 0 and (prog.duration * 16).denominator == 1 and prog.duration <= 64:
                    try:
                        pub = render(prog, sample_rate=16, render_measurements=True)[2]
                    except Exception as e:     # sampling problems are not this property's business
                        pub = None
                    if pub is not None:
                        obs['wsp'] = sorted([[n, vlib.frac_json(vlib.to_fraction(b)), vlib.frac_json(vlib.to_fraction(l))]
                                             for n, b, l in pub], key=lambda w: (str(w[0]), F(w[1]), F(w[2])))
                prog.cleanup()
                obs['wsc'] = _windows(prog)
                obs['durc'] = vlib.frac_json(prog.duration)
                obs['wsd_ref'] = obs['wsc']
                obs['wsd'] = _windows(prog, drop=True)
                obs['wsd_after'] = _windows(prog)
                return obs
    except vlib.Timeout:
        return {'hang': True}
    except Exception as e:     # noqa
        return {'crash': '%s: %s' % (type(e).__name__, str(e)[:200])}


# ---------------------------------------------------------------------------------------------------------------------
# Gallina printers

def g_q(s):
    f = F(s)
    return '(q %s %d)' % (vlib.gZ(f.numerator), f.denominator)


def g_decls(ms):
    return vlib.glist(lambda m: '(%s, %s, %s)' % (vlib.gN(meas_id(m[0])), e_coq(m[1]), e_coq(m[2])), ms)


def g_pt(t):
    k = t['k']
    if k == 'atom':
        return '(Atom %s %s %s)' % (vlib.gbool(t['cls'] == 'func'), e_coq(t['dur']), g_decls(t['ms']))
    if k == 'multi':
        return '(Multi %s %s)' % (g_decls(t['ms']), vlib.glist(g_pt, t['subs']))
    if k == 'arith':
        return '(Arith %s %s %s)' % (g_decls(t['ms']), g_pt(t['l']), g_pt(t['r']))
    if k == 'seq':
        return '(Seq %s %s)' % (g_decls(t['ms']), vlib.glist(g_pt, t['subs']))
    if k == 'rep':
        return '(Rep %s %s %s)' % (g_decls(t['ms']), e_coq(t['count']), g_pt(t['body']))
    if k == 'for':
        return '(For %s %s %s %s %s %s)' % (g_decls(t['ms']), vlib.gN(par_id(t['idx'])), e_coq(t['start']),
                                            e_coq(t['stop']), e_coq(t['step']), g_pt(t['body']))
    if k == 'map':
        pm = vlib.glist(lambda kv: '(%s, %s)' % (vlib.gN(par_id(kv[0])), e_coq(kv[1])), sorted(t['pm'].items()))
        mm = vlib.glist(lambda kv: '(%s, %s)' % (vlib.gN(meas_id(kv[0])),
                                                 'None' if kv[1] is None else '(Some %s)' % vlib.gN(meas_id(kv[1]))),
                        sorted(t['mm'].items()))
        cs = vlib.glist(lambda c: '(%s, %s, %s)' % (vlib.gbool(c[0]), e_coq(c[1]), e_coq(c[2])), t.get('cs', []))
        return '(Map %s %s %s %s)' % (pm, mm, cs, g_pt(t['body']))
    return '(%s %s)' % ({'rev': 'Rev', 'single': 'Single', 'pass': 'Pass'}[k], g_pt(t['body']))


def g_windows(ws):
    return vlib.glist(lambda w: '(%s, %s, %s)' % (vlib.gN(meas_id(w[0])), g_q(w[1]), g_q(w[2])), ws)


def g_loop(j):
    return '(Loop %s %s %s %s)' % (vlib.gnat(j['rep']), 'None' if j['wf'] is None else '(Some %s)' % g_q(j['wf']),
                                   g_windows(j['ms']), vlib.glist(g_loop, j['ch']))


ECLASS = {'ParameterConstraintViolation': 'EConstraint', 'ParameterNotIntegerException': 'ENotInt',
          'ValueError': 'EValue'}


def g_env(env):
    return vlib.glist(lambda kv: '(%s, %s)' % (vlib.gN(par_id(kv[0])), g_q(kv[1])), sorted(env.items()))


def g_mm(mm):
    if mm is None:
        return '[]'
    return vlib.glist(lambda kv: '(%s, %s)' % (vlib.gN(meas_id(kv[0])),
                                               'None' if kv[1] is None else '(Some %s)' % vlib.gN(meas_id(kv[1]))),
                      sorted(mm.items()))


def g_ev(e):
    k = e[0]
    if k == 'measure':
        return '(EMeasure %s)' % g_windows(e[1])
    if k == 'play':
        return '(EPlay %s)' % g_q(e[1])
    if k == 'seq_enter':
        return '(ESeqEnter %s)' % g_windows(e[1])
    if k == 'rep_enter':
        return '(ERepEnter %s %s)' % (vlib.gnat(e[1]), g_windows(e[2]))
    return {'seq_exit': 'ESeqExit', 'rep_exit': 'ERepExit', 'rev_enter': 'ERevEnter', 'rev_exit': 'ERevExit',
            'sub_enter': 'ESubEnter', 'sub_exit': 'ESubExit'}[k]


def g_frame(f):
    if f[0] == 'g':
        return '(OGuard %s)' % g_windows(f[1])
    return '(OLoop %s %s %s %s)' % (vlib.gnat(f[1]), g_windows(f[2]), vlib.gnat(f[3]), g_q(f[4]))


def to_coq(case, obs):
    if 'crash' in obs or 'hang' in obs:
        return 'CCrash'
    kind = case['kind']
    if kind == 'render':
        return R6.to_coq(case, obs, sys.modules[__name__])
    if kind == 'merge':
        pm = lambda d: vlib.glist(lambda kv: '(%s, %s)' % (vlib.gN(par_id(kv[0])), e_coq(kv[1])), sorted(d.items()))
        cs = vlib.glist(lambda c: '(%s, %s, %s)' % (vlib.gbool(c[0]), e_coq(c[1]), e_coq(c[2])), case['cs1'])
        mmobs = vlib.glist(lambda kv: '(%s, %s)' % (vlib.gN(meas_id(kv[0])),
                                                    'None' if kv[1] is None else '(Some %s)' % vlib.gN(meas_id(kv[1]))),
                           obs['mm'])
        pobs = vlib.glist(lambda kv: '(%s, %s)' % (vlib.gN(par_id(kv[0])), g_q(kv[1])), obs['vals'])
        return '(CMerge %s %s %s %s %s %s %s %s %s %s %s %s)' % (
            vlib.glist(lambda n: vlib.gN(meas_id(n)), case['names']), vlib.glist(lambda p: vlib.gN(par_id(p)), case['pars']),
            pm(case['pm1']), g_mm(case['mm1']), cs, vlib.gbool(case['ident']), pm(case['pm2']), g_mm(case['mm2']),
            g_env(case['env']), vlib.gbool(obs['merged']), mmobs, pobs)
    if kind == 'rw':
        a = obs['after']
        o = 'None' if a is None else '(Some (%s, %s))' % (g_q(a['dur']), g_windows(a['ws']))
        return '(CRw %s %s %s %s %s %s)' % (vlib.gbool(case.get('side') == 'spec'), X.g_rw(case['op']), g_loop(case['loop']), g_q(obs['dur0']),
                                         g_windows(obs['ws0']), o)
    if kind == 'flat' and case.get('side') == 'model':
        if obs.get('steps') is None or obs.get('after') is None:
            return 'CPyOnly'
        steps = vlib.glist(lambda st: '(%s, %s)' % (vlib.glist(vlib.gnat, st[0]), X.g_rw(st[1])), obs['steps'])
        return '(CFlatM %s %s %s %s %s)' % (g_loop(case['loop']), vlib.gZ(case['op'][1]), steps,
                                            g_q(obs['after']['dur']), g_windows(obs['after']['ws']))
    if kind == 'flat' and obs.get('steps') is not None and obs.get('after') is not None:
        steps = vlib.glist(lambda st: '(%s, %s)' % (vlib.glist(vlib.gnat, st[0]), X.g_rw(st[1])), obs['steps'])
        a = obs['after']
        return '(CFlat %s %s %s %s %s %s %s)' % (vlib.gbool(case.get('side') == 'spec'), g_loop(case['loop']), steps,
                                                  g_q(obs['dur0']), g_windows(obs['ws0']), g_q(a['dur']), g_windows(a['ws']))
    if kind == 'flat' or 'trace_unavailable' in obs:
        return 'CPyOnly'
    if kind == 'trace' and 'trace' in obs:
        tr = vlib.glist(lambda ev: '(%s, %s)' % (g_ev(ev[0]), vlib.glist(lambda b: vlib.glist(g_frame, b), ev[1])),
                        obs['trace'])
        return '(CTrace %s %s %s %s)' % (g_pt(case['pt']), g_env(case['env']), g_mm(case['mm']), tr)
    if kind == 'vol' and case.get('zero') and case.get('side') in ('spec', 'guard') and 'ws2' in obs and obs.get('ref') is None:
        # zero family only: the repetition was absent at build time (count 0), so its body was never evaluated; under the
        # new count the assignment itself is REJECTED by create_program (e.g. a negative window length inside the body):
        # not an accepted assignment, the property says nothing about it.  The model side is still judged.
        return 'CPyOnly'
    if kind == 'vol' and 'ws2' in obs and case.get('side') == 'guard' and ('tree1' not in obs or 'tree2' not in obs):
        return 'CCrash'     # the observation lacks the program shape the guard is evaluated on
    if kind == 'vol' and 'ws2' in obs and case.get('side') == 'guard':
        return '(CVolG %s %s %s %s %s %s %s)' % (g_pt(case['pt']), g_env(case['env']), g_env(case['env2']), g_mm(case['mm']),
                                                 g_loop(obs['tree1']), g_loop(obs['tree2']), g_windows(obs['ws2']))
    if kind == 'vol' and 'ws2' in obs:
        return '(CVol %s %s %s %s %s %s)' % (vlib.gbool(case.get('side') == 'spec'), g_pt(case['pt']), g_env(case['env']), g_env(case['env2']), g_mm(case['mm']),
                                          g_windows(obs['ws2']))
    if case['kind'] == 'loop':
        opt = lambda w: 'None' if w is None else '(Some %s)' % g_windows(w)
        return '(CLoop %s %s %s %s %s %s)' % (g_loop(case['loop']), g_q(obs['dur']), g_windows(obs['ws']),
                                              opt(obs['wrev']), opt(obs['wclean']), g_q(obs['durclean']))
    env = vlib.glist(lambda kv: '(%s, %s)' % (vlib.gN(par_id(kv[0])), g_q(kv[1])),
                     sorted(kv for kv in case['env'].items() if kv[0] not in case.get('drop_params', [])))
    if case['mm'] is None:
        mm = '[]'
    else:
        mm = vlib.glist(lambda kv: '(%s, %s)' % (vlib.gN(meas_id(kv[0])),
                                                 'None' if kv[1] is None else '(Some %s)' % vlib.gN(meas_id(kv[1]))),
                        sorted(case['mm'].items()))
    if 'rejected' in obs:
        o = '(ORejected %s)' % ECLASS.get(obs['rejected'], 'EOther')
    elif 'none' in obs:
        o = 'ONone'
    else:
        o = '(OProg %s %s %s %s)' % (g_q(obs['dur']), g_windows(obs['ws']), g_q(obs['durc']), g_windows(obs['wsc']))
    if 'drop_params' in case:
        rej = obs.get('rejected') == 'ParameterNotProvidedException'
        try:
            pn = vlib.glist(lambda x: vlib.gN(par_id(x)), obs.get('pnames') or [])
        except (AssertionError, ValueError):
            return 'CCrash'         # parameter_names reports a name that is no parameter of the generated tree
        return '(CMissing %s %s %s %s %s %s)' % (g_pt(case['pt']), env, mm, pn, vlib.gbool(rej),
                                                 'None' if rej else '(Some %s)' % o)
    return '(CProg %s %s %s %s)' % (g_pt(case['pt']), env, mm, o)


# ---------------------------------------------------------------------------------------------------------------------

def _loop_depth(j):
    return 1 + max([_loop_depth(c) for c in j['ch']] + [0])


def nontrivial(case, obs):
    kind = case['kind']
    if kind == 'trace':
        return len(obs.get('trace', [])) >= 6
    if kind == 'merge':
        return bool(case['mm1'] and case['mm2']) or bool(case['pm1'] and case['pm2'])
    if kind in ('rw', 'flat'):
        return obs.get('after') is not None and len(obs['ws0']) >= 2
    if kind == 'vol':
        return len(obs.get('ws2', [])) >= 2 and obs.get('ws1') != obs.get('ws2')
    if kind == 'render':
        return 'r' in obs and obs['r'][0] == 'ok' and len(obs['ws']) >= 2
    if 'ws' not in obs or len(obs['ws']) < 2:
        return False
    if case['kind'] == 'loop':
        return _loop_depth(case['loop']) >= 2
    ks = kinds(case['pt'])
    return sum(1 for k in ks if k in ('seq', 'rep', 'for', 'rev', 'single')) >= 2


def histogram_keys(case, obs):
    kind = case['kind']
    if kind == 'render':
        return R6.histogram_keys(case, obs)
    if kind in ('merge', 'rw', 'flat'):
        keys = [kind]
        if kind == 'merge':
            keys.append('merge:' + ('crash' if 'crash' in obs else 'merged' if obs.get('merged') else 'kept'))
        else:
            keys.append('%s:%s:%s' % (kind, case['op'][0], 'crash' if 'crash' in obs or 'hang' in obs else
                                      'refused' if obs.get('after') is None else
                                      'same' if sorted(map(tuple, obs['after']['ws'])) == sorted(map(tuple, obs['ws0']))
                                      else 'windows-differ'))
        return keys
    keys = [case['kind']] + (['family:' + case['family']] if case.get('family') else []) + ['obs:' + ('rejected:' + obs['rejected'] if 'rejected' in obs else
                                    'none' if obs.get('none') else
                                    'crash' if 'crash' in obs or 'hang' in obs else 'program')]
    if 'wsr_skipped' in obs:
        keys.append('render-path-skipped (leaves with different channel sets)')
    if 'trace_unavailable' in obs:
        keys.append('trace:UNAVAILABLE (builder internals differ from the instrumentation)')
    if kind == 'trace' and 'trace' in obs:
        keys.append('trace-len:%s' % ('0' if not obs['trace'] else '1-5' if len(obs['trace']) <= 5 else
                                      '6-20' if len(obs['trace']) <= 20 else '21+'))
        keys.append('trace-maxbuilders:%d' % max([len(e[1]) for e in obs['trace']] + [1]))
        keys.append('trace-maxstack:%d' % min(6, max([len(b) for e in obs['trace'] for b in e[1]] + [1])))
    if kind == 'vol' and case.get('side') == 'guard' and 'tree1' in obs and 'tree2' in obs:
        keys.append('volg:' + ('guard-holds-on-observed-program' if X.vwok_py(obs['tree1'], obs['tree2']) else 'guard-fails'))
    if kind == 'vol' and 'ws2' in obs:
        keys.append('vol:' + ('follows' if obs['ws2'] == obs.get('ref') else 'stale') + (':zero-count' if case.get('zero') else ''))
    if 'drop_params' in case:
        keys.append('missing:' + ('rejected' if obs.get('rejected') == 'ParameterNotProvidedException' else 'accepted'))
    if case['kind'] in ('prog', 'trace', 'vol'):
        ks = kinds(case['pt'])
        keys += ['node:' + k for k in sorted(set(ks))]
        keys.append('depth:%d' % min(depth(case['pt']), 8))
        if has_rev_over_rep(case['pt']):
            keys.append('rev_over_rep')
        if case.get('share'):
            keys.append('shared-objects')
        if case.get('twice'):
            keys.append('create_program-twice')
        if case.get('pre'):
            keys.append('earlier-calls-with-other-arguments')
        if case['mm'] is None:
            keys.append('mm:default')
        elif any(v is None for v in case['mm'].values()):
            keys.append('mm:drops')
    else:
        keys.append('loopdepth:%d' % _loop_depth(case['loop']))
    if 'ws' in obs and len({tuple(w) for w in obs['ws']}) < len(obs['ws']):
        keys.append('coinciding-windows')
    if 'ws' in obs:
        keys.append('windows:%s' % ('0' if not obs['ws'] else '1' if len(obs['ws']) == 1 else '2-5' if len(obs['ws']) <= 5
                                    else '6+'))
    return keys


def _name_len(ws):
    return sorted((w[0], F(w[2])) for w in ws)


def classify(case, obs):
    kind = case['kind']
    if case.get('side') in ('guard', 'model'):
        return None
    if kind in ('rw', 'vol') and case.get('side') != 'spec':
        return None
    if kind == 'flat' and case.get('side') == 'corr':
        return None
    if kind == 'rw' and obs.get('after') is not None and case['op'][0] in ('unroll', 'unroll_children'):
        # known: only own windows of the unrolled loop are missing, nothing else changed
        rest = list(map(tuple, obs['ws0']))
        for w in map(tuple, obs['after']['ws']):
            if w not in rest:
                return None
            rest.remove(w)
        # round 5: not "some windows with the right names" but EXACTLY the executions of the unrolled loop's own windows
        rest = sorted(((w[0], F(w[1]), F(w[2])) for w in rest), key=lambda w: (str(w[0]), w[1], w[2]))
        if rest and rest == X.expected_unroll_loss(case['loop'], case['op']) and F(obs['after']['dur']) == F(obs['dur0']):
            return 'rewrite-drops-own-measurements'
        return None
    if kind == 'flat':
        v = X.flat_verdict(case, obs)
        return 'rewrite-drops-own-measurements' if v and v[0] == 'known' else None
    if kind == 'vol' and 'ws2' in obs and obs.get('ref') is not None:
        # known: after the update every window is still reported once per (new) execution with its length, but windows
        # placed behind a volatile repetition keep the offset they were given at build time
        if obs['ws2'] != obs['ref'] and _name_len(obs['ws2']) == _name_len(obs['ref']) and obs.get('ws2r') in (None, obs['ws2']):
            return 'volatile-update-stale-offsets'
        # same finding, zero family: a repetition absent at build time stays absent, one switched to 0 leaves the
        # windows declared on the RepetitionPT behind (they live in the parent); nothing may be reported that is not
        # declared under either assignment (names)
        if case.get('zero') and obs['ws2'] != obs['ref'] and obs.get('ws2r') in (None, obs['ws2']) and \
                {w[0] for w in obs['ws2']} <= {w[0] for w in obs['ref']} | {w[0] for w in obs['ws1']}:
            return 'volatile-update-stale-offsets'
    return None


def py_spec(case, obs):
    """the observation points of the property report the same windows (the first one is judged in Coq)"""
    if case['kind'] == 'render':
        return R6.py_spec(case, obs)
    if obs.get('ws_again') is not None and obs['ws_again'] != obs['ws']:
        return 'get_measurement_windows() called twice on the unchanged program reports different windows'
    if 'wsd' in obs and obs['wsd'] != obs.get('wsd_ref', obs.get('ws')):
        return 'get_measurement_windows(drop=True) reports other windows than get_measurement_windows()'
    if obs.get('wsd_after'):
        return 'get_measurement_windows(drop=True) leaves windows behind'
    if obs.get('wsv_clean') is not None and obs['wsv_clean'] != obs.get('ws1'):
        return 'cleanup() of a program with volatile repetition counts changes the windows'
    if obs.get('wrev2') is not None and obs['wrev2'] != obs['ws']:
        return 'reverse_inplace() applied twice does not give the original windows back'
    if obs.get('first') is not None:
        second = (['rejected', obs['rejected']] if 'rejected' in obs else ['none'] if obs.get('none')
                  else [obs['dur'], obs['ws']])
        if obs['first'] != second:
            return 'create_program called twice on the same template object gives different programs'
    if 'wsr' in obs and obs['wsr'] != obs['ws']:
        return 'plotting._render_loop reports other measurement windows than Loop.get_measurement_windows()'
    if 'wsp' in obs and obs['wsp'] != obs['ws']:
        return 'plotting.render(..., render_measurements=True)[2] differs from Loop.get_measurement_windows()'
    if case['kind'] == 'vol' and case.get('side') == 'corr' and obs.get('ws2r') is not None and obs['ws2r'] != obs['ws2']:
        return 'after a volatile update plotting reports other windows than Loop.get_measurement_windows()'
    if case['kind'] == 'flat' and case.get('side') not in ('corr', 'model'):
        v = X.flat_verdict(case, obs)
        if v:
            return v[1]
    return None


def _spec_failures(cases, obss, workdir):
    terms = [to_coq(c, o) for c, o in zip(cases, obss)]
    res = vlib.run_coq_cases(workdir, CORR_IMPORTS, [CHECK_SPEC], terms, shard=SHARD)
    return res[CHECK_SPEC]


def shrink(case, obs, ctx):
    """greedy structural shrinking of a prog case on which check_spec fails (each round: all one-step reductions are
    run on the implementation and judged by the Coq specification in one coqc call)"""
    if case['kind'] != 'prog':
        return case, obs
    wd = os.path.join(ctx['workdir'], 'shrink')

    def variants(t):
        out = []
        for c in children(t):
            out.append(c)
        if t.get('ms'):
            for i in range(len(t['ms'])):
                out.append(dict(t, ms=t['ms'][:i] + t['ms'][i + 1:]))
        k = t['k']
        if k in ('seq', 'multi') and len(t['subs']) > 1:
            for i in range(len(t['subs'])):
                out.append(dict(t, subs=t['subs'][:i] + t['subs'][i + 1:]))
        if k in ('seq', 'multi'):
            for i, c in enumerate(t['subs']):
                for v in variants(c):
                    out.append(dict(t, subs=t['subs'][:i] + [v] + t['subs'][i + 1:]))
        elif k == 'arith':
            for v in variants(t['l']):
                out.append(dict(t, l=v))
            for v in variants(t['r']):
                out.append(dict(t, r=v))
        elif k != 'atom':
            for v in variants(t['body']):
                out.append(dict(t, body=v))
        return out

    def ok_tree(t):
        try:
            json.dumps(t)
            if t['k'] == 'for' and t['idx'] not in free_params(t['body']):
                return False
            if t['k'] == 'map' and (set(t['pm']) - free_params(t['body']) or
                                    set(t['mm']) - {n for n in meas_names(t['body']) if n is not None}):
                return False
            if t['k'] == 'single' and t['body']['k'] == 'single':
                return False
            if t['k'] == 'seq' and len({tuple(chs_of(c)) for c in t['subs']}) > 1:
                return False
            return all(ok_tree(c) for c in children(t))
        except Exception:
            return False

    def chs_of(t):
        if t['k'] == 'atom':
            return sorted(t['chs'])
        s = set()
        for c in children(t):
            s |= set(chs_of(c))
        return sorted(s)

    cur, cur_obs = case, obs
    for _ in range(12):
        cands = [dict(cur, pt=v, mm=None if cur['mm'] is None else
                      {k: x for k, x in cur['mm'].items() if k in meas_names(v)}) for v in variants(cur['pt']) if ok_tree(v)]
        cands = [c for c in cands if not any(x.startswith('i') for x in free_params(c['pt']))][:60]
        if not cands:
            break
        obss = [run_impl(c) for c in cands]
        keep = [(c, o) for c, o in zip(cands, obss) if 'crash' not in o and 'hang' not in o]
        if not keep:
            break
        bad = _spec_failures([c for c, _ in keep], [o for _, o in keep], wd)
        if not bad:
            break
        best = min(bad, key=lambda i: size(keep[i][0]['pt']) * 10 + len(json.dumps(keep[i][0]['pt'])) / 1000.0)
        cur, cur_obs = keep[best]
    return cur, cur_obs


def search_failing(ctx, broken):
    """the specification (denote / exec_windows, evaluated in Coq) against the implementation on a fresh stream"""
    import random
    rng = random.Random(ctx['seed'] * 7919 + 2)
    g = G(rng, malformed=0.0)
    cases = _enum_small()
    C = sys.modules[__name__]
    k = ctx['seed'] % 5
    cases += R4.enum_coincide(C)[k::5] + R4.enum_context(C)[k::5] + R4.enum_awrap(C)[k::5]     # round-4 classes
    gc = R4.make_gc(C, rng)
    for _ in range(300):
        cases.append(R4.gen_coincide(rng, g, C, gc))
    cases += R6.enum_render(C)
    for _ in range(200):
        cases.append(R6.gen_render(rng, g, C))
    for _ in range(1500):
        cases.append(g.prog_case(rng.choice([1, 2, 3])))
    for _ in range(500):
        cases.append(g.loop_case(rng.choice([1, 2, 3])))
    obss = [run_impl(c) for c in cases]
    bad = _spec_failures(cases, obss, os.path.join(ctx['workdir'], 'search'))
    if not bad:
        return None
    i = min(bad, key=lambda k: len(json.dumps(cases[k])))
    c, o = cases[i], obss[i]
    try:
        c, o = shrink(c, o, ctx)
    except Exception:
        pass
    return c, o, 'reported windows / duration differ from what the template tree denotes (check_spec)'


MANIFEST = {
    'level_text': 'Proof (Coq, unbounded in tree shape, counts, ranges, nesting, mappings): (1) for every template tree the '
                  'windows of the program built by the modelled LoopBuilder are a permutation of the windows the template '
                  'denotes (declaration x executions of its node, start + begin, renamed / dropped through the composed '
                  'mappings, mirrored per execution of a reversed part); program duration = template duration; every '
                  'assignment with nothing to object to (Spec.must_accept) of a template that plays DOES get such a '
                  'program (total form, round 5); '
                  'declarations inside their node give windows inside [0, duration]; reversal and cleanup of arbitrary '
                  'Loop trees mirror / preserve the windows.  (2) REFINEMENT: the LoopBuilder modelled as the stack '
                  'machine it is (frames, guards with pending windows, nested builders, enter / exit as separate steps) '
                  'run on the call sequence of any template from any reachable state ends in the concretisation of the '
                  'functional builder state; so (1) holds of the stack machine\'s program.  (3) the tree MappingPT\'s '
                  'constructor really builds (nested mappings merged) plays, lasts and denotes what the tree as written '
                  'does.  (4) unroll / unroll_children / encapsulate / split_one_child / _merge_single_child keep the '
                  'duration and windows-after ++ dropped = windows-before; "unroll keeps the windows" is refuted (known '
                  'finding) and proved under an executable guard; flatten_and_balance (modelled with windows, while loop '
                  '+ recursion) IS run_seq of the rewrites it logs (theorem), the side conditions of those rewrites hold '
                  'for every loop whose inner nodes carry no waveform, in particular every built program (theorem, '
                  'round 5), so it keeps the duration and only loses '
                  'own windows of unrolled loops.  (5) must_accept assignments are never rejected, every '
                  'model rejection names the class of a really violated condition; a window sticking out of its node is '
                  'accepted (witness).  (6) "windows follow a volatile count update" is refuted (known finding) and '
                  'proved at Loop level under the executable guard vwok (only last children change, stale cached '
                  'durations never used as step / offset); the guard cannot be dropped (witness).  (7) assignments '
                  'that agree on the declared parameters (= parameter_names, compared per case) give the same plays / '
                  'duration / windows / program.  (8) an atomic template (mapping / reversal / pass-through wrappers '
                  'included) contributes the same windows as a part of an atomic composite (get_measurement_windows) and '
                  'as a node of its own (_internal_create_program): the two code paths agree.  (9, round 6) the '
                  'measurement part of plotting.render (Render.render_meas: slice validation, strict overlap filter, '
                  'sample-count refusal) reports for every built program exactly the denoted windows (default slice; '
                  'total form: nothing refused when duration x rate >= 1) resp. exactly the denoted windows overlapping '
                  'an explicit slice; a covering slice [0, e] reports all windows of positive length (zero-length '
                  'windows at t = 0 / t = duration only with the default slice: witness).  (10, round 6) cleanup() '
                  'of ANY loop whose inner nodes carry no waveform - dead nodes with windows anywhere - keeps the '
                  'duration and reports exactly the windows of the tree without its dead non-root nodes.  All '
                  'models are tied to /repo by exact correspondence checks (programs, hand-built loops, step-by-step '
                  'builder traces, constructor merges, rewrites, volatile updates).  The theorems are about the Coq '
                  'models; what is established of /repo itself is the agreement of model, specification and '
                  'implementation on the generated cases (clause map: notes/C02.md).',
    'level_note': 'Trusted: Coq kernel, harness + builder instrumentation, sympy/numpy evaluation of expressions, waveform '
                  'construction of atoms (only "plays" + duration are used), the transcription of which calls each '
                  'template class makes (Stack.events; checked call by call against instrumented runs).  Tested only: '
                  'windows under make_compatible (Python-side oracle; not modelled in Coq), the template-level link of '
                  'the volatile guard (guard on the model programs + nothing reversed + counts >= 1 => windows = '
                  'denote under the new counts: CVolG cases), termination of flatten_and_balance (fuel); windows are a '
                  'multiset everywhere (coinciding triples kept) and nothing leaks between calls / occurrences of one object: '
                  'theorems of the model, tied to the code by the round-4 families; of the second '
                  'observation point plotting.render(...)[2] the measurement list is modelled (round 6), the waveform / '
                  'sampling part is not (cases whose program cannot be turned into one waveform, or whose slice ends '
                  'behind the waveform, are skipped and counted), the order of the returned list is checked in Python '
                  'only (sorted by begin); plotting.plot is not covered.  Not covered: times off the dyadic grid (decimal durations / begins: the '
                  'theorems are over Q, the generators are dyadic); '
                  'which missing parameter is reported; check / rejection kinds under absent parameters; the mirror axis of '
                  'a reversed atomic composite whose first part does not play (AtomicMultiChannelPT.duration, C04); '
                  'rewrites on loops with volatile counts.',
    'technique': 'Coq proofs by induction on the template tree (functional builder, refinement of the stack machine, '
                 'mapping merge, acceptance) and on Loop trees (reversal, cleanup, rewrites) + correspondence checks',
    'design_ref': 'DESIGN.md §5 C02, §4.5, §4.6, Appendix D3; notes/C02.md',
}
